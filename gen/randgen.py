"""Case builders shared by checks/C12.py and checks/C13.py (suite "rand", see harness/src/suites/rand.rs
and coq/theories/Suites/SRand.v).  case: (profile () op n args tape)"""
import math, struct
import vcheck
from vcheck import sx_str, sx_parse
from gen.stategen import state, S, Z, B, L, I, DEFAULT_CFG
from gen.pools import fbits

NAN, INF, NINF, NZERO = 0x7fc00000, 0x7f800000, 0xff800000, 0x80000000
MIN32, MAX32 = -2147483648, 2147483647

# not executed by the harness when they occur in a generated program (the program is still generated,
# validated and printed): side effects outside the PushState, and allocations sized by an operand
# (C15's business: the integers of a random program are uniform over all of i32)
EXEC_DENY = ["EXEC.CMD", "GRAPH.EDGE*HISTORY", "BOOLVECTOR.ONES", "BOOLVECTOR.ZEROS", "INTVECTOR.ONES", "INTVECTOR.ZEROS",
             "FLOATVECTOR.ONES", "FLOATVECTOR.ZEROS", "FLOATVECTOR.SINE", "BOOLVECTOR.RAND", "INTVECTOR.RAND", "FLOATVECTOR.RAND",
             "LIST.NEIGHBOR*IDS", "LIST.NEIGHBOR*BVALS", "LIST.NEIGHBOR*FVALS", "LIST.NEIGHBOR*IVALS"]


def project(r):
    """what lib/vcheck.py diffs against the model: the implementation's result with the draws blanked"""
    try:
        v = sx_parse(r)
    except Exception:
        return r
    if isinstance(v, list) and len(v) == 2 and v[0] == 0 and isinstance(v[1], list) and len(v[1]) == 2:
        return sx_str([0, [v[1][0], []]])
    return r


def tape(rng, n=48):
    out = []
    for _ in range(n):
        r = rng.random()
        out.append(rng.randrange(0, 8) if r < 0.4 else rng.randrange(-50, 200) if r < 0.7 else rng.randrange(-2**40, 2**40))
    return out


def case(prof, op, n, args, tp):
    return sx_str([prof, [], op, n, list(args), list(tp)])


def cfg(maxf=None, minf=None, maxi=10, mini=-10, pnew=0.001, maxpts=25):
    """the fields one generator does not read are varied too where the caller passes them: validity of the INTEGER interval must not
    matter to FLOAT.RAND, nor the FLOAT interval or the new-name probability to INTEGER.RAND"""
    c = list(DEFAULT_CFG)
    c[0] = fbits(1.0) if maxf is None else maxf
    c[1] = fbits(-1.0) if minf is None else minf
    c[2], c[3], c[7], c[8] = maxi, mini, fbits(pnew), maxpts
    return c


# tables 11 / 15 have the SIZE of tables 1 / 5 and other names (a cache keyed on the size would confuse them)
# 21: a name that is its own definition; 22: keys with blank edges / an empty key (legal HashMap keys; the API can make them)
BINDS = {0: [], 1: [("X", Z(1))], 11: [("Y", B(False))], 21: [("LOOP", [2, [ord(c) for c in "LOOP"]])],
         22: [(" padded", Z(1)), ("tail\t", Z(2)), ("in side", Z(3))],
         15: [("P1", Z(1)), ("P2", Z(2)), ("P3", L()), ("P4", B(True)), ("P5", Z(5))],
         5: [("X", Z(1)), ("alpha", B(True)), ("b-c", L(Z(1), I("INTEGER.+"))), ("Q9", L()), ("INTEGER.FOO", Z(7))]}


def full_names():
    """the instruction names of the implementation under test (InstructionSet::load().cache())"""
    r = vcheck.run_impl(["names (0)"])[0]
    return [n for n in sx_parse(r)[1]]


def f32(x):
    return struct.unpack("<f", struct.pack("<f", x))[0]


def nbits_py(size, sp):
    """python rendering of the documented rounding (only used to choose the number of draws)"""
    s = f32(sp)
    m = min(s, f32(1.0 - s))
    r = f32(math.floor(f32(100.0 * m) + 0.5))
    share = f32(r / 100.0)
    return int(f32(share * f32(float(size))))


def draws_for_reachability(size, nb, eps=1e-12):
    """N such that P(some of the `size` positions is never non-default in N independent draws) < eps when
    every draw sets nb distinct uniformly chosen positions: size * (1 - nb/size)^N < eps"""
    if nb <= 0 or size <= 0:
        return 0
    if nb >= size:
        return 1
    return int(math.ceil(math.log(size / eps) / -math.log(1.0 - nb / size))) + 1

"""Random Push programs (as items on the wire) over the instruction registry."""
import random
from gen.stategen import *
from gen.pools import rand_f32, rand_i32, fbits
from gen import stepgen


def rand_prog_item(rng, names, depth, size):
    """a program tree with roughly [size] points"""
    if size <= 1 or depth == 0:
        k = rng.random()
        if k < 0.55: return I(rng.choice(names))
        if k < 0.75: return Z(rng.choice([rng.randrange(-3, 6), rand_i32(rng)]))
        if k < 0.83: return F(rand_f32(rng))
        if k < 0.9: return B(rng.random() < 0.5)
        if k < 0.95: return N(stepgen.rand_name(rng))
        return stepgen.rand_atom(rng, names)
    parts, left = [], size - 1
    while left > 0:
        k = rng.randrange(1, left + 1) if rng.random() < 0.3 else 1
        parts.append(rand_prog_item(rng, names, depth - 1, k))
        left -= k
    return L(*parts)


def rand_program(rng, names, maxsize=40):
    n = rng.randrange(1, 4)
    return [rand_prog_item(rng, names, rng.randrange(1, 5), rng.randrange(1, maxsize)) for _ in range(n)]


DIVERGING = ["( EXEC.Y NOOP )", "( EXEC.Y ( 1 INTEGER.+ ) )", "( 0 EXEC.Y ( 1 INTEGER.+ INTEGER.DUP ) )",
             "( EXEC.Y ( TRUE BOOLEAN.DUP ) )", "( 1 EXEC.Y ( INTEGER.DUP INTEGER.DUP INTEGER.DUP ) )"]
# structure-doubling programs: memory doubles every few steps (C15 covers that envelope); only with small step limits
EXPLODING = ["( CODE.QUOTE ( 1 ) EXEC.Y ( CODE.DUP CODE.LIST ) )", "( A EXEC.Y ( NAME.DUP NAME.CAT ) )"]
TERMINATING = ["( 1 2 INTEGER.+ )", "( )", "", "( ( ( ) ) )", "( 5 INDEX.DEFINE EXEC.LOOP ( INDEX.CURRENT INTEGER.+ ) )",
               "( CODE.QUOTE ( INTEGER.POP 1 ) CODE.QUOTE ( CODE.DUP INTEGER.DUP 1 INTEGER.- CODE.DO INTEGER.* ) INTEGER.DUP 2 INTEGER.< CODE.IF )",
               "( 3 EXEC.DUP ( 1 INTEGER.+ ) )", "( 1 2 3 4 5 6 7 8 )", "( TRUE EXEC.IF ( 1 ) ( 2 ) )"]

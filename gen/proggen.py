"""Random Push programs (as items on the wire) over the instruction registry."""
import random
from gen.stategen import *
from gen.pools import rand_f32, rand_i32, fbits
from gen import stepgen


def rand_prog_item(rng, names, depth, size):
    """a program tree with roughly [size] points"""
    if size <= 1 or depth == 0:
        k = rng.random()
        if k < 0.55: return I(rng.choice(names))
        if k < 0.75: return Z(rng.choice([rng.randrange(-3, 6), rand_i32(rng)]))
        if k < 0.83: return F(rand_f32(rng))
        if k < 0.9: return B(rng.random() < 0.5)
        if k < 0.95: return N(stepgen.rand_name(rng))
        return stepgen.rand_atom(rng, names)
    parts, left = [], size - 1
    while left > 0:
        k = rng.randrange(1, left + 1) if rng.random() < 0.3 else 1
        parts.append(rand_prog_item(rng, names, depth - 1, k))
        left -= k
    return L(*parts)


def rand_program(rng, names, maxsize=40):
    n = rng.randrange(1, 4)
    return [rand_prog_item(rng, names, rng.randrange(1, 5), rng.randrange(1, maxsize)) for _ in range(n)]


def rand_family_program(rng, names, maxlen=25):
    """a flat program that stays inside ONE instruction family (OUTPUT.*, GRAPH.*, NAME.*, ...) with the literals its
    operands need in between: histories of one subsystem (flush then write, define then redefine, fill then overflow)"""
    fams = sorted(set(n.split(".")[0] for n in names if "." in n))
    fam = rng.choice(fams)
    own = [n for n in names if n.startswith(fam + ".")]
    if fam in ("INPUT", "OUTPUT"):
        own = [n for n in names if n.startswith("INPUT.") or n.startswith("OUTPUT.")]
    lits = [lambda: Z(rng.randrange(-2, 6)), lambda: Z(rng.randrange(-2, 6)), lambda: B(rng.random() < 0.5), lambda: F(fbits(rng.randrange(-4, 9) / 2.0)),
            lambda: IV([rng.randrange(0, 6) for _ in range(rng.randrange(0, 4))]), lambda: BV([rng.random() < 0.5 for _ in range(rng.randrange(0, 4))]),
            lambda: FV([fbits(float(rng.randrange(0, 4))) for _ in range(rng.randrange(0, 3))]), lambda: N(rng.choice(["A", "B", "X"])),
            lambda: L(Z(1), I(rng.choice(own)))]
    out = []
    for _ in range(rng.randrange(4, maxlen + 1)):
        out.append(I(rng.choice(own)) if rng.random() < 0.6 else rng.choice(lits)())
    return [L(*out)] if rng.random() < 0.5 else out


DIVERGING = ["( EXEC.Y NOOP )", "( EXEC.Y ( 1 INTEGER.+ ) )", "( 0 EXEC.Y ( 1 INTEGER.+ INTEGER.DUP ) )",
             "( EXEC.Y ( TRUE BOOLEAN.DUP ) )", "( 1 EXEC.Y ( INTEGER.DUP INTEGER.DUP INTEGER.DUP ) )"]
# structure-doubling programs: memory doubles every few steps (C15 covers that envelope); only with small step limits
EXPLODING = ["( CODE.QUOTE ( 1 ) EXEC.Y ( CODE.DUP CODE.LIST ) )", "( A EXEC.Y ( NAME.DUP NAME.CAT ) )"]
TERMINATING = ["( 1 2 INTEGER.+ )", "( )", "", "( ( ( ) ) )", "( 5 INDEX.DEFINE EXEC.LOOP ( INDEX.CURRENT INTEGER.+ ) )",
               "( CODE.QUOTE ( INTEGER.POP 1 ) CODE.QUOTE ( CODE.DUP INTEGER.DUP 1 INTEGER.- CODE.DO INTEGER.* ) INTEGER.DUP 2 INTEGER.< CODE.IF )",
               "( 3 EXEC.DUP ( 1 INTEGER.+ ) )", "( 1 2 3 4 5 6 7 8 )", "( TRUE EXEC.IF ( 1 ) ( 2 ) )"]

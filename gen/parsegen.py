"""Generators for the parser suites "parse" and "parse.prim" (C03, C11)."""
import random
from vcheck import sx_str
from gen.pools import rand_f32, rand_i32, F32, I32
from gen.stategen import L, I, N, B, Z, F, BV, IV, FV

WS = [0x09, 0x0A, 0x0B, 0x0C, 0x0D, 0x20, 0x85, 0xA0, 0x1680] + list(range(0x2000, 0x200B)) + [0x2028, 0x2029, 0x202F, 0x205F, 0x3000]
# look like separators but are not whitespace for Rust
NOT_WS = [0x1C, 0x1D, 0x1E, 0x1F, 0x200B, 0x200C, 0x2060, 0xFEFF, 0x180E, 0x00]

NUMBER_LIKE = ["000000000042", "-000000000007", "+00000000001", "0000000000000", "00000000002147483647", "000000000000.5", "CODE.FIRST", "CODE.REST", "+5", "-0", "1e5", ".5", "5.", "inf", "NaN", "Infinity", "2147483648", "0x10", "1_0", "-2147483648", "-2147483649",
               "2147483647", "+", "-", "+-1", "--1", "1+", "00012", "-007", "+0", "1.5e", "1e+", "e5", ".", "-.", "+.5", "5.e3", "1E-3",
               "nan", "-nan", "+inf", "-Infinity", "INF", "infinit", "1e400", "1e-400", "0.0005", "123.4565", "1,5", "١٢٣", "1٢",
               "99999999999999999999", "-99999999999999999999", "0.1e1", "1f", "1.0f32", "1i32", "٣", "1²", "1.", "0e0", "-0.0", "+0.0"]
VEC_GOOD = ["INT[1]", "INT[1,2,3]", "INT[-5,+7,0]", "INT[2147483647,-2147483648]", "BOOL[1,0]", "BOOL[true,false]", "BOOL[true,0]", "BOOL[1]",
            "FLOAT[1.5]", "FLOAT[1,2.5,-3e2]", "FLOAT[inf,-inf,nan]", "FLOAT[.5,5.]", "INT[1,2)", "INT[1,2x", "INT[1,23", "FLOAT[1.55", "BOOL[1,00"]
VEC_BAD = ["BOOL[01]", "BOOL[+1]", "BOOL[00]", "BOOL[001,1]", "BOOL[1,+0]", "BOOL[-0]", "BOOL[1.0]", "BOOL[0x1]", "INT[+1]", "INT[01,-02]", "INT[0x10]", "INT[1e2]", "INT[1_0]", "FLOAT[+1]", "FLOAT[01]", "FLOAT[1e2,1E-2]",
           "FLOAT[INF]", "FLOAT[NaN,Infinity]", "FLOAT[0x1p3]", "FLOAT[1_0]", "INT[", "FLOAT[", "BOOL[", "INT[]", "FLOAT[]", "BOOL[]", "INT[1,,2]", "INT[,1]", "INT[1,]", "INT[1,2", "INT[1.0]", "INT[2147483648]",
           "INT[a]", "INT[1, 2]", "BOOL[2]", "BOOL[TRUE]", "BOOL[true,FALSE]", "BOOL[1,", "FLOAT[x]", "FLOAT[1,,2]", "FLOAT[1.5", "FLOAT[NANu]",
           "INT[1,2é", "INT[1,2]é", "INT[é", "FLOAT[1€", "BOOL[1\U0001F600", "INT[é1]", "INT[1é,2]", "BOOL[あ]",
           "INT]", "int[1]", "INT [1]", "INTT[1]", "XINT[1]", "INT[[1]]", "INT[1]]", "INT[INT[1]]", "FLOAT[1.5]]", "BOOL[[", "INT[(]", "INT[)"]
NAMES = ["POINT.X", "MY.VAR", "A.B", "X.+", "INTEGER.FOO", "CODE.", ".DUP", "x[3]", "a[", "f(x)", "in_f", "1_000", "_7", "A", "B", "x1", "foo", "a.b", "NOTANINSTRUCTION", "true", "false", "True", "TRUE1", "(A", "A)", "()", "((", "[1,2]", "é", "éé",
         "\U0001F600", "INT", "FLOAT", "BOOL", "INTEGER.", "integer.+", "1a", "a1", "-", "+", "_", "​", "﻿", "a​b", "\u0000", "\u001f"]


def cps(s):
    return [ord(c) for c in s]


def case_parse(prof, text, pre=()):
    """text: str or list of code points"""
    t = cps(text) if isinstance(text, str) else list(text)
    return sx_str([prof, [], t, list(pre)])


def case_prim(prof, op, *args):
    return sx_str([prof, [], op] + list(args))


def rand_sep(rng, single=False):
    if single or rng.random() < 0.5:
        return [rng.choice(WS)]
    return [rng.choice(WS) for _ in range(rng.randrange(1, 4))]


def join_ws(rng, toks, mode):
    """mode 0: single blanks; 1: random whitespace runs, maybe leading / trailing"""
    out = []
    if mode and rng.random() < 0.4:
        out += rand_sep(rng)
    for i, t in enumerate(toks):
        if i:
            out += [0x20] if not mode else rand_sep(rng)
        out += cps(t)
    if mode and rng.random() < 0.4:
        out += rand_sep(rng)
    return out


def rand_scalar(rng):
    """a Unicode scalar value, concentrated at the UTF-8 length boundaries and around whitespace"""
    r = rng.random()
    if r < 0.3:
        return rng.randrange(0x21, 0x7F)
    if r < 0.45:
        return rng.choice(WS + NOT_WS)
    if r < 0.6:
        return rng.choice([0x7F, 0x80, 0x84, 0x86, 0x9F, 0xA1, 0x7FF, 0x800, 0xD7FF, 0xE000, 0xFFFF, 0x10000, 0x10FFFF, 0x1FFF, 0x200B, 0x2027, 0x202A, 0x2FFF, 0x3001])
    while True:
        c = rng.randrange(0, 0x110000)
        if not (0xD800 <= c < 0xE000):
            return c


def midpoint_tok(rng):
    """a decimal literal at, or a hair off, the midpoint of two adjacent f32 values (the exact decimal
    expansion of the tie, then one far digit up or down): where single and double rounding differ"""
    from fractions import Fraction
    import struct
    e = rng.randrange(-12, 40)
    bits = ((e + 127) << 23) | (rng.getrandbits(23) if rng.random() < 0.8 else rng.choice([0, 1, 0x7fffff, 0x7ffffe, 0x400000]))
    a = Fraction(struct.unpack("<f", struct.pack("<I", bits))[0])
    b = Fraction(struct.unpack("<f", struct.pack("<I", bits + 1))[0])
    m = (a + b) / 2
    ip, fp = divmod(m, 1)
    digs = ""
    while fp:
        fp *= 10
        d, fp = divmod(fp, 1)
        digs += str(int(d))
    ip = str(int(ip))
    k = rng.randrange(4)
    if k == 0:                               # the exact tie
        txt = ip + "." + (digs or "0")
    elif k == 1:                             # a hair above
        txt = ip + "." + digs + "0" * rng.randrange(0, 12) + "1"
    elif k == 2:                             # a hair below: decrement the last digit, pad with 9s
        whole = ip + digs
        n = int(whole) - 1
        w = str(n).rjust(len(whole), "0")
        txt = w[:len(ip)] + "." + w[len(ip):] + "9" * rng.randrange(1, 14)
    else:                                    # short of the tie by an f64-visible amount
        txt = ip + "." + digs[:rng.randrange(0, len(digs) + 1)] + str(rng.randrange(0, 10))
    return ("-" if rng.random() < 0.3 else "") + txt


def case_variant(rng, name):
    k = rng.randrange(4)
    if k == 0: return name.lower()
    if k == 1: return name.capitalize()
    if k == 2: return "".join(c.lower() if rng.random() < 0.5 else c for c in name)
    return name.title()


def rand_atom_tok(rng, instrs):
    k = rng.randrange(14)
    if k == 12: return midpoint_tok(rng)
    if k == 13: return case_variant(rng, rng.choice(instrs))
    if k == 0: return str(rng.choice([0, 1, -1, 7, rand_i32(rng)]))
    if k == 1: return rng.choice(NUMBER_LIKE)
    if k == 2: return rng.choice(["TRUE", "FALSE"])
    if k in (3, 4): return rng.choice(instrs)
    if k == 5: return rng.choice(NAMES)
    if k == 6: return rng.choice(VEC_GOOD)
    if k == 7: return rng.choice(VEC_BAD)
    if k == 8: return "%.*f" % (rng.randrange(0, 5), rng.uniform(-1000, 1000))
    if k == 9: return "".join(chr(rand_scalar(rng)) for _ in range(rng.randrange(1, 6))).translate({w: None for w in WS}) or "q"
    if k == 10: return rng.choice(["INT[", "FLOAT[", "BOOL["]) + ",".join(rng.choice(["1", "0", "true", "false", "2", "-3", "1.5", "", "x", "nan", "1e3", "+4"]) for _ in range(rng.randrange(0, 4))) + rng.choice(["]", "]", "]", "", ")", "é"])
    return rng.choice(NAMES + NUMBER_LIKE)


def rand_tok_tree(rng, instrs, depth, budget):
    """token list of a balanced forest with at most `budget` tokens and nesting <= depth"""
    toks = []
    while budget > 0:
        if depth > 0 and budget >= 2 and rng.random() < 0.3:
            inner = rand_tok_tree(rng, instrs, depth - 1, rng.randrange(0, budget - 1))
            toks += ["("] + inner + [")"]
            budget -= len(inner) + 2
        else:
            toks.append(rand_atom_tok(rng, instrs))
            budget -= 1
        if rng.random() < 0.15:
            break
    return toks


def rand_soup(rng, instrs, n):
    return [rng.choice(["(", ")", "(", ")", rand_atom_tok(rng, instrs)]) for _ in range(n)]


# ---- items (wire form) ----
PRINT_NAMES = ["CODE.FIRST", "CODE.REST", "EXEC.REST", "POINT.X", "MY.VAR", "X.+", "x[3]", "a[", "in_f", "_7x", "A", "B", "x1", "foo", "a.b", "NOTANINSTRUCTION", "true", "é", "\U0001F600", "INT", "[1,2]", "(A", "1a", "_"]
ODD_NAMES = ["5", "-3", "1.5", "TRUE", "FALSE", "(", ")", "INT[1]", "a b", "", " ", "inf", "nan", "1e5", "+", " ", "x　y", "INTEGER.+"]


def rand_print_atom(rng, instrs, floats, odd):
    k = rng.randrange(10)
    if k in (0, 1): return Z(rng.choice([0, 1, -1, rand_i32(rng)]))
    if k == 2: return B(rng.random() < 0.5)
    if k in (3, 4): return I(rng.choice(instrs))
    if k == 5:
        if rng.random() < 0.3:
            v = case_variant(rng, rng.choice(instrs))
            if v not in instrs:
                return N(v)
        return N(rng.choice(PRINT_NAMES))
    if k == 6 and floats: return F(rng.choice([rand_f32(rng), rng.choice(F32), 0x7fc00000, 0x7f800000, 0xff800000, 0x80000000]))
    if k == 7 and odd:
        j = rng.randrange(6)
        if j == 0: return N(rng.choice(ODD_NAMES))
        if j == 1: return IV([rand_i32(rng) for _ in range(rng.randrange(0, 3))])
        if j == 2: return BV([rng.random() < 0.5 for _ in range(rng.randrange(0, 3))])
        if j == 3: return FV([rand_f32(rng) for _ in range(rng.randrange(0, 3))])
        if j == 4: return I(rng.choice(ODD_NAMES + ["NOSUCH.INSTR"]))
        return [5, rng.randrange(0, 9), rng.randrange(0, 9)]
    if k == 8: return L()
    return Z(rng.randrange(-20, 21))


def rand_print_tree(rng, instrs, depth, budget, floats=False, odd=False):
    if budget <= 1 or depth == 0 or rng.random() < 0.3:
        return rand_print_atom(rng, instrs, floats, odd)
    kids, left = [], budget - 1
    while left > 0 and rng.random() < 0.85:
        c = rand_print_tree(rng, instrs, depth - 1, rng.randrange(1, left + 1), floats, odd)
        kids.append(c)
        left -= tsize(c)
    return L(*kids)


def tsize(t):
    return 1 + sum(tsize(c) for c in t[1:]) if t[0] == 0 else 1


def onto_state_cases(rng, names, some, n):
    """cases of suite parse.st: random token trees parsed onto random whole states, with host-added instruction names and,
    in 30%, a history (the same InstructionSet executed unknown instruction items spelled like names of the text)"""
    from gen import stepgen
    from gen.stategen import state as mk_state
    st_cases = []
    EXTRA = ["INTEGER.SQUARE", "HOST.PROBE", "SQ", "X", "tick", "7UP", "INF", "NAN", "inf", "42", "1e3", "-7", "TRUE", "1.5"]
    for k in range(n):
        st = stepgen.rand_state(rng, names, some, maxdepth=3)
        extra = rng.sample(EXTRA, rng.choice([0, 0, 1, 2, 3]))
        bound = [b[0] for b in st["bind"]]
        vocab = some + [rng.choice(names)] + extra + extra + bound + bound + ["X", "SQ", "INTEGER.SQUARE", "INF", "42", "TRUE", "1.5", "nan"]
        toks = rand_tok_tree(rng, vocab, rng.randrange(0, 4), rng.randrange(0, 25))
        toks = [t if rng.random() < 0.7 else rng.choice(vocab) for t in toks if t not in ("(", ")")] if rng.random() < 0.3 else toks
        text = join_ws(rng, toks, k % 3 != 0)
        case = [k % 2, [], list(text), mk_state(**st), [[ord(c) for c in e] for e in extra]]
        if rng.random() < 0.3:
            unknown = [t for t in set(toks) if t not in names and t not in extra and t not in ("(", ")") and t] or ["X"]
            case.append([I(rng.choice(unknown)) for _ in range(rng.randrange(1, 4))] + [Z(1)])
        st_cases.append(sx_str(case))
    return st_cases

"""Random whole states and single-instruction cases (the sweep used by C01/C04/C05/C09/C10 and by development)."""
import random
from gen.pools import F32, I32, rand_f32, rand_i32, fbits
from gen.stategen import *

NAMES_POOL = ["A", "B", "X1", "foo", "TRUE", "12", "NOOP", "é", "a b"]


def rand_name(rng):
    return rng.choice(NAMES_POOL)


def rand_atom(rng, names):
    k = rng.randrange(10)
    if k == 0: return Z(rand_i32(rng))
    if k == 1: return Z(rng.randrange(-3, 4))
    if k == 2: return F(rand_f32(rng))
    if k == 3: return B(rng.random() < 0.5)
    if k == 4: return N(rand_name(rng))
    if k == 5: return I(rng.choice(names))
    if k == 6: return IV([rand_i32(rng) for _ in range(rng.randrange(0, 4))])
    if k == 7: return BV([rng.random() < 0.5 for _ in range(rng.randrange(0, 4))])
    if k == 8: return FV([rand_f32(rng) for _ in range(rng.randrange(0, 3))])
    return Z(rng.randrange(0, 10))


def rand_item(rng, names, depth=3, maxlen=4):
    if depth == 0 or rng.random() < 0.55:
        return rand_atom(rng, names)
    return L(*[rand_item(rng, names, depth - 1, maxlen) for _ in range(rng.randrange(0, maxlen + 1))])


def rand_small_int(rng, depth_hint):
    """indices near stack boundaries + extremes"""
    r = rng.random()
    if r < 0.5: return rng.randrange(-2, depth_hint + 3)
    if r < 0.7: return rng.choice(I32)
    return rng.randrange(-10, 11)


def rand_vec_len(rng):
    return rng.choice([0, 0, 1, 1, 2, 3, 3, 4, 5])


def rand_state(rng, names, safe_names, maxdepth=4, exec_extra=True):
    d = lambda: rng.randrange(0, maxdepth + 1)
    st = dict(
        bool=[rng.random() < 0.5 for _ in range(d())],
        code=[rand_item(rng, safe_names) for _ in range(d())],
        exec=[rand_item(rng, safe_names, 2) for _ in range(d() if exec_extra else 0)],
        float=[rand_f32(rng) for _ in range(d())],
        index=[(rng.randrange(0, 4), rng.randrange(0, 5)) for _ in range(rng.randrange(0, 3))],
        int=[rand_small_int(rng, maxdepth) for _ in range(d())],
        name=[rand_name(rng) for _ in range(d())],
        bvec=[[rng.random() < 0.5 for _ in range(rand_vec_len(rng))] for _ in range(d())],
        fvec=[[rand_f32(rng) for _ in range(rand_vec_len(rng))] for _ in range(d())],
        ivec=[[rng.choice([rand_i32(rng), rng.randrange(0, 13)]) for _ in range(rand_vec_len(rng))] for _ in range(d())],
        input=[([rng.randrange(0, 5) for _ in range(rng.randrange(0, 3))], [rng.random() < 0.5 for _ in range(rng.randrange(0, 4))]) for _ in range(rng.randrange(0, 4))],
        output=[([rng.randrange(0, 5)], [rng.random() < 0.5 for _ in range(rng.randrange(0, 3))]) for _ in range(rng.randrange(0, 4))],
        bind=[(n, rand_item(rng, safe_names, 2)) for n in rng.sample(NAMES_POOL, rng.randrange(0, 3))],
        quote=rng.random() < 0.1, send=rng.random() < 0.1,
    )
    return st


# instructions that the single-step differential sweep must not run blindly
UNSAFE = {"EXEC.CMD"}                       # spawns a process (and sleeps 1 s) when it has its operands
RANDOM = {"BOOLEAN.RAND", "INTEGER.RAND", "FLOAT.RAND", "CODE.RAND", "NAME.RAND", "NAME.RANDBOUNDNAME",
          "BOOLVECTOR.RAND", "INTVECTOR.RAND", "FLOATVECTOR.RAND"}
ALLOCATING = {"BOOLVECTOR.ONES", "BOOLVECTOR.ZEROS", "INTVECTOR.ONES", "INTVECTOR.ZEROS", "FLOATVECTOR.ONES", "FLOATVECTOR.ZEROS",
              "FLOATVECTOR.SINE", "LIST.NEIGHBOR*IDS", "LIST.NEIGHBOR*BVALS", "LIST.NEIGHBOR*IVALS", "LIST.NEIGHBOR*FVALS"}


def tame_ints(st, limit=300):
    """keep operand-sized allocation inside the resource envelope (C15 covers the envelope itself)"""
    st["int"] = [z if -limit <= z <= limit else (z % (2 * limit)) - limit for z in st["int"]]
    st["float"] = [f if f not in (0x7f800000, 0xff800000, 0x7fc00000) else fbits(2.0) for f in st["float"]]
    return st


<<<<<<< HEAD
VEC_KEY = {"BOOLVECTOR": "bvec", "INTVECTOR": "ivec", "FLOATVECTOR": "fvec"}
# small pool with duplicates, both zeros, infinities and NaN: exercises sort stability and unordered comparisons
F32_SORT = [0x00000000, 0x80000000, fbits(1.0), fbits(1.0), fbits(-1.0), fbits(2.5), 0x7f800000, 0xff800000, 0x7fc00000, fbits(0.5)]


def rand_vec(rng, key, n):
    if key == "bvec": return [rng.random() < 0.5 for _ in range(n)]
    if key == "ivec":
        k = rng.randrange(3)
        if k == 0: return [rng.randrange(-3, 4) for _ in range(n)]
        if k == 1: return [rng.choice(I32) for _ in range(n)]
        return [rng.choice([rand_i32(rng), rng.randrange(0, 13)]) for _ in range(n)]
    k = rng.randrange(3)
    if k == 0: return [rng.choice(F32_SORT) for _ in range(n)]
    if k == 1: return [fbits(rng.randrange(-8, 9) / 2) for _ in range(n)]
    return [rand_f32(rng) for _ in range(n)]


def shape_vector_case(rng, name, st):
    """operand shaping for the vector families: two operand vectors of equal / unequal / zero length on top,
    the top INTEGER (offset, index, size) near the vector lengths or extreme; everything else stays random"""
    key = VEC_KEY[name.split(".")[0]]
    if rng.random() < 0.85:
        n2 = rand_vec_len(rng)
        n1 = n2 if rng.random() < 0.35 else rand_vec_len(rng)
        st[key] = [rand_vec(rng, key, n1), rand_vec(rng, key, n2)][rng.randrange(0, 8) == 0:] + st[key][:rng.randrange(0, 3)]
    lens = [len(v) for v in st[key][:2]] + [len(st[key])] or [0]
    if rng.random() < 0.85:
        m = max(lens)
        r = rng.random()
        z = rng.randrange(-m - 2, m + 3) if r < 0.75 else rng.choice([-2147483648, -2147483647, 2147483646, 2147483647]) if r < 0.9 else rand_i32(rng)
        if st["int"] and rng.random() < 0.9: st["int"][0] = z
        elif rng.random() < 0.8: st["int"].insert(0, z)
    return st


import os
SINE_NEGATIVE = os.environ.get("PUSHR_SINE_NEG", "1") == "1"    # negative FLOATVECTOR.SINE lengths (a hang on the code before fix C09-07)


def step_case(rng, name, names, safe_names, profile=None):
    st = rand_state(rng, names, safe_names)
    if name.split(".")[0] in VEC_KEY and "." in name:
        st = shape_vector_case(rng, name, st)
    if name == "FLOATVECTOR.SINE":
        st["int"] = [rng.randrange(-3 if SINE_NEGATIVE else 0, 13) for _ in st["int"]]
=======
def rand_id_vector(rng, maxlen=8):
    """stack ids 1..12 (repeats likely) with a sprinkling of ids that designate no stack"""
    def one():
        r = rng.random()
        if r < 0.80: return rng.randrange(1, 13)
        if r < 0.90: return rng.choice([0, -1, 13, 14, 100])
        return rand_i32(rng)
    return [one() for _ in range(rng.randrange(0, maxlen + 1))]


def rand_record(rng, names, depth=2):
    """a record as LIST.ADD builds it: a list of literals / names / code, now and then nested"""
    def field():
        k = rng.randrange(12)
        if k < 3: return Z(rng.choice([rng.randrange(-5, 6), rand_i32(rng)]))
        if k < 5: return B(rng.random() < 0.5)
        if k < 7: return F(rand_f32(rng))
        if k == 7: return rng.choice([IV([rng.randrange(0, 13) for _ in range(rng.randrange(0, 4))]),
                                      BV([rng.random() < 0.5 for _ in range(rng.randrange(0, 4))]),
                                      FV([rand_f32(rng) for _ in range(rng.randrange(0, 3))])])
        if k == 8: return N(rand_name(rng))
        if k == 9 and depth > 0: return rand_record(rng, names, depth - 1)
        if k == 10: return rand_atom(rng, names)
        return Z(rng.randrange(0, 10))
    return L(*[field() for _ in range(rng.randrange(0, 7))])


def shape_list_state(rng, st, names, safe_names):
    """operands that make LIST.* cases meaningful: an id vector on top of INTVECTOR, records on CODE,
    position / n on INTEGER near the boundaries of the CODE stack and of the record"""
    if rng.random() < 0.9:
        st["ivec"] = [rand_id_vector(rng)] + st["ivec"]
    st["code"] = [rand_record(rng, safe_names) if rng.random() < 0.8 else rand_item(rng, safe_names)
                  for _ in range(rng.randrange(0, 6))]
    depth = len(st["code"])
    pos = lambda: rng.choice([rng.randrange(-2, depth + 3), rng.randrange(-2, depth + 3), rng.choice(I32)])
    n = lambda: rng.choice([rng.randrange(-2, 8), rng.randrange(0, 4), rng.choice(I32)])
    r = rng.random()
    if r < 0.85: st["int"] = [n(), pos()] + st["int"]       # top: n (or the position for GET/SET/REMOVE)
    elif r < 0.95: st["int"] = [pos()]
    else: st["int"] = []
    if rng.random() < 0.3:                                    # some source stacks empty / short
        for k in rng.sample(["bool", "float", "name", "bvec", "fvec", "exec"], rng.randrange(1, 4)):
            st[k] = st[k][:rng.randrange(0, 2)]
    return st


def step_case(rng, name, names, safe_names, profile=None):
    st = rand_state(rng, names, safe_names)
    if name.startswith("LIST.") and name not in ALLOCATING and rng.random() < 0.85:
        st = shape_list_state(rng, st, names, safe_names)
>>>>>>> listio
    if name in ALLOCATING:
        st = tame_ints(st)
        st["float"] = [fbits(rng.choice([0.0, 0.5, 1.0, 1.5, 2.0, 3.0])) for _ in st["float"]]
    st["exec"] = [I(name)] + st["exec"]
    prof = rng.randrange(2) if profile is None else profile
    return case_run(prof, state(**st), 0, 1)

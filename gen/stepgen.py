"""Random whole states and single-instruction cases (the sweep used by C01/C04/C05/C09/C10 and by development)."""
import random
from gen.pools import F32, I32, rand_f32, rand_i32, fbits
from gen.stategen import *

NAMES_POOL = ["A", "B", "X1", "foo", "TRUE", "12", "NOOP", "é", "a b"]


def rand_name(rng):
    return rng.choice(NAMES_POOL)


def rand_atom(rng, names):
    k = rng.randrange(10)
    if k == 0: return Z(rand_i32(rng))
    if k == 1: return Z(rng.randrange(-3, 4))
    if k == 2: return F(rand_f32(rng))
    if k == 3: return B(rng.random() < 0.5)
    if k == 4: return N(rand_name(rng))
    if k == 5: return I(rng.choice(names))
    if k == 6: return IV([rand_i32(rng) for _ in range(rng.randrange(0, 4))])
    if k == 7: return BV([rng.random() < 0.5 for _ in range(rng.randrange(0, 4))])
    if k == 8: return FV([rand_f32(rng) for _ in range(rng.randrange(0, 3))])
    return Z(rng.randrange(0, 10))


def rand_item(rng, names, depth=3, maxlen=4):
    if depth == 0 or rng.random() < 0.55:
        return rand_atom(rng, names)
    return L(*[rand_item(rng, names, depth - 1, maxlen) for _ in range(rng.randrange(0, maxlen + 1))])


def rand_small_int(rng, depth_hint):
    """indices near stack boundaries + extremes"""
    r = rng.random()
    if r < 0.5: return rng.randrange(-2, depth_hint + 3)
    if r < 0.56:
        from gen.pools import THRESH
        t = rng.choice(THRESH)                          # a multiple of 2^8 / 2^16 plus a small in-range offset: what a wrapped cast would alias
        return rng.choice([t, t + rng.randrange(0, depth_hint + 1), -t])
    if r < 0.7: return rng.choice(I32)
    return rng.randrange(-10, 11)


def rand_vec_len(rng):
    return rng.choice([0, 0, 1, 1, 2, 3, 3, 4, 5])


def rand_state(rng, names, safe_names, maxdepth=4, exec_extra=True):
    d = lambda: rng.randrange(0, maxdepth + 1)
    st = dict(
        bool=[rng.random() < 0.5 for _ in range(d())],
        code=[rand_item(rng, safe_names) for _ in range(d())],
        exec=[rand_item(rng, safe_names, 2) for _ in range(d() if exec_extra else 0)],
        float=[rand_f32(rng) for _ in range(d())],
        index=[(rng.randrange(0, 4), rng.randrange(0, 5)) for _ in range(rng.randrange(0, 3))],
        int=[rand_small_int(rng, maxdepth) for _ in range(d())],
        name=[rand_name(rng) for _ in range(d())],
        bvec=[[rng.random() < 0.5 for _ in range(rand_vec_len(rng))] for _ in range(d())],
        fvec=[[rand_f32(rng) for _ in range(rand_vec_len(rng))] for _ in range(d())],
        ivec=[[rng.choice([rand_i32(rng), rng.randrange(0, 13)]) for _ in range(rand_vec_len(rng))] for _ in range(d())],
        input=[([rng.randrange(0, 5) for _ in range(rng.randrange(0, 3))], [rng.random() < 0.5 for _ in range(rng.randrange(0, 4))]) for _ in range(rng.randrange(0, 4))],
        output=[([rng.randrange(0, 5)], [rng.random() < 0.5 for _ in range(rng.randrange(0, 3))]) for _ in range(rng.randrange(0, 4))],
        bind=[(n, rand_item(rng, safe_names, 2)) for n in rng.sample(NAMES_POOL, rng.choice([0, 0, 1, 2, 2, 3]))],
        quote=rng.random() < 0.1, send=rng.random() < 0.1,
    )
    # in half of the states that have bindings the top NAME (if any) is a bound name: instructions that
    # look a name up (CODE.DEFINITION, the identifier step, redefinition by *.DEFINE) then really fire
    if st["bind"] and st["name"] and rng.random() < 0.5:
        st["name"] = [rng.choice(st["bind"])[0]] + st["name"][1:]
    return st


SCALES = [99, 100, 101, 255, 256, 257, 1023, 1024, 1025, 4095, 4096, 4097, 8193]


def scale_up(rng, st, names, family=None):
    """size thresholds: one component of the state is made LARGE (a deep stack, a long name incl. multi-byte
    characters, a code item of many points, a long vector) with a size at / around a power of two or a round
    number - where a cap, a buffer size or an algorithm switch would sit"""
    n = rng.choice(SCALES)
    k = rng.randrange(7)
    fam = family.split(".")[0] if family else ""
    if fam == "NAME" or family in ("CODE.FROMNAME", "CODE.PRINT"):
        k = rng.choice([1, 1, 1, 0])
    elif fam in ("CODE", "EXEC", "LIST"):
        k = rng.choice([2, 2, 3, 0, 6])
    elif fam in ("BOOLVECTOR", "INTVECTOR", "FLOATVECTOR"):
        k = rng.choice([4, 5, 0])
    elif fam in ("BOOLEAN", "INTEGER", "FLOAT", "INDEX"):
        k = 0
    if k == 0:
        own = {"BOOLEAN": "bool", "INTEGER": "int", "FLOAT": "float", "NAME": "name", "CODE": "code", "EXEC": "exec",
               "BOOLVECTOR": "bvec", "INTVECTOR": "ivec", "FLOATVECTOR": "fvec"}.get(fam)
        fld = own if own and rng.random() < 0.8 else rng.choice(["bool", "int", "float", "name", "code", "exec", "bvec", "ivec", "fvec"])
        fill = {"bool": lambda i: i % 3 == 0, "int": lambda i: i % 7 - 3, "float": lambda i: fbits(float(i % 5)), "name": lambda i: "n%d" % (i % 4),
                "code": lambda i: Z(i % 9), "exec": lambda i: Z(i % 9), "bvec": lambda i: [i % 2 == 0], "ivec": lambda i: [i % 5], "fvec": lambda i: [fbits(1.0)]}[fld]
        st[fld] = list(st[fld][:3]) + [fill(i) for i in range(n)]
        if rng.random() < 0.5: st["int"] = [rng.choice([n - 1, n, n + 1, 2147483647])] + list(st["int"])
    elif k == 1:
        unit = rng.choice(["a", "ab", "\u00e9", "\u65e5\u672c", "x\u00e9"])
        st["name"] = [(unit * (n // len(unit.encode()) + 1))[: max(1, n // len(unit.encode()))] + rng.choice(["", "z", "\u00e9"]),
                      (unit * (n // len(unit.encode()) + 1))] + list(st["name"])
    elif k == 2:
        flat = L(*[rng.choice([Z(i % 5), N("q"), I("NOOP")]) for i in range(n - 1)])
        st["code"] = [flat] + list(st["code"]); st["exec"] = [flat] + list(st["exec"])
        st["int"] = [rng.choice([n - 1, n, n // 2, 0, 1])] + list(st["int"])
    elif k == 3:
        t = Z(1)
        for _ in range(min(n, 300)): t = L(t, Z(2))
        st["code"] = [t] + list(st["code"])
    elif k == 4:
        st["ivec"] = [[(i * 7) % 11 - 5 for i in range(n)], [1] * min(n, 50)] + list(st["ivec"])
        st["int"] = [rng.choice([n - 1, n, 0, -1])] + list(st["int"])
    elif k == 5:
        st["fvec"] = [rng.choice([[fbits(float((i * 7) % 11)) for i in range(n)], [fbits(0.1 * ((i * 7) % 11) + 1e-3 * i) for i in range(n)],
                                  [fbits(1e8)] + [fbits(1.0)] * (n - 2) + [fbits(-1e8)]])] + list(st["fvec"])
        st["bvec"] = [[i % 3 == 0 for i in range(n)]] + list(st["bvec"])
    else:
        st["exec"] = list(st["exec"]) + [Z(i % 4) for i in range(n)]
    return st


# instructions that the single-step differential sweep must not run blindly
UNSAFE = {"EXEC.CMD"}                       # spawns a process (and sleeps 1 s) when it has its operands
RANDOM = {"BOOLEAN.RAND", "INTEGER.RAND", "FLOAT.RAND", "CODE.RAND", "NAME.RAND", "NAME.RANDBOUNDNAME",
          "BOOLVECTOR.RAND", "INTVECTOR.RAND", "FLOATVECTOR.RAND"}
ALLOCATING = {"BOOLVECTOR.ONES", "BOOLVECTOR.ZEROS", "INTVECTOR.ONES", "INTVECTOR.ZEROS", "FLOATVECTOR.ONES", "FLOATVECTOR.ZEROS",
              "FLOATVECTOR.SINE", "LIST.NEIGHBOR*IDS", "LIST.NEIGHBOR*BVALS", "LIST.NEIGHBOR*IVALS", "LIST.NEIGHBOR*FVALS"}


def tame_ints(st, limit=300):
    """keep operand-sized allocation inside the resource envelope (C15 covers the envelope itself)"""
    st["int"] = [z if -limit <= z <= limit else (z % (2 * limit)) - limit for z in st["int"]]
    st["float"] = [f if f not in (0x7f800000, 0xff800000, 0x7fc00000) else fbits(2.0) for f in st["float"]]
    return st


VEC_KEY = {"BOOLVECTOR": "bvec", "INTVECTOR": "ivec", "FLOATVECTOR": "fvec"}
# small pool with duplicates, both zeros, infinities and NaN: exercises sort stability and unordered comparisons
F32_SORT = [0x00000000, 0x80000000, fbits(1.0), fbits(1.0), fbits(-1.0), fbits(2.5), 0x7f800000, 0xff800000, 0x7fc00000, 0xffc00000, fbits(0.5)]


def rand_vec(rng, key, n):
    if key == "bvec": return [rng.random() < 0.5 for _ in range(n)]
    if key == "ivec":
        k = rng.randrange(3)
        if k == 0: return [rng.randrange(-3, 4) for _ in range(n)]
        if k == 1: return [rng.choice(I32) for _ in range(n)]
        return [rng.choice([rand_i32(rng), rng.randrange(0, 13)]) for _ in range(n)]
    k = rng.randrange(3)
    if k == 0: return [rng.choice(F32_SORT) for _ in range(n)]
    if k == 1: return [fbits(rng.randrange(-8, 9) / 2) for _ in range(n)]
    return [rand_f32(rng) for _ in range(n)]


def shape_vector_case(rng, name, st):
    """operand shaping for the vector families: two operand vectors of equal / unequal / zero length on top,
    the top INTEGER (offset, index, size) near the vector lengths or extreme; everything else stays random"""
    key = VEC_KEY[name.split(".")[0]]
    if rng.random() < 0.85:
        n2 = rand_vec_len(rng)
        n1 = n2 if rng.random() < 0.35 else rand_vec_len(rng)
        st[key] = [rand_vec(rng, key, n1), rand_vec(rng, key, n2)][rng.randrange(0, 8) == 0:] + st[key][:rng.randrange(0, 3)]
    # SORT on LONG vectors (the standard library switches algorithm above 20 elements and checks the comparator there)
    if "SORT" in name and rng.random() < 0.3:
        n = rng.randrange(21, 70)
        v = rand_vec(rng, key, n)
        if key == "fvec":
            v = [fbits(float(n - i)) for i in range(n)] if rng.random() < 0.5 else v
            for _ in range(rng.randrange(1, 4)):
                v[rng.randrange(0, n)] = rng.choice([0x7fc00000, 0x7fc00000, 0x7f800000, 0x80000000])
        st[key] = [v] + st[key]
    lens = [len(v) for v in st[key][:2]] + [len(st[key])] or [0]
    if rng.random() < 0.85:
        m = max(lens)
        r = rng.random()
        z = rng.randrange(-m - 2, m + 3) if r < 0.75 else rng.choice([-2147483648, -2147483647, 2147483646, 2147483647]) if r < 0.9 else rand_i32(rng)
        if st["int"] and rng.random() < 0.9: st["int"][0] = z
        elif rng.random() < 0.8: st["int"].insert(0, z)
    return st


# ---------------------------------------------------------------------------------------------------------
# GRAPH.* cases.  Id protocol (coq/theories/Model/IGraph.v header): a case carries ABSOLUTE node ids; the ids
# of the initial graphs lie above the harness process counter and below the world's next_node.  The process
# counter only grows, so successive cases take increasing id ranges: `next_base` hands them out.
import struct as _struct
_BASE = [1]


def next_base(span):
    """reserves `span` ids; returns b such that the ids b+1 .. b+span belong to the caller"""
    b = _BASE[0]
    _BASE[0] = b + span
    return b


def _f(bits):
    return _struct.unpack("<f", _struct.pack("<I", bits & 0xffffffff))[0]


GSTATES = [0, 1, 1, 2, 2, 7, -1, 2147483647, -2147483648, -2, 2147483646]
GWEIGHTS_PLAIN = [fbits(x) for x in (0.5, 1.0, 1.5, 2.0, -3.25, 0.1, 10.0, 123.4565, 0.001)]


def rand_weight(rng):
    return rng.choice(GWEIGHTS_PLAIN) if rng.random() < 0.5 else rand_f32(rng)


class PyGraph:
    """the plain-data twin of pushr's Graph, enough to build cases and to predict result sizes"""
    def __init__(self, nodes=None, edges=None):
        self.nodes = dict(nodes or {})            # id -> state
        self.edges = {d: list(l) for d, l in (edges or {}).items()}   # dest -> [(origin, weight bits)]

    def clone(self):
        return PyGraph(self.nodes, self.edges)

    def wire(self):
        return [[[k, self.nodes[k]] for k in sorted(self.nodes)],
                [[d, [[o, w] for (o, w) in self.edges[d]]] for d in sorted(self.edges)]]

    def add_edge(self, o, d, w):
        if o in self.nodes and d in self.nodes:
            l = self.edges.setdefault(d, [])
            if all(x[0] != o for x in l): l.append((o, w))

    def remove_node(self, k):
        self.nodes.pop(k, None); self.edges.pop(k, None)
        for l in self.edges.values():
            for i, x in enumerate(l):
                if x[0] == k:
                    del l[i]; break

    def sel(self, states, k):
        return k in self.nodes and (not states or self.nodes[k] in states)

    def filter_count(self, states):
        return sum((1 if not states else sum(1 for x in states if x == st)) for st in self.nodes.values())

    def succs_count(self, k, states):
        return sum(1 for d, l in self.edges.items() if any(x[0] == k for x in l) and self.sel(states, d))


def diff_loop_keys(old, new):
    """number of HashMap keys that yield at least one line, per loop of Graph::diff (old.diff(new))"""
    l1 = sum(1 for k in old.nodes if k not in new.nodes)
    l2 = sum(1 for k in new.nodes if k not in old.nodes or old.nodes[k] != new.nodes[k])
    l3 = sum(1 for d, l in old.edges.items() if any(d not in new.edges or all(y[0] != x[0] for y in new.edges[d]) for x in l))
    l4 = 0
    for d, l in new.edges.items():
        hit = False
        for x in l:
            if d not in old.edges: hit = True
            else:
                m = [y for y in old.edges[d] if y[0] == x[0]]
                if not m or not (_f(m[0][1]) == _f(x[1])): hit = True
        l4 += hit
    return l1, l2, l3, l4


def rand_graphs(rng, tiny=False, nsnap=None):
    """a GRAPH stack (oldest first) of PyGraphs with absolute ids, and the world's next_node"""
    if nsnap is None:
        nsnap = rng.choice([0, 1, 1, 2, 2, 2, 3, 3])
    maxn = 1 if tiny else rng.choice([0, 1, 2, 3, 3, 4, 5])
    ids = []
    cur = [None]                     # running id, fixed up once the span is known

    offs = []                        # ids are offsets first

    gaps = rng.random() < 0.1          # ids far apart, at multiples of 128 (a bit set / hash bucket indexed by id mod 2^k would collide)

    def fresh():
        o = (offs[-1] if offs else 0) + (rng.choice([128, 128, 256, 127, 129, 1, 64]) if gaps else rng.choice([1, 1, 1, 2, 3]))
        offs.append(o)
        return o
    stack = []
    g = PyGraph()
    for _ in range(rng.randrange(0, maxn + 1)):
        g.nodes[fresh()] = rng.choice(GSTATES)

    def sprinkle(g, k):
        ks = sorted(g.nodes)
        for _ in range(k):
            if ks:
                g.add_edge(rng.choice(ks), rng.choice(ks), rand_weight(rng))
    sprinkle(g, rng.randrange(0, 1 + 2 * len(g.nodes)))
    for i in range(nsnap):
        if i > 0:
            g = g.clone() if rng.random() < 0.85 else PyGraph()
            for _ in range(rng.randrange(0, 4)):
                r = rng.random()
                ks = sorted(g.nodes)
                if r < 0.3 and len(g.nodes) < maxn + 1 and not (tiny and g.nodes):
                    g.nodes[fresh()] = rng.choice(GSTATES)
                elif r < 0.5 and ks:
                    g.nodes[rng.choice(ks)] = rng.choice(GSTATES)
                elif r < 0.7:
                    sprinkle(g, 1)
                elif r < 0.85 and g.edges:
                    d = rng.choice(sorted(g.edges))
                    if g.edges[d]:
                        j = rng.randrange(len(g.edges[d]))
                        g.edges[d][j] = (g.edges[d][j][0], rand_weight(rng))
                elif ks and not tiny:
                    g.remove_node(rng.choice(ks))
        stack.append(g)
    if len(stack) >= 2 and rng.random() < 0.12:
        stack.reverse()                # the OLDER snapshot lies on top (e.g. after a GRAPH.YANK-like host manipulation): diffs the other way round
    span = (offs[-1] if offs else 0) + rng.choice([1, 1, 2, 4])
    base = next_base(span + 8)       # + room for the ids a few steps may issue
    ren = lambda k: base + k
    out = [PyGraph({ren(k): v for k, v in g.nodes.items()}, {ren(d): [(ren(o), w) for (o, w) in l] for d, l in g.edges.items()}) for g in stack]
    return out, base + span


def full_graph_stack(rng, n):
    """n snapshots (99..101 wanted): small graphs, mostly clones"""
    gs, nn = rand_graphs(rng, nsnap=3)
    out = list(gs)
    while len(out) < n:
        out.append(out[-1].clone() if out and rng.random() < 0.7 else PyGraph())
    return out[:n], nn


def rand_node_id(rng, gs, next_node, top_only=0.6):
    r = rng.random()
    top = sorted(gs[-1].nodes) if gs else []
    older = sorted(set(k for g in gs[:-1] for k in g.nodes) - set(top))
    if r < top_only and top: return rng.choice(top)
    if r < top_only + 0.12 and older: return rng.choice(older)                   # stale for the top graph
    if r < top_only + 0.2: return next_node + rng.randrange(0, 3)                # never issued
    if r < top_only + 0.3: return rng.choice([0, -1, -2, 2147483647, -2147483648, 1] + ([-rng.choice(top)] if top else []) * 3)
    return rand_small_int(rng, 4)


def rand_pos(rng, gs):
    r = rng.random()
    if r < 0.7: return rng.randrange(0, len(gs) + 1)
    if r < 0.85: return rng.choice([-1, -2, len(gs) + 1, 100, 101, 255, 256, 257, 256 + max(len(gs) - 1, 0), 65536, 65537])
    return rng.choice(I32)


def rand_filter(rng):
    return [rng.choice(GSTATES) for _ in range(rng.choice([0, 0, 1, 1, 2, 3]))]


HASH_ORDERED = {"GRAPH.NODES", "GRAPH.NODES*HISTORY", "GRAPH.NODE*SUCCESSORS", "GRAPH.NODE*NEIGHBORS", "GRAPH.PRINT", "GRAPH.PRINT*DIFF"}


def hash_ordered_ok(name, st, gs):
    """True when every HashMap-ordered part of the instruction's result has at most one element"""
    top = gs[-1] if gs else None
    if top is None: return True
    ints, ivec = st["int"], st["ivec"]
    if name == "GRAPH.NODES":
        return not ivec or top.filter_count(ivec[0]) <= 1
    if name == "GRAPH.NODES*HISTORY":
        if not ints or ints[0] < 0 or ints[0] >= len(gs) or not ivec: return True
        return gs[len(gs) - 1 - ints[0]].filter_count(ivec[0]) <= 1
    if name in ("GRAPH.NODE*SUCCESSORS", "GRAPH.NODE*NEIGHBORS"):
        if not ivec or not ints: return True
        return top.succs_count(ints[0], ivec[0]) <= 1
    if name == "GRAPH.PRINT":
        return len(top.nodes) <= 1 and len(top.edges) <= 1
    if name == "GRAPH.PRINT*DIFF":
        if len(gs) < 2: return True
        return all(x <= 1 for x in diff_loop_keys(gs[-2], top))
    return True


def shape_graph_case(rng, name, st, tiny=False):
    """GRAPH stack + operands for one GRAPH.* instruction; returns (state dict, PyGraph stack, next_node)"""
    if name in ("GRAPH.ADD", "GRAPH.DUP", "GRAPH.STACKDEPTH", "GRAPH.NODE*ADD") and rng.random() < 0.15:
        gs, nn = full_graph_stack(rng, rng.choice([99, 100, 100]))
    else:
        gs, nn = rand_graphs(rng, tiny=tiny)
    if name == "GRAPH.PRINT*DIFF" and len(gs) >= 2 and rng.random() < 0.15:
        gs[-1] = gs[-2].clone()                                      # identical snapshots: nothing is pushed
        if rng.random() < 0.5:                                       # ... also when a weight is 0.0 in one and -0.0 in the other (they are ==)
            for d in sorted(gs[-1].edges):
                if gs[-1].edges[d]:
                    o, _w = gs[-1].edges[d][0]
                    gs[-1].edges[d][0] = (o, 0x80000000); gs[-2].edges[d][0] = (o, 0)
                    break
    st["graph"] = [g.wire() for g in gs]
    nid = lambda **kw: rand_node_id(rng, gs, nn, **kw)
    shaped = rng.random() < 0.9
    if not shaped: return st, gs, nn
    keep = lambda l: l[:rng.randrange(0, 3)]
    w = rand_weight(rng)
    if name == "GRAPH.NODE*ADD": st["int"] = [rng.choice(GSTATES)] + keep(st["int"])
    elif name == "GRAPH.NODE*GETSTATE": st["int"] = [nid()] + keep(st["int"])
    elif name == "GRAPH.NODE*HISTORY":
        pos = rand_pos(rng, gs)
        there = sorted(gs[len(gs) - 1 - pos].nodes) if 0 <= pos < len(gs) else []
        st["int"] = [pos, rng.choice(there) if there and rng.random() < 0.6 else nid(top_only=0.3)] + keep(st["int"])
    elif name == "GRAPH.NODE*SETSTATE": st["int"] = [rng.choice(GSTATES), nid()] + keep(st["int"])
    elif name in ("GRAPH.NODE*NEIGHBORS", "GRAPH.NODE*PREDECESSORS", "GRAPH.NODE*SUCCESSORS"):
        st["ivec"] = [rand_filter(rng)] + keep(st["ivec"]); st["int"] = [nid()] + keep(st["int"])
    elif name == "GRAPH.NODE*STATESWITCH":
        n = rng.randrange(0, 5)
        st["ivec"] = [[nid() for _ in range(n)]] + keep(st["ivec"])
        st["bvec"] = [[rng.random() < 0.5 for _ in range(rng.choice([n, n, rng.randrange(0, 5)]))]] + keep(st["bvec"])
        st["int"] = [rng.choice(GSTATES), rng.choice(GSTATES)] + keep(st["int"])
    elif name == "GRAPH.NODES": st["ivec"] = [rand_filter(rng)] + keep(st["ivec"])
    elif name == "GRAPH.NODES*HISTORY":
        st["int"] = [rand_pos(rng, gs)] + keep(st["int"]); st["ivec"] = [rand_filter(rng)] + keep(st["ivec"])
    elif name in ("GRAPH.EDGE*ADD", "GRAPH.EDGE*SETWEIGHT", "GRAPH.EDGE*GETWEIGHT", "GRAPH.EDGE*HISTORY"):
        pos = rand_pos(rng, gs) if name == "GRAPH.EDGE*HISTORY" else 0
        at = gs[len(gs) - 1 - pos] if 0 <= pos < len(gs) else PyGraph()
        pairs = [(x[0], d) for d, l in at.edges.items() for x in l]
        ks = sorted(at.nodes)
        r = rng.random()
        if name == "GRAPH.EDGE*ADD" and ks and r < 0.55: o, d = rng.choice(ks), rng.choice(ks)
        elif pairs and r < (0.7 if name != "GRAPH.EDGE*ADD" else 0.65): o, d = rng.choice(sorted(pairs))
        else: o, d = nid(), nid()
        st["int"] = ([pos] if name == "GRAPH.EDGE*HISTORY" else []) + [d, o] + keep(st["int"])
        if name in ("GRAPH.EDGE*ADD", "GRAPH.EDGE*SETWEIGHT"): st["float"] = [w] + keep(st["float"])
    # now and then an operand is missing
    if rng.random() < 0.08:
        k = rng.choice(["int", "ivec", "bvec", "float"])
        st[k] = st[k][:rng.randrange(0, 2)]
    return st, gs, nn


def graph_case(rng, name, names, safe_names, profile=None, ordered=True):
    """one single-step case for a GRAPH.* instruction.  ordered=True (suite `run`): HashMap-ordered results are
    kept at <= 1 element; ordered=False (suite `graphq`): unrestricted."""
    for attempt in range(40):
        st = rand_state(rng, names, safe_names)
        st, gs, nn = shape_graph_case(rng, name, st, tiny=(attempt >= 25))
        if not ordered or name not in HASH_ORDERED or hash_ordered_ok(name, st, gs): break
    else:
        st["graph"] = []
    st["exec"] = [I(name)] + st["exec"]
    prof = rng.randrange(2) if profile is None else profile
    return case_run(prof, state(**st), 0, 1, world=(nn, ()))


import os
SINE_NEGATIVE = os.environ.get("PUSHR_SINE_NEG", "1") == "1"    # negative FLOATVECTOR.SINE lengths (a hang on the code before fix C09-07)


def rand_id_vector(rng, maxlen=8):
    """stack ids 1..12 (repeats likely) with a sprinkling of ids that designate no stack"""
    def one():
        r = rng.random()
        if r < 0.80: return rng.randrange(1, 13)
        if r < 0.90: return rng.choice([0, -1, 13, 14, 100])
        return rand_i32(rng)
    return [one() for _ in range(rng.randrange(0, maxlen + 1))]


def rand_record(rng, names, depth=2):
    """a record as LIST.ADD builds it: a list of literals / names / code, now and then nested"""
    def field():
        k = rng.randrange(12)
        if k < 3: return Z(rng.choice([rng.randrange(-5, 6), rand_i32(rng)]))
        if k < 5: return B(rng.random() < 0.5)
        if k < 7: return F(rand_f32(rng))
        if k == 7: return rng.choice([IV([rng.randrange(0, 13) for _ in range(rng.randrange(0, 4))]),
                                      BV([rng.random() < 0.5 for _ in range(rng.randrange(0, 4))]),
                                      FV([rand_f32(rng) for _ in range(rng.randrange(0, 3))])])
        if k == 8: return N(rand_name(rng))
        if k == 9 and depth > 0: return rand_record(rng, names, depth - 1)
        if k == 10: return rand_atom(rng, names)
        return Z(rng.randrange(0, 10))
    return L(*[field() for _ in range(rng.randrange(0, 7))])


def shape_list_state(rng, st, names, safe_names):
    """operands that make LIST.* cases meaningful: an id vector on top of INTVECTOR, records on CODE,
    position / n on INTEGER near the boundaries of the CODE stack and of the record"""
    if rng.random() < 0.9:
        st["ivec"] = [rand_id_vector(rng)] + st["ivec"]
    st["code"] = [rand_record(rng, safe_names) if rng.random() < 0.8 else rand_item(rng, safe_names)
                  for _ in range(rng.randrange(0, 6))]
    depth = len(st["code"])
    pos = lambda: rng.choice([rng.randrange(-2, depth + 3), rng.randrange(-2, depth + 3), rng.choice(I32)])
    n = lambda: rng.choice([rng.randrange(-2, 8), rng.randrange(0, 4), rng.choice(I32)])
    r = rng.random()
    if r < 0.85: st["int"] = [n(), pos()] + st["int"]       # top: n (or the position for GET/SET/REMOVE)
    elif r < 0.95: st["int"] = [pos()]
    else: st["int"] = []
    if rng.random() < 0.3:                                    # some source stacks empty / short
        for k in rng.sample(["bool", "float", "name", "bvec", "fvec", "exec"], rng.randrange(1, 4)):
            st[k] = st[k][:rng.randrange(0, 2)]
    return st


# ---------------------------------------------------------------------------------------------------------
# LIST.NEIGHBOR* cases (property C20, instruction part).  Sizes stay small: the instructions allocate and scan
# `size` cells (resource envelope = C15).  The debug build squares coordinate differences with libm's powf: the
# oracle entries powf(d, 2.0), |d| < edge, are put into the case up front (from the harness binary's own libm);
# whatever else the model asks for is answered by the Need protocol of lib/vcheck.py.
NBR = {"LIST.NEIGHBOR*IDS", "LIST.NEIGHBOR*BVALS", "LIST.NEIGHBOR*IVALS", "LIST.NEIGHBOR*FVALS"}
NBR_RADII = [fbits(x) for x in (0.0, 0.5, 1.0, 1.2, 1.5, 2.0, 3.0, 1.0, 2.0)] + [0x3FB504F3, 0x3FB504F3,      # sqrt 2
             0x7fc00000, fbits(-1.0), fbits(-0.5), 0x80000000, 0x7f800000, 0xff800000, fbits(2.2360679), fbits(1e-30)]
NBR_SIZES_ODD = [-1, -7, -300, -2147483648, 0, 1, 2, 64, 81, 100, 125, 128, 216, 243, 256]
_POWF_SQ = {}


def powf_sq_table(maxd):
    """oracle entries [5, key, result] of powf(d, 2.0) for d = -maxd..maxd"""
    import vcheck
    need = [d for d in range(-maxd, maxd + 1) if d not in _POWF_SQ]
    if need:
        keys = [fbits(float(d)) * 2 ** 32 + 0x40000000 for d in need]
        out = vcheck.sx_parse(vcheck.run_impl(["libm " + vcheck.sx_str([0, [[5, k] for k in keys]])])[0])
        assert out[0] == 0 and len(out[1]) == len(keys), "libm oracle suite failed"
        for d, ent in zip(need, out[1]): _POWF_SQ[d] = ent
    return [_POWF_SQ[d] for d in range(-maxd, maxd + 1)]


def iroot_ceil(n, d):
    e = 1
    while e ** d < n: e += 1
    return e


def nbr_record(rng, names, depth=1):
    """a record of typed literals (what bval / ival / fval address), now and then nested or polluted"""
    def field():
        k = rng.randrange(14)
        if k < 4: return Z(rng.choice([rng.randrange(-9, 10), rng.randrange(0, 100), rand_i32(rng)]))
        if k < 7: return B(rng.random() < 0.5)
        if k < 10: return F(rng.choice([fbits(rng.randrange(-8, 9) / 2), rng.choice(F32_SORT), rand_f32(rng)]))
        if k == 10 and depth > 0: return nbr_record(rng, names, depth - 1)
        if k == 11: return N(rand_name(rng))
        if k == 12: return rng.choice([IV([rng.randrange(0, 13)]), BV([True]), FV([fbits(1.5)])])
        return rand_atom(rng, names)
    if depth > 0 and rng.random() < 0.15:
        # few top-level entries, many values of one type inside a sub-list: the n-th value is counted depth-first, not by top-level entry
        k = rng.randrange(3)
        inner = L(*[[Z(10 + i), B(i % 2 == 0), F(fbits(0.5 * i))][k] for i in range(rng.randrange(2, 6))])
        return rng.choice([L(inner), L(inner, field()), L(field(), inner), L(L(inner))])
    return L(*[field() for _ in range(rng.randrange(0, 8))])


def shape_nbr_case(rng, name, st, names):
    """INTEGER (top first): [position] size index dimensions; FLOAT: radius; CODE: records.  Returns (state, libm-table bound)"""
    vals = name != "LIST.NEIGHBOR*IDS"
    r = rng.random()
    size = rng.randrange(0, 41) if r < 0.55 else rng.randrange(0, 14) if r < 0.8 else rng.choice(NBR_SIZES_ODD)
    r = rng.random()
    dims = rng.randrange(0, 5) if r < 0.7 else rng.choice([-1, -3, -2147483648, 5, 6, 7, 12, size - 1, size, size + 1, 63, 64, 65, 70, 2147483647])
    dims = max(dims, -2147483648)
    r = rng.random()
    index = rng.randrange(0, max(size, 1)) if r < 0.6 else rng.randrange(-3, max(size, 0) + 4) if r < 0.9 else rng.choice(I32)
    r = rng.random()
    position = rng.randrange(0, 4) if r < 0.6 else rng.randrange(-3, 9) if r < 0.9 else rng.choice(I32)
    radius = rng.choice(NBR_RADII) if rng.random() < 0.9 else rng.choice([rand_f32(rng), fbits(rng.uniform(0, 5))])
    st = tame_ints(st)                                          # whatever slides into the size slot stays small
    keep = lambda l: l[:rng.randrange(0, 3)]
    st["int"] = ([position] if vals else []) + [size, index, dims] + keep(st["int"])
    st["float"] = [radius] + keep(st["float"])
    ncode = rng.choice([rng.randrange(0, max(size, 0) + 3), max(size, 0), rng.randrange(0, 6)])
    st["code"] = [nbr_record(rng, names) if rng.random() < 0.9 else rand_item(rng, names) for _ in range(min(ncode, 45))]
    r = rng.random()
    if r < 0.06: st["int"] = st["int"][:rng.randrange(0, 4 if vals else 3)]       # too few INTEGERs: untouched
    elif r < 0.12: st["float"] = []                                              # no FLOAT: the INTEGERs are lost
    elif r < 0.15 and vals: st["int"] = st["int"][1:]                             # one operand short: everything shifts
    ints = st["int"]
    bound = -1
    if len(ints) >= (4 if vals else 3) and st["float"]:
        t = ints[1:4] if vals else ints[0:3]
        if t[0] > 300:                                                            # never an operand-sized allocation
            t[0] = ints[1 if vals else 0] = t[0] % 300
        sz = max(t[0], 0); dm = max(min(sz, t[2]), 0)
        if sz >= 1 and dm >= 1: bound = iroot_ceil(sz, min(dm, 64)) - 1
    return st, bound


def loop_continuation(rng, names):
    """the item a running EXEC.LOOP / CODE.LOOP leaves on EXEC between two iterations"""
    body = rng.choice([I("NOOP"), L(Z(1), I("INTEGER.+")), I("EXEC.DUP"), L(I("INDEX.CURRENT"), I("EXEC.K")), rand_item(rng, names, 2)])
    return L(I("INDEX.INCREASE"), I(rng.choice(["EXEC.LOOP", "CODE.LOOP"])), body)


def coincide(rng, st, name, names):
    """relations BETWEEN operands that independent random generation rarely produces: equal items on top of one stack, the same
    item on two stacks, CODE equal to EXEC, a pending instruction of the same family, a loop continuation, alias cycles,
    a bound name that is its own definition, the top NAME spelled like an instruction"""
    fam = name.split(".")[0] if "." in name else "EXEC"
    r = rng.randrange(12)
    keys = [k for k in ("bool", "code", "exec", "float", "int", "name", "bvec", "fvec", "ivec") if len(st.get(k, [])) >= 1]
    if r in (0, 1) and keys:                       # duplicate top
        k = rng.choice(keys); st[k] = [st[k][0]] + list(st[k])
    elif r == 2 and st["code"]:                    # the same item on CODE and next on EXEC
        st["exec"] = [st["code"][rng.randrange(len(st["code"]))]] + list(st["exec"])
    elif r == 3 and st["exec"]:
        st["code"] = [st["exec"][0]] + list(st["code"])
    elif r == 4:                                   # CODE is a copy of EXEC (a program already copied)
        st["code"] = list(st["exec"])
    elif r == 5:                                   # a pending instruction of the same family follows
        nxt = [n for n in names if n.startswith(fam + ".")] or ["NOOP"]
        st["exec"] = [I(rng.choice([fam + ".POP" if fam + ".POP" in names else rng.choice(nxt), rng.choice(nxt)]))] + list(st["exec"])
        if len(st["code"]) >= 1: st["code"] = [st["code"][0]] + list(st["code"])
    elif r == 6:                                   # a loop continuation on top of / second on EXEC
        lc = loop_continuation(rng, names)
        st["exec"] = ([lc] + list(st["exec"])) if rng.random() < 0.5 else (list(st["exec"][:1]) + [lc] + list(st["exec"][1:]))
        if not st["index"]: st["index"] = [(1, 3), (0, 7)]
    elif r == 7:                                   # alias cycle among the bindings, a member on the NAME stack
        cyc = rng.choice([[("A", N("B")), ("B", N("A"))], [("A", N("A"))], [("X", N("Y")), ("Y", N("Z")), ("Z", N("X"))]])
        st["bind"] = cyc + [b for b in st["bind"] if b[0] not in dict(cyc)]
        st["name"] = [cyc[0][0]] + list(st["name"])
    elif r == 8:                                   # NAME top spelled like a registered instruction / with blank edges / empty
        st["name"] = [rng.choice([rng.choice(names), "NOOP", " padded", "tail\t", ""])] + list(st["name"])
    elif r == 9 and st["name"] and st["bind"]:     # the bound name also lies deeper in the NAME stack and in CODE
        b = rng.choice(st["bind"])[0]
        st["name"] = [b] + list(st["name"]) + [b]; st["code"] = [N(b)] + list(st["code"])
    elif r == 10 and st["int"]:                    # the top INTEGER equals the depth / length of some OTHER stack or vector
        cands = [len(st[k]) for k in keys] + [len(v) for k in ("bvec", "fvec", "ivec") for v in st[k][:1]]
        st["int"] = [rng.choice(cands) + rng.choice([0, 0, -1, 1])] + list(st["int"][1:])
    elif r == 11:                                  # vectors that are sorted / constant / alternating
        n = rng.choice([2, 3, 8, 17, 33])
        st["ivec"] = [rng.choice([list(range(n)), [7] * n, [i % 2 for i in range(n)], list(range(n, 0, -1))])] + list(st["ivec"])
        st["fvec"] = [[fbits(x) for x in rng.choice([[float(i) for i in range(n)], [1e8] + [1.0] * (n - 2) + [-1e8], [0.1 * i for i in range(n)], [0.5] * n])]] + list(st["fvec"])
        st["bvec"] = [rng.choice([[True] * n, [False] * n, [i % 2 == 0 for i in range(n)]])] + list(st["bvec"])
    return st


def step_case(rng, name, names, safe_names, profile=None, scale=0.08, relate=0.2):
    """scale: probability that one component of the state is made LARGE (scale_up)"""
    if name.startswith("GRAPH."):
        return graph_case(rng, name, names, safe_names, profile)
    st = rand_state(rng, names, safe_names)
    if name in NBR:
        st, bound = shape_nbr_case(rng, name, st, safe_names)
        st["exec"] = [I(name)] + st["exec"]
        prof = rng.randrange(2) if profile is None else profile
        return case_run(prof, state(**st), 0, 1, libm=powf_sq_table(bound) if prof == 0 and bound >= 0 else ())
    if name.startswith("LIST.") and name not in ALLOCATING and rng.random() < 0.85:
        st = shape_list_state(rng, st, names, safe_names)
    if name.split(".")[0] in VEC_KEY and "." in name:
        st = shape_vector_case(rng, name, st)
    if name == "FLOATVECTOR.SINE":
        st["int"] = [rng.randrange(-3 if SINE_NEGATIVE else 0, 13) for _ in st["int"]]
    if name not in ALLOCATING and rng.random() < scale:
        st = scale_up(rng, st, names, name)
    elif name not in ALLOCATING and name not in NBR and rng.random() < relate:
        st = coincide(rng, st, name, safe_names)
    if name in ALLOCATING:
        st = tame_ints(st)
        st["float"] = [fbits(rng.choice([0.0, 0.5, 1.0, 1.5, 2.0, 3.0])) for _ in st["float"]]
    st["exec"] = [I(name)] + st["exec"]
    prof = rng.randrange(2) if profile is None else profile
    return case_run(prof, state(**st), 0, 1)

"""Python-side builders for states, items and programs on the sx wire (see Suites/SState.v, SItem.v)."""
import re, struct
from vcheck import sx_str
from gen.pools import fbits

BIG_TIME = 1000000000
DEFAULT_CFG = [fbits(1.0), fbits(-1.0), 10, -10, 1000, BIG_TIME, 500, fbits(0.001), 25, 100]

S = lambda s: [ord(c) for c in s]
def L(*xs): return [0] + list(xs)          # list item, children top-first
def I(name): return [1, S(name)]           # instruction
def N(name): return [2, S(name)]           # identifier
def B(b): return [3, 1 if b else 0]
def Z(z): return [4, z]
def IDX(c, d): return [5, c, d]
def F(bits): return [6, bits]
def BV(v): return [7, [1 if b else 0 for b in v]]
def IV(v): return [8, list(v)]
def FV(v): return [9, list(v)]


def state(bool=(), code=(), exec=(), float=(), index=(), int=(), name=(), bvec=(), fvec=(), ivec=(),
          input=(), output=(), graph=(), bind=(), cfg=None, quote=False, send=False):
    """all stacks top-first; names as python strings; floats as bit patterns"""
    return [[1 if b else 0 for b in bool], list(code), list(exec), list(float), [list(i) for i in index], list(int),
            [S(n) if isinstance(n, str) else n for n in name], [[1 if b else 0 for b in v] for v in bvec],
            [list(v) for v in fvec], [list(v) for v in ivec],
            [[list(h), [1 if b else 0 for b in body]] for (h, body) in input],
            [[list(h), [1 if b else 0 for b in body]] for (h, body) in output],
            list(graph), [[S(k) if isinstance(k, str) else k, v] for (k, v) in bind],
            list(cfg or DEFAULT_CFG), 1 if quote else 0, 1 if send else 0]


def case_run(profile, st, mode, arg, libm=(), world=(1, ())):
    return sx_str([profile, [list(e) for e in libm], st, mode, arg, [world[0], list(world[1])]])


_INT = re.compile(r"^[+-]?\d+$")
_FLT = re.compile(r"^[+-]?(\d+\.?\d*|\.\d+)([eE][+-]?\d+)?$")


def parse_prog(text, names):
    """a reader for test programs written as text (NOT the model of pushr's parser):
    returns the list of top-level items, first token on top"""
    toks = text.split()
    pos = 0

    def seq(closing):
        nonlocal pos
        out = []
        while pos < len(toks):
            t = toks[pos]; pos += 1
            if t == "(":
                out.append(L(*seq(True)))
            elif t == ")":
                assert closing
                return out
            elif t in names:
                out.append(I(t))
            elif _INT.match(t) and -2**31 <= int(t) < 2**31:
                out.append(Z(int(t)))
            elif _FLT.match(t):
                out.append(F(fbits(float(t))))
            elif t in ("TRUE", "FALSE"):
                out.append(B(t == "TRUE"))
            elif t.startswith("INT[") and t.endswith("]"):
                out.append(IV([int(x) for x in t[4:-1].split(",") if x]))
            elif t.startswith("BOOL[") and t.endswith("]"):
                out.append(BV([x in ("1", "TRUE") for x in t[5:-1].split(",") if x]))
            elif t.startswith("FLOAT[") and t.endswith("]"):
                out.append(FV([fbits(float(x)) for x in t[6:-1].split(",") if x]))
            else:
                out.append(N(t))
        assert not closing
        return out
    return seq(False)

"""INPUT / OUTPUT instruction sequences over the two message queues (C17, IO part).
io_streams(seed, tier) -> [Stream]; every case is a "run"-suite case (mode 0, k interpreter steps)."""
import itertools, random
from vcheck import Stream
from gen.pools import I32
from gen.stategen import *

IO_NAMES = ["INPUT.AVAILABLE", "INPUT.GET", "INPUT.NEXT", "INPUT.READ", "INPUT.STACKDEPTH",
            "OUTPUT.FLUSH", "OUTPUT.WRITE", "OUTPUT.STACKDEPTH"]
INPUT_CAP, OUTPUT_CAP = 10, 3


def rand_msg(rng):
    """(header, body); empty headers and empty bodies are frequent on purpose, and so is the message with both
    empty: it is PushMessage::default(), i.e. what an empty cell of the INPUT / OUTPUT ring buffers holds"""
    if rng.random() < 0.12:
        return ([], [])
    h = [] if rng.random() < 0.25 else [rng.randrange(-3, 10) for _ in range(rng.randrange(1, 4))]
    b = [] if rng.random() < 0.25 else [rng.random() < 0.5 for _ in range(rng.randrange(1, 6))]
    return (h, b)


def rand_queue(rng, cap):
    r = rng.random()
    n = 0 if r < 0.12 else cap if r < 0.24 else rng.randrange(0, cap + 1)
    return [rand_msg(rng) for _ in range(n)]


def bit_index(rng, body_len=5):
    return rng.choice([rng.randrange(-2, body_len + 2), rng.randrange(0, 3), rng.choice(I32)])


def io_state(rng, ninput=None, noutput=None):
    inp = rand_queue(rng, INPUT_CAP) if ninput is None else [rand_msg(rng) for _ in range(ninput)]
    outp = rand_queue(rng, OUTPUT_CAP) if noutput is None else [rand_msg(rng) for _ in range(noutput)]
    d = lambda m: rng.randrange(0, m + 1)
    return dict(
        input=inp, output=outp,
        int=[bit_index(rng) for _ in range(d(4))],
        bool=[rng.random() < 0.5 for _ in range(d(2))],
        bvec=[[rng.random() < 0.5 for _ in range(rng.randrange(0, 4))] for _ in range(d(4))],
        ivec=[[rng.randrange(0, 9) for _ in range(rng.randrange(0, 3))] for _ in range(d(4))],
        # flags and names an earlier NAME.QUOTE / NAME.SEND left behind: the queues do not read them
        name=[rng.choice(["A", "msg", "x y"]) for _ in range(d(2))], send=rng.random() < 0.25, quote=rng.random() < 0.15,
    )


def seq_case(prof, st, prog, steps=None, tail=()):
    st = dict(st)
    st["exec"] = list(prog) + list(tail)
    return case_run(prof, state(**st), 0, len(prog) if steps is None else steps)


def io_streams(seed, tier):
    rng = random.Random(seed)
    big = tier != "quick"
    out = []

    # 1. every sequence of length <= 3 (thorough: 4) over the eight instructions, on queues of every fill level
    depth = 4 if big else 3
    bases = []
    for ninput, noutput in [(0, 0), (1, 3), (2, 2), (3, 0), (10, 1)]:
        st = io_state(rng, ninput, noutput)
        st["int"] = [1, 0, -1, 7]; st["bvec"] = [[True], [], [False, True], [True]]; st["ivec"] = [[4], [], [5, 6]]
        bases.append(st)
    empty_bodies = io_state(rng, 0, 0)
    empty_bodies.update(input=[([], []), ([1], []), ([], [True])], int=[0, 2, -5, 1], bvec=[[]], ivec=[[]])
    bases.append(empty_bodies)
    cases = []
    for d in range(1, depth + 1):
        for names in itertools.product(IO_NAMES, repeat=d):
            for bi, st in enumerate(bases):
                if d == depth and bi not in (1, 5):
                    continue
                cases.append(seq_case((len(cases)) % 2, st, [I(n) for n in names], tail=[N("rest")]))
    out.append(Stream("io-exhaustive<=%d" % depth, "run", "run.check", cases,
                      "every sequence of up to %d INPUT/OUTPUT instructions on input queues of 0/1/2/3/10 messages and output queues of 0..3 messages, incl. empty headers and bodies" % depth))

    # 2. long random sequences, integer literals (bit indices) mixed in, 0..10 messages
    cases = []
    for k in range(30000 if big else 6000):
        st = io_state(rng)
        prog = []
        for _ in range(rng.randrange(1, 41)):
            r = rng.random()
            if r < 0.12: prog.append(Z(bit_index(rng)))
            elif r < 0.18: prog.append(BV([rng.random() < 0.5 for _ in range(rng.randrange(0, 4))]))
            elif r < 0.24: prog.append(IV([rng.randrange(0, 9) for _ in range(rng.randrange(0, 3))]))
            else: prog.append(I(rng.choice(IO_NAMES + ["INPUT.READ", "INPUT.NEXT", "INPUT.GET", "OUTPUT.WRITE"])))
        steps = len(prog) if rng.random() < 0.8 else rng.randrange(0, len(prog) + 1)
        cases.append(seq_case(k % 2, st, prog, steps=steps))
    out.append(Stream("io-random40", "run", "run.check", cases,
                      "random sequences of up to 40 INPUT/OUTPUT instructions and vector / index literals on queues of 0..10 / 0..3 messages"))

    # 2b. the same message written (and read) several times in a row: every write is a message of its own
    cases = []
    for k in range(3000 if big else 600):
        st = io_state(rng, None, rng.choice([0, 0, 1, 2]))
        h = [rng.randrange(0, 5) for _ in range(rng.randrange(0, 3))]
        b = [rng.random() < 0.5 for _ in range(rng.randrange(0, 4))]
        prog = []
        for _ in range(rng.randrange(2, 5)):
            prog += [IV(h), BV(b), I("OUTPUT.WRITE")]
            if rng.random() < 0.3: prog.append(I(rng.choice(IO_NAMES)))
        if rng.random() < 0.5:
            prog += [IV([9]), BV([True]), I("OUTPUT.WRITE"), I("OUTPUT.STACKDEPTH")]
        cases.append(seq_case(k % 2, st, prog))
    out.append(Stream("io-repeated-messages", "run", "run.check", cases,
                      "2..4 consecutive OUTPUT.WRITEs of one and the same (header, body), other INPUT/OUTPUT instructions in between, onto output queues of 0..2 messages"))

    # 3. drain: READ GET NEXT repeated over the whole queue (strict FIFO), echo to OUTPUT
    cases = []
    for k in range(6000 if big else 1500):
        n = rng.randrange(0, INPUT_CAP + 1)
        st = io_state(rng, n, rng.randrange(0, OUTPUT_CAP + 1))
        unit = rng.choice([["INPUT.READ", "INPUT.NEXT"], ["INPUT.READ", "OUTPUT.WRITE", "INPUT.NEXT"],
                           [Z(rng.randrange(-1, 5)), "INPUT.GET", "INPUT.NEXT", "INPUT.AVAILABLE"],
                           ["INPUT.STACKDEPTH", "INPUT.READ", "INPUT.NEXT", "OUTPUT.STACKDEPTH"]])
        prog = [x if isinstance(x, list) else I(x) for _ in range(n + rng.randrange(0, 3)) for x in unit]
        cases.append(seq_case(k % 2, st, prog))
    out.append(Stream("io-drain", "run", "run.check", cases,
                      "read / get / next loops that consume the whole input queue (and beyond), echoing to the output queue until it is full"))
    return out

"""Systematic boundary cases for the single-step sweep of C01 (additive to gen/stepgen.py, which keeps the random part).

For one instruction name `cases(rng, name, ...)` enumerates `run` cases (mode 0, one step) whose stacks are filled
from the boundary pools of DESIGN.md 6.C01:
  A  every stack at depth 4; the two topmost elements of every stack run through the full product of the pool
     (index j -> pool[j % n], pool[j // n % n]), the deeper ones rotate with other strides;
  B  every stack at depth 0, 1, 2, 3 (operands missing);
  C  one stack at depth 0, 1, 2 while all others are full (an operand missing on one stack only);
  D  the top INTEGER set to a value at a length: depth / vector length / code size / list length, each -1, +0, +1
     and negated.
Operand-sized allocations stay inside the resource envelope (own INTEGER pool for the ALLOCATING names, then
stepgen.tame_ints), EXEC.CMD never gets enough NAME operands (see `cmd_cases` for the harmless exception).
"""
from gen.pools import fbits
from gen.stategen import *
from gen import stepgen, randgen

MIN, MAX = -2147483648, 2147483647
NAN, PINF, NINF = 0x7fc00000, 0x7f800000, 0xff800000

I32B = [MIN, MIN + 1, -2, -1, 0, 1, 2, MAX - 1, MAX]
F32B = [0x00000000, 0x80000000, fbits(1.0), fbits(-1.0), fbits(0.5), fbits(-0.5), PINF, NINF, NAN,
        0x00000001, 0x7f7fffff, fbits(2147483648.0), fbits(1e20)]
BOOLB = [True, False]
NAMEB = ["A", "B", "", "é", "TRUE", "12", "NOOP", "a b"]
INDEXB = [(0, 0), (0, 1), (1, 1), (2, 5), (5, 2), (2147483647, 2147483648), (3000000000, 18446744073709551615), (2147483648, 2147483647)]
BVECB = [[], [True], [False], [False, True], [True, False, True], [True, True, False, False]]
IVECB = [[], [0], [MIN], [1, 2], [MAX, MIN, -1], [3, 1, 2, 1], [1, 2, 3, 4, 5, 6, 7, 8, 9, 10, 11, 12]]
FVECB = [[], [NAN], [fbits(1.0)], [PINF, NINF], [0x00000000, 0x80000000, fbits(1.0)], [fbits(2.5), NAN, fbits(-1.0), fbits(2.5)]]
CODEB = [L(), Z(1), Z(MIN), Z(0), F(NAN), F(fbits(1.5)), B(True), N("A"), N("B"), I("NOOP"), I("INTEGER.+"), I("CODE.DUP"),
         IV([]), IV([1, 2]), BV([True]), BV([]), FV([]), FV([PINF]), IDX(0, 3),
         L(Z(1)), L(L()), L(N("A"), Z(1)), L(Z(1), Z(2), Z(3)), L(Z(1), L(Z(2), N("A")), I("CODE.DUP")), L(L(L(L()))),
         L(L(Z(1)), L(Z(1))), L(B(False), F(fbits(0.5)), IV([3]), L())]
MSGB = [([], []), ([1], [True]), ([3, 0], []), ([], [False, True]), ([MIN, MAX], [True, False, True])]
BINDB = [[], [("A", Z(1))], [("A", L()), ("NOOP", I("NOOP"))], [("B", L(N("B"))), ("TRUE", B(False)), ("A", I("INTEGER.+"))],
         # aliases: a two-cycle, a self-definition, a chain ending in a literal
         [("A", N("B")), ("B", N("A"))], [("A", N("A")), ("B", N("A"))], [("A", N("B")), ("B", N("é")), ("é", Z(7))]]

# INTEGER pools of the instructions whose operand is an allocation size / a libm loop count
ALLOC_I32 = [MIN, -2, -1, 0, 1, 2, 3, 12, 300]
SINE_I32 = [MIN, -2, -1, 0, 1, 2, 3, 5, 12]
NBR_I32 = [MIN, -2, -1, 0, 1, 2, 3, 12, 40, 63, 64, 65, 70]
VEC_RAND = {"BOOLVECTOR.RAND", "INTVECTOR.RAND", "FLOATVECTOR.RAND"}
SIZED = set(stepgen.ALLOCATING) | VEC_RAND            # the top INTEGER (NEIGHBOR: one of four) is a size

POOLS = {"bool": BOOLB, "code": CODEB, "exec": CODEB, "float": F32B, "index": INDEXB, "int": I32B, "name": NAMEB,
         "bvec": BVECB, "fvec": FVECB, "ivec": IVECB}
KEYS = ["bool", "code", "exec", "float", "index", "int", "name", "bvec", "fvec", "ivec"]
FULL = 4


def points(it):
    return 1 + sum(points(c) for c in it[1:]) if it[0] == 0 else 1


def pick(pool, j, pos):
    n = len(pool)
    if pos == 0: return pool[j % n]
    if pos == 1: return pool[(j // n) % n]
    return pool[(j * (2 * pos + 1) + pos) % n]


def fill(name, j, depth):
    """state dict with stack k at depth depth[k], values chosen by the enumeration index j"""
    st = {}
    for k in KEYS:
        pool = POOLS[k]
        if k == "int" and name == "FLOATVECTOR.SINE": pool = SINE_I32
        elif k == "int" and name in stepgen.NBR: pool = NBR_I32
        elif k == "int" and name in SIZED: pool = ALLOC_I32
        st[k] = [pick(pool, j, pos) for pos in range(depth[k])]
    nmsg = [0, 1, 3, 10][j % 4]
    st["input"] = [MSGB[(j + i) % len(MSGB)] for i in range(nmsg)]
    st["output"] = [MSGB[(j + 2 * i + 1) % len(MSGB)] for i in range([0, 1, 3][j % 3])]
    st["bind"] = BINDB[(j // 2) % len(BINDB)]
    st["quote"] = j % 11 == 5
    st["send"] = j % 13 == 7
    return st


def near_lengths(st):
    """INTEGER values at a length of something the instruction may index"""
    ls = {len(st[k]) for k in KEYS}
    for k in ("bvec", "fvec", "ivec"):
        ls |= {len(v) for v in st[k][:2]}
    for it in st["code"][:2] + st["exec"][:1]:
        ls.add(points(it))
        if it[0] == 0: ls.add(len(it) - 1)
    out = set()
    for l in ls:
        out |= {l - 1, l, l + 1, -l, -l - 1}
    return sorted(out)


def _finish(rng, name, st, prof, names, safe):
    """puts the instruction on EXEC; GRAPH.* names get a GRAPH stack obeying the id protocol of stepgen"""
    world = (1, ())
    if name.startswith("GRAPH."):
        for attempt in range(12):
            gs, nn = stepgen.rand_graphs(rng, tiny=(attempt >= 6))
            if name not in stepgen.HASH_ORDERED or stepgen.hash_ordered_ok(name, st, gs): break
        else:
            gs, nn = [], stepgen.next_base(9) + 1
        st["graph"] = [g.wire() for g in gs]
        world = (nn, ())
    libm = ()
    if name in SIZED:
        fl = st["float"]
        st = stepgen.tame_ints(st)
        st["float"] = fl
    if name in stepgen.NBR and prof == 0:
        libm = nbr_libm(name, st)
    if name in stepgen.RANDOM:
        world = (world[0], randgen.tape(rng))
    st["exec"] = [I(name)] + st["exec"]
    return case_run(prof, state(**st), 0, 1, libm=libm, world=world)


def nbr_libm(name, st):
    """the powf(d, 2.0) oracle entries the debug build of LIST.NEIGHBOR* asks for (as stepgen.shape_nbr_case does)"""
    vals = name != "LIST.NEIGHBOR*IDS"
    ints = st["int"]
    if len(ints) < (4 if vals else 3) or not st["float"]:
        return ()
    t = ints[1:4] if vals else ints[0:3]
    sz = max(t[0], 0); dm = max(min(sz, t[2]), 0)
    if sz >= 1 and dm >= 1:
        return stepgen.powf_sq_table(stepgen.iroot_ceil(sz, min(dm, 64)) - 1)
    return ()


def rand_step_case(rng, name, names, safe):
    """random state for one of the RANDOM instructions (stepgen.step_case has no tape): sizes of the vector RANDs tamed"""
    st = stepgen.rand_state(rng, names, safe)
    if name in VEC_RAND:
        fl = st["float"]
        st = stepgen.tame_ints(st)
        st["float"] = fl if rng.random() < 0.5 else [fbits(rng.choice([0.0, 0.25, 0.5, 0.75, 1.0, 2.0])) for _ in fl]
    if name == "CODE.RAND" and st["int"] and rng.random() < 0.7:
        st["int"][0] = rng.choice([0, 1, -1, 2, 3, 5, 24, 25, 26, 100, MIN, MAX])
    if rng.random() < (0.6 if name == "CODE.RAND" else 0.3):
        c = list(DEFAULT_CFG)
        # (max, min): legal pairs whose upper bound is not positive are included (a generator that samples 0..max would fail there)
        c[2], c[3] = rng.choice([(10, -10), (0, 0), (-5, 5), (MAX, MIN), (1, 0), (MAX, MAX - 1), (0, -10), (-5, -50), (MIN + 1, MIN), (-1, -2)])
        c[0], c[1] = rng.choice([(fbits(1.0), fbits(-1.0)), (fbits(0.0), fbits(0.0)), (PINF, NINF), (NAN, fbits(0.0)), (fbits(3e38), fbits(-3e38)), (fbits(-1.0), fbits(1.0)),
                                 (fbits(-1.0), fbits(-2.0)), (fbits(0.0), fbits(-1.0)), (0x80000000, fbits(-1.0)), (fbits(1e-40), fbits(0.0))])
        c[7] = rng.choice([fbits(0.001), fbits(0.0), fbits(1.0), NAN, fbits(0.5)])
        c[8] = rng.choice([25, 0, 1, 2, -25, MIN, MAX])
        st["cfg"] = c
    st["exec"] = [I(name)] + st["exec"]
    return case_run(rng.randrange(2), state(**st), 0, 1, world=(1, randgen.tape(rng)))


def cases(rng, name, names, safe, profiles=(0, 1), dense=True):
    """boundary cases for one instruction.  dense=False (quick tier): part A alternates the profile instead of
    running both, parts B-D are thinned."""
    assert name not in stepgen.UNSAFE
    out = []
    nj = len(F32B) ** 2 if name.startswith("FLOAT") else len(I32B) ** 2
    full = {k: FULL for k in KEYS}

    def emit(j, depth, prof, top_int=None):
        st = fill(name, j, depth)
        if top_int is not None and st["int"]:
            st["int"][0] = top_int
        out.append(_finish(rng, name, st, prof, names, safe))
    # A
    for j in range(nj):
        for prof in (profiles if dense else (profiles[j % len(profiles)],)):
            emit(j, full, prof)
    # B
    for d in range(FULL):
        for _ in range(12 if dense else 4):
            emit(rng.randrange(nj), {k: d for k in KEYS}, rng.choice(profiles))
    # C
    for k in KEYS:
        for d in range(3):
            for _ in range(2 if dense else 1):
                dep = dict(full); dep[k] = d
                emit(rng.randrange(nj), dep, rng.choice(profiles))
    # D
    if name not in SIZED:
        for _ in range(3 if dense else 1):
            j = rng.randrange(nj)
            dep = {k: rng.randrange(1, FULL + 1) for k in KEYS}
            near = near_lengths(fill(name, j, dep))
            for z in (near if dense else rng.sample(near, min(6, len(near)))):
                emit(j, dep, rng.choice(profiles), top_int=z)
    return out


def cmd_cases(rng, harmless=False):
    """EXEC.CMD: never enough NAME operands (no spawn), except harmless=True (thorough tier only): a few cases
    whose consumed names all spell "true" (each spawns /usr/bin/true after the instruction's 1 s sleep)"""
    out = []
    for prof in (0, 1):
        for n in I32B + [3, 4, 5]:
            for have in range(0, 5):
                if 0 <= n < have: continue                      # it would have its n + 1 operands
                st = fill("EXEC.CMD", rng.randrange(81), {k: FULL for k in KEYS})
                st["int"] = [n] + st["int"][1:]
                st["name"] = [NAMEB[(i + n) % len(NAMEB)] for i in range(have)]
                st["exec"] = [I("EXEC.CMD")] + st["exec"]
                out.append(case_run(prof, state(**st), 0, 1))
    if harmless:
        for prof in (0, 1):
            for n in (0, 2):
                st = fill("EXEC.CMD", rng.randrange(81), {k: 2 for k in KEYS})
                st["int"] = [n, 7]
                st["name"] = ["true"] * (n + 1) + ["A"]
                st["exec"] = [I("EXEC.CMD")] + st["exec"]
                out.append(case_run(prof, state(**st), 0, 1))
    return out

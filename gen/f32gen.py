"""Cases for suite f32 (validation of the Flocq instance of FloatOps against Rust's f32)."""
import random
from vcheck import sx_str
from gen.pools import F32, I32, rand_f32, rand_i32, fbits

NUMTOK = ["0", "-0", "+5", "5.", ".5", "-.5", "1e5", "1E5", "1e-5", "1e", "e5", ".", "-", "+", "", "inf", "-inf", "+inf", "Inf", "INFINITY", "infinity", "nan", "NaN", "-nan",
          "infinit", "1.5e+3", "1.5e-3", "1_0", "0x10", "1.2.3", "3.4028235e38", "3.4028236e38", "3.5e38", "1e39", "1e-45", "7e-46", "1.4e-45", "1.401298464324817e-45",
          "0.1", "0.30000001192092896", "16777217", "16777217.0", "9007199254740993", "2147483648", "-2147483649", "123456789012345678901234567890", "0.000", "-0.000",
          "1e400", "1e-400", "1e100000", "1e-100000", "0e999999999999", "1e99999999999999999999", "4.9e-324", "1.17549435e-38", "1.17549421e-38", "8388608.5", "8388609.5", "0.5000000000000000000001",
          " 1", "1 ", "1f", "1.0f32", "١"]


def cases(seed, n_rand, thorough=False):
    rng = random.Random(seed)
    out = []
    pool = F32
    for op in (0, 1, 2, 3, 4, 5):
        for a in pool:
            for b in pool:
                out.append([0, [], op, a, b])
    for op in (7, 8, 9, 10, 13, 14, 16, 19):
        for a in pool:
            out.append([0, [], op, a, 0])
    for a in I32:
        out.append([0, [], 6, a, 0])
    for a in [0, 1, 16777217, 4294967295, 4294967297, 18446744073709551615, 18446742974197923841, 9223372036854775808]:
        out.append([0, [], 15, a, 0])
    for k in (0, 1, 3):
        for a in pool:
            out.append([0, [], 11, k, a])
    for t in NUMTOK:
        out.append([0, [], 12, [ord(c) for c in t]])
    for _ in range(n_rand):
        op = rng.choice([0, 1, 2, 3, 4, 4, 5, 7, 8, 9, 10, 11, 11, 11, 16, 19, 19])
        a, b = rand_f32(rng), rand_f32(rng)
        if op == 11:
            out.append([0, [], 11, rng.choice([1, 3, 3]), a])
        else:
            out.append([0, [], op, a, b])
    for _ in range(n_rand // 4):
        out.append([0, [], 6, rand_i32(rng), 0])
        # random decimal strings
        k = rng.random()
        if k < 0.5:
            t = "%s%d.%0*d" % (rng.choice(["", "-", "+"]), rng.randrange(0, 10 ** rng.randrange(1, 12)), rng.randrange(1, 10), rng.randrange(0, 10 ** 6))
        elif k < 0.8:
            t = "%s%de%d" % (rng.choice(["", "-"]), rng.randrange(0, 10 ** rng.randrange(1, 20)), rng.randrange(-60, 50))
        else:
            t = "".join(rng.choice("0123456789.eE+-infa") for _ in range(rng.randrange(1, 8)))
        out.append([0, [], 12, [ord(c) for c in t]])
        # print then parse of random floats is covered in C11
    return [sx_str(c) for c in out]

"""Boundary pools shared by the generators."""
import struct, random

I32 = [-2147483648, -2147483647, -65536, -1000, -13, -2, -1, 0, 1, 2, 3, 7, 10, 13, 100, 65535, 16777216, 16777217, 2147483646, 2147483647]


def fbits(x):
    return struct.unpack("<I", struct.pack("<f", x))[0]


F32 = sorted(set([
    0x00000000, 0x80000000, fbits(1.0), fbits(-1.0), fbits(0.5), fbits(-0.5), fbits(2.0), fbits(3.0), fbits(10.0), fbits(0.1), fbits(0.25),
    fbits(1.5), fbits(2.5), fbits(-2.5), fbits(0.001), fbits(0.0005), fbits(0.0015), fbits(0.0025), fbits(123.4565), fbits(1e-5), fbits(3.14159265),
    0x7f800000, 0xff800000, 0x7fc00000, 0xffc00000, 0x7fc00001, 0xff800001, 0x7fffffff, 0x00000001, 0x80000001, 0x007fffff, 0x00800000, 0x7f7fffff, 0xff7fffff,
    fbits(2147483648.0), fbits(-2147483648.0), fbits(2147483520.0), fbits(4294967296.0), fbits(1e20), fbits(-1e20), fbits(16777216.0), fbits(16777218.0),
    fbits(1.8446744e19), fbits(0.9995), fbits(0.99949), fbits(999.9995), fbits(-0.0004), fbits(1e-40), fbits(7.0), fbits(-7.5), fbits(1e10),
]))


def rand_f32(rng):
    r = rng.random()
    if r < 0.35:
        return rng.choice(F32)
    if r < 0.6:
        return fbits(rng.uniform(-100, 100))
    if r < 0.75:
        return fbits(rng.randrange(-1000, 1000) / rng.choice([1, 2, 4, 8, 10, 100, 1000]))
    b = rng.getrandbits(32)          # NaNs keep their sign and payload: the implementation must not depend on them
    return b


# where a narrowing cast (u8, i8, u16, i16, 20 / 24 bits) or a table size would wrap: both signs
THRESH = [127, 128, 255, 256, 257, 32767, 32768, 65534, 65536, 65537, 131072, 1 << 20, (1 << 20) + 1, (1 << 24) - 1, (1 << 24) + 2, 1 << 30, (1 << 31) - 256]


def rand_i32(rng):
    r = rng.random()
    if r < 0.06:
        return rng.choice(THRESH) * rng.choice([1, 1, -1])
    if r < 0.4:
        return rng.choice(I32)
    if r < 0.8:
        return rng.randrange(-20, 21)
    return rng.randrange(-2147483648, 2147483648)

"""The libm oracle protocol: a model result (2 fn arg) asks for a libm value; the harness computes it
with the implementation's own libm (suite "libm") and the case is re-run with the table extended."""
import vcheck


def resolve_needs(lines, max_rounds=40):
    """lines: '<suite> <sx>' whose sx has the libm table as second element. Returns (model results, final lines)."""
    lines = list(lines)
    res = vcheck.run_model(lines)
    for _ in range(max_rounds):
        need = [(i, r) for i, r in enumerate(res) if r.startswith("(2 ")]
        if not need:
            break
        qs = sorted(set(tuple(vcheck.sx_parse(r)[1:]) for _, r in need))
        ans = vcheck.run_impl(["libm (0 (%s))" % " ".join("(%d %d)" % q for q in qs)])[0]
        table = {(a[0], a[1]): a[2] for a in vcheck.sx_parse(ans)[1]}
        for i, r in need:
            q = tuple(vcheck.sx_parse(r)[1:])
            suite, sx = lines[i].split(" ", 1)
            v = vcheck.sx_parse(sx)
            v[1] = v[1] + [[q[0], q[1], table[q]]]
            lines[i] = suite + " " + vcheck.sx_str(v)
        sub = vcheck.run_model([lines[i] for i, _ in need])
        for (i, _), r in zip(need, sub):
            res[i] = r
    return res, lines

"""kept for bin/sweep: the libm oracle protocol lives in lib/vcheck.py"""
from vcheck import resolve_needs

"""C16 — the generic stack container behaves like a plain sequence."""
import itertools, random
from vcheck import Stream, sx_str

PROPERTY = "C16"
PROPS_VO = "Props/C16"
AXIOMS_OK = []
ASSUMPTIONS = [
    "element types of the correspondence histories: i32 (PushStack<i32>, suite stack) and nested code items (PushStack<Item>, suite stackitem: `==` is Item's shallow PartialEq, equal_at compares the Display text; elements are reported structurally, to_string as text)",
    "raw Vec::swap indices out of range are outside the quantifier (Vec's own contract); both sides are still compared there",
    "positions range over EVERY usize (0 .. 2^64 - 1), not only [0, len+2]: the wire checker evaluates the specification through spec_run_c (a position beyond the end is replaced by the length before it becomes a unary natural number), proved equal to spec_run (C16_clamped_evaluation_is_spec)",
]


def alphabet(maxpos, vals):
    ops = [[0], [1], [4], [5], [8], [15], [16]]
    ops += [[2, a] for a in vals]
    ops += [[3, i, a] for i in range(maxpos + 1) for a in vals[:2]]
    ops += [[6, i, 9] for i in range(maxpos + 1)]
    for tag in (7, 9, 12, 13, 17, 18, 19):
        ops += [[tag, i] for i in range(maxpos + 1)]
    ops += [[10, vals[0]], [11, vals[1]]]
    ops += [[14, i, j] for i in range(3) for j in range(3)]
    ops += [[20, []], [20, [vals[0], 8]]]
    return ops


def rand_op(rng, ln, val=None, tags=None):
    tag = rng.choice(tags) if tags else rng.choice([0, 1, 2, 3, 4, 6, 7, 8, 9, 10, 10, 10, 11, 11, 12, 13, 14, 15, 16, 17, 18, 19, 20] + ([5] if rng.random() < 0.05 else []))
    pos = lambda: rng.choice([0, 1, 2, ln - 1, ln, ln + 1, ln + 2, rng.randrange(0, ln + 3)]) if ln >= 0 else 0
    pos2 = lambda: max(0, pos())
    val = val or (lambda: rng.choice([0, 1, -1, 7, 2147483647, -2147483648, rng.randrange(-50, 50)]))
    if tag in (0, 1, 4, 5, 8, 15, 16): return [tag]
    if tag == 2: return [2, val()]
    if tag in (3, 6): return [tag, pos2(), val()]
    if tag in (7, 9, 12, 13, 18): return [tag, pos2()]
    if tag in (17, 19): return [tag, rng.choice([0, 1, 2, 3, ln, ln + 1])]
    if tag in (10, 11): return [tag, val()]
    if tag == 14:
        if ln == 0: return [0]
        return [14, rng.randrange(ln), rng.randrange(ln)]
    return [20, [val() for _ in range(rng.randrange(0, 4))]]


def sim_len(ln, op):
    """length bookkeeping so that random positions stay near the boundary"""
    t = op[0]
    if t == 5: return 0
    if t in (7,) and op[1] < ln: return ln - 1
    if t in (10, 11): return ln + 1
    if t in (15, 16) and ln > 0: return ln - 1
    if t == 17 and op[1] <= ln: return ln - op[1]
    if t == 20: return ln + len(op[1])
    return ln


# ---------------------------------------------------------------------------------------------
# PushStack<Item>: elements whose Display text / shallow `==` does not determine them
def lookalike_groups():
    """groups of DIFFERENT items with the SAME Display text (what equal_at compares); within most groups some
    members are also `==` (Item's PartialEq is shallow: same kind) and some are not"""
    from gen.stategen import L, I, N, B, Z, IDX, F, BV, IV, FV
    from gen.pools import fbits
    f = fbits
    nan = [0x7fc00000, 0xffc00000, 0x7fc00001, 0x7fffffff]
    g = [
        [F(f(1.0)), F(f(1.0001)), F(f(1.0004)), F(f(0.99951)), N("1.000"), I("1.000")],
        [F(0x80000000), F(f(-0.0004)), F(f(-1e-30)), N("-0.000")],
        [F(0), F(f(0.0004)), F(1), I("0.000")],
        [F(b) for b in nan] + [N("NaN"), I("NaN")],
        [F(0x7f800000), N("inf"), I("inf")],
        [N("FOO"), I("FOO")],
        [N("INTEGER.+"), I("INTEGER.+")],
        [Z(3), N("3"), I("3")],
        [Z(-2147483648), N("-2147483648")],
        [IDX(3, 5), N("3/5"), I("3/5")],
        [B(True), N("TRUE"), I("TRUE")],
        [L(), N("(  )"), I("(  )")],
        [L(Z(1), Z(2)), L(N("1"), Z(2)), L(Z(1), I("2")), N("( 1 2 )"), L(N("1 2"))],
        [L(F(f(1.0001)), N("FOO")), L(F(f(1.0004)), I("FOO")), L(F(f(1.0)), N("FOO")), L(N("1.000 FOO")), L(N("1.000"), N("FOO"))],
        [L(L(F(f(2.5)), L()), Z(7)), L(L(F(f(2.5001)), L()), Z(7)), L(L(F(f(2.5)), L()), N("7")), L(L(N("2.500"), L()), Z(7))],
        [L(L(Z(1)), Z(2)), L(N("( 1 )"), Z(2)), L(L(Z(1)), N("2"))],
        [IV([1, 2]), N("[1,2]"), I("[1,2]")],
        [FV([f(1.0001), f(2.0)]), FV([f(1.0004), f(2.0)]), FV([f(1.0), f(2.0004)]), N("[1.000,2.000]")],
        [FV([nan[0]]), FV([nan[1]]), FV([nan[2]]), N("[NaN]")],
        [BV([True, False]), N("[TRUE,FALSE]")],
        [IV([]), BV([]), FV([]), N("[]"), I("[]")],
        # items whose text is empty or begins / ends with blank characters: the listing is trimmed as a whole only
        [N(""), I(""), N(" "), N("  ")],
        [N(" a"), N("a "), N("a"), I("a")],
        [L(N(""), Z(1)), L(N(" "), Z(1)), L(Z(1), N(""))],
    ]
    return g


def item_alphabet(vals, maxpos=2):
    """every operation of the API with elements from vals (replace with every one of them at every position)"""
    ops = [[0], [1], [4], [8], [15], [16]]
    ops += [[2, a] for a in vals]
    ops += [[3, i, a] for i in range(2) for a in vals]
    ops += [[6, i, a] for i in range(maxpos + 1) for a in vals]
    for tag in (7, 9, 12, 13, 17, 18, 19):
        ops += [[tag, i] for i in range(maxpos + 1)]
    ops += [[10, a] for a in vals] + [[11, a] for a in vals]
    ops += [[14, i, j] for i in range(2) for j in range(2)]
    ops += [[20, list(vals[:2])]]
    return ops


def item_streams(rng, tier):
    out = []
    groups = lookalike_groups()
    # (a) every ordered pair of look-alikes: replace one by the other at every position of a 1..3 element stack and
    #     read the element back in every way the API offers
    cases = []
    k = 0
    for g in groups:
        for a in g:
            for b in g:
                if a is b:
                    continue
                for init, i in (([a], 0), ([b, a], 0), ([a, b], 1), ([b, a, b], 1)):
                    ops = [[6, i, b], [9, i], [18, i], [3, i, b], [3, i, a], [1], [19, len(init)], [12, i], [16]]
                    cases.append(sx_str([k % 2, [], init, ops])); k += 1
    out.append(Stream("item-lookalike-pairs", "stackitem", "stackitem.check", cases,
                      "PushStack<Item>: for every ordered pair (a, b) of different items with the same Display text (%d groups: floats equal to 3 decimals, -0.0 / tiny negatives, NaN payloads, "
                      "name vs instruction vs literal with the same text, lists / vectors that differ only in such members, empty vectors of the three kinds) replace a by b at each position of a 1..3 element stack, "
                      "then get/get_mut, copy, equal_at, to_string, copy_vec, yank, pop; elements reported structurally" % len(groups)))
    # (b) all histories up to length 2 over the whole API, elements = three look-alikes
    trip = [[g[0], g[1], g[-1]] for g in groups if len(g) >= 3]
    if tier == "quick":
        trip = [trip[j] for j in sorted(rng.sample(range(len(trip)), 4))]
    cases = []
    for t in trip:
        alpha = item_alphabet(t)
        for init in ([t[0]], [t[1], t[0], t[2]]):
            for d in (1, 2):
                for ops in itertools.product(alpha, repeat=d):
                    cases.append(sx_str([(len(cases)) % 2, [], init, list(ops)]))
    out.append(Stream("item-exhaustive<=2", "stackitem", "stackitem.check", cases,
                      "PushStack<Item>: all histories up to length 2 over %d operations (positions 0..2) whose elements are three look-alike items, on stacks of 1 and 3 such items; %d triples%s"
                      % (len(item_alphabet(trip[0])), len(trip), " (a seeded sample of the groups)" if tier == "quick" else "")))
    # (c) long random histories: elements drawn from one or two groups (collisions are the rule, not the exception),
    #     replace / get / copy / pop favoured
    n = {"quick": 400, "thorough": 4000, "search": 4000}[tier]
    tags = [0, 1, 2, 3, 3, 4, 6, 6, 6, 6, 6, 7, 8, 9, 9, 9, 10, 10, 10, 11, 11, 12, 13, 14, 15, 16, 16, 17, 18, 18, 19, 20]
    cases = []
    for k in range(n):
        pool = [x for g in rng.sample(groups, rng.choice([1, 1, 2, 3])) for x in g]
        val = lambda: rng.choice(pool)
        ln = rng.randrange(0, 6)
        init = [val() for _ in range(ln)]
        ops = []
        for _ in range(120):
            op = rand_op(rng, ln, val, tags + ([5] if rng.random() < 0.03 else []))
            ops.append(op)
            ln = sim_len(ln, op)
        cases.append(sx_str([k % 2, [], init, ops]))
    out.append(Stream("item-random120", "stackitem", "stackitem.check", cases,
                      "PushStack<Item>: random histories of 120 operations, elements drawn from 1..3 look-alike groups, replace / get / copy / pop favoured, positions concentrated at the boundary"))
    return out


def streams(seed, tier):
    rng = random.Random(seed)
    out = []
    # exhaustive short histories over the whole API, positions in [0, len+2]
    depth = {"quick": 2, "thorough": 3, "search": 2}[tier]
    inits = [[], [1], [1, 2], [1, 2, 1]] if tier != "thorough" else [[], [1, 2], [1, 2, 1]]
    alpha = alphabet(5 if tier != "thorough" else 4, [1, 2, 3])
    cases = []
    for prof in (0, 1):
        for init in inits:
            for d in range(1, depth + 1):
                if d == 3 and prof == 1:
                    continue
                for ops in itertools.product(alpha, repeat=d):
                    cases.append(sx_str([prof, init, list(ops)]))
    out.append(Stream("exhaustive<=%d" % depth, "stack", "stack.check", cases,
                      "all histories up to length %d over %d operations (positions 0..len+2) on stacks of 0..3 elements, both profiles" % (depth, len(alpha))))
    # long random histories
    n = {"quick": 300, "thorough": 3000, "search": 3000}[tier]
    cases = []
    for k in range(n):
        ln = rng.randrange(0, 6)
        init = [rng.randrange(-5, 5) for _ in range(ln)]
        ops = []
        for _ in range(200):
            op = rand_op(rng, ln)
            ops.append(op)
            ln = sim_len(ln, op)
        cases.append(sx_str([k % 2, init, ops]))
    out.append(Stream("random200", "stack", "stack.check", cases, "random histories of 200 operations, positions concentrated at the boundary"))
    # positions far outside: `i + 1`, `len - i`, casts to narrower integers must not wrap
    far = [2 ** 64 - 1, 2 ** 64 - 2, 2 ** 63, 2 ** 63 - 1, 2 ** 32, 2 ** 32 + 1, 2 ** 31, 2 ** 32 - 1]
    cases = []
    for prof in (0, 1):
        for init in ([], [1], [1, 2, 3]):
            for p in far:
                ops = [[3, p, 1], [6, p, 9], [7, p], [9, p], [12, p], [13, p], [17, p], [18, p], [19, p], [0], [1]]
                cases.append(sx_str([prof, init, ops]))
                for op in ops[:9]:
                    cases.append(sx_str([prof, init, [op, [0], [1]]]))
    st_far = Stream("far-positions", "stack", "stack.check", cases,
                    "every positional operation at positions 2^31, 2^32-1, 2^32, 2^32+1, 2^63-1, 2^63, 2^64-2, 2^64-1 on stacks of 0 / 1 / 3 elements: absent, never a failure, contents unchanged; "
                    "each call returns at once (a worker that does not answer within 15 s counts as a failure)")
    st_far.timeout = 15
    st_far.per_shard = 12
    out.append(st_far)
    # long stacks: more elements than any print / buffer limit someone might introduce
    cases = []
    for k, n in enumerate([999, 1000, 1001, 1024, 1025, 2500, 4097] if tier != "quick" else [1000, 1001, 2500]):
        init = [(i * 7) % 23 - 11 for i in range(n)]
        ops = [[0], [1], [3, n - 1, init[0]], [3, n - 1, init[-1]], [9, n - 1], [9, n], [12, n - 1], [10, 5], [1], [17, 3], [19, n], [8], [1], [13, n - 2], [7, n - 1], [0], [1]]
        for prof in (0, 1):
            cases.append(sx_str([prof, init, ops]))
    out.append(Stream("long-stacks", "stack", "stack.check", cases, "stacks of 999..4097 elements: size, printing (every element, top first), equality probes and positional operations at the far end"))
    out += item_streams(random.Random(seed + 16), tier)
    return out

TECHNIQUE = "Coq refinement proof (Vec model refines top-first list, induction over operation histories) + exhaustive/random differential correspondence against PushStack<i32> and PushStack<Item>"
DESIGN_REF = "DESIGN.md section 6.C16"
LEVEL_TEXT = ("Machine-checked theorem C16_stack_refines_seq: for every element type, every build profile and every well-formed history over the whole public API, "
              "the Vec-level model (with the real len-(i+1) index arithmetic, usize underflow and Vec index panics modelled) returns normally and yields exactly the outputs and final contents of a plain top-first list; "
              "C16_out_of_range_absent covers absent positions. The model is tied to the code by running every history of length <= 2 (thorough: 3) over 83 operations plus long random histories on both the real PushStack and the extracted model, and by evaluating the specification itself on the implementation's outputs. "
              "Second instance, PushStack<Item> (C16_wf_bg_sound, C16_generic_suite_result_is_spec: the element-generic wire suite prints exactly the specification's run): histories whose elements are different items with the same Display text "
              "(floats equal to 3 decimals, NaN payloads, name vs instruction vs literal of the same text, lists and vectors differing only in such members), every element read back structurally.")
LEVEL_NOTE = "Trusted: Coq kernel, extraction (ExtrOcamlBasic), ocaml/driver.ml, the Rust harness and generators; theorems are closed under the global context (no axioms). The model is hand-written: behaviour outside the generated histories is tied only by the proof-to-model link, not to the code."

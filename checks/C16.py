"""C16 — the generic stack container behaves like a plain sequence."""
import itertools, random
from vcheck import Stream, sx_str

PROPERTY = "C16"
PROPS_VO = "Props/C16"
AXIOMS_OK = []
ASSUMPTIONS = [
    "element type of the correspondence histories is i32 (PushStack<i32>); nested Item elements are exercised through the C08/C03 suites",
    "raw Vec::swap indices out of range are outside the quantifier (Vec's own contract); both sides are still compared there",
]


def alphabet(maxpos, vals):
    ops = [[0], [1], [4], [5], [8], [15], [16]]
    ops += [[2, a] for a in vals]
    ops += [[3, i, a] for i in range(maxpos + 1) for a in vals[:2]]
    ops += [[6, i, 9] for i in range(maxpos + 1)]
    for tag in (7, 9, 12, 13, 17, 18, 19):
        ops += [[tag, i] for i in range(maxpos + 1)]
    ops += [[10, vals[0]], [11, vals[1]]]
    ops += [[14, i, j] for i in range(3) for j in range(3)]
    ops += [[20, []], [20, [vals[0], 8]]]
    return ops


def rand_op(rng, ln):
    tag = rng.choice([0, 1, 2, 3, 4, 6, 7, 8, 9, 10, 10, 10, 11, 11, 12, 13, 14, 15, 16, 17, 18, 19, 20] + ([5] if rng.random() < 0.05 else []))
    pos = lambda: rng.choice([0, 1, 2, ln - 1, ln, ln + 1, ln + 2, rng.randrange(0, ln + 3)]) if ln >= 0 else 0
    pos2 = lambda: max(0, pos())
    val = lambda: rng.choice([0, 1, -1, 7, 2147483647, -2147483648, rng.randrange(-50, 50)])
    if tag in (0, 1, 4, 5, 8, 15, 16): return [tag]
    if tag == 2: return [2, val()]
    if tag in (3, 6): return [tag, pos2(), val()]
    if tag in (7, 9, 12, 13, 18): return [tag, pos2()]
    if tag in (17, 19): return [tag, rng.choice([0, 1, 2, 3, ln, ln + 1])]
    if tag in (10, 11): return [tag, val()]
    if tag == 14:
        if ln == 0: return [0]
        return [14, rng.randrange(ln), rng.randrange(ln)]
    return [20, [val() for _ in range(rng.randrange(0, 4))]]


def sim_len(ln, op):
    """length bookkeeping so that random positions stay near the boundary"""
    t = op[0]
    if t == 5: return 0
    if t in (7,) and op[1] < ln: return ln - 1
    if t in (10, 11): return ln + 1
    if t in (15, 16) and ln > 0: return ln - 1
    if t == 17 and op[1] <= ln: return ln - op[1]
    if t == 20: return ln + len(op[1])
    return ln


def streams(seed, tier):
    rng = random.Random(seed)
    out = []
    # exhaustive short histories over the whole API, positions in [0, len+2]
    depth = {"quick": 2, "thorough": 3, "search": 2}[tier]
    inits = [[], [1], [1, 2], [1, 2, 1]] if tier != "thorough" else [[], [1, 2], [1, 2, 1]]
    alpha = alphabet(5 if tier != "thorough" else 4, [1, 2, 3])
    cases = []
    for prof in (0, 1):
        for init in inits:
            for d in range(1, depth + 1):
                if d == 3 and prof == 1:
                    continue
                for ops in itertools.product(alpha, repeat=d):
                    cases.append(sx_str([prof, init, list(ops)]))
    out.append(Stream("exhaustive<=%d" % depth, "stack", "stack.check", cases,
                      "all histories up to length %d over %d operations (positions 0..len+2) on stacks of 0..3 elements, both profiles" % (depth, len(alpha))))
    # long random histories
    n = {"quick": 300, "thorough": 3000, "search": 3000}[tier]
    cases = []
    for k in range(n):
        ln = rng.randrange(0, 6)
        init = [rng.randrange(-5, 5) for _ in range(ln)]
        ops = []
        for _ in range(200):
            op = rand_op(rng, ln)
            ops.append(op)
            ln = sim_len(ln, op)
        cases.append(sx_str([k % 2, init, ops]))
    out.append(Stream("random200", "stack", "stack.check", cases, "random histories of 200 operations, positions concentrated at the boundary"))
    return out

TECHNIQUE = "Coq refinement proof (Vec model refines top-first list, induction over operation histories) + exhaustive/random differential correspondence against PushStack<i32>"
DESIGN_REF = "DESIGN.md section 6.C16"
LEVEL_TEXT = ("Machine-checked theorem C16_stack_refines_seq: for every element type, every build profile and every well-formed history over the whole public API, "
              "the Vec-level model (with the real len-(i+1) index arithmetic, usize underflow and Vec index panics modelled) returns normally and yields exactly the outputs and final contents of a plain top-first list; "
              "C16_out_of_range_absent covers absent positions. The model is tied to the code by running every history of length <= 2 (thorough: 3) over 83 operations plus long random histories on both the real PushStack and the extracted model, and by evaluating the specification itself on the implementation's outputs.")
LEVEL_NOTE = "Trusted: Coq kernel, extraction (ExtrOcamlBasic), ocaml/driver.ml, the Rust harness and generators; theorems are closed under the global context (no axioms). The model is hand-written: behaviour outside the generated histories is tied only by the proof-to-model link, not to the code."

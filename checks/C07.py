"""C07 — names: definition, lookup and quoting behave as documented for every type."""
import random
import vcheck
from vcheck import Stream, sx_parse, sx_str
from gen.stategen import *
from gen.pools import fbits, rand_i32, rand_f32

PROPERTY = "C07"
PROPS_VO = "Props/C07"
AXIOMS_OK = []
NAMES = ["X", "Y", "Z9"]
TYPES = ["BOOLEAN", "INTEGER", "FLOAT", "CODE", "EXEC", "BOOLVECTOR", "INTVECTOR", "FLOATVECTOR"]


def value(rng, T):
    if T == "BOOLEAN": return [B(rng.random() < 0.5)]
    if T == "INTEGER": return [Z(rng.randrange(-9, 10))]
    if T == "FLOAT": return [F(rng.choice([fbits(rng.randrange(-8, 9) / 2.0), fbits(1.0), fbits(1.0004), fbits(0.0), fbits(0.0001), 0x80000000, 0x7fc00000, 0xffc00000, fbits(2.0)]))]
    if T == "BOOLVECTOR": return [BV([rng.random() < 0.5 for _ in range(rng.randrange(0, 3))])]
    if T == "INTVECTOR": return [IV([rng.randrange(0, 9) for _ in range(rng.randrange(0, 3))])]
    if T == "FLOATVECTOR": return [FV([fbits(float(rng.randrange(0, 4))) for _ in range(rng.randrange(0, 3))])]
    body = rng.choice([Z(rng.randrange(0, 50)), L(Z(1), Z(2), I("INTEGER.+")), B(True), L(), N(rng.choice(NAMES)), L(N(rng.choice(NAMES)), Z(5))])
    if rng.random() < 0.06:      # a LARGE value: more points than any configured point limit
        k = rng.choice([99, 100, 101, 130, 300])
        body = L(*[rng.choice([Z(i % 5), I("NOOP"), N("q")]) for i in range(k)])
    if T == "CODE": return [I("CODE.QUOTE"), body]
    return []      # EXEC.DEFINE takes the next EXEC item itself


def op(rng, modelled):
    k = rng.random()
    n = rng.choice(NAMES) if rng.random() < 0.93 else rng.choice(["NOOP", "INTEGER.+", "TRUE", " x", ""])    # names no parser produces, the API does
    if k < 0.4:                      # define: value, quoted name, T.DEFINE
        T = rng.choice([t for t in TYPES if t + ".DEFINE" in modelled])
        items = value(rng, T) + [I("NAME.QUOTE"), N(n), I(T + ".DEFINE")]
        if T == "EXEC":
            # the bound item may itself be a (bound or unbound) name: an alias, resolved at USE time
            items.append(rng.choice([Z(rng.randrange(0, 50)), L(Z(3), I("INTEGER.DUP")), B(False), N(rng.choice(NAMES)), N(rng.choice(NAMES)), L(N(rng.choice(NAMES))),
                                     L(*[Z(i % 5) for i in range(rng.choice([99, 100, 101, 200]))])]))
        return items
    if k < 0.43:                     # define with NOTHING on the typed stack: the name is consumed, an existing binding of it stays
        T = rng.choice([t for t in TYPES if t + ".DEFINE" in modelled and t not in ("EXEC", "CODE")])
        return [I(T + ".FLUSH")] * (1 if T + ".FLUSH" in modelled else 0) + [I("NAME.QUOTE"), N(n), I(T + ".DEFINE"), N(n)]
    if k < 0.46:                     # a bare NAME.QUOTE / a bare DEFINE that takes whatever name waits on the NAME stack
        T = rng.choice([t for t in TYPES if t + ".DEFINE" in modelled and t != "EXEC"])
        return rng.choice([[I("NAME.QUOTE")], value(rng, T) + [I(T + ".DEFINE")], [I("NAME.QUOTE")] + value(rng, T) + [I(T + ".DEFINE")]])
    if k < 0.75: return [N(n)]                                  # use
    if k < 0.85: return [I("NAME.QUOTE"), rng.choice([Z(1), L(Z(2)), I("NOOP")]), N(n)]   # quote survives non-identifiers
    if k < 0.92: return [I("NAME.QUOTE"), N(n), I("CODE.DEFINITION")]
    return [rng.choice([Z(7), I("INTEGER.DUP"), I("NAME.DUP"), I("NAME.POP"), N("unbound")])]


def streams(seed, tier):
    rng = random.Random(seed)
    modelled = set("".join(chr(c) for c in n) for n in sx_parse(vcheck.run_model(["names (0)"])[0])[1])
    n = {"quick": 2500, "thorough": 30000, "search": 20000}[tier]
    cases = []
    for _ in range(n):
        prog = []
        for _ in range(rng.randrange(1, 12)):
            prog += op(rng, modelled)
        # 15%: a NAME.QUOTE is already pending when the program starts (the previous program on this state ended with one)
        cases.append(case_run(rng.randrange(2), state(exec=[L(*prog)], quote=rng.random() < 0.15, bind=([("X", F(fbits(1.0)))] if rng.random() < 0.2 else [])), 1, 0))
    one = []
    for k, t in enumerate(["( NAME.QUOTE NAME.RANDBOUNDNAME X X )", "( NAME.RANDBOUNDNAME NAME.QUOTE X X )", "( NAME.QUOTE NAME.RANDBOUNDNAME 1 X )", "( NAME.RANDBOUNDNAME X )",
                           "( NAME.QUOTE NAME.RANDBOUNDNAME NAME.DUP X 9 INTEGER.DEFINE X )", "( NAME.RANDBOUNDNAME CODE.DEFINITION NAME.QUOTE NAME.RANDBOUNDNAME X )"]):
        for v in (Z(7), L(Z(1), Z(2)), N("X")):
            for q in (False, True):
                cc = list(DEFAULT_CFG); cc[4] = 40
                one.append(case_run(k % 2, state(exec=parse_prog(t, modelled), bind=[("X", v)], quote=q, cfg=cc), 1, 0))
    extra_streams = [Stream("single-binding-randboundname", "run", "run.check", one,
                            "programs around NAME.RANDBOUNDNAME with exactly ONE binding (the draw is then determined): it pushes the bound name and leaves a pending NAME.QUOTE pending")]
    return text_streams(seed, tier) + extra_streams + [Stream("define-use-quote", "run", "run.check", cases,
                   "random interleavings (1..11 operations) of define / use / quote / redefine / CODE.DEFINITION over 8 value types x 3 names (values include bare names: aliases), executed as programs by run(); whole final state compared (typed stacks, NAME, name_bindings sorted, quote_name)")]


def text_streams(seed, tier):
    """define / use / quote programs given as TEXT with names the lexical rules must leave alone (dotted upper-case, brackets, underscores)"""
    rng = random.Random(seed + 7)
    odd = ["POINT.X", "MY.VAR", "A.B", "x[3]", "in_f", "_7", "p(1"]
    cases = []
    for k in range({"quick": 300, "thorough": 3000, "search": 1000}[tier]):
        a, b = rng.sample(odd, 2)
        toks = rng.choice([[a, "7", "INTEGER.DEFINE", a, a], ["NAME.QUOTE", a, "TRUE", "BOOLEAN.DEFINE", a, b], [a, "EXEC.DEFINE", b, a, b],
                           ["CODE.QUOTE", "(", "1", b, ")", "NAME.QUOTE", a, "CODE.DEFINE", "NAME.QUOTE", a, "CODE.DEFINITION", a], [b, a, "NAME.=", a, "NAME.DUP"]])
        text = "( " + " ".join(toks) + " )"
        cases.append(sx_str([k % 2, [], [ord(c) for c in text], state(bind=([(b, Z(3))] if k % 3 == 0 else [])), []]))
    return [Stream("names-in-program-text", "parse.st", "parse.st.check", cases,
                   "define / use / quote programs written as text with names such as POINT.X, MY.VAR, x[3], in_f, _7: the parser hands them to the interpreter as names")]


TECHNIQUE = "Coq theorems about the identifier case of step, the generic DEFINE and the binding table (finite map, last-writer-wins over arbitrary histories; quote flag invariant over non-identifier steps via the footprint theorem) + differential correspondence of define/use/quote programs"
DESIGN_REF = "DESIGN.md section 6.C07"
LEVEL_TEXT = ("Props/C07.v proves for all states: an unbound name goes to NAME; T.DEFINE (one generic definition for all eight value types) binds the name to the top item and touches no other binding; a bound name puts its item on EXEC and a literal returns to its typed stack in the next step; "
              "redefinition replaces (the table refines a finite map with last-writer-wins over any history); NAME.QUOTE's flag survives every non-identifier step (no instruction but NAME.QUOTE writes it: footprint theorem), diverts exactly the next identifier to NAME even when bound, is then clear, and leaves the table unchanged; CODE.DEFINITION returns the binding. "
              "Tie: random interleavings over 8 types x 3 names run by the real interpreter and compared state-for-state (bindings and quote flag included) with the model.")
LEVEL_NOTE = "Trusted: Coq kernel, extraction, driver, harness, generators. The predicate evaluated on the implementation's output is equality with the proven model (run.check). Theorems closed under the global context."

"""C20, instruction part — LIST.NEIGHBOR*IDS / *BVALS / *IVALS / *FVALS (to be merged into checks/C20.py).

`streams(seed, tier)` returns Streams of suite "run" (one interpreter step on a whole PushState) checked by
"run.check" (the implementation's resulting state must equal the proven model's: Props/C20i.v says what that
state is — find_neighbors of the clamped operands, the addressed values of the records that exist).
Sizes stay small: the instructions allocate and scan `size` cells (resource envelope = C15).  Debug-profile
cases carry the powf(d, 2.0) oracle entries they need (harness binary's own libm); anything else the model
asks for is answered by the Need protocol of lib/vcheck.py."""
import random
import vcheck
from vcheck import Stream
from gen.pools import I32, rand_i32, rand_f32, fbits
from gen.stategen import *
from gen import stepgen
from gen.stepgen import powf_sq_table, iroot_ceil, nbr_record, NBR_RADII

PROPS_VO_I = "Props/C20i"
IDS, BVALS, IVALS, FVALS = "LIST.NEIGHBOR*IDS", "LIST.NEIGHBOR*BVALS", "LIST.NEIGHBOR*IVALS", "LIST.NEIGHBOR*FVALS"
VALS = [BVALS, IVALS, FVALS]
R_SQRT2 = 0x3FB504F3
RADII4 = [fbits(0.0), fbits(1.0), R_SQRT2, fbits(2.0)]
SPECIAL_R = [0x7fc00000, fbits(-1.0), 0x80000000, fbits(-0.5), 0x7f800000, 0xff800000, fbits(0.5), fbits(1.2), fbits(1.5), fbits(3.0), fbits(1e-30), 1]

ASSUMPTIONS_I = [
    "LIST.NEIGHBOR*: operand sizes above a few hundred are not generated (the instructions allocate and scan `size` cells: resource envelope, C15); "
    "the theorems of Props/C20i.v are unbounded, their geometric part under the side conditions of C20_nbr_is_geometric_set",
    "LIST.NEIGHBOR*: INTEGER operand order is the code's (top first: [position] size index dimensions), not the doc comment's; "
    "with the INTEGERs present but no FLOAT the INTEGERs are consumed and nothing is pushed (C20i_missing_operands)",
    "LIST.NEIGHBOR*VALS: neighbours beyond the CODE stack are skipped, the vector can be shorter than the neighbourhood; any CODE item counts as a record",
]


def table_bound(size, dims):
    """largest coordinate difference find_neighbors can square for these RAW operands (-1: none)"""
    sz = max(size, 0); dm = max(min(sz, dims), 0)
    return iroot_ceil(sz, min(dm, 64)) - 1 if sz >= 1 and dm >= 1 else -1


def one_case(prof, name, ints, floats, code=(), extra=None):
    """ints / floats top first, the operands in front"""
    st = dict(int=list(ints), float=list(floats), code=list(code), exec=[I(name)])
    if extra: st.update(extra)
    vals = name != IDS
    libm = ()
    if prof == 0 and len(ints) >= (4 if vals else 3) and floats:
        t = ints[1:4] if vals else ints[0:3]
        assert t[0] <= 400, "operand-sized allocation in a generated case"
        b = table_bound(t[0], t[2])
        if b >= 0: libm = powf_sq_table(b)
    return case_run(prof, state(**st), 0, 1, libm=libm)


def int_record(*zs):
    return L(*[Z(z) for z in zs])


def typed_record(k):
    """record k: distinguishable values at positions 0 and 1 of every type"""
    return L(Z(100 + k), B(k % 2 == 0), F(fbits(k + 0.5)), L(Z(-k), B(k % 3 == 0)), F(fbits(-float(k))), N("foo"), Z(7))


def streams(seed, tier):
    rng = random.Random(seed ^ 0xC20)
    out = []
    dec = lambda s: ["".join(chr(c) for c in x) for x in vcheck.sx_parse(s)[1]]
    names = sorted(dec(vcheck.run_impl(["names (0)"])[0]))
    safe = [x for x in names if x not in stepgen.UNSAFE and x not in stepgen.RANDOM and x not in stepgen.ALLOCATING]
    below = dict(ivec=[[5, 6]], bvec=[[True]], fvec=[[fbits(2.5)]], bool=[True], name=["A"])

    # 1. IDS, exhaustive small domain
    cases = []
    smax = {"quick": 12, "thorough": 24, "search": 16}[tier]
    for size in range(0, smax + 1):
        for dims in range(0, 4):
            for index in range(-1, size + 1):
                for k, r in enumerate(RADII4):
                    cases.append(one_case((size + dims + index + k) % 2, IDS, [size, index, dims, 41, 42], [r, fbits(9.0)], extra=below))
    out.append(Stream("ids-exhaustive<=%d" % smax, "run", "run.check", cases,
                      "LIST.NEIGHBOR*IDS on every size 0..%d x dims 0..3 x index -1..size x radii {0,1,sqrt2,2}, profiles alternating; further INTEGERs / FLOATs / vectors below the operands must stay" % smax))

    # 2. IDS: clamps, guards, special radii, missing operands
    cases = []
    k = 0
    for size in (-2147483648, -5, -1, 0, 1, 2, 9, 16, 27, 37, 64, 100, 125):
        for dims in (-2147483648, -1, 0, 1, 2, 3, size - 1, size, size + 1, 64, 65, 2147483647):
            if dims < -2147483648: continue
            for index in (-2147483648, -1, 0, size // 2, size - 1, size, size + 1, 2147483647):
                if not -2147483648 <= index <= 2147483647: continue
                for r in (fbits(1.0), SPECIAL_R[k % len(SPECIAL_R)]):
                    k += 1
                    cases.append(one_case(k % 2, IDS, [size, index, dims], [r]))
    for r in SPECIAL_R + RADII4:
        for (size, index, dims) in ((9, 4, 2), (10, 9, 1), (27, 13, 3), (5, 0, 5)):
            for prof in (0, 1):
                cases.append(one_case(prof, IDS, [size, index, dims, -3], [r, r], extra=below))
    for ints in ([], [9], [9, 4], [4, 2], [9, 4, 2]):
        for floats in ([], [fbits(1.0)]):
            for prof in (0, 1):
                cases.append(one_case(prof, IDS, ints, floats, extra=below))
                cases.append(one_case(prof, IVALS, ints + [7], floats, [typed_record(j) for j in range(4)], extra=below))
                cases.append(one_case(prof, BVALS, ints, floats, [typed_record(j) for j in range(4)], extra=below))
                cases.append(one_case(prof, FVALS, ints, floats, [typed_record(j) for j in range(4)], extra=below))
    out.append(Stream("ids-clamps-guards-missing", "run", "run.check", cases,
                      "negative / zero / oversized size, dims (incl. > size, 64, 65, i32 extremes) and index (i32 extremes), radii NaN / negative / -0 / inf / subnormal, "
                      "0..4 INTEGERs x with / without a FLOAT for all four instructions"))

    # 3. VALS on structured record stacks: every neighbour's record is recognisable
    cases = []
    k = 0
    sizes = {"quick": [0, 1, 2, 4, 9, 12], "thorough": list(range(0, 17)) + [25, 27, 36], "search": list(range(0, 13))}[tier]
    for name in VALS:
        for size in sizes:
            for dims in (1, 2, 3):
                for ncode in sorted(set([0, size // 2, max(size - 1, 0), size, size + 2])):
                    code = [typed_record(j) for j in range(ncode)]
                    for position in (-1, 0, 1, 2, 3):
                        k += 1
                        index = (k * 7) % max(size, 1) if k % 5 else rng.randrange(-2, size + 3)
                        r = [fbits(1.0), R_SQRT2, fbits(2.0), fbits(0.0), fbits(100.0)][k % 5]
                        cases.append(one_case(k % 2, name, [position, size, index, dims, 8], [r], code, extra=below))
    out.append(Stream("vals-structured", "run", "run.check", cases,
                      "the three *VALS instructions on CODE stacks of 0 / size/2 / size-1 / size / size+2 recognisable typed records (nested literals included), "
                      "positions -1..3 (absent value: default), dims 1..3, radii {0,1,sqrt2,2,100}"))

    # 4. random: shaped whole states (gen/stepgen.py: sizes 0..40 and odd ones, dims clamped / oversized / negative, index in / out of range,
    #    radii incl. NaN / negative / inf, CODE stacks of typed records, positions small / negative / extreme, operands missing now and then)
    n = {"quick": 500, "thorough": 6000, "search": 2500}[tier]
    for name in [IDS] + VALS:
        cases = [stepgen.step_case(rng, name, names, safe) for _ in range(n)]
        out.append(Stream("random-%s" % name.split("*")[1].lower(), "run", "run.check", cases,
                          "%d random shaped states for %s, both profiles" % (n, name)))
    # 5. neighbour positions beyond 65535 (release build: no oracle table): positions without a record are skipped, never wrapped
    far = []
    for name in VALS:
        for (size, centre) in ((70000, 65537), (65540, 65536)):
            far.append(one_case(1, name, [0, size, centre, 1], [fbits(1.0)], code=[int_record(10), int_record(20), int_record(30), typed_record(4)]))
    stf = Stream("positions-beyond-65535", "run", "run.check", far, "LIST.NEIGHBOR*BVALS / IVALS / FVALS on a 1-D topology of 70000 positions around position 65537 with 4 records on the CODE stack: nothing is addressed")
    stf.per_shard = 1
    stf.timeout = 600
    out.append(stf)
    return out

"""C19 — LIST records: LIST.ADD / GET / SET / REMOVE / BVAL / IVAL / FVAL."""
import itertools, random
from vcheck import Stream
from gen.pools import I32, rand_i32, rand_f32, fbits
from gen.stategen import *

PROPERTY = "C19"
PROPS_VO = "Props/C19"
AXIOMS_OK = []
ASSUMPTIONS = [
    "the CODE stack holds at most 2^31-1 items (`size() as i32` does not wrap); stated as a hypothesis of the theorems that use the address",
    "the four LIST.NEIGHBOR* instructions belong to C20 (topology) and are not covered here",
    "C19_list_get_restores is about records whose children are all literals; records holding names, instructions or sublists are exercised by the correspondence streams only (their execution is whatever those items do)",
]

IDS = list(range(1, 13))
BAD_IDS = [0, -1, 13, 14, 100, 2147483647, -2147483648, 257, 265, -251, 65546, 256, 261, 4101, -255, 2 ** 16 + 9, 2 ** 24 + 1]
# instructions a record may contain in the few-step streams: all modelled, none allocating / random / spawning
SAFE_INSTR = ["NOOP", "INTEGER.+", "INTEGER.DUP", "INTEGER.SWAP", "BOOLEAN.NOT", "BOOLEAN.AND", "FLOAT.+", "CODE.DUP",
              "EXEC.DUP", "NAME.DUP", "LIST.ADD", "LIST.GET", "LIST.IVAL", "INTEGER.POP"]
NAMES = ["A", "B", "X1", "foo", " pad", "tail ", "in side"]


def lit_atom(rng):
    k = rng.randrange(7)
    if k == 0: return Z(rng.choice([rng.randrange(-5, 6), rand_i32(rng)]))
    if k == 1: return B(rng.random() < 0.5)
    if k == 2: return F(rand_f32(rng))
    if k == 3: return IV([rng.randrange(0, 13) for _ in range(rng.randrange(0, 4))])
    if k == 4: return BV([rng.random() < 0.5 for _ in range(rng.randrange(0, 4))])
    if k == 5: return FV([rand_f32(rng) for _ in range(rng.randrange(0, 3))])
    if rng.random() < 0.25: return IDX(rng.randrange(0, 4), rng.randrange(0, 6))       # an INDEX literal is not an INTEGER value
    return Z(rng.randrange(0, 10))


def literal_record(rng, maxlen=7):
    return L(*[lit_atom(rng) for _ in range(rng.randrange(0, maxlen + 1))])


def record(rng, depth=2, maxlen=6, instr=False):
    """what LIST.ADD can build: literals, names, code (sublists = nested records), optionally instructions"""
    def field():
        k = rng.randrange(10)
        if k < 6: return lit_atom(rng)
        if k == 6: return N(rng.choice(NAMES))
        if k == 7 and depth > 0: return record(rng, depth - 1, maxlen, instr)
        if k == 8 and instr: return I(rng.choice(SAFE_INSTR))
        return Z(rng.randrange(-3, 4))
    return L(*[field() for _ in range(rng.randrange(0, maxlen + 1))])


def code_stack(rng, depth, instr=False):
    return [record(rng, instr=instr) if rng.random() < 0.8 else rng.choice([lit_atom(rng), N(rng.choice(NAMES))])
            for _ in range(depth)]


def id_vector(rng, maxlen=10):
    def one():
        r = rng.random()
        if r < 0.82: return rng.choice(IDS)
        if r < 0.94: return rng.choice(BAD_IDS)
        return rand_i32(rng)
    v = [one() for _ in range(rng.randrange(0, maxlen + 1))]
    if v and rng.random() < 0.3:                       # runs of one id: exhaust a stack
        v += [rng.choice(v)] * rng.randrange(1, 5)
    return v


def source_stacks(rng, maxdepth=3, empty_prob=0.25):
    st = _source_stacks(rng, maxdepth, empty_prob)
    if rng.random() < 0.4:        # some of the names waiting on the NAME stack are BOUND (a record holds the name, not its value)
        st["bind"] = [(n, rng.choice([Z(41), L(Z(1), Z(2)), B(True), F(fbits(2.5))])) for n in rng.sample(NAMES, rng.randrange(1, 3))]
    return st


def _source_stacks(rng, maxdepth=3, empty_prob=0.25):
    d = lambda: 0 if rng.random() < empty_prob else rng.randrange(1, maxdepth + 1)
    return dict(
        bool=[rng.random() < 0.5 for _ in range(d())],
        float=[rand_f32(rng) for _ in range(d())],
        name=[rng.choice(NAMES) for _ in range(d())],
        bvec=[[rng.random() < 0.5 for _ in range(rng.randrange(0, 3))] for _ in range(d())],
        fvec=[[rand_f32(rng) for _ in range(rng.randrange(0, 3))] for _ in range(d())],
        ivec=[[rng.randrange(0, 13) for _ in range(rng.randrange(0, 3))] for _ in range(d())],
        int=[rand_i32(rng) for _ in range(d())],
        index=[(rng.randrange(0, 3), rng.randrange(0, 4)) for _ in range(rng.randrange(0, 2))],
        input=[([1], [True])] if rng.random() < 0.2 else [],
        output=[([2], [False])] if rng.random() < 0.2 else [],
    )


def points(t):
    return 1 + sum(points(c) for c in t[1:]) if t[0] == 0 else 1


def positions(depth):
    return sorted(set([-2147483648, -2, -1, 0, 1, depth - 1, depth, depth + 1, depth + 2, 2147483647] + list(range(depth))))


def ns(size):
    return sorted(set([-2147483648, -2, -1, 0, 1, 2, size - 1, size, size + 1, 2147483647] + list(range(min(size, 6)))))


FULL = dict(bool=[True, False], float=[fbits(1.5), fbits(-2.0)], name=["A", "B"], bvec=[[True], []], fvec=[[fbits(0.5)], []],
            ivec=[[7, 8], [9]], int=[11, 22], code=[N("c1"), L(Z(1), B(True))], index=[(0, 2)],
            input=[([1], [True])], output=[([2], [False])])
SPARSE = dict(bool=[True], float=[], name=[], bvec=[], fvec=[[fbits(0.5)]], ivec=[], int=[5], code=[], index=[])


def one_step(prof, name, st, extra_exec=()):
    st = dict(st)
    st["exec"] = [I(name)] + list(extra_exec) + list(st.get("exec", []))
    return case_run(prof, state(**st), 0, 1)


def streams(seed, tier):
    rng = random.Random(seed)
    big = tier != "quick"
    out = []

    # 1. LIST.ADD / LIST.SET, every id vector of length <= 2 over 0..13 and -1, on a full and a sparse state
    pool = [-1] + list(range(0, 14))
    vectors = [[]] + [[a] for a in pool] + [[a, b] for a in pool for b in pool]
    cases = []
    for prof in (0, 1):
        for base in (FULL, SPARSE):
            for v in vectors:
                st = dict(base); st["ivec"] = [v] + list(base["ivec"])
                cases.append(one_step(prof, "LIST.ADD", st, extra_exec=[N("rest")]))
                if prof == 0:
                    st2 = dict(st); st2["int"] = [1] + list(base["int"])
                    cases.append(one_step(prof, "LIST.SET", st2, extra_exec=[N("rest")]))
    out.append(Stream("ids-exhaustive<=2", "run", "run.check", cases,
                      "LIST.ADD and LIST.SET with every id vector of length <= 2 over the ids -1..13 on a state with all stacks filled and on a sparse state"))

    # 2. LIST.ADD with random id vectors (repeats, runs that exhaust a stack, invalid ids), random source stacks
    cases = []
    for k in range(30000 if big else 6000):
        st = source_stacks(rng)
        st["code"] = code_stack(rng, rng.randrange(0, 4))
        st["exec"] = [rng.choice([N("e"), literal_record(rng), Z(3)]) for _ in range(rng.randrange(0, 3))]
        if rng.random() < 0.95:
            st["ivec"] = [id_vector(rng)] + st["ivec"]
        cases.append(one_step(k % 2, "LIST.ADD", st))
    out.append(Stream("add-random", "run", "run.check", cases,
                      "LIST.ADD: random id vectors up to length 14 with repeated and invalid ids, source stacks of depth 0..3 (a quarter of them empty), nested records on CODE"))

    # 2b. long records: id vectors of 99 .. 300 ids (around and above max_points_in_program = 100), source stacks deep
    #     enough to serve them (and one / a few items short, so that the record ends exactly below / at / above 100 items)
    cases = []
    lit = {1: ("bool", lambda: rng.random() < 0.5), 5: ("float", lambda: rand_f32(rng)), 9: ("int", lambda: rand_i32(rng))}
    lengths = [99, 100, 101, 150, 300]
    k = 0
    for n in lengths:
        for ids in ([1], [5], [9], [1, 5, 9]):
            for depth in (n + 5, n, n - 2):
                for name in ("LIST.ADD", "LIST.SET"):
                    v = [rng.choice(ids) for _ in range(n)]
                    st = dict(code=code_stack(rng, rng.randrange(0, 3)), exec=[N("rest")])
                    for sid in ids:
                        key, draw = lit[sid]
                        st[key] = [draw() for _ in range(depth if len(ids) == 1 else v.count(sid) + depth - n)]
                    st["ivec"] = [v, [9, 9]]
                    if name == "LIST.SET":
                        st["int"] = [rng.randrange(-1, 3)] + list(st.get("int", [7]))
                    cases.append(one_step(k % 2, name, st)); k += 1
    # CODE / EXEC ids: the collected items are themselves records, the new record has many more points than items
    for n in (12, 25, 34, 50, 99, 100, 101):
        for name in ("LIST.ADD", "LIST.SET"):
            for rep in range(3 if big else 2):
                v = [rng.choice([3, 3, 3, 4, 9]) for _ in range(n)]
                st = dict(code=[record(rng, depth=1, maxlen=8) for _ in range(n + 2)],
                          exec=[literal_record(rng) for _ in range(n // 4 + 2)], int=[rng.randrange(-1, 3)] + [rand_i32(rng) for _ in range(n // 3)])
                st["ivec"] = [v]
                cases.append(one_step(k % 2, name, st)); k += 1
    # lengths drawn around the boundary, mixed ids over all twelve stacks
    for _ in range(400 if big else 60):
        n = rng.choice([rng.randrange(90, 112), rng.randrange(95, 106), rng.randrange(112, 400)])
        ids = rng.sample([1, 2, 5, 6, 9, 10, 11], rng.randrange(1, 4))
        v = [rng.choice(ids) for _ in range(n)]
        d = lambda: rng.choice([n + 3, n, n // len(ids) + 10])
        st = dict(bool=[rng.random() < 0.5 for _ in range(d())], float=[rand_f32(rng) for _ in range(d())], int=[rng.randrange(0, 3)] + [rand_i32(rng) for _ in range(d())],
                  name=[rng.choice(NAMES) for _ in range(d())], bvec=[[rng.random() < 0.5] for _ in range(d())], fvec=[[rand_f32(rng)] for _ in range(d())],
                  ivec=[v] + [[rng.randrange(0, 13)] for _ in range(d())], code=code_stack(rng, rng.randrange(0, 3)))
        cases.append(one_step(k % 2, rng.choice(["LIST.ADD", "LIST.ADD", "LIST.SET"]), st)); k += 1
    out.append(Stream("long-records", "run", "run.check", cases,
                      "LIST.ADD and LIST.SET with id vectors of 99 / 100 / 101 / 150 / 300 ids (and random lengths 90..400) over BOOLEAN / FLOAT / INTEGER (single and mixed) and the vector / NAME stacks, "
                      "source stacks holding n+5 / n / n-2 items; 12..101 CODE / EXEC ids whose items are nested records: records of about and above max_points_in_program (100) points"))

    # 3. addresses: REMOVE / GET / SET / BVAL / IVAL / FVAL for CODE depth 0..4 and every boundary position
    cases = []
    for depth in range(0, 5):
        for rep in range(10 if big else 3):
            code = code_stack(rng, depth)
            for pos in positions(depth):
                for name in ("LIST.REMOVE", "LIST.GET"):
                    cases.append(one_step(rng.randrange(2), name, dict(code=code, int=[pos, 4])))
                for v in ([1, 9], [3], [3, 3, 9], [], [4, 11, 3]):
                    st = source_stacks(rng, empty_prob=0.1)
                    st.update(code=code, int=[pos] + st["int"], ivec=[v] + st["ivec"], exec=[N("e1"), Z(2)])
                    cases.append(one_step(rng.randrange(2), "LIST.SET", st))
                for name in ("LIST.BVAL", "LIST.IVAL", "LIST.FVAL"):
                    for n in (-1, 0, 1, 2):
                        cases.append(one_step(rng.randrange(2), name, dict(code=code, int=[n, pos, 4])))
    for name in ("LIST.REMOVE", "LIST.GET", "LIST.SET", "LIST.BVAL", "LIST.IVAL", "LIST.FVAL", "LIST.ADD"):
        for ints in ([], [0]):                                       # missing operands
            cases.append(one_step(0, name, dict(code=[L(Z(1))], int=ints, bool=[True])))
    out.append(Stream("addresses", "run", "run.check", cases,
                      "REMOVE/GET/SET/BVAL/IVAL/FVAL on CODE stacks of depth 0..4 at every position in {MIN,-2..depth+2,MAX}; SET with id vectors that take CODE and EXEC items; missing operands"))

    # 3b. LIST.SET with a record that PRINTS like the one it replaces (floats beyond the 3rd decimal, -0.0 / 0.0, a name that
    #     spells a literal) and LIST.GET / LIST.ADD under small growth caps and with records longer than the default cap
    cases = []
    near = [(fbits(1.0), fbits(1.0004)), (fbits(0.0), fbits(1e-6)), (0, 0x80000000), (fbits(0.5), 0x3f000001), (fbits(2.5), fbits(2.50004)), (0x7fc00000, 0x7fc00000)]
    for old, new in near:
        for prof in (0, 1):
            for pos in (0, 1):
                for (o, n) in ((old, new), (new, old)):
                    code = [L(F(fbits(9.0))), L(F(fbits(9.0)))]
                    code[pos] = L(F(o), Z(3))
                    cases.append(one_step(prof, "LIST.SET", dict(code=code, float=[n, fbits(7.0)], int=[pos, 3, 4], ivec=[[5, 9]], exec=[Z(2)])))
                    code2 = list(code); code2[pos] = L(FV([o, o]))
                    cases.append(one_step(prof, "LIST.SET", dict(code=code2, fvec=[[n, n]], int=[pos], ivec=[[6]], exec=[Z(2)])))
    for k in range(600 if big else 150):          # a drifting cell: repeated updates by a float that moves by 1e-4 per step
        x = rng.uniform(-3, 3)
        prog = []
        for j in range(rng.randrange(2, 7)):
            prog += [F(fbits(x + 1e-4 * j)), IV([5]), Z(0), I("LIST.SET")]
        prog += [Z(0), Z(0), I("LIST.FVAL")]
        cases.append(case_run(k % 2, state(code=[L(F(fbits(x)))], exec=prog), 0, len(prog)))
    for cap in (0, 1, 2, 3, 8, 500):
        for n in ((2, 3, 5, 9, 12) if cap != 500 else (499, 500, 501, 510, 1030)):
            c = list(DEFAULT_CFG); c[6] = cap
            rec = L(*[rng.choice([Z(i), B(i % 2 == 0), F(fbits(float(i)))]) for i in range(n)])
            for prof in (0, 1):
                cases.append(case_run(prof, state(code=[rec], int=[0], exec=[I("LIST.GET")], cfg=c), 0, n + 2))
                cases.append(case_run(prof, state(code=[rec], int=[0], exec=[I("LIST.GET")], cfg=c), 1, 0))
                cases.append(case_run(prof, state(int=[7] * n, bool=[True] * 3, ivec=[[9] * (n - 1) + [1]], exec=[I("LIST.ADD"), Z(0), I("LIST.GET")], cfg=c), 0, n + 4))
    out.append(Stream("lookalike-set-and-caps", "run", "run.check", cases,
                      "LIST.SET replacing a record by one that prints the same (floats equal to 3 decimals, +-0.0, NaN), a cell updated repeatedly by a float drifting 1e-4 per step then read by LIST.FVAL; "
                      "LIST.GET / LIST.ADD with growth_cap 0..8 and with records of 499..1030 items under the default cap (single steps and run())"))

    # 4. n-th value: every n around the number of values of the type, nested records
    cases = []
    for k in range(10000 if big else 2000):
        code = code_stack(rng, rng.randrange(1, 4))
        pos = rng.randrange(-1, len(code) + 1)
        t = code[min(max(pos, 0), len(code) - 1)]
        size = points(t)
        for name in ("LIST.BVAL", "LIST.IVAL", "LIST.FVAL"):
            for n in ns(min(size, 12)):
                cases.append(one_step(k % 2, name, dict(code=code, int=[n, pos], float=[fbits(9.0)], bool=[False])))
    out.append(Stream("nth-value", "run", "run.check", cases,
                      "LIST.BVAL/IVAL/FVAL for every n in {MIN,-2..points+1,MAX} on nested records (depth-first order, defaults when absent)"))

    # 5. LIST.GET followed by execution: records of literals, 2 + n steps (and fewer / more)
    cases = []
    for k in range(10000 if big else 2000):
        depth = rng.randrange(1, 4)
        code = [literal_record(rng) for _ in range(depth)]
        pos = rng.choice(positions(depth))
        n = len(code[min(max(pos, 0), depth - 1)]) - 1
        st = source_stacks(rng)
        st.update(code=code, int=[pos] + st["int"], exec=[I("LIST.GET")] + [rng.choice([N("after"), Z(1)]) for _ in range(rng.randrange(0, 2))])
        if rng.random() < 0.15:   # what follows LIST.GET on EXEC happens to be a copy of the addressed record (or of another one)
            st["exec"] = [I("LIST.GET"), rng.choice([code[min(max(pos, 0), depth - 1)], code[0]])] + st["exec"][1:]
        steps = rng.choice([2 + n, 2 + n, 2 + n, 1, 2, 1 + n, 3 + n])
        cases.append(case_run(k % 2, state(**st), 0, max(steps, 0)))
    out.append(Stream("get-then-execute", "run", "run.check", cases,
                      "LIST.GET on records of literals followed by k interpreter steps, k around 2 + record length"))

    # 6. round trip: ids over literal stacks; LIST.ADD 0 LIST.GET and then the record executes
    cases = []
    lit_ids = [1, 2, 5, 6, 9, 10]
    for k in range(10000 if big else 2000):
        st = source_stacks(rng, maxdepth=4)
        v = [rng.choice(lit_ids) for _ in range(rng.randrange(0, 9))]
        st["ivec"] = [v] + st["ivec"]
        st["code"] = code_stack(rng, rng.randrange(0, 3))
        st["exec"] = [I("LIST.ADD"), Z(0), I("LIST.GET")]
        cases.append(case_run(k % 2, state(**st), 0, 4 + len(v)))
    out.append(Stream("add-get-roundtrip", "run", "run.check", cases,
                      "LIST.ADD 0 LIST.GET with id vectors over the six literal stacks, run to the end: every stack is back as it was, the record stays on CODE"))

    # 7. records holding names, sublists and instructions: a few steps of whatever they do
    cases = []
    for k in range(10000 if big else 2000):
        st = source_stacks(rng)
        st["code"] = code_stack(rng, rng.randrange(1, 4), instr=True)
        st["int"] = [rng.randrange(-1, 4)] + st["int"]
        st["ivec"] = [id_vector(rng, 5)] + st["ivec"]
        st["exec"] = [I(rng.choice(["LIST.GET", "LIST.GET", "LIST.ADD", "LIST.SET"])), I("LIST.GET")]
        cases.append(case_run(k % 2, state(**st), 0, rng.randrange(1, 12)))
    out.append(Stream("mixed-records-few-steps", "run", "run.check", cases,
                      "records with names, nested records and (safe) instructions, 1..11 interpreter steps after LIST.GET / ADD / SET"))
    return out


TECHNIQUE = ("Coq proofs over the instruction model (fold/permutation arguments for LIST.ADD, induction over the record through the real interpreter step for LIST.GET, "
             "induction over the item tree for Item::find) + differential correspondence of single steps and few-step runs against the real interpreter")
DESIGN_REF = "DESIGN.md section 6.C19"
LEVEL_TEXT = ("Machine-checked theorems: C19_list_add_moves_exactly (the record equals one pass over the id vector = occurrence j of id k takes item j of stack k, skipping empty and unknown stacks; "
              "every source stack lost exactly those items; multiset of items conserved), C19_list_get_restores (LIST.GET then 2+n interpreter steps with the real registry push every literal of the record on its own stack, order preserved, record stays), "
              "C19_designate_literal_roundtrip and C19_list_add_get_roundtrip (LIST.ADD 0 LIST.GET and execution restore every stack), C19_list_set_replaces_exactly, C19_list_remove_deletes_exactly, "
              "C19_record_address_clamped, C19_find_nth_spec and C19_list_val_returns_nth (n-th value of the type in preorder or the default). "
              "The model is tied to the code by running every id vector of length <= 2, all boundary positions on CODE stacks of depth 0..4, all n around the number of values, and random few-step runs on both the real interpreter and the extracted model.")
LEVEL_NOTE = ("Trusted: Coq kernel, extraction, ocaml/driver.ml, the Rust harness and generators; theorems are closed under the global context. "
              "LIST.SET is verified for the repaired code (address clamped after the items were taken); the pinned behaviour is kept as list_set_pinned with a refutation example.")

"""C18 — graph memory (API and instruction level: Graph / Node / Edge of src/push/graph.rs)."""
import itertools, random
from vcheck import Stream, sx_str

PROPERTY = "C18"
PROPS_VO = ["Props/C18", "Props/C18i"]
AXIOMS_OK = []
ASSUMPTIONS = [
    "API and instruction level: histories drive Graph's public methods and read its public fields nodes/edges; the GRAPH.* instruction wrappers are covered by the instruction-level part",
    "node ids are process-global counter values: cases name nodes by creation order, results are compared after renaming ids to first-occurrence order; ids 0 and >= 2^40 stand for never-issued ids",
    "HashMap-ordered results (filter, successors, diff entries, final content) are compared sorted by key; Vec-ordered results (incoming edges, predecessors) are compared in order",
    "weights are compared as f32 bit patterns with all NaNs collapsed; 'same weight' in the diff theorem is IEEE == (NaN differs from itself, +0.0 equals -0.0)",
    "the diff text is parsed back into its entries by the harness (f32 Display is not modelled); what the model fixes is the entries, their counts and the emptiness of the diff",
]

F_ONE, F_TWO, F_ZERO, F_NZERO, F_NAN, F_INF, F_NINF, F_HALF, F_TINY = (
    1065353216, 1073741824, 0, 2147483648, 2143289344, 2139095040, 4286578688, 1056964608, 1)
WEIGHTS = [F_ONE, F_TWO, F_ZERO, F_NZERO, F_NAN, F_INF, F_NINF, F_HALF, F_TINY, 3212836864, 1036831949]
NEVER = [-1, 1 << 40, (1 << 64) - 1, (1 << 64) - 7]


def observe(ids, regs=(0, 1)):
    """read-only suffix on register 0 (+ diff against register 1)"""
    ops = [[10, 0], [11, 0], [12, 0, []], [12, 0, [7]], [12, 0, [1, 7, 7]]]
    for i in ids:
        ops += [[6, 0, i], [16, 0, i, []]]
    ops += [[14, 0, ids[0], []], [15, 0, ids[0], []], [14, 0, ids[1], [7]], [15, 0, ids[1], [1]]]
    ops += [[8, 0, a, b] for a in ids[:2] for b in ids[:2]]
    ops += [[13, 0, 1], [13, 1, 0], [13, 0, 0], [10, 1], [11, 1]]
    return ops


def alphabet(ids, weights):
    ops = [[2, 0, 1], [1, 0, 1]]
    ops += [[3, 0, i] for i in ids]
    ops += [[4, 0, a, b, w] for a in ids for b in ids for w in weights]
    ops += [[5, 0, a, b] for a in ids for b in ids]
    ops += [[7, 0, i, 7] for i in ids]
    ops += [[9, 0, a, b, F_TWO] for a in ids for b in ids]
    return ops


def exhaustive(prefix, alpha, depth, suffix, profs):
    cases = []
    for d in range(0, depth + 1):
        for k, ops in enumerate(itertools.product(alpha, repeat=d)):
            cases.append(sx_str([profs[k % len(profs)], 2, prefix + list(ops) + suffix]))
    return cases


def rand_history(rng, length, nregs):
    created = 0
    ops = []

    def nid():
        r = rng.random()
        if created and r < 0.78: return rng.randrange(created)
        if created and r < 0.84: return (1 << 20) + rng.randrange(created)      # a live id + 2^32: never issued, equal to it modulo 2^32
        if r < 0.90: return created + rng.randrange(3)          # not created yet -> never issued
        return rng.choice(NEVER)
    st = lambda: rng.choice([0, 1, 1, 7, 7, -1, 2147483647, -2147483648])
    sts = lambda: [st() for _ in range(rng.choice([0, 0, 1, 1, 2, 3]))]
    w = lambda: rng.choice(WEIGHTS)
    reg = lambda: rng.randrange(nregs) if rng.random() < 0.3 else 0
    for _ in range(length):
        t = rng.choice([2, 2, 2, 3, 4, 4, 4, 4, 4, 5, 5, 6, 7, 7, 8, 9, 9, 10, 11, 12, 13, 13, 14, 15, 16, 1] + ([0] if rng.random() < 0.03 else []))
        if t == 2 and created >= 9: t = 4
        if t == 0: ops.append([0, reg()])
        elif t == 1: ops.append([1, reg(), reg()])
        elif t == 2: ops.append([2, reg(), st()]); created += 1
        elif t in (3, 6): ops.append([t, reg(), nid()])
        elif t in (4, 9): ops.append([t, reg(), nid(), nid(), w()])
        elif t in (5, 8): ops.append([t, reg(), nid(), nid()])
        elif t == 7: ops.append([7, reg(), nid(), st()])
        elif t in (10, 11): ops.append([t, reg()])
        elif t == 12: ops.append([12, reg(), sts()])
        elif t == 13: ops.append([13, reg(), reg()])
        else: ops.append([t, reg(), nid(), sts()])
    return ops


def fanin_history(rng):
    """a destination with 17..40 incoming edges whose origins were NOT added in id order (descending, shuffled, one
    out of place, removed and re-added), then existing edges added again, weights set, origins removed, the clone taken
    before compared by diff, predecessor / neighbour queries.  Register 0 = the graph, register 1 = the clone."""
    k = rng.randrange(17, 41)
    n = k + 1 + rng.choice([0, 0, 1, 3])
    ops = [[2, 0, rng.choice([0, 1, 7, 7, -1])] for _ in range(n)]
    dest = rng.choice([0, n - 1, rng.randrange(n)])
    others = [i for i in range(n) if i != dest]
    origins = sorted(rng.sample(others, k - 1) + [dest] if rng.random() < 0.25 else rng.sample(others, k))   # now and then a self-loop
    order = rng.random()
    if order < 0.4: origins.reverse()                                    # newest node first
    elif order < 0.75: rng.shuffle(origins)
    elif order < 0.9:                                                    # ascending with one origin out of place
        x = origins.pop(rng.randrange(k)); origins.insert(rng.randrange(k), x)
    # else: ascending
    wpool = [w for w in WEIGHTS if w != F_NAN] if rng.random() < 0.85 else WEIGHTS   # a NaN weight differs from itself
    w = lambda: rng.choice(wpool)
    ops += [[4, 0, o, dest, w()] for o in origins]
    if rng.random() < 0.3:          # a second destination with a small fan-in, sharing origins
        d2 = rng.choice(others)
        ops += [[4, 0, o, d2, w()] for o in rng.sample(origins, rng.randrange(1, 6))]
    if rng.random() < 0.3:          # reorder by remove_edge + add_edge
        for o in rng.sample(origins, rng.randrange(1, 4)):
            ops += [[5, 0, o, dest], [4, 0, o, dest, w()]]
            origins.remove(o); origins.append(o)
    readout = lambda: [[11, 0], [14, 0, dest, []], [13, 1, 0], [13, 0, 1]]
    ops += [[1, 0, 1], [10, 0]] + readout()
    # every kind of existing edge is added again: first / last inserted, highest / lowest id, random ones, all
    live = list(origins)
    again = {0: [live[0]], 1: [live[-1]], 2: [max(live)], 3: [min(live)], 4: rng.sample(live, 3), 5: list(live)}[rng.randrange(6)]
    for o in again:
        ops.append([4, 0, o, dest, w()])
    ops += readout()
    for _ in range(rng.randrange(8, 25)):
        if not live: break
        o = rng.choice(live)
        t = rng.choice(["again", "again", "again", "setw", "setw", "getw", "rmnode", "rmnode", "rmedge", "preds", "succs", "neigh", "size", "diff", "addnode"])
        if t == "again": ops.append([4, 0, o, dest, w()])
        elif t == "setw": ops += [[9, 0, o, dest, w()], [8, 0, o, dest]]
        elif t == "getw": ops.append([8, 0, o, dest])
        elif t == "rmnode":
            ops += [[3, 0, o], [11, 0], [14, 0, dest, []]]
            live.remove(o)
            if o == dest: live = []
        elif t == "rmedge":
            ops += [[5, 0, o, dest], [11, 0], [8, 0, o, dest]]
            live.remove(o)
        elif t == "preds": ops.append([14, 0, dest, rng.choice([[], [7], [0, 1], [7, 7]])])
        elif t == "succs": ops.append([15, 0, o, []])
        elif t == "neigh": ops.append([16, 0, rng.choice([dest, o]), rng.choice([[], [7]])])
        elif t == "size": ops += [[10, 0], [11, 0]]
        elif t == "diff": ops += [[13, 1, 0], [13, 0, 1]]
        else:
            ops += [[2, 0, 7], [4, 0, n, dest, w()]]; live.append(n); n += 1
    ops += [[10, 0]] + readout() + [[16, 0, dest, []], [10, 1], [11, 1]]
    return ops


def api_streams(seed, tier):
    rng = random.Random(seed)
    out = []
    profs = [0, 1]
    # (a) two nodes named by creation order (a name not created yet is a never-issued id, a removed one is stale)
    d2 = {"quick": 4, "thorough": 5, "search": 4}[tier]
    a2 = alphabet([0, 1], [F_ONE])
    out.append(Stream("exhaustive2<=%d" % d2, "graph", "graph.check", exhaustive([], a2, d2, observe([0, 1, -1]), profs),
                      "all histories up to length %d over %d mutating operations (add/remove node, add/remove edge, set state/weight, clone) on node names {first, second created} from the empty graph, followed by a fixed read-out (sizes, filters, states, weights, predecessors, successors, neighbours, diffs against the clone)" % (d2, len(a2))))
    # (b) three ids: two live nodes + one never-issued id, NaN and -0.0 weights
    d3 = {"quick": 3, "thorough": 3, "search": 3}[tier]
    a3 = alphabet([0, 1, 2, -1], [F_NAN, F_NZERO])
    pre = [[2, 0, 1], [2, 0, 7], [2, 0, 7], [4, 0, 0, 1, F_ZERO], [4, 0, 2, 1, F_HALF], [1, 0, 1]]
    out.append(Stream("exhaustive3<=%d" % d3, "graph", "graph.check", exhaustive(pre, a3, d3, observe([0, 1, 2]), profs),
                      "all histories up to length %d over %d operations on three live nodes + a never-issued id, weights NaN / -0.0, starting from a 3-node 2-edge graph with a clone" % (d3, len(a3))))
    # (c) long random histories over three registers
    n = {"quick": 2000, "thorough": 20000, "search": 20000}[tier]
    cases = [sx_str([k % 2, 3, rand_history(rng, 100, 3) + observe([0, 1, 2])]) for k in range(n)]
    out.append(Stream("random100", "graph", "graph.check", cases,
                      "random histories of 100 operations over 3 graph registers (clone / diff between registers), up to 9 nodes, valid / stale / never-issued ids, weights from a pool incl. 0.0, -0.0, NaN, +-inf, subnormal"))
    # (d) large fan-in: the incoming-edge list of one destination holds 17..40 edges in non-id order
    n = {"quick": 200, "thorough": 3000, "search": 3000}[tier]
    frng = random.Random(seed + 18)
    cases = [sx_str([k % 2, 2, fanin_history(frng)]) for k in range(n)]
    out.append(Stream("fan-in17..40", "graph", "graph.check", cases,
                      "graphs of 18..44 nodes in which one destination has 17..40 incoming edges inserted in descending / shuffled / nearly ascending / ascending origin-id order (now and then a self-loop, a second destination, "
                      "remove_edge + add_edge reordering); then existing edges are added again (first / last inserted, highest / lowest id, random, all), weights set and read, origins and edges removed, nodes added, "
                      "with edge counts, predecessors, successors, neighbours and the diff against the clone taken before read after each step"))
    return out


TECHNIQUE = "Coq invariant + refinement proof (HashMap/Vec model of Graph refines a set-based graph, induction over operation histories) + exhaustive/random differential correspondence against pushr::push::graph::Graph (API and instruction level)"
DESIGN_REF = "DESIGN.md section 6.C18"
LEVEL_TEXT = ("API and instruction level. Machine-checked theorems over the Gallina model of Graph/Node/Edge (nodes and incoming-edge lists as key-sorted association lists, the global node counter explicit): "
              "C18_graph_inv (after every history from empty graphs every edge joins two existing nodes, no destination list holds two edges from one origin, no duplicate node or destination keys), "
              "C18_graph_refines_spec (counts, states, weights, filter / predecessor / successor / neighbour results equal those of a set-based graph along every history), "
              "C18_clone_is_snapshot, C18_diff_empty_iff_same (diff is None exactly when nodes, states, edges agree and weights are IEEE-== equal; a NaN weight differs from itself), C18_pred_succ_neighbour_sets. "
              "The model is tied to the code by running all short histories, long random histories and histories on graphs with a fan-in of 17..40 (edges inserted out of id order, existing edges added again) on the real Graph and on the extracted model, and by evaluating the set-based specification and the invariant on the implementation's own outputs and final contents."
              " Instruction level (Props/C18i.v): GRAPH.DUP snapshots are never altered by later GRAPH.* programs, the HISTORY instructions read exactly the k-th newest snapshot, stale / negative / huge ids only consume operands, every GRAPH.* name applies the corresponding API function with the documented operand order, and the structural invariant is preserved by every instruction and every GRAPH.* program; tied by single-step, program and DUP-depth (up to 101) streams on the real interpreter, HashMap-ordered results compared as sets.")
LEVEL_NOTE = "API and instruction level only in this part. Trusted: Coq kernel, extraction (ExtrOcamlBasic), ocaml/driver.ml, the Rust harness (incl. its strict parser of the diff text and the id renaming) and generators; Flocq's binary32 comparison instantiates f32 `==` in the extracted model only (theorems are parametric in FloatOps and closed under the global context). Behaviour outside the generated histories is tied only by the proof-to-model link."


def streams(seed, tier):
    from checks import C18i_streams as C18i
    return api_streams(seed, tier) + C18i.streams(seed, tier)

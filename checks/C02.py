"""C02 — the run loop honours step, growth and time limits and reports the right outcome."""
import random, subprocess, time, os
import vcheck
from vcheck import Stream, sx_parse
from gen.stategen import *
from gen import stepgen, proggen

PROPERTY = "C02"
PROPS_VO = "Props/C02"
AXIOMS_OK = []
ASSUMPTIONS = ["wall clock: the decision logic is proved for EVERY clock function; that std::time::Instant advances is observed by the runtime test 'time-limit' only (a diverging program must return TimeLimitExceeded promptly)",
               "eval_push_limit in [-1, L]: with eval_push_limit = i32::MAX the i32 step counter would overflow after 2^31 steps (outside the stated quantifier)"]


def names():
    dec = lambda s: ["".join(chr(c) for c in x) for x in sx_parse(s)[1]]
    modelled = set(dec(vcheck.run_model(["names (0)"])[0]))
    safe = sorted(n for n in modelled if n not in stepgen.UNSAFE and n not in stepgen.RANDOM and n not in stepgen.ALLOCATING
                  and not n.startswith("GRAPH."))
    return modelled, safe


def cfg(limit, cap):
    c = list(DEFAULT_CFG); c[4] = limit; c[6] = cap
    return c


def streams(seed, tier):
    rng = random.Random(seed)
    modelled, safe = names()
    limits = [-1, 0, 1, 2, 3, 5, 17, 100] + ([1000] if tier != "quick" else [])
    caps = [0, 1, 2, 500]
    cases = []
    for text in proggen.DIVERGING + proggen.TERMINATING + proggen.EXPLODING:
        prog = parse_prog(text, modelled)
        for lim in (limits if text not in proggen.EXPLODING else [l for l in limits if l <= 17]):
            for cap in caps:
                cases.append(case_run(rng.randrange(2), state(exec=prog, int=[4], cfg=cfg(lim, cap)), 1, 0))
    # every stack counts for the growth cap: instructions whose net growth comes from one particular stack
    grow = ["( INPUT.READ )", "( INPUT.READ INPUT.READ )", "( 1 2 3 )", "( TRUE FALSE )", "( 1.5 2.5 )", "( A B )", "( INT[1] INT[2] )", "( BOOL[1] BOOL[0] )", "( FLOAT[1.0] FLOAT[2.0] )",
            "( CODE.QUOTE A CODE.QUOTE B )", "( INPUT.READ BOOLVECTOR.DUP BOOLVECTOR.DUP )", "( 1 FOO.BAR 2 INTEGER.+ )"]
    for cap in (0, 1):
        for lim in (3, 100):
            for prog in ([IDX(1, 2), L(Z(1), Z(2))], [IDX(0, 0), IDX(1, 1), L(Z(1), Z(2), Z(3))], [L(IDX(1, 2), Z(1)), L(Z(1), Z(2))]):
                cases.append(case_run(rng.randrange(2), state(exec=prog, cfg=cfg(lim, cap)), 1, 0))
    for text in grow:
        prog = parse_prog(text, modelled)
        for cap in (0, 1, 2):
            for lim in (3, 100):
                cases.append(case_run(rng.randrange(2), state(exec=prog, input=[([1], [True, False]), ([2], [False])], cfg=cfg(lim, cap)), 1, 0))
    out = [Stream("limit-grid", "runacct", "runacct.check", cases,
                  "diverging (EXEC.Y), exploding (DUP+LIST/CAT) and terminating programs x eval_push_limit in %s x growth_cap in %s" % (limits, caps))]
    n = {"quick": 1500, "thorough": 20000, "search": 10000}[tier]
    cases = []
    for _ in range(n):
        st = stepgen.rand_state(rng, safe, safe, maxdepth=3)
        st["exec"] = proggen.rand_program(rng, safe, 30)
        if rng.random() < 0.06:      # a LONG program (more points than any configured point limit), mostly literals
            k = rng.choice([99, 100, 101, 150, 400, 1100])
            body = [rng.choice([Z(i % 7), B(i % 2 == 0), I("NOOP"), I("INTEGER.+"), I("INTEGER.POP")]) for i in range(k)]
            st["exec"] = rng.choice([[L(*body)], body, [L(*body[:k // 2]), L(*body[k // 2:])]])
        if rng.random() < 0.06:      # the CODE stack already holds the program (a host that copied it itself, a second run on the same state)
            st["code"] = list(st["exec"])
        if rng.random() < 0.1:       # an instruction item whose name is not registered is skipped like a NOOP
            st["exec"] = list(st["exec"]) + [I("FOO.BAR")] if rng.random() < 0.5 else [I("FOO.BAR")] + list(st["exec"])
        if rng.random() < 0.05:      # nothing to run: a step on an empty EXEC stack reports completion and changes nothing
            st["exec"] = []
        st["cfg"] = cfg(rng.choice(limits + [30, 60]), rng.choice(caps + [3, 8]))
        st = stepgen.tame_ints(st)
        cases.append(case_run(rng.randrange(2), state(**st), 1, 0))
    out.append(Stream("random-programs", "runacct", "runacct.check", cases,
                      "random RAND-free programs (<= 3 top-level items, <= 30 points each; 6% long programs of 99..1100 points; 5% empty EXEC) over the modelled registry from random initial states (10% with a pending NAME.QUOTE flag), random limits"))
    return out


def extra(ctx):
    """runtime behaviour the model cannot exhibit: the wall clock really advances"""
    t0 = time.time()
    modelled, _ = names()
    prog = parse_prog("( EXEC.Y NOOP )", modelled)
    viol = 0
    for tl in (0, 30):
        c = list(DEFAULT_CFG); c[4] = 2147483647; c[5] = tl; c[6] = 500
        line = "run " + case_run(1, state(exec=prog, cfg=c), 1, 0)
        t = time.time()
        r = vcheck.run_impl([line], timeout=60)[0]
        dt = time.time() - t
        ok = r.startswith("(0 (2 ") and dt < tl / 1000.0 + 5.0
        ctx.evaluations += 1
        ctx.stats.setdefault("time-limit", {"cases": 0, "note": "( EXEC.Y NOOP ) with eval_push_limit = i32::MAX and eval_time_limit in {0, 30} ms must return TimeLimitExceeded within the limit + 5 s"})["cases"] += 1
        if not ok:
            ctx.violation("run() does not honour the wall-clock limit", {"property": "C02", "kind": "runtime", "suite": "run", "case": line.split(" ", 1)[1], "impl_output": r[:200], "seconds": dt})


    # a program of few, slow steps: the limit must be noticed at the first step boundary after it has passed
    limit_ms, nsteps = 2, 40
    for prof in (0, 1):
        n, res = 1 << 20, None
        while True:
            line = "slowrun (%d () %d %d %d)" % (prof, nsteps, limit_ms, n)
            r = vcheck.run_impl([line], timeout=120)[0]
            try:
                v = sx_parse(r)
                res = v[1] if v[0] == 0 else None
            except Exception:
                res = None
            if res is None or res[3] >= 4 * limit_ms * 1000 or n >= (1 << 27):
                break
            n *= 2
        ctx.evaluations += 1
        st = ctx.stats.setdefault("time-limit-slow-steps", {"cases": 0, "note": "%d x INTVECTOR.SUM on a vector sized so that ONE step takes >= %d ms (measured), eval_time_limit = %d ms: run() must return TimeLimitExceeded after at most 3 steps" % (nsteps, 4 * limit_ms, limit_ms), "runs": []})
        st["cases"] += 1
        st["runs"].append({"profile": prof, "elements": n, "result": res})
        if res is None:
            ctx.violation("slow-step run did not return", {"property": "C02", "kind": "runtime", "suite": "slowrun", "case": line.split(" ", 1)[1], "impl_output": r[:200]})
        elif res[3] < 4 * limit_ms * 1000:
            st["note"] += " (profile %d: a step never reached %d ms, not judged)" % (prof, 4 * limit_ms)
        elif not (res[0] == 2 and nsteps - res[1] <= 3):
            ctx.violation("run() ran %d slow steps (each >= %d us) past a %d ms limit, outcome %d" % (nsteps - res[1], res[3], limit_ms, res[0]),
                          {"property": "C02", "kind": "runtime", "suite": "slowrun", "case": line.split(" ", 1)[1], "impl_output": r[:200]})


    # ... and a limit longer than one second is a limit too
    vcheck.long_time_limit(ctx, "C02")


TECHNIQUE = "Coq proof that the run loop refines an independent accounting relation over single steps (soundness, fuel sufficiency, determinism, outcome characterisation for every clock) + differential correspondence of run() against the model and against manual step() accounting done by the harness"
DESIGN_REF = "DESIGN.md section 6.C02"
LEVEL_TEXT = ("Props/C02.v: for every program, state, registry whose instructions do not write the configuration, every clock and every limit: run's result is what the single-step accounting relation yields (C02_run_follows_accounting), the accounting is a function, the final state is iter_step j of the start state with j <= limit+1, "
              "StepLimit exactly when limit+1 steps were used and never for a program that finishes earlier, NoErrors only with EXEC empty, GrowthCap only when the last step grew the state by more than growth_cap, TimeLimit only when the clock passed the limit; a step on empty EXEC changes nothing. "
              "Tie to the code: PushInterpreter::run is compared with the extracted model and with an accounting loop written in the harness (own counter, own size comparison) on a limit grid and random programs; the wall clock is a runtime test.")
LEVEL_NOTE = "Trusted: Coq kernel, extraction, driver, harness (incl. its accounting loop), generators. Time limit: logic proved for all clocks, Instant observed at run time only (partial). Theorems closed under the global context."

"""C12 — random code has the requested size and allowed leaves."""
import math, random
import vcheck
from vcheck import Stream, sx_str, sx_parse
from gen.stategen import state, S
from gen.pools import fbits
from gen.randgen import *

PROPERTY = "C12"
PROPS_VO = ["Props/C12", "Props/C12f"]
AXIOMS_OK_BY_FILE = {"Props/C12f": vcheck.FLOCQ_AXIOMS}
AXIOMS_OK = []
ASSUMPTIONS = [
    "the random number generator is an oracle: every gen_range / Uniform::sample / rng.gen / rand::random consumes the next element of a tape and answers inside the requested range (rand's documented contract, trusted); theorems hold for EVERY tape, i.e. every outcome of the generator",
    "new names: the theorems of Props/C12.v treat a drawn name as an arbitrary non-empty string; Props/C12f.v proves for the Flocq instance and the real registry that a name of the shape names::Generator yields (lower-case words joined by '-') is read back by the parser as that name, and hence that generated programs whose new names have that shape print and parse back (C12_shaped_names_tree_roundtrip); that drawn names HAVE the shape is observed on 400 000 draws per run (new-name-alphabet), with a search for a failing draw when they do not",
    "names::Generator is an oracle returning an arbitrary non-empty string; HashMap key order (existing_random_name) is an oracle index into the bound names",
    "the implementation's generator cannot be seeded (thread_rng, no source hook added): the tie to the code is by MEMBERSHIP - every value the real code produced in the runs satisfies the proved characterisation valid_gen (sound and complete for the model); the RNG-independent part of every result (None/Some, surrounding state) is diffed exactly",
    "'every generated program is executable and printable' is checked on the real interpreter (print, parse back, <= 20 steps, no panic) for every generated program that contains no instruction of gen/randgen.py EXEC_DENY (process spawning, stdout, operand-sized allocations); the general no-panic claim for arbitrary programs is C01's",
    "random_code_with_size(.., 0) (usize underflow) is outside the quantifier (n >= 1); no caller requests it",
]
PROBS = [0.0, 0.001, 0.5, 1.0]
STEPS = 20

# Float leaves seen by valid_gen, per stream: a defect that moves one float leaf in 1/RARE out of [0,1) is missed by
# a run over n float leaves with probability (1 - 1/RARE)^n; the volume stream is sized so that this is < 1e-9.
RARE = 2000
MISS = 1e-9
NEED_FLOAT_LEAVES = int(math.ceil(math.log(MISS) / math.log(1.0 - 1.0 / RARE)))      # 41437
FLOAT_LEAVES = {}


def count_floats(v):
    """float leaves (6 bits) of an item on the wire; items: (0 children..) list, (tag payload) leaf"""
    n, todo = 0, [v]
    while todo:
        x = todo.pop()
        if isinstance(x, list) and x and isinstance(x[0], int):
            if x[0] == 0:
                todo.extend(x[1:])
            elif x[0] == 6:
                n += 1
    return n


def counting_project(name):
    """`project` of gen/randgen.py which also counts the float leaves of the programs the implementation drew
    (ops 2, 3, 11: draws are (item ok) / ((item) ok) / (() ok))"""
    def f(r):
        try:
            v = vcheck.sx_parse(r)
        except Exception:
            return r
        if isinstance(v, list) and len(v) == 2 and v[0] == 0 and isinstance(v[1], list) and len(v[1]) == 2:
            k = 0
            for d in v[1][1]:
                if isinstance(d, list) and len(d) == 2 and isinstance(d[0], list):
                    it = d[0]
                    if it and isinstance(it[0], list):
                        it = it[0]             # ((item) ok)
                    k += count_floats(it)
            FLOAT_LEAVES[name] = FLOAT_LEAVES.get(name, 0) + k
            return sx_str([0, [v[1][0], []]])
        return r
    return f


def combos(names):
    lists = {"empty": [], "one": [S("INTEGER.+")], "full": names}
    out = []
    for ln, lst in lists.items():
        for nb in (0, 1, 11, 5, 15):
            for p in PROBS:
                out.append((ln, lst, nb, p))
    return out


def streams(seed, tier):
    rng = random.Random(seed)
    names = full_names()
    cs = combos(names)
    n_draws = {"quick": 100, "thorough": 300, "search": 60}[tier]
    per_size = {"quick": 4, "thorough": 36, "search": 9}[tier]
    out = []
    # decompose
    cases = [case(r % 2, 1, {"quick": 60, "thorough": 500, "search": 300}[tier], [r], tape(rng)) for r in range(0, 81)]
    out.append(Stream("decompose", "rand", "rand.check", cases,
                      "CodeGenerator::decompose for every request 0..80 (0 panics: outside the quantifier): parts positive, sum = request, last part 1", project=project))
    # exact size
    cases, k = [], 0
    for n in range(1, 81):
        for j in range(per_size):
            ln, lst, nb, p = cs[(k + j) % len(cs)] if per_size < len(cs) else cs[j]
            st = state(bind=BINDS[nb], cfg=cfg(pnew=p))
            cases.append(case((n + j) % 2, 2, n_draws, [st, lst, n, STEPS, [S(d) for d in EXEC_DENY]], tape(rng)))
        k += per_size
    cases.append(case(0, 2, 2, [state(), [], 0, STEPS, []], tape(rng)))
    # new-name probabilities outside [0,1] and non-finite: `(p * 10000.0) as u32` saturates, it must not crash
    for pn in (1.5, 2.0, -0.25, float("inf"), float("-inf"), float("nan"), 1e-9, 0.99999):
        for n in (1, 2, 3, 9, 40):
            for nb in (0, 1, 5):
                st = state(bind=BINDS[nb], cfg=cfg(pnew=pn))
                cases.append(case(n % 2, 2, n_draws, [st, [S("INTEGER.+")], n, STEPS, [S(d) for d in EXEC_DENY]], tape(rng)))
    # configuration fields the code generator must not care about (INTEGER / FLOAT bounds degenerate or reversed), odd binding tables
    for (mx, mn) in ((0, 0), (-5, 5), (5, 5), (-2147483648, 2147483647)):
        for n in (1, 2, 5, 20):
            for lst in ([S("INTEGER.+")], [], [S("CODE.DUP"), S("BOOLEAN.NOT")]):
                st = state(bind=BINDS[1], cfg=cfg(maxi=mx, mini=mn, maxf=fbits(1.0), minf=fbits(2.0)))
                cases.append(case(n % 2, 2, n_draws, [st, lst, n, STEPS, [S(d) for d in EXEC_DENY]], tape(rng)))
    for n in (200, 1000, 5000, 20000, 60000):            # far beyond the grid: a few draws each, validated by valid_gen, not executed
        for lst in ([], [S("INTEGER.+")]):
            cases.append(case(n % 2, 2, 3, [state(bind=BINDS[1], cfg=cfg(pnew=0.001)), lst, n, -1, []], tape(rng)))
    for nm_ in ("EXEC.CMD", "NOOP", "CODE.NOOP", "EXEC.Y", "NAME.RAND", "INTEGER.RAND", "ROBOT.TURN LEFT", " LEAD", "", "x"):      # a one-element instruction list: every instruction leaf is that name
        for n in (1, 2, 7, 30):
            cases.append(case(n % 2, 2, n_draws // 2, [state(bind=BINDS[0], cfg=cfg(pnew=0.5)), [S(nm_)], n, -1, []], tape(rng)))
            cases.append(case(n % 2, 3, n_draws // 2, [state(bind=BINDS[0], cfg=cfg(pnew=0.5)), [S(nm_)], n + 1, -1, []], tape(rng)))
    for nb in (21, 22):
        for n in (1, 3, 12):
            for p in (0.0, 0.5):
                st = state(bind=BINDS[nb], cfg=cfg(pnew=p))
                cases.append(case(n % 2, 2, n_draws, [st, [S("INTEGER.+")], n, -1, []], tape(rng)))
    out.append(Stream("exact-size", "rand", "rand.check", cases,
                      "random_code_with_size for sizes 1..80 x instruction list {empty, one, full registry} x bindings {0,1,5} x new-name probability {0,.001,.5,1} (quick: 4 of the 36 combinations per size, rotating) plus probabilities outside [0,1], infinite and NaN: valid_gen on every draw; every program printed, parsed back and executed", project=counting_project("exact-size")))
    # float-leaf volume: many small programs over the empty instruction list (an Instruction leaf is NOOP, a Name leaf a
    # bound name), generated and validated only (steps = -1: not executed)
    per_case = {"quick": 16000, "thorough": 32000, "search": 4000}[tier]
    cases = []
    for j, n in enumerate([1] * 16 + [2, 3, 4, 5, 6, 8, 10, 13] * 4 + [20, 30] * 4):
        st = state(bind=BINDS[(0, 1, 11, 5, 15)[j % 5]], cfg=cfg(pnew=PROBS[j % 4]))
        cases.append(case(j % 2, 2, max(200, per_case // n), [st, [], n, -1, []], tape(rng)))
    st = Stream("float-leaf-volume", "rand", "rand.check", cases,
                "random_code_with_size for sizes 1..30 over the EMPTY instruction list, about %d points per case, %d cases, validated by valid_gen and not executed: "
                "volume for the leaf ranges (float in [0,1)): at least %d float leaves are needed to miss a 1-in-%d leaf defect with probability < %g; "
                "the number actually checked is recorded as float_leaves_checked" % (per_case, len(cases), NEED_FLOAT_LEAVES, RARE, MISS),
                project=counting_project("float-leaf-volume"))
    st.per_shard = 4
    out.append(st)
    # upper bound
    cases, k = [], 0
    for m in range(0, 81):
        for j in range(per_size):
            ln, lst, nb, p = cs[(k + j + 7) % len(cs)] if per_size < len(cs) else cs[j]
            st = state(bind=BINDS[nb], cfg=cfg(pnew=p))
            cases.append(case((m + j) % 2, 3, n_draws, [st, lst, m, STEPS, [S(d) for d in EXEC_DENY]], tape(rng)))
        k += per_size
    out.append(Stream("upper-bound", "rand", "rand.check", cases,
                      "random_code for bounds 0..80 over the same grid: None for 0 and 1, otherwise 1 <= size <= bound-1 and valid_gen", project=counting_project("upper-bound")))
    # CODE.RAND
    cases = []
    limits = [0, 1, -1, 2, -2, 3, 5, -7, 24, 25, 26, 100, -100, MAX32, MIN32, MIN32 + 1]
    maxpts = [25, 0, 1, 2, -25, 80, MIN32, MAX32] if tier != "quick" else [25, 1, 2, -25, MIN32]
    for n in limits:
        for mp in maxpts:
            for (ln, lst) in (("empty", []), ("full", names)):
                if min(abs(n), abs(mp)) > 200:
                    continue      # both huge: an allocation-sized request, C15's business
                nb, p = rng.choice([0, 1, 5, 11, 15]), rng.choice(PROBS)
                # unbound names wait on the NAME stack: a name leaf is a BOUND name (or a new one), never one of these
                st = state(int=[n, 42], code=[], name=rng.choice([[], ["PENDING", "U1"], ["U2"], ["X", "U3"], ["Y"], ["P1", "P2"]]), bind=BINDS[nb], cfg=cfg(pnew=p, maxpts=mp))
                cases.append(case(rng.randrange(2), 11, n_draws, [st, lst, S("CODE.RAND"), STEPS, [S(d) for d in EXEC_DENY], 0], tape(rng)))
    cases.append(case(0, 11, 3, [state(), names, S("CODE.RAND"), STEPS, [], 0], tape(rng)))
    out.append(Stream("CODE.RAND", "rand", "rand.check", cases,
                      "CODE.RAND with limits incl. 0, +-1, i32::MIN/MAX x max-points incl. 0, 1, negative, i32::MIN: size <= min(|n|,|maxpts|) - 1, nothing for limits <= 1, operand consumed; empty INTEGER stack", project=counting_project("CODE.RAND")))
    return out


def extra(ctx):
    """records the measured number of float leaves that went through valid_gen (leaf_ok: float in [0,1))"""
    total = 0
    for name, k in FLOAT_LEAVES.items():
        if name in ctx.stats:
            ctx.stats[name]["float_leaves_checked"] = k
        total += k
    ctx.stats["float-leaf-count"] = {
        "cases": 0, "float_leaves_checked": total, "needed_for_miss_below_%g_at_1_in_%d" % (MISS, RARE): NEED_FLOAT_LEAVES,
        "p_miss_1_in_%d" % RARE: float("%.3g" % ((1.0 - 1.0 / RARE) ** total)), "enough": total >= NEED_FLOAT_LEAVES,
        "note": "float leaves of all generated programs of this run on which valid_gen (leaf_ok: 0 <= x < 1) was evaluated; "
                "P(miss) = (1 - 1/%d)^n for a defect that affects one float leaf in %d" % (RARE, RARE)}
    print("C12 float leaves checked: %d (needed %d for P(miss) < %g at 1 in %d; P(miss) = %.3g)"
          % (total, NEED_FLOAT_LEAVES, MISS, RARE, (1.0 - 1.0 / RARE) ** total))


    vcheck.new_names(ctx, "C12")


TECHNIQUE = "Coq proof over an explicit randomness oracle (tape): strong induction on the requested size, soundness AND completeness of the decidable characterisation valid_gen; membership correspondence (the real generators run N times per grid point, valid_gen evaluated on every produced program, RNG-independent part diffed), every produced program printed/parsed/executed on the real interpreter"
DESIGN_REF = "DESIGN.md section 6.C12, 2.5"
LEVEL_TEXT = ("Machine-checked for every outcome of the random number generator: C12_decompose_parts (positive parts summing to the request), C12_gen_size (exactly n points for every n >= 1, no panic), "
              "C12_gen_leaves / C12_no_empty_list (leaves: instruction of the supplied list or NOOP, bool, i32, float in [0,1), bound or freshly drawn name; no empty list), C12_random_code_bound (bound >= 2: 1..bound-1 points; bound <= 1: None), "
              "C12_code_rand_bound (every i32 incl. i32::MIN: at most min(|n|,|max-points|)-1 points), C12_valid_gen_sound / C12_valid_gen_complete (the checker valid_gen holds of exactly the items some outcome produces). "
              "Tie to the code: membership - the real CodeGenerator and CODE.RAND run on the grid sizes 1..80 x bounds 0..80 x instruction lists x binding tables x new-name probabilities, valid_gen evaluated on every draw, None/Some and the surrounding state diffed against the model, every generated program printed, parsed back and executed by the real interpreter without panic. "
              "Props/C12f.v (Flocq instance, real registry): a new name of the shape names::Generator yields is read back by the parser as that name, so generated programs whose new names have that shape print and parse back (the shape itself is observed on 400 000 draws per run). "
              "Defects found and repaired (fix: commits): random_code bound 1 sampled the empty range 1..1 (( 1 CODE.RAND ) panicked); CODE.RAND with i32::MIN overflowed i32::abs (debug panic, release ~2^64-point request).")
LEVEL_NOTE = "Trusted: rand/names crates' range contracts (oracle hypotheses), Coq kernel, extraction, harness, generators. The generator is not seeded: agreement on individual draws cannot be diffed, only membership in the proved output set; distributional quality is not claimed. Theorems are closed under the global context."

"""C15 — a single step's time and memory are bounded by the state and the configured limits.

The property is largely refuted by design of the code (operand-sized allocation has no cap, the configured
max_points_in_program is dead): the check reports exactly the listed known findings and still catches new
violations — an instruction that hangs or is killed inside a step (e.g. the negative-length FLOATVECTOR.SINE loop
coming back), one whose state growth exceeds the proved bound, or one whose wall-clock time on a 10^5-cell state
leaves the linear regime.

Every implementation run happens in a supervised worker: address space 2 GB, CPU time 300 s, stack 1 GB (the
extracted model recurses over 10^6-element lists), wall-clock limits of lib/vcheck.  No case that the MODEL runs
carries a size operand above 10^6 or a doubling program with more than 18 doublings; the implementation alone also
runs the three vector RAND instructions at 2^24+1 .. 3*10^7 elements (stream huge-rand-vectors, 60 s per case).
"""
import random, re, resource, sys, time
import vcheck
from vcheck import Stream, sx_parse, sx_str
from gen.stategen import *
from gen.pools import fbits
from gen import stepgen

PROPERTY = "C15"
PROPS_VO = "Props/C15"
AXIOMS_OK = []
KNOWN_ARGS = "pair"                       # the known-class suite looks at (case observed)
KNOWN_SUITE = {"run": "cost.known"}
ASSUMPTIONS = [
    "PARTIAL: the model carries a COUNTING argument only (Model/Cost.v: cells held by the state, cells allocated + loop iterations of an instruction body as written). Real RSS, allocator failure and wall-clock time are runtime facts: they are measured on the implementation for the case list of this check (2 GB address space, 300 s CPU per worker; < 2 s per step on states of up to 10^5 cells) and not proved",
    "a printed cell is counted as one cell: the number of characters per printed number (f32 `{:.3}`: up to 47) is a fact about formatting outside FloatOps's interface; CODE.PRINT, GRAPH.PRINT, GRAPH.PRINT*DIFF are therefore outside the one-step growth theorem, and so are NAME.RAND, NAME.RANDBOUNDNAME, CODE.RAND (generated names: their length comes from the oracle tape in the model)",
    "the cost table of Model/Cost.v is read off the Rust source by hand (upper estimates marked); its tie to the code is the growth measurement of this check and the wall-clock stream, not a differential comparison (the implementation exposes no operation counter)",
    "vector lengths and stack depths stay below 2^31; no case carries a size operand above 3*10^7 (above 10^6: implementation only, vector RAND; never i32::MAX) or more than 18 doublings",
    "results holding a vector of more than 2*10^7 characters are cut to the first 400000 characters of that vector before the extracted predicate reads them (weight is monotone: 'exceeds the bound' is preserved); 'the step returned' is observed on the uncut run",
]
TRUSTED_EXTRA = ["checks/C15.py replaces vcheck._limits for its own workers: RLIMIT_AS 2 GB, RLIMIT_CPU 300 s, RLIMIT_STACK 1 GB"]


def _c15_limits():
    resource.setrlimit(resource.RLIMIT_AS, (2 << 30, 2 << 30))
    resource.setrlimit(resource.RLIMIT_CPU, (300, 300))
    resource.setrlimit(resource.RLIMIT_STACK, (1 << 30, 1 << 30))
    resource.setrlimit(resource.RLIMIT_CORE, (0, 0))


sys.setrecursionlimit(100000)      # the wall-clock stream builds items nested 1500 deep
vcheck._limits = _c15_limits       # every worker of this check (implementation and extracted model) runs under these limits

FILL = ["BOOLVECTOR.ONES", "BOOLVECTOR.ZEROS", "INTVECTOR.ONES", "INTVECTOR.ZEROS", "FLOATVECTOR.ONES", "FLOATVECTOR.ZEROS"]
RANDVEC = ["BOOLVECTOR.RAND", "INTVECTOR.RAND", "FLOATVECTOR.RAND"]
NBR = ["LIST.NEIGHBOR*IDS", "LIST.NEIGHBOR*BVALS", "LIST.NEIGHBOR*IVALS", "LIST.NEIGHBOR*FVALS"]
SINE = "FLOATVECTOR.SINE"
KNOWN_UNBOUNDED = set(FILL + RANDVEC + NBR + [SINE])
MULTIPLYING = {"CODE.SUBST", "GRAPH.NODES", "GRAPH.NODES*HISTORY"}
TIME_LIMIT_S = 2.0


def model_names():
    return set("".join(chr(c) for c in n) for n in sx_parse(vcheck.run_model(["names (0)"])[0])[1])


# ---------------------------------------------------------------------------------------------------------
# operands of the size-taking instructions
def size_case(prof, name, n, extra_int=(), code=()):
    """one step of a size-taking instruction with size operand n; everything else minimal"""
    st = dict(exec=[I(name)])
    if name in FILL:
        st["int"] = [n]
    elif name == SINE:
        st["int"] = [n]; st["float"] = [fbits(1.0), 0, 0]          # amplitude 1, angle velocity 0, phase 0: one libm value
    elif name == "BOOLVECTOR.RAND":
        st["int"] = [n]; st["float"] = [fbits(0.25)]
    elif name == "INTVECTOR.RAND":
        st["int"] = [n, 10, 0]
    elif name == "FLOATVECTOR.RAND":
        st["int"] = [n]; st["float"] = [fbits(0.0), fbits(1.0)]
    elif name == "LIST.NEIGHBOR*IDS":
        st["int"] = [n, 0, 1]; st["float"] = [fbits(4000000.0)]      # size n, index 0, 1 dimension, a radius that covers everything
    elif name in NBR:
        st["int"] = [0, n, 0, 1]; st["float"] = [fbits(4000000.0)]; st["code"] = [L(Z(1), B(True), F(fbits(0.5)))]
    elif name == "CODE.RAND":
        st["int"] = [n]
    elif name == "INTVECTOR.FROMINT":
        st["int"] = [n, 1, 2, 3]
    elif name == "INDEX.DEFINE":
        st["int"] = [n]
    else:
        st["int"] = [n] + list(extra_int)
    return case_run(prof, state(**st), 0, 1)


def shaped_state(rng, name, names, safe):
    """a random small state whose INTEGER stack is about to be overwritten with a magnitude"""
    st = stepgen.rand_state(rng, names, safe)
    if name.startswith("LIST.") and name not in NBR:
        st = stepgen.shape_list_state(rng, st, names, safe)
    if name.split(".")[0] in stepgen.VEC_KEY and "." in name:
        st = stepgen.shape_vector_case(rng, name, st)
    st["float"] = [f if f not in (0x7f800000, 0xff800000, 0x7fc00000) else fbits(2.0) for f in st["float"]]
    return st


def magnitude_cases(rng, names, modelled, safe, mags, per):
    """(i) / (iii): every deterministic instruction outside the known classes, INTEGER operands = the magnitude"""
    cases = []
    skip = stepgen.UNSAFE | stepgen.RANDOM | KNOWN_UNBOUNDED
    for nm in sorted(modelled - skip):
        if nm.startswith("GRAPH."):
            continue
        for m in mags:
            for _ in range(per):
                st = shaped_state(rng, nm, names, safe)
                depth = max(len(st["int"]), 4)
                st["int"] = [m] * depth if rng.random() < 0.7 else [m] + [rng.choice([0, 1, 2, m]) for _ in range(depth - 1)]
                st["exec"] = [I(nm)] + st["exec"]
                cases.append(case_run(rng.randrange(2), state(**st), 0, 1))
    return cases


def graph_cases(rng, names, modelled, safe, mags):
    """GRAPH.* through the id protocol of the `run` suite; the position operand of the HISTORY instructions takes the magnitudes"""
    cases = []
    for nm in sorted(n for n in modelled if n.startswith("GRAPH.")):
        for _ in range(6):
            cases.append(stepgen.graph_case(rng, nm, names, safe))
    return cases


# ---------------------------------------------------------------------------------------------------------
def doubling_cases():
    """(iv) programs that double an item every five steps"""
    names = None
    cases = []
    dl = [I("CODE.QUOTE"), L(Z(1)), I("EXEC.Y"), L(I("CODE.DUP"), I("CODE.LIST"))]
    da = [I("CODE.QUOTE"), L(Z(1)), I("EXEC.Y"), L(I("CODE.DUP"), I("CODE.APPEND"))]
    dc = [I("CODE.QUOTE"), L(Z(1)), I("EXEC.Y"), L(I("CODE.DUP"), I("CODE.CONS"))]
    ey = [I("EXEC.Y"), L(I("EXEC.DUP"))]                               # EXEC.DUP copies the re-armed ( EXEC.Y .. ) item
    for prog in (dl, da, dc):
        for k in (7, 9, 12):                                            # 3 * 2^k - 1 points
            cases.append(case_run(k % 2, state(exec=prog), 0, 1 + 5 * k))
    # the whole run loop with a small step limit: ends at the step limit, the growth cap (depths) does not fire
    cfg = list(DEFAULT_CFG); cfg[4] = 50
    cases.append(case_run(0, state(exec=dl, cfg=cfg), 1, 0))
    cases.append(case_run(1, state(exec=dl, cfg=cfg), 1, 0))
    nm = [N("A"), I("EXEC.Y"), L(I("NAME.DUP"), I("NAME.CAT"))]
    for k in (16, 18):                                                  # 2^(k+1) - 1 characters
        cases.append(case_run(k % 2, state(exec=nm), 0, 1 + 5 * k))
    return cases


def small_programs(rng, names, safe):
    """programs that stay small: the PROGRAM predicate must hold (its non-vacuity)"""
    progs = ["( 1 2 INTEGER.+ 3 INTEGER.* )", "( 5 INDEX.DEFINE EXEC.LOOP ( INDEX.CURRENT INTEGER.DUP ) )",
             "( TRUE FALSE BOOLEAN.AND CODE.QUOTE ( A B ) CODE.DUP CODE.LIST )", "( INT[1,2,3] INTVECTOR.LOOP ( 2 INTEGER.* ) )",
             "( 1.5 2.5 FLOAT.+ FLOAT.DUP FLOAT.* )", "( A B NAME.CAT NAME.DUP NAME.CAT )"]
    cases = []
    for k, p in enumerate(progs):
        cases.append(case_run(k % 2, state(exec=parse_prog(p, names)), 0, 60))
        cases.append(case_run(k % 2, state(exec=parse_prog(p, names)), 1, 0))
    return cases


# ---------------------------------------------------------------------------------------------------------
def streams(seed, tier):
    rng = random.Random(seed)
    modelled = model_names()
    names = sorted(modelled)
    safe = sorted(n for n in modelled if n not in stepgen.UNSAFE and n not in stepgen.RANDOM and n not in stepgen.ALLOCATING
                  and not n.startswith("GRAPH."))
    per = {"quick": 1, "thorough": 6, "search": 8}[tier]
    out = []
    # (i) bounded instructions, operand magnitudes 0 / 1 / 10^3 / 10^5
    cases = magnitude_cases(rng, names, modelled, safe, [0, 1, 1000, 100000], per)
    out.append(Stream("bounded-magnitudes", "run", "cost.check", cases,
                      "one step of every deterministic instruction outside the known classes (GRAPH.* in its own stream), INTEGER operands 0 / 1 / 10^3 / 10^5 on random small states: completes, weight of the observed state <= 2 * weight + 64 (C15_step_growth), equal to the model"))
    cases = graph_cases(rng, names, modelled, safe, None)
    out.append(Stream("graph-steps", "run", "cost.check", cases, "one step of every GRAPH.* instruction (id protocol of the run suite): growth bound on the observed state; GRAPH.NODES* may hit the known class graph-nodes-multiplies"))
    # generic sweep: the growth bound on random states, whatever the operands
    n = {"quick": 12, "thorough": 150, "search": 200}[tier]
    cases = []
    for nm in sorted(modelled - stepgen.UNSAFE - stepgen.RANDOM - KNOWN_UNBOUNDED):
        if nm.startswith("GRAPH."):
            continue
        for _ in range(n):
            cases.append(stepgen.step_case(rng, nm, names, safe))
    out.append(Stream("step-growth", "run", "cost.check", cases, "random single steps of every deterministic instruction outside the known classes: the proved growth bound evaluated on the implementation's output"))
    # the multiplying instructions: small witnesses of the known classes 5 / 6
    cases = []
    for k in (30, 60):
        target = L(*[N("A")] * k)
        sub = L(*[Z(0)] * k)
        cases.append(case_run(k % 2, state(exec=[I("CODE.SUBST")], code=[target, sub, N("A")]), 0, 1))
    out.append(Stream("multiplying", "run", "cost.check", cases, "CODE.SUBST with k occurrences of the pattern and a k-point substitute: k^2 cells (known class code-subst-multiplies)"))
    # (ii) the operand-controlled instructions at 10^4 (10^6: implementation only, see extra)
    cases = []
    for nm in FILL:
        for prof in (0, 1):
            cases.append(size_case(prof, nm, 10000))
        if tier != "quick" or nm in ("BOOLVECTOR.ONES", "INTVECTOR.ZEROS"):      # 10^6 f32 patterns are 11 MB of text per result
            cases.append(size_case(1, nm, 1000000))
    cases.append(size_case(0, SINE, 10000)); cases.append(size_case(1, SINE, 10000))
    cases.append(size_case(1, "LIST.NEIGHBOR*IDS", 10000))
    out.append(Stream("unbounded-10^4-10^6", "run", "cost.check", cases,
                      "T.ONES / T.ZEROS at 10^4 and 10^6, FLOATVECTOR.SINE and LIST.NEIGHBOR*IDS at 10^4: they complete and violate the growth bound (known classes alloc-by-operand-*)"))
    # (iv) doubling programs
    out.append(Stream("doubling-programs", "run", "cost.check", doubling_cases(),
                      "EXEC.Y ( CODE.DUP CODE.LIST | APPEND | CONS ) for 7 / 9 / 12 doublings, the whole run loop with a step limit of 50, NAME.DUP NAME.CAT for 16 / 18 doublings: Item::size of the largest CODE / EXEC item against max_points_in_program, weight against steps * growth_cap"))
    out.append(Stream("small-programs", "run", "cost.check", small_programs(rng, modelled, safe), "programs that stay small satisfy the PROGRAM predicate"))
    # (iii) negative size operands, LAST: every size-taking instruction must return immediately
    cases = []
    for nm in FILL + [SINE, "INTVECTOR.RAND", "BOOLVECTOR.RAND", "FLOATVECTOR.RAND", "INTVECTOR.FROMINT", "INDEX.DEFINE", "LIST.NEIGHBOR*IDS",
                      "LIST.NEIGHBOR*BVALS", "LIST.NEIGHBOR*IVALS", "LIST.NEIGHBOR*FVALS"]:
        if nm not in modelled:
            continue
        for n_ in (-1, -1000, -1000000):
            for prof in (0, 1):
                cases.append(size_case(prof, nm, n_))
    cases += magnitude_cases(rng, names, modelled, safe, [-1, -100000], 1)
    out.append(Stream("negative-sizes", "run", "cost.check", cases,
                      "negative size / index / offset operands for every size-taking instruction (-1, -10^3, -10^6) and for every other instruction (-1, -10^5): the step returns at once, nothing is allocated (regression of the repaired negative-length FLOATVECTOR.SINE loop)"))
    return out


# ---------------------------------------------------------------------------------------------------------
# implementation-only evaluation: cases whose result the model cannot (unseeded RNG) or should not (10^6 float
# operations in Flocq) reproduce.  The property predicate is still the extracted Coq function, evaluated on the
# implementation's own output.
def impl_only(ctx, name, cases, note, time_limit=None, parallel=1):
    lines = ["run " + c for c in cases]

    def one(l):                                       # one supervised process per case: wall-clock per case
        t0 = time.time()
        o, n = cut_huge(vcheck.run_impl([l], timeout=CASE_WALL_LIMIT_S)[0])
        return o, time.time() - t0, n
    if parallel > 1:
        from concurrent.futures import ThreadPoolExecutor
        with ThreadPoolExecutor(parallel) as ex:
            got = list(ex.map(one, lines))
    else:
        got = [one(l) for l in lines]
    outs, times, sizes = [g[0] for g in got], [g[1] for g in got], [g[2] for g in got]
    verdicts = vcheck.run_checker("cost.check", cases, outs)
    stat = ctx.stats.setdefault(name, {"cases": 0, "impl_panics": 0, "disagree": 0, "pred_fail": 0, "out_of_scope": 0, "note": note,
                                       "max_wall_s": 0.0, "model_compared": False})
    stat["cases"] += len(cases)
    stat["max_wall_s"] = round(max([stat["max_wall_s"]] + times), 3)
    if max(sizes + [0]):
        stat["max_result_elements"] = max(sizes + [stat.get("max_result_elements", 0)])
        stat["did_not_return_within_%ds" % CASE_WALL_LIMIT_S] = stat.get("did_not_return_within_%ds" % CASE_WALL_LIMIT_S, 0) + sum(1 for o in outs if o.startswith("(9"))
    ctx.evaluations += len(cases)
    for c, o, v, dt in zip(cases, outs, verdicts, times):
        if o == vcheck.BAD or v == vcheck.BAD:
            vcheck.die("malformed case reached a suite (generator bug): run %s" % c[:300])
        if o == "(1)" or o.startswith("(9"):
            stat["impl_panics"] += 1
        if v == "2":
            stat["out_of_scope"] += 1
        if v == "0":
            stat["pred_fail"] += 1
            key = ctx.known_key_of("run", c, o)
            kf = next((k for k in ctx.known if k.get("class_id") == key and k["status"] == "known"), None) if key else None
            if kf:
                ctx.known_hits[kf["key"]] = kf["what"]
            else:
                ctx.violation("the step did not return within %d s (worker killed: %s)" % (CASE_WALL_LIMIT_S, o) if o.startswith("(9") else
                              "the step panicked" if o == "(1)" else "the step grew the state beyond the proved bound", {
                    "property": ctx.prop, "kind": "predicate-fails", "stream": name, "suite": "run", "checker": "cost.check",
                    "case": c, "impl_output": o[:2000], "how_to_replay": "bin/check C15 --replay <this file>"})
        if time_limit is not None and dt > time_limit and not o.startswith("(9"):
            ctx.violation("a single step took %.1f s (limit %.1f s) on a state of at most 10^5 cells" % (dt, time_limit), {
                "property": ctx.prop, "kind": "wall-clock", "stream": name, "suite": "run", "checker": "cost.check", "case": c,
                "wall_s": round(dt, 2)})
        if v != "2":
            import hashlib
            ctx.nontrivial.add(hashlib.sha1(("run" + c).encode()).digest()[:8])
    if len(ctx.samples) < 16 and cases:
        ctx.samples.append({"stream": name, "case": "run " + cases[0][:300], "impl": outs[0][:200], "model": "(not compared)", "predicate": verdicts[0],
                            "wall_s": round(times[0], 3)})


CASE_WALL_LIMIT_S = 60
_HUGE = re.compile(r"\(([^()]{400000})[^()]*\)")


def cut_huge(o):
    """A flat list of more than 400000 characters in a result (a vector of millions of elements) is cut to its first
    400000 characters before the result goes to the extracted Coq predicate (the OCaml reader does not survive 3 * 10^7
    elements under this check's limits).  The weight of a state is monotone in its vectors, so `exceeds the growth bound`
    is preserved by the cut (and nothing is ever cut below 10^5 elements).  Returns (result, elements of the longest list)."""
    if len(o) < 20000000:                             # the 10^6-element results of the older streams stay whole
        return o, 0
    n = [0]

    def f(m):
        n[0] = max(n[0], m.group(0).count(" ") + 1)
        head = m.group(1)
        return "(" + head[:head.rindex(" ")] + ")"
    return _HUGE.sub(f, o), n[0]


def rand_vec_case(prof, name, n, sparsity=0.25):
    st = dict(exec=[I(name)], int=[n])
    if name == "BOOLVECTOR.RAND":
        st["float"] = [fbits(sparsity)]
    elif name == "INTVECTOR.RAND":
        st["int"] = [n, 10, 0]
    else:
        st["float"] = [fbits(0.0), fbits(1.0)]
    return case_run(prof, state(**st), 0, 1)


def huge_rand_cases(tier):
    """vector RAND above 2^24 elements (where `size as f32` is no longer exact) for dense, half and sparse vectors"""
    sizes = [2 ** 24 + 1, 2 ** 24 + 3, 30000000]
    spars = [1.0, 0.999, 0.996, 0.75, 0.5, 0.004]
    cases = []
    for n in sizes:
        for sp in spars:
            if tier == "quick" and n != 2 ** 24 + 3 and sp in (0.996, 0.75, 0.004) and (n, sp) != (30000000, 0.004):
                continue
            cases.append(rand_vec_case(1, "BOOLVECTOR.RAND", n, sp))
    # FLOATVECTOR.SINE just above 2^24 elements (a loop counter kept in f32 stops advancing at 16777216.0)
    for n_ in (2 ** 24 + 1, 2 ** 24 + 2):
        cases.append(case_run(1, state(exec=[I("FLOATVECTOR.SINE")], int=[n_], float=[fbits(1.0), fbits(0.001), fbits(0.0)]), 0, 1))
    cases.append(rand_vec_case(1, "INTVECTOR.RAND", 2 ** 24 + 3))
    cases.append(rand_vec_case(1, "FLOATVECTOR.RAND", 2 ** 24 + 3))
    if tier != "quick":                               # the debug binary needs 9 .. 13 s for half-dense vectors of this size
        cases += [rand_vec_case(0, "BOOLVECTOR.RAND", 2 ** 24 + 3, sp) for sp in (1.0, 0.996, 0.004)]
    return cases


def big_vec(n, kind):
    if kind == "bvec": return [(i * 7) % 3 == 0 for i in range(n)]
    if kind == "ivec": return [(i * 7919) % 10007 - 5000 for i in range(n)]
    return [fbits(float((i * 7919) % 10007) / 8.0) for i in range(n)]


def scaling_cases(modelled):
    """one step on a state of ~10^5 cells (vectors) / ~2*10^4 points (flat and deeply nested code)"""
    cases = []
    n = 100000
    for fam, key, sc in (("BOOLVECTOR", "bvec", "bool"), ("INTVECTOR", "ivec", "int"), ("FLOATVECTOR", "fvec", "float")):
        a, b = big_vec(n, key), list(reversed(big_vec(n, key)))
        scal = {"bool": [True], "int": [3, 5000], "float": [fbits(2.0)]}
        for nm in sorted(x for x in modelled if x.startswith(fam + ".") and x not in KNOWN_UNBOUNDED and x not in stepgen.RANDOM):
            st = {key: [a, b], "int": [0, 7, 7], "exec": [I(nm), I("NOOP")]}
            if sc != "int":
                st[sc] = scal[sc] * 2
            else:
                st["int"] = [3, 5000, 7]
            if nm.endswith(".LOOP"):
                st["exec"] = [I(nm), I("NOOP")]
            if nm == "INTVECTOR.BOOLINDEX":
                st["bvec"] = [big_vec(n, "bvec")]
            cases.append(case_run(1, state(**st), 0, 1))
    flat = L(*[Z(i % 7) for i in range(20000)])
    flat2 = L(*[Z((i + 1) % 7) for i in range(20000)])
    deep, deep2 = Z(1), Z(2)
    for _ in range(1500):
        deep, deep2 = L(deep, N("A")), L(deep2, N("A"))
    for nm in sorted(x for x in modelled if (x.startswith("CODE.") or x.startswith("EXEC.")) and x not in stepgen.UNSAFE and x not in stepgen.RANDOM
                     and x not in MULTIPLYING):
        for (x, y) in ((flat, flat2), (deep, deep2)):
            st = dict(code=[x, y, Z(3)], exec=[I(nm), x, y, Z(3)], int=[19999, 3], bool=[True], name=["A"])
            cases.append(case_run(1, state(**st), 0, 1))
    # a search that SUCCEEDS at the bottom of a deep nesting (a hit must not be looked up again on every level on the way back)
    for levels in (48, 200, 1500):
        t = N("X")
        for _ in range(levels):
            t = L(Z(1), t)
        for nm in ("CODE.CONTAINS", "CODE.MEMBER", "CODE.POSITION", "CODE.CONTAINER", "CODE.SUBST", "CODE.EXTRACT", "CODE.INSERT"):
            if nm in modelled:
                for code in ([t, N("X"), Z(5)], [N("X"), t, Z(5)]):
                    cases.append(case_run(1, state(code=code, exec=[I(nm)], int=[2 * levels, 3]), 0, 1))
    return cases


def extra(ctx):
    rng = random.Random(ctx.seed + 15)
    modelled = model_names()
    # (ii) the operand-controlled instructions the model does not reproduce: RNG draws, 10^6 float operations
    quick = ctx.tier == "quick"
    cases = []
    for nm in RANDVEC:
        cases += [size_case(0, nm, 10000), size_case(1, nm, 10000)]
        if not quick or nm != "FLOATVECTOR.RAND":
            cases.append(size_case(1, nm, 1000000))
    cases += [size_case(1, SINE, 1000000)] + ([] if quick else [size_case(0, SINE, 1000000)])
    # a huge DIMENSION operand with a tiny size: must be clamped to the size (no operand-sized allocation)
    for nm in NBR:
        for dims in (1000, 1000000, 200000000, 2147483647):
            ints = [3, 1, dims] if nm == "LIST.NEIGHBOR*IDS" else [0, 3, 1, dims]
            cases.append(case_run(1, state(exec=[I(nm)], int=ints, float=[fbits(1.0)], code=[L(Z(1)), L(Z(2)), L(Z(3))]), 0, 1))
    for n_ in (2147483647, 1000000000, 100000000):
        cases.append(case_run(1, state(exec=[I("INTVECTOR.FROMINT")], int=[n_, 1, 2, 3]), 0, 1))
        cases.append(case_run(0, state(exec=[I("INTVECTOR.FROMINT")], int=[n_, 1, 2, 3]), 0, 1))
    # 64 and more dimensions on a size that allows them (the power in the edge-length search overflows: the search must stop)
    for nm in NBR:
        for (size, dims) in ((64, 64), (100, 100), (70, 2147483647), (100, 64), (65, 65)):
            ints = [size, 1, dims] if nm == "LIST.NEIGHBOR*IDS" else [0, size, 1, dims]
            cases.append(case_run(1, state(exec=[I(nm)], int=ints, float=[fbits(1.0)], code=[L(Z(1)), L(Z(2)), L(Z(3))]), 0, 1))
    # CODE.SUBST whose substitute contains the pattern: the inserted copies are not searched again
    for (pat, sub, tgt) in ((Z(1), L(Z(1), Z(1)), L(Z(1), Z(2), L(Z(3), Z(1)))), (N("a"), L(N("a")), L(N("a"), N("a"))), (L(Z(1)), L(L(Z(1)), L(Z(1))), L(L(Z(1)), Z(2)))):
        for prof in (0, 1):
            cases.append(case_run(prof, state(exec=[I("CODE.SUBST")], code=[tgt, pat, sub]), 0, 1))
            cases.append(case_run(prof, state(exec=[I("CODE.SUBST")], code=[tgt, sub, pat]), 0, 1))
            cases.append(case_run(prof, state(exec=[I("CODE.SUBST")], code=[sub, pat, tgt]), 0, 1))
    for nm in NBR:
        cases += [size_case(0, nm, 10000), size_case(1, nm, 10000)]
        if not quick or nm == "LIST.NEIGHBOR*IDS":
            cases.append(size_case(1, nm, 1000000))
    impl_only(ctx, "unbounded-impl-only", cases,
              "vector RAND / FLOATVECTOR.SINE / LIST.NEIGHBOR* at 10^4 and 10^6 on the implementation alone (unseeded RNG; 10^6 Flocq operations): complete, violate the bound, known classes")
    impl_only(ctx, "huge-rand-vectors", huge_rand_cases(ctx.tier),
              "BOOLVECTOR.RAND with sizes 2^24+1, 2^24+3, 3*10^7 x sparsities 1, .999, .996, .75, .5, .004 (quick: all six at 2^24+3, three or four at the other sizes), INTVECTOR.RAND and "
              "FLOATVECTOR.RAND at 2^24+3, release binary, one supervised process per case (4 at a time), %d s wall-clock each: the step RETURNS (a step that does not is a violation) "
              "and exceeds the growth bound (known class alloc-by-operand-rand); the result vector is cut to 10^5+ elements before the Coq predicate reads it" % CASE_WALL_LIMIT_S,
              parallel=4)
    # name bindings that form a cycle (A -> A, A -> B -> A, a three-cycle): one interpreter step resolves ONE link, so a step
    # always returns and the step limit ends the run; a step that chased aliases to the end would never return
    cyc = []
    for binds in ([("A", N("A"))], [("A", N("B")), ("B", N("A"))], [("A", N("B")), ("B", N("C")), ("C", N("A"))], [("A", L(N("A"), N("A")))]):
        for prof in (0, 1):
            cyc.append(case_run(prof, state(exec=[N("A")], bind=binds), 0, 1))
            cyc.append(case_run(prof, state(exec=[N("A")], bind=binds), 0, 50))
            c = list(DEFAULT_CFG); c[4] = 200
            cyc.append(case_run(prof, state(exec=[N("A")], bind=binds, cfg=c), 1, 0))
    impl_only(ctx, "alias-cycles", cyc, "cyclic name bindings (A -> A, two- and three-cycles, a self-doubling list): 1 step, 50 steps and run() with a 200-step limit all return", time_limit=TIME_LIMIT_S, parallel=4)
    # EXEC.CMD starts its command and returns (it sleeps 1 s itself): a command that runs for 4 s must not hold the step
    cmd = [case_run(prof, state(exec=[I("EXEC.CMD"), Z(7)], int=[2, 5], name=["exec sleep 4 >/dev/null 2>&1", "-c", "sh", "A"]), 0, 1) for prof in (0, 1)]
    impl_only(ctx, "command-not-awaited", cmd, "EXEC.CMD on `sh -c 'exec sleep 4 >/dev/null 2>&1'` (the child keeps none of the harness's pipes): the step returns within %.0f s (its own 1 s pause included), the state as the model says" % (TIME_LIMIT_S + 0.5), time_limit=TIME_LIMIT_S + 0.5, parallel=2)
    # the cost of a GRAPH query depends on the graph, not on how many nodes the PROCESS has created so far: a two-node graph whose ids
    # lie beyond 3 * 10^8 is queried; the same state with GRAPH.STACKDEPTH instead gives the cost of getting the counter there
    high_id_queries(ctx)
    # the wall-clock limit also works when it is longer than a second (a run under the DEFAULT 5000 ms relies on it)
    vcheck.long_time_limit(ctx, "C15")
    # the scalar generators and CODE.RAND: bounded by the configured limits, results random
    cases = []
    for nm in sorted(stepgen.RANDOM - set(RANDVEC)):
        for n_ in (0, 1, 25, 26, 100, 1000, 100000, -1, -26, -27, -100, -1000, -1000000):
            cases.append(size_case(rng.randrange(2), nm, n_))
    impl_only(ctx, "random-generators", cases,
              "BOOLEAN / INTEGER / FLOAT / NAME.RAND, NAME.RANDBOUNDNAME, CODE.RAND with INTEGER operands 0 .. 10^5 and negative: return, growth within the bound (CODE.RAND: at most max_points_in_random_expressions points)",
              time_limit=TIME_LIMIT_S)
    # (iii) negative sizes for the RNG instructions are in the stream above when modelled; repeated here implementation-only, last
    cases = [size_case(p, nm, n_) for nm in RANDVEC + NBR + [SINE] + FILL for n_ in (-1, -1000000) for p in (0, 1)]
    impl_only(ctx, "negative-sizes-impl-only", cases, "negative size operands once more, one supervised process per case with its wall-clock measured: < 2 s", time_limit=TIME_LIMIT_S)
    # (v) wall-clock of one step on large states (PARTIAL: a measurement on this machine, bounded by the case list)
    sc = scaling_cases(modelled)
    if ctx.tier == "quick":
        sc = sc[::2] if len(sc) > 140 else sc
    impl_only(ctx, "wall-clock-scaling", sc,
              "one step of every vector instruction on two 10^5-element vectors and of every CODE / EXEC instruction on a flat 20000-point item and on a 1500-deep nesting: growth bound on the observed state and wall-clock < 2 s (a quadratic body at 10^5 needs 10^10 operations)",
              time_limit=TIME_LIMIT_S)


def high_id_queries(ctx):
    base = 300000000
    g = stepgen.PyGraph({base + 1: 1, base + 2: 1}, {base + 2: [(base + 1, 0x3f800000)]})
    def timed(nm, extra_st):
        c = "run " + case_run(1, state(exec=[I(nm)], graph=[g.wire()], **extra_st), 0, 1, world=(base + 5, ()))
        t0 = time.time()
        r = vcheck.run_impl([c], timeout=120)[0]
        return time.time() - t0, r, c
    t_base, r0, _ = timed("GRAPH.STACKDEPTH", {})
    rows = []
    for nm, ex in (("GRAPH.NODES", {"ivec": [[1]]}), ("GRAPH.NODE*PREDECESSORS", {"ivec": [[1]], "int": [base + 2]}), ("GRAPH.NODE*GETSTATE", {"int": [base + 1]}), ("GRAPH.PRINT", {})):
        t, r, c = timed(nm, ex)
        rows.append({"instruction": nm, "seconds": round(t, 2), "baseline_seconds": round(t_base, 2)})
        ctx.evaluations += 1
        if not r.startswith("(0 ") or t > t_base + 2.5:
            ctx.violation("%s on a two-node graph took %.1f s where GRAPH.STACKDEPTH on the same state took %.1f s (ids beyond 3e8: the cost follows the process-wide id counter)" % (nm, t, t_base),
                          {"property": "C15", "kind": "wall-clock", "suite": "run", "case": c.split(" ", 1)[1], "impl_output": r[:200], "seconds": t, "baseline_seconds": t_base})
    ctx.stats["high-node-ids"] = {"cases": len(rows), "note": "GRAPH queries on a two-node graph with ids above 3 * 10^8 (one fresh process each): at most 2.5 s more than GRAPH.STACKDEPTH on the same state", "runs": rows}


TECHNIQUE = "Coq counting model of cost and state weight: bound theorems over the whole registry (per-family automation), refutations by witnesses computed in the model, an induction over the five-step EXEC.Y cycle through the model of the run loop; supervised differential + predicate runs of the implementation (address-space / CPU / wall-clock limits), wall-clock measurement"
DESIGN_REF = "DESIGN.md section 6.C15"
LEVEL_TEXT = ("Props/C15.v (15 theorems, closed under the global context, parametric in FloatOps). HOLDS: for every instruction name outside KnownUnbounded the counted work (Model/Cost.v: cells allocated + loop iterations of the Rust body as written) is at most weight^2 + 4 weight + 64 + |max_points_in_random_expressions| "
              "(linear for all but the 6 sorts, 10 nested code helpers, 6 graph scans); for every entry of the full registry outside GrowthExcluded (the KnownUnbounded names, 3 multiplying, 3 text-printing, 3 oracle-name instructions) one execution satisfies weight' <= 2 weight + 64, and so does one interpreter step whatever is on top of EXEC. "
              "REFUTED with witnesses in the model: T.ONES / T.ZEROS, the three vector RAND, FLOATVECTOR.SINE, LIST.NEIGHBOR* perform work controlled by an operand (weight 1 -> 1 + n for every n); max_points_in_program is dead: under the DEFAULT limits the model of PushInterpreter::run on ( CODE.QUOTE ( 1 ) EXEC.Y ( CODE.DUP CODE.LIST ) ) ends at the step limit with a CODE item of 3 * 2^200 - 1 points, the growth cap (stack depths, +2 per step) never firing; NAME.DUP NAME.CAT doubles a NAME likewise; CODE.SUBST and GRAPH.NODES multiply two operand sizes. "
              "Tie to the code: every deterministic instruction at INTEGER operands 0 / 1 / 10^3 / 10^5 / -1 / -10^5 and on random states is run on the real interpreter, diffed with the extracted model, and the growth bound is evaluated on the implementation's output; the operand-controlled ones at 10^4 and 10^6 reproduce the known findings; doubling programs reproduce max-points-in-program-dead.")
LEVEL_NOTE = ("PARTIAL: real RSS, allocator failure and wall-clock are runtime facts; the model carries only the counting argument. Measured here, not proved: every case completes under 2 GB of address space, single steps on states of up to 10^5 cells take < 2 s. "
              "Trusted: Coq kernel, extraction, driver, harness, generators, the hand-read cost table. Theorems closed under the global context.")

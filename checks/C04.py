"""C04 — scalar instructions compute what their documentation says."""
import random
import vcheck
from vcheck import Stream, sx_parse
from gen.stategen import *
from gen.pools import F32, I32, rand_f32, rand_i32, fbits
from gen import stepgen

PROPERTY = "C04"
PROPS_VO = "Props/C04"
AXIOMS_OK = []
KNOWN_ARGS = "pair"     # the known-class suite looks at (case observed)
KNOWN_SUITE = {"run": "scalar.known"}
INT2 = ["INTEGER.+", "INTEGER.-", "INTEGER.*", "INTEGER./", "INTEGER.%", "INTEGER.<", "INTEGER.=", "INTEGER.>", "INTEGER.MAX", "INTEGER.MIN"]
FLT2 = ["FLOAT.+", "FLOAT.-", "FLOAT.*", "FLOAT./", "FLOAT.%", "FLOAT.<", "FLOAT.=", "FLOAT.>", "FLOAT.MAX", "FLOAT.MIN"]
FLT1 = ["FLOAT.COS", "FLOAT.SIN", "FLOAT.TAN", "FLOAT.EXP", "INTEGER.FROMFLOAT", "BOOLEAN.FROMFLOAT"]
INT1 = ["INTEGER.ABS", "FLOAT.FROMINTEGER", "BOOLEAN.FROMINTEGER"]
BOOL2 = ["BOOLEAN.=", "BOOLEAN.AND", "BOOLEAN.OR"]
BOOL1 = ["BOOLEAN.NOT", "INTEGER.FROMBOOLEAN", "FLOAT.FROMBOOLEAN"]
NAME2 = ["NAME.=", "NAME.CAT"]
ASSUMPTIONS = ["libm (sin, cos, tan, exp) is an oracle answered by the implementation's own libm: 'FLOAT.COS applies cos to the top item' is checked, the numerical quality of libm is trusted",
               "f32 arithmetic of the executable model is Flocq binary32 (round to nearest even), validated against Rust's f32 by stream f32-primitives"]
TRUSTED_EXTRA = ["Base/F32Flocq.v (Flocq 4 binary32 instance of FloatOps incl. hand-written fmod, casts, decimal printing/parsing) — modelled, tied by correspondence; the C04 theorems are parametric in FloatOps and do not depend on it"]


def mk(prof, nm, under, **stk):
    st = dict(bool=[True], code=[Z(1)], float=[fbits(9.5)], int=[77], name=["keep"], bvec=[[True]], ivec=[[3]], fvec=[[fbits(1.0)]],
              bind=[("K", Z(5))]) if under else {}
    for k, v in stk.items():
        st[k] = list(v) + list(st.get(k, []))
    st["exec"] = [I(nm), Z(4)]
    return case_run(prof, state(**st), 0, 1)


def streams(seed, tier):
    rng = random.Random(seed)
    from gen import f32gen
    out = [Stream("f32-primitives", "f32", None, f32gen.cases(seed, 3000 if tier == "quick" else 60000),
                  "validation of the Flocq FloatOps instance against Rust f32: boundary pool x pool for + - * / % compare, casts, sqrt/ceil/round, {:.k} printing, decimal parsing")]
    cases = []
    nrand = {"quick": 120, "thorough": 2000, "search": 1500}[tier]
    ipool = I32 if tier != "thorough" else I32 + [46341, -46341, 65536, 2**30, -2**30]
    fpool = F32[::2] if tier == "quick" else F32
    for nm in INT2:
        for prof in (0, 1):
            ops = [(a, b) for a in ipool for b in ipool] if prof == 0 else []
            ops += [(rand_i32(rng), rand_i32(rng)) for _ in range(nrand)]
            for a, b in ops:
                cases.append(mk(prof, nm, prof == 0, int=[b, a]))
            cases += [mk(prof, nm, True, int=[5]), mk(prof, nm, False)]
    for nm in FLT2:
        for prof in (0, 1):
            ops = [(a, b) for a in fpool for b in fpool] if prof == 0 else []
            ops += [(rand_f32(rng), rand_f32(rng)) for _ in range(nrand)]
            for a, b in ops:
                cases.append(mk(prof, nm, prof == 0, float=[b, a]))
            cases += [mk(prof, nm, True, float=[fbits(5.0)]), mk(prof, nm, False)]
    for nm in FLT1:
        for prof in (0, 1):
            small = [fbits(x) for x in (1e-3, 2e-3, 4e-3, -4e-3, 4.8e-3, 5e-3, 1e-2, 0.1, -0.1, 0.5, 3.1415927, 1e-4, 6e-4)]
            for a in F32 + small + [rand_f32(rng) for _ in range(nrand)]:
                cases.append(mk(prof, nm, prof == 0, float=[a]))
            cases.append(mk(prof, nm, False))
    # FLOAT.EXP where the result is about to overflow / has become subnormal (a detour through f64 rounds differently there)
    for k in range({"quick": 24000, "thorough": 100000, "search": 30000}[tier]):
        x = rng.uniform(80.0, 104.0) * rng.choice([1, -1, -1])
        cases.append(mk(k % 2, "FLOAT.EXP", False, float=[fbits(x)]))
    for nm in INT1:
        for prof in (0, 1):
            for a in I32 + [rand_i32(rng) for _ in range(nrand)]:
                cases.append(mk(prof, nm, prof == 0, int=[a]))
            cases.append(mk(prof, nm, False))
    for nm in BOOL2:
        for a in (True, False):
            for b in (True, False):
                cases += [mk(p, nm, True, bool=[b, a]) for p in (0, 1)]
        cases += [mk(0, nm, True, bool=[True]), mk(0, nm, False)]
    for nm in BOOL1:
        cases += [mk(p, nm, True, bool=[b]) for p in (0, 1) for b in (True, False)] + [mk(0, nm, False)]
    for nm in NAME2:
        for a in ["A", "", "A B", "é", "same"]:
            for b in ["A", "", "B", "same"]:
                cases.append(mk(rng.randrange(2), nm, True, name=[b, a]))
        cases += [mk(0, nm, True, name=["x"]), mk(0, nm, False)]
        # long operands (also multi-byte): the result's length at / around powers of two
        for unit in ["a", "ab", "\u00e9", "\u65e5\u672c", "x\u00e9"]:
            for total in [255, 256, 1023, 1024, 1025, 2047, 4095, 4096, 4097, 8193, 16385]:
                ub = len(unit.encode())
                la = rng.randrange(0, total // ub + 1)
                a = (unit * (la + 1))[:la]
                b = (unit * (total // ub + 2))[:max(0, (total - len(a.encode()) - 1) // ub + rng.randrange(0, 2))]
                cases.append(mk(rng.randrange(2), nm, True, name=[b, a]))
                cases.append(mk(rng.randrange(2), nm, False, name=[a + a, a + a]))
        # names that differ in letter case only, in a prefix / suffix only, or not at all
        for a, b in [("A ", "B"), ("A", " B"), ("x\n", "y"), ("\tq", "r "), (" ", " "), ("foo", "FOO"), ("x", "X"), ("Arg", "ARG"), ("ab", "aB"), ("abc", "abd"), ("abc", "ab"), ("", " "), ("\u00e9", "\u00c9"), ("\u00e9", "e\u0301"), ("K", "\u212a"), ("same", "same")]:
            cases.append(mk(rng.randrange(2), nm, True, name=[b, a]))
            cases.append(mk(rng.randrange(2), nm, True, name=[a, b]))
    out.append(Stream("scalar-by-name", "run", "scalar.check", cases,
                      "every scalar instruction driven by NAME through the interpreter: boundary pool x boundary pool + random operands, deeper stacks beneath, missing-operand cases, NAME operands up to 16 KiB incl. multi-byte characters, both profiles"))
    # two and three scalar instructions in a row on the SAME operand values (a result remembered from one call must not leak into the next)
    unary = [x for x in FLT1 if x.startswith("FLOAT.")]
    seq = []
    vals = [fbits(x) for x in (0.5, 2.0, -1.25, 1e-3, 3.0, 0.1, 10.0)] + [0, 0x80000000]
    for a in vals:
        for f in unary:
            for g in unary:
                prog = [F(a), I(f), F(a), I(g), F(a), I(f)]
                seq.append(case_run((len(seq)) % 2, state(exec=prog, float=[fbits(9.5)]), 0, len(prog)))
                prog2 = [F(a), I("FLOAT.DUP"), I(f), I("FLOAT.SWAP"), I(g)]
                seq.append(case_run((len(seq)) % 2, state(exec=prog2), 0, len(prog2)))
    for _ in range({"quick": 300, "thorough": 5000, "search": 1500}[tier]):
        a, b = rng.choice(vals + [rand_f32(rng)]), rng.choice(vals)
        names2 = [rng.choice(FLT2 + FLT1 + ["FLOAT.DUP", "FLOAT.SWAP"]) for _ in range(rng.randrange(2, 6))]
        prog = [F(a), F(b), F(a), F(b)] + [I(x) for x in names2]
        seq.append(case_run(rng.randrange(2), state(exec=prog, float=[a, b]), 0, len(prog)))
    out.append(Stream("scalar-sequences", "run", "run.check", seq,
                      "every ordered pair of the unary FLOAT functions applied in turn to one and the same operand (x f x g x f; x DUP f SWAP g) for 9 operands, and random sequences of 2..5 "
                      "FLOAT instructions over repeated operand values: step-by-step equality with the model"))
    # every *.FROM* conversion of the registry (the scalar ones above have a reference signature; CODE.FROM*, INTVECTOR.FROMINT,
    # ... are compared with the model): random whole states, in half of those with bindings the top NAME is a BOUND name
    from gen import stepgen
    impl_names, model_names = vcheck.registry_names()
    allnames = sorted(model_names)
    safe = [x for x in allnames if x not in stepgen.UNSAFE and x not in stepgen.RANDOM and x not in stepgen.ALLOCATING]
    conv = [x for x in allnames if ".FROM" in x]
    n = {"quick": 120, "thorough": 1500, "search": 600}[tier]
    cases = []
    for nm in conv:
        for _ in range(n):
            cases.append(stepgen.step_case(rng, nm, allnames, safe))
    out.append(Stream("conversions-by-name", "run", "run.check", cases,
                      "one step of each of the %d *.FROM* instructions (%s) on random whole states (bindings present, top NAME bound in half of them, 8%% with one LARGE component)" % (len(conv), ", ".join(conv))))
    return out


TECHNIQUE = "Coq proof that every scalar instruction of the model equals a documented reference signature on all states (for any FloatOps) + differential correspondence by instruction NAME with the reference evaluated on the implementation's output; libm by oracle"
DESIGN_REF = "DESIGN.md section 6.C04"
LEVEL_TEXT = ("Spec/ScalarSpec.v is the reference written from the doc comments (operand stack, count, left/right order, result stack, zero divisor -> no result). C04_scalar_correct proves, for every FloatOps and every state, that each of the 36 registered scalar NAMES is bound to a function equal to its reference; "
              "C04_profile_independent that the build profile cannot matter; C04_integer_results_in_type covers unrepresentable results. The model is tied to the code by running every instruction by name on boundary pool x pool plus random operands in both profiles, and the reference itself is evaluated on the implementation's results. "
              "BOOLEAN.FROMFLOAT/FROMINTEGER contradict their documentation but are pinned by unit tests: known finding, proved as such (C04_from_integer_refuted).")
LEVEL_NOTE = "Trusted: Coq kernel, extraction, driver, harness, generators; Flocq instance of f32 arithmetic validated by stream f32-primitives; libm trusted (oracle). Theorems closed under the global context."

"""C13 — random value generators respect their bounds."""
import random
import vcheck
from vcheck import Stream, sx_str
from gen.stategen import state, S, Z
from gen.pools import fbits
from gen.randgen import *

PROPERTY = "C13"
PROPS_VO = ["Props/C13", "Props/FloatFacts"]
AXIOMS_OK = []
AXIOMS_OK_BY_FILE = {"Props/FloatFacts": vcheck.FLOCQ_AXIOMS}
THEOREM_FILTER = {"Props/FloatFacts": r"FF_(C13_|fo_nbits|nbits_sane)"}
ASSUMPTIONS = [
    "nbits_sane is a THEOREM for the Flocq binary32 instance for every i32 size and every sparsity accepted by BOOLVECTOR.RAND (Props/FloatFacts.v: FF_nbits_sane, FF_C13_bool_vec_*_flocq), depending on the 4 classical axioms of Coq's real numbers through Flocq",
    "the random number generator is an oracle (tape): integer gen_range answers inside [lo,hi) and panics on an empty range; f32 gen_range answers lo <= x < hi and panics when not lo < hi or when hi - lo is not finite; rng.gen::<f32>() is in [0,1); Normal::sample is any f32; Normal::new fails exactly on a non-finite deviation (rand 0.8.8 / rand_distr 0.4.3 sources read; their contracts are trusted). Theorems hold for EVERY tape",
    "FloatOps is an interface without laws: 0 <= nbits <= size (the share of non-default bits is at most 1/2 in IEEE arithmetic) is a hypothesis (nbits_sane) of the BOOLVECTOR.RAND theorems; the checker evaluates it with the Flocq binary32 instance on every case, and Suites/SRand.v sweeps it over the grid",
    "the rejection loop is modelled with fuel; when a (finite) tape is exhausted before a default position was offered the model continues with the outcome 'first default position' - some continuation of the generator's output; an RNG that never offers a default position makes the real loop run forever: excluded with probability 1, not by proof",
    "membership correspondence (unseeded generator): N draws per grid point, the proved predicates evaluated on each; 'every position can become TRUE' is additionally tested statistically with N chosen so that a false alarm has probability < 1e-12 per case",
    "distributional quality (uniformity, normality) is not claimed; vector sizes are kept small (huge sizes are C15's)",
]
TRUSTED_EXTRA = ["Base/F32Flocq.v (Flocq binary32 instance of FloatOps) is used by the checker to evaluate the documented rounding; the C13 theorems are parametric in FloatOps"]

SIZES = [0, 1, 2, 3, 7, 64]
SPARS = [fbits(0.0), fbits(0.01), fbits(0.25), fbits(0.5), fbits(0.51), fbits(0.75), fbits(1.0), fbits(-0.1), fbits(1.1), NAN,
         NZERO, INF, NINF, fbits(0.004), fbits(0.996), fbits(0.5000001)]
RANGES = [(0, 1), (-10, 10), (5, 5), (5, 1), (MIN32, MAX32), (MAX32 - 1, MAX32), (MIN32, MIN32 + 1), (0, MAX32), (MAX32, MIN32), (-3, -3)]
MEANS = [fbits(0.0), fbits(1.5), fbits(-3e38), INF, NAN]
SDS = [fbits(0.0), NZERO, fbits(1.0), fbits(1e-3), fbits(3e38), fbits(-1.0), NINF, INF, NAN, 0x00000001]
FRANGES = [(fbits(-1.0), fbits(1.0)), (fbits(0.0), fbits(1.0)), (fbits(1.0), fbits(1.0)), (fbits(2.0), fbits(1.0)), (fbits(-3e38), fbits(3e38)),
           (NINF, fbits(1.0)), (fbits(0.0), INF), (NINF, INF), (NAN, fbits(1.0)), (fbits(0.0), NAN), (fbits(1.0), 0x3f800001), (NZERO, fbits(0.0)),
           (fbits(-3.4e38), fbits(-3.3e38)), (0, 1), (fbits(-1e38), fbits(2.5e38))]


def narrow_ranges():
    """(min, max) bit patterns 1, 2 and 3 ulps apart at several magnitudes, positive and mirrored negative, subnormal and
    straddling zero: `min + (max - min) * u` is not representable inside such a range and rounds onto a bound"""
    out = []
    for m in (1.0, 1000.0, 16777216.0, 1e30, 3e38, 1.17549435e-38, 1e-30):
        b = fbits(m)
        for k in (1, 2, 3):
            out.append((b, b + k))
            out.append((0x80000000 | (b + k), 0x80000000 | b))
    for k in (1, 2, 3):
        out += [(1, 1 + k), (0, k), (0x80000000 | (1 + k), 0x80000001), (0x80000000 | k, NZERO), (0x80000000 | k, k)]
    out += [(0x007fffff, 0x00800001), (0x3f7fffff, 0x3f800001), (0x4b7fffff, 0x4b800001)]     # across a binade boundary (ulp doubles)
    return out


def sp_float(bits):
    import struct
    return struct.unpack("<f", struct.pack("<I", bits))[0]


def reach_n(size, spbits, base):
    """(N, reach flag) for a bool-vector case"""
    sp = sp_float(spbits)
    if size < 0 or sp != sp or sp < 0.0 or sp > 1.0:
        return base, 0
    nb = nbits_py(size, sp)
    need = draws_for_reachability(size, nb)
    return (max(base, int(need * 1.15) + 2), 1) if need else (base, 0)


def streams(seed, tier):
    rng = random.Random(seed)
    base = {"quick": 150, "thorough": 600, "search": 150}[tier]
    out = []
    # ---- BOOLVECTOR: function and instruction ----
    cases = []
    sizes = SIZES + [200, -1, MIN32]
    for size in sizes:
        for sp in SPARS:
            n, reach = reach_n(size, sp, base)
            cases.append(case(rng.randrange(2), 4, n, [size, sp, reach], tape(rng)))
            st = state(int=[size, 9], float=[sp, fbits(7.0)], bvec=[[True]])
            cases.append(case(rng.randrange(2), 11, n, [st, [], S("BOOLVECTOR.RAND"), 0, [], reach], tape(rng)))
    cases.append(case(0, 11, 3, [state(int=[3]), [], S("BOOLVECTOR.RAND"), 0, [], 0], tape(rng)))
    cases.append(case(0, 11, 3, [state(float=[fbits(0.5)]), [], S("BOOLVECTOR.RAND"), 0, [], 0], tape(rng)))
    out.append(Stream("BOOLVECTOR.RAND", "rand", "rand.check", cases,
                      "random_bool_vector and BOOLVECTOR.RAND: size {0,1,2,3,7,64,200,-1,i32::MIN} x sparsity {0,.01,.25,.5,.51,.75,1,-0.1,1.1,NaN,-0,+-inf,.004,.996,.5000001}: length, #non-default = documented rounding, invalid -> nothing; every position seen non-default (N draws, false-alarm probability < 1e-12); missing operands", project=project))
    # ---- the count on the whole percent grid, at sizes where `share * size as f32` is not what exact arithmetic gives ----
    cases = []
    big_sizes = [100, 150, 300, 450, 600, 750, 900, 1050, 1500, 3000, 4950] if tier != "quick" else [150, 300, 750, 1050, 3000]
    for size in big_sizes:
        for pc in range(0, 101):
            cases.append(case(rng.randrange(2), 4, 2, [size, fbits(pc / 100.0), 0], tape(rng)))
    for _ in range(300 if tier == "quick" else 3000):
        size = rng.choice([rng.randrange(100, 5000), 150 * rng.randrange(1, 40), 50 * rng.randrange(1, 100)])
        cases.append(case(rng.randrange(2), 4, 2, [size, fbits(rng.randrange(0, 101) / 100.0), 0], tape(rng)))
    out.append(Stream("BOOLVECTOR.RAND-count-grid", "rand", "rand.check", cases,
                      "random_bool_vector at sizes %s and random sizes up to 5000 (multiples of 50 / 150 preferred) x every sparsity k/100: "
                      "the number of non-default bits equals the documented f32 computation (where it differs from exact integer arithmetic, e.g. size 150, 42%%)" % big_sizes, project=project))
    # ---- INTVECTOR ----
    cases = []
    for size in SIZES + [-1, MIN32]:
        for (lo, hi) in RANGES:
            cases.append(case(rng.randrange(2), 6, base, [size, lo, hi], tape(rng)))
            st = state(int=[size, hi, lo, 77], ivec=[[1, 2]])
            cases.append(case(rng.randrange(2), 11, base, [st, [], S("INTVECTOR.RAND"), 0, [], 0], tape(rng)))
    cases.append(case(0, 11, 3, [state(int=[3, 5]), [], S("INTVECTOR.RAND"), 0, [], 0], tape(rng)))
    out.append(Stream("INTVECTOR.RAND", "rand", "rand.check", cases,
                      "random_int_vector and INTVECTOR.RAND: sizes x (min,max) incl. equal, reversed, full i32 range, width 1: length and every element in [min,max); invalid -> nothing; fewer than three operands", project=project))
    # ---- FLOATVECTOR ----
    cases = []
    for size in SIZES + [-1, MIN32]:
        for mean in MEANS:
            for sd in SDS:
                if tier == "quick" and size in (2, 7) and mean != MEANS[0]:
                    continue
                cases.append(case(rng.randrange(2), 5, base // 2, [size, mean, sd], tape(rng)))
                st = state(int=[size, 1], float=[mean, sd, fbits(9.0)], fvec=[[fbits(1.0)]])
                cases.append(case(rng.randrange(2), 11, base // 2, [st, [], S("FLOATVECTOR.RAND"), 0, [], 0], tape(rng)))
    cases.append(case(0, 11, 3, [state(int=[3], float=[fbits(1.0)]), [], S("FLOATVECTOR.RAND"), 0, [], 0], tape(rng)))
    cases.append(case(0, 11, 3, [state(float=[fbits(1.0), fbits(1.0)]), [], S("FLOATVECTOR.RAND"), 0, [], 0], tape(rng)))
    out.append(Stream("FLOATVECTOR.RAND", "rand", "rand.check", cases,
                      "random_float_vector and FLOATVECTOR.RAND: sizes x mean {0,1.5,-3e38,inf,NaN} x deviation {0,-0,1,1e-3,3e38,denormal,-1,-inf,inf,NaN}: length; negative / NaN / infinite deviation -> nothing, no panic; missing operands", project=project))
    # ---- scalars and names ----
    cases = []
    for (lo, hi) in RANGES:
        st = state(int=[4], cfg=cfg(maxi=hi, mini=lo))
        cases.append(case(rng.randrange(2), 8, base * 2, [st], tape(rng)))
        cases.append(case(rng.randrange(2), 11, base * 2, [st, [], S("INTEGER.RAND"), 0, [], 0], tape(rng)))
    for (lo, hi) in FRANGES:
        st = state(float=[fbits(4.0)], cfg=cfg(maxf=hi, minf=lo))
        cases.append(case(rng.randrange(2), 7, base * 2, [st], tape(rng)))
        cases.append(case(rng.randrange(2), 11, base * 2, [st, [], S("FLOAT.RAND"), 0, [], 0], tape(rng)))
    # a generator reads ITS OWN fields only: a valid INTEGER interval with the FLOAT interval / new-name probability invalid, and vice versa
    for (lo, hi) in RANGES[:4]:
        for (flo, fhi, pn) in ((fbits(2.0), fbits(1.0), 0.001), (NAN, fbits(1.0), 0.001), (NINF, INF, 0.001), (fbits(-1.0), fbits(1.0), 7.0), (fbits(-1.0), fbits(1.0), float("nan"))):
            st = state(int=[4], cfg=cfg(maxi=hi, mini=lo, maxf=fhi, minf=flo, pnew=pn))
            cases.append(case(rng.randrange(2), 8, base, [st], tape(rng)))
            cases.append(case(rng.randrange(2), 11, base, [st, [], S("INTEGER.RAND"), 0, [], 0], tape(rng)))
    for (lo, hi) in FRANGES[:3]:
        for (ilo, ihi, pn) in ((5, 5, 0.001), (7, -7, 0.001), (-10, 10, -3.0), (2147483647, -2147483648, 0.001)):
            st = state(float=[fbits(4.0)], cfg=cfg(maxf=hi, minf=lo, maxi=ihi, mini=ilo, pnew=pn))
            cases.append(case(rng.randrange(2), 7, base, [st], tape(rng)))
            cases.append(case(rng.randrange(2), 11, base, [st, [], S("FLOAT.RAND"), 0, [], 0], tape(rng)))
    for nb in (0, 1, 11, 5, 15, 1, 15, 11, 21, 22):       # tables of equal size and different names follow each other; a self-defined name; odd keys
        st = state(name=["keep"], bind=BINDS[nb], quote=(nb in (1, 15)), send=(nb in (5, 15)))
        cases.append(case(rng.randrange(2), 10, base * 3, [st], tape(rng)))
        cases.append(case(rng.randrange(2), 11, base * 3, [st, [], S("NAME.RANDBOUNDNAME"), 0, [], 0], tape(rng)))
        cases.append(case(rng.randrange(2), 11, base, [st, [], S("NAME.RAND"), 0, [], 0], tape(rng)))
    cases.append(case(0, 9, base, [], tape(rng)))
    cases.append(case(1, 11, base * 2, [state(bool=[True]), [], S("BOOLEAN.RAND"), 0, [], 0], tape(rng)))
    out.append(Stream("scalars-names", "rand", "rand.check", cases,
                      "INTEGER.RAND / FLOAT.RAND over configured intervals incl. equal, reversed, full range, overflowing width, infinite and NaN bounds; NAME.RANDBOUNDNAME with 0/1/5 bindings; NAME.RAND; BOOLEAN.RAND", project=project))
    # ---- FLOAT.RAND on ranges a few ulps wide ----
    cases = []
    for (lo, hi) in narrow_ranges():
        st = state(float=[fbits(4.0)], cfg=cfg(maxf=hi, minf=lo))
        cases.append(case(rng.randrange(2), 7, base * 2, [st], tape(rng)))
        cases.append(case(rng.randrange(2), 11, base * 2, [st, [], S("FLOAT.RAND"), 0, [], 0], tape(rng)))
    out.append(Stream("FLOAT.RAND-narrow-ranges", "rand", "rand.check", cases,
                      "random_float / FLOAT.RAND with (min, max) 1, 2 and 3 ulps apart at 1.0, 1000.0, 2^24, 1e30, 3e38, the smallest normal, 1e-30, subnormal, mirrored negative, "
                      "straddling zero and across a binade boundary, %d draws each: min <= x < max (a scaled unit sample rounds onto max with probability 1/6 .. 1/2 per draw there)" % (base * 2), project=project))
    if tier != "quick":
        # random parameters around the boundaries
        cases = []
        for _ in range(400):
            size = rng.choice([rng.randrange(0, 12), rng.randrange(0, 130)])
            sp = rng.choice([fbits(rng.random()), fbits(rng.randrange(0, 101) / 100.0), fbits(rng.uniform(-0.2, 1.2)), fbits(0.5 + rng.uniform(-1e-3, 1e-3))])
            n, reach = reach_n(size, sp, 60)
            if n > 6000:
                n, reach = 60, 0
            cases.append(case(rng.randrange(2), 4, n, [size, sp, reach], tape(rng)))
        for _ in range(400):
            lo = rng.choice([rng.randrange(-50, 50), rng.randrange(MIN32, MAX32), MIN32, MAX32 - 3])
            hi = rng.choice([lo + rng.randrange(-2, 5), rng.randrange(MIN32, MAX32), MAX32])
            hi = max(MIN32, min(MAX32, hi))
            cases.append(case(rng.randrange(2), 6, 60, [rng.randrange(-1, 20), lo, hi], tape(rng)))
        out.append(Stream("random-parameters", "rand", "rand.check", cases,
                          "random (size, sparsity) incl. sparsities within 1e-3 of 0.5 and multiples of 1/100, random (size, min, max) incl. adjacent and extreme bounds", project=project))
    return out


TECHNIQUE = "Coq proof over an explicit randomness oracle (tape) incl. a fuelled model of the rejection loop; membership correspondence on the parameter grid with a statistical reachability test (false-alarm probability < 1e-12 per case), RNG-independent part of every result diffed against the model"
DESIGN_REF = "DESIGN.md section 6.C13, 2.5"
LEVEL_TEXT = ("Machine-checked for every outcome of the random number generator and every FloatOps: C13_int_rand_in_range, C13_float_rand_in_range (from the oracle contract; the instruction guards exactly the cases where gen_range would panic), "
              "C13_bool_vec_length, C13_bool_vec_count (#non-default bits = trunc(round(100*min(s,1-s))/100 * size), default = s > 0.5), C13_bool_vec_every_position_reachable, C13_rejection_loop_finishes, "
              "C13_int_vec_length_range, C13_float_vec_length, C13_invalid_params_none (no vector, no panic, no draw, only operands consumed), C13_randbound_returns_bound_name. "
              "Tie to the code: membership on the grid size x sparsity / (min,max) / (mean,deviation) incl. NaN, infinities, reversed and extreme bounds, through both CodeGenerator::* and the RAND instructions; the state around the pushed value is diffed exactly. "
              "Defects found and repaired (fix: commits): flip index drawn from 0..size-1 (last position never TRUE), NaN sparsity produced a vector, NaN/infinite deviation panicked in Normal::new().unwrap(), FLOAT.RAND panicked when max-min is not finite.")
LEVEL_NOTE = "Partial: distributional quality and the rand / rand_distr / names crates' contracts are trusted (oracle hypotheses); the bit-count theorems assume 0 <= nbits <= size, a fact of IEEE arithmetic not derivable from the law-free FloatOps interface (evaluated by the checker on every case). Theorems are closed under the global context."

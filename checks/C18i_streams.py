"""C18 — graph memory, instruction level: the GRAPH.* instructions on the capacity-100 GRAPH stack.
To be merged into checks/C18.py (its streams() are exposed here as streams(seed, tier))."""
import random
import vcheck
from vcheck import Stream, sx_str, sx_parse
from gen.stategen import *
from gen.pools import fbits, rand_f32
from gen import stepgen
from gen.stepgen import PyGraph, next_base, GSTATES, rand_weight, HASH_ORDERED

PROPERTY = "C18"
PROPS_VO = "Props/C18i"
AXIOMS_OK = []
ASSUMPTIONS = [
    "instruction level: whole PushStates with a non-empty GRAPH stack are run through the real interpreter by instruction NAME; node ids are ABSOLUTE (the harness brings the process-global node counter to the value the case states, see the header of coq/theories/Model/IGraph.v), so ids in graphs, on the INTEGER stack and in INTVECTORs are compared without any renaming",
    "results that Rust produces in HashMap iteration order (GRAPH.NODES, NODES*HISTORY, the successor part of NODE*SUCCESSORS / NODE*NEIGHBORS, the lines of GRAPH.PRINT / PRINT*DIFF) are compared exactly only when they have at most one element per loop (suite run); with more elements they are compared as sorted lists / sorted lines (suite graphq)",
    "f32 Display inside GRAPH.PRINT / PRINT*DIFF texts is reconstructed from fixed-precision formatting and parsing (fdisp in Model/IGraph.v); an asymmetric rounding interval at a power of two could make the model print one digit more than Rust (never observed)",
    "GRAPH.EDGE*HISTORY is modelled after the repair `pos > 0` -> `pos >= 0` (fixes/C18-edge-history-depth0.patch); stack depths stay below 2^31",
]


def model_names():
    return sorted("".join(chr(c) for c in n) for n in sx_parse(vcheck.run_model(["names (0)"])[0])[1])


class Sim:
    """plain-data twin of the GRAPH stack while a program of GRAPH.* instructions runs (predicts the ids
    NODE*ADD issues and the sizes of HashMap-ordered results)"""
    def __init__(self, graphs, next_node):
        self.gs = [g.clone() for g in graphs]
        self.nn = next_node
        self.issued = 0

    def top(self):
        return self.gs[-1] if self.gs else None

    def live(self):
        return sorted(self.top().nodes) if self.gs else []

    def add(self):
        if len(self.gs) < 100: self.gs.append(PyGraph())

    def dup(self):
        if self.gs and len(self.gs) < 100: self.gs.append(self.gs[-1].clone())

    def node_add(self, st):
        if self.gs:
            self.top().nodes[self.nn] = st
            self.nn += 1; self.issued += 1

    def set_state(self, k, st):
        if self.gs and k > 0 and k in self.top().nodes: self.top().nodes[k] = st

    def switch(self, ids, sw, on, off):
        if self.gs:
            for k, b in zip(ids, sw):
                if k in self.top().nodes: self.top().nodes[k] = on if b else off

    def edge_add(self, o, d, w):
        if self.gs: self.top().add_edge(o, d, w)

    def set_weight(self, o, d, w):
        if self.gs and d in self.top().edges:
            l = self.top().edges[d]
            for i, x in enumerate(l):
                if x[0] == o:
                    l[i] = (o, w); break


def rand_program(rng, sim, length, allow_hash=True):
    """a program (list of exec items, first executed first) of GRAPH.* instructions, each fed its operands by
    literals; HashMap-ordered instructions only where the predicted result has <= 1 element"""
    prog = []

    def nid(p_live=0.75):
        live = sim.live()
        r = rng.random()
        if live and r < p_live: return rng.choice(live)
        older = sorted(set(k for g in sim.gs[:-1] for k in g.nodes) - set(live))
        if older and r < p_live + 0.1: return rng.choice(older)
        return rng.choice([0, -1, sim.nn, sim.nn + 1, 2147483647, -2147483648, 1])
    pos = lambda: stepgen.rand_pos(rng, sim.gs)
    for _ in range(length):
        k = rng.choice(["add", "dup", "node", "node", "node", "edge", "edge", "edge", "setstate", "setstate", "setweight", "setweight",
                        "getstate", "getweight", "nhist", "ehist", "nshist", "pred", "succ", "neigh", "nodes", "switch", "depth", "print", "pdiff"])
        if k == "add" and sim.gs and rng.random() < 0.7: k = "node"
        if not sim.gs and rng.random() < 0.8: k = "add"
        if k == "add": prog.append(I("GRAPH.ADD")); sim.add()
        elif k == "dup": prog.append(I("GRAPH.DUP")); sim.dup()
        elif k == "node":
            st = rng.choice(GSTATES); prog += [Z(st), I("GRAPH.NODE*ADD")]; sim.node_add(st)
        elif k in ("edge", "setweight"):
            o, d, w = nid(0.9), nid(0.9), rand_weight(rng)
            if k == "setweight" and sim.gs and rng.random() < 0.7:
                pairs = sorted((x[0], dd) for dd, l in sim.top().edges.items() for x in l)
                if pairs: o, d = rng.choice(pairs)
            prog += [Z(o), Z(d), F(w), I("GRAPH.EDGE*ADD" if k == "edge" else "GRAPH.EDGE*SETWEIGHT")]
            (sim.edge_add if k == "edge" else sim.set_weight)(o, d, w)
        elif k == "setstate":
            i, st = nid(), rng.choice(GSTATES); prog += [Z(i), Z(st), I("GRAPH.NODE*SETSTATE")]; sim.set_state(i, st)
        elif k == "getstate": prog += [Z(nid()), I("GRAPH.NODE*GETSTATE")]
        elif k == "getweight": prog += [Z(nid()), Z(nid()), I("GRAPH.EDGE*GETWEIGHT")]
        elif k == "nhist": prog += [Z(nid(0.6)), Z(pos()), I("GRAPH.NODE*HISTORY")]
        elif k == "ehist": prog += [Z(nid(0.8)), Z(nid(0.8)), Z(pos()), I("GRAPH.EDGE*HISTORY")]
        elif k == "depth": prog.append(I("GRAPH.STACKDEPTH"))
        elif k == "switch":
            n = rng.randrange(0, 4); ids = [nid() for _ in range(n)]; sw = [rng.random() < 0.5 for _ in range(rng.choice([n, n, n + 1, max(0, n - 1)]))]
            on, off = rng.choice(GSTATES), rng.choice(GSTATES)
            prog += [IV(ids), BV(sw), Z(on), Z(off), I("GRAPH.NODE*STATESWITCH")]; sim.switch(ids, sw, on, off)
        elif k == "pred":
            prog += [IV(stepgen.rand_filter(rng)), Z(nid()), I("GRAPH.NODE*PREDECESSORS")]
        elif allow_hash and sim.gs:
            f = stepgen.rand_filter(rng)
            if k in ("succ", "neigh"):
                i = nid()
                if sim.top().succs_count(i, f) <= 1:
                    prog += [IV(f), Z(i), I("GRAPH.NODE*SUCCESSORS" if k == "succ" else "GRAPH.NODE*NEIGHBORS")]
            elif k == "nodes":
                if sim.top().filter_count(f) <= 1: prog += [IV(f), I("GRAPH.NODES")]
            elif k == "nshist":
                p = pos()
                if not (0 <= p < len(sim.gs)) or sim.gs[len(sim.gs) - 1 - p].filter_count(f) <= 1:
                    prog += [IV(f), Z(p), I("GRAPH.NODES*HISTORY")]
            elif k == "print":
                if len(sim.top().nodes) <= 1 and len(sim.top().edges) <= 1: prog.append(I("GRAPH.PRINT"))
            elif k == "pdiff":
                if len(sim.gs) >= 2 and all(x <= 1 for x in stepgen.diff_loop_keys(sim.gs[-2], sim.top())): prog.append(I("GRAPH.PRINT*DIFF"))
    return prog


def history_case(rng, length, prof, final=None, suite_hash=True):
    """(case, note) : a program run from a small random GRAPH stack for exactly its number of items"""
    gs, nn = stepgen.rand_graphs(rng, nsnap=rng.choice([0, 0, 1, 2]))
    sim = Sim(gs, nn)
    prog = rand_program(rng, sim, length, allow_hash=suite_hash)
    if final:
        prog += final(rng, sim)
    next_base(sim.issued + 2)           # the ids this program issues belong to this case
    st = state(exec=prog, graph=[g.wire() for g in gs], int=[rng.choice(GSTATES) for _ in range(rng.randrange(0, 3))],
               float=[rand_weight(rng) for _ in range(rng.randrange(0, 2))])
    return case_run(prof, st, 0, len(prog), world=(nn, ()))


def final_hash_ordered(rng, sim):
    """one unrestricted HashMap-ordered instruction at the end (suite graphq canonicalises the final top items)"""
    f = stepgen.rand_filter(rng)
    live = sim.live()
    i = rng.choice(live) if live and rng.random() < 0.85 else rng.choice([0, -1, sim.nn])
    k = rng.randrange(6)
    if k == 0: return [IV(f), I("GRAPH.NODES")]
    if k == 1: return [IV(f), Z(stepgen.rand_pos(rng, sim.gs)), I("GRAPH.NODES*HISTORY")]
    if k == 2: return [IV(f), Z(i), I("GRAPH.NODE*SUCCESSORS")]
    if k == 3: return [IV(f), Z(i), I("GRAPH.NODE*NEIGHBORS")]
    if k == 4: return [I("GRAPH.PRINT")]
    return [I("GRAPH.PRINT*DIFF")]


def deep_dup_case(rng, prof, dups):
    """ADD, two nodes, an edge, then `dups` x (DUP, change a state and the weight), then HISTORY reads at many depths:
    with dups >= 99 the buffer is full and further DUPs are ignored"""
    b = next_base(8)
    n1, n2 = b + 1, b + 2
    prog = [I("GRAPH.ADD"), Z(0), I("GRAPH.NODE*ADD"), Z(0), I("GRAPH.NODE*ADD"), Z(n1), Z(n2), F(fbits(0.0)), I("GRAPH.EDGE*ADD")]
    for k in range(1, dups + 1):
        prog += [I("GRAPH.DUP"), Z(n1), Z(k), I("GRAPH.NODE*SETSTATE"), Z(n1), Z(n2), F(fbits(float(k))), I("GRAPH.EDGE*SETWEIGHT")]
    depths = sorted(set([0, 1, 2, dups - 1, dups, dups + 1, 50, 98, 99, 100, 101] + [rng.randrange(0, 102) for _ in range(4)]))
    for d in depths:
        if d < 0: continue
        prog += [Z(n1), Z(d), I("GRAPH.NODE*HISTORY"), Z(n1), Z(n2), Z(d), I("GRAPH.EDGE*HISTORY"), IV([d]), Z(d), I("GRAPH.NODES*HISTORY")]
    prog += [I("GRAPH.STACKDEPTH")]
    return case_run(prof, state(exec=prog), 0, len(prog), world=(n1, ()))


def fanin_program_case(rng, prof):
    """GRAPH.ADD, 18..33 x NODE*ADD, EDGE*ADD from 17..32 origins to one destination in descending / shuffled id order,
    GRAPH.DUP, existing edges added again (and one weight set), then predecessors, neighbours (one successor at most),
    edge weights, PRINT*DIFF against the snapshot (at most one line per loop) and the stack depth"""
    k = rng.randrange(17, 33)
    n = k + 1
    b = next_base(n + 2)
    ids = [b + 1 + i for i in range(n)]
    dest = rng.choice([ids[0], ids[-1], rng.choice(ids)])
    origins = [i for i in ids if i != dest]
    if rng.random() < 0.2: origins[rng.randrange(k)] = dest      # a self-loop among them
    origins.sort()
    if rng.random() < 0.5: origins.reverse()
    else: rng.shuffle(origins)
    prog = [I("GRAPH.ADD")]
    for _ in range(n):
        prog += [Z(rng.choice(GSTATES)), I("GRAPH.NODE*ADD")]
    w = lambda: rng.choice(stepgen.GWEIGHTS_PLAIN)
    for o in origins:
        prog += [Z(o), Z(dest), F(w()), I("GRAPH.EDGE*ADD")]
    prog += [I("GRAPH.DUP")]
    again = {0: [origins[0]], 1: [origins[-1]], 2: [max(origins)], 3: rng.sample(origins, 3), 4: list(origins)}[rng.randrange(5)]
    for o in again:
        prog += [Z(o), Z(dest), F(w()), I("GRAPH.EDGE*ADD")]
    prog += [IV([]), Z(dest), I("GRAPH.NODE*PREDECESSORS"), I("GRAPH.PRINT*DIFF")]
    if rng.random() < 0.5:
        o = rng.choice(origins)
        prog += [Z(o), Z(dest), F(fbits(77.0)), I("GRAPH.EDGE*SETWEIGHT"), Z(o), Z(dest), I("GRAPH.EDGE*GETWEIGHT"), I("GRAPH.PRINT*DIFF")]
    prog += [IV(stepgen.rand_filter(rng)), Z(dest), I("GRAPH.NODE*PREDECESSORS")]
    if dest not in origins:                                     # dest has no successor: NEIGHBORS = predecessors
        prog += [IV([]), Z(dest), I("GRAPH.NODE*NEIGHBORS")]
    prog += [IV([]), Z(rng.choice(origins)), I("GRAPH.NODE*SUCCESSORS"), Z(max(origins)), Z(dest), I("GRAPH.EDGE*GETWEIGHT"), I("GRAPH.STACKDEPTH")]
    return case_run(prof, state(exec=prog), 0, len(prog), world=(b + 1, ()))


def streams(seed, tier):
    rng = random.Random(seed)
    names = model_names()
    safe = [x for x in names if x not in stepgen.UNSAFE and x not in stepgen.RANDOM and x not in stepgen.ALLOCATING]
    gnames = [n for n in names if n.startswith("GRAPH.")]
    out = []
    per = {"quick": 120, "thorough": 1500, "search": 600}[tier]
    cases = [stepgen.graph_case(rng, nm, names, safe, profile=k % 2) for nm in gnames for k in range(per)]
    out.append(Stream("instr-step", "run", "run.check", cases,
                      "%d random whole states per GRAPH.* instruction (%d names), one interpreter step: GRAPH stack of 0-3 small snapshots sharing node ids (now and then 99/100 snapshots), operands = valid / stale / never-issued / zero / negative / extreme ids, positions around the stack depth, pool weights incl. NaN, +-0, +-inf, subnormals, state filters; missing operands; HashMap-ordered results kept at <= 1 element" % (per, len(gnames))))
    hashed = sorted(HASH_ORDERED & set(gnames))
    perq = {"quick": 150, "thorough": 2000, "search": 800}[tier]
    cases = [stepgen.graph_case(rng, nm, names, safe, profile=k % 2, ordered=False) for nm in hashed for k in range(perq)]
    out.append(Stream("instr-step-sets", "graphq", "graphq.check", cases,
                      "%d random states per HashMap-ordered instruction (%s), unrestricted graphs; top INTVECTOR compared sorted, top NAME compared as sorted lines" % (perq, ", ".join(hashed))))
    nh = {"quick": 400, "thorough": 6000, "search": 2500}[tier]
    cases = [history_case(rng, rng.choice([5, 10, 20, 40]), k % 2) for k in range(nh)]
    out.append(Stream("histories", "run", "run.check", cases,
                      "random programs of 5-40 GRAPH.* instructions with literal operands (ids issued by NODE*ADD predicted from the world counter), executed step by step by the interpreter from a GRAPH stack of 0-2 snapshots; DUP / mutate / HISTORY reads interleaved"))
    cases = [history_case(rng, rng.choice([5, 10, 20]), k % 2, final=final_hash_ordered) for k in range(nh // 2)]
    out.append(Stream("histories-sets", "graphq", "graphq.check", cases,
                      "the same, ending in one unrestricted HashMap-ordered instruction"))
    nd = {"quick": 6, "thorough": 40, "search": 12}[tier]
    dd = [101, 100, 99, 98, 3, 1] + [rng.randrange(0, 102) for _ in range(max(0, nd - 6))]
    cases = [deep_dup_case(rng, k % 2, d) for k, d in enumerate(dd[:nd])]
    out.append(Stream("dup-depth<=101", "run", "run.check", cases,
                      "GRAPH.DUP + mutation repeated up to 101 times (the 100-slot buffer fills, further DUPs are ignored), then NODE*HISTORY / EDGE*HISTORY / NODES*HISTORY at depths 0,1,2,50,98..101 and random ones"))
    nf = {"quick": 24, "thorough": 300, "search": 100}[tier]
    frng = random.Random(seed + 181)
    cases = [fanin_program_case(frng, k % 2) for k in range(nf)]
    out.append(Stream("fan-in-programs", "run", "run.check", cases,
                      "GRAPH.* programs that build a destination with 17..32 incoming edges in descending / shuffled origin-id order (EDGE*ADD), DUP, add existing edges again, then NODE*PREDECESSORS / NEIGHBORS / SUCCESSORS, "
                      "EDGE*SETWEIGHT / GETWEIGHT, PRINT*DIFF against the snapshot, executed step by step by the interpreter"))
    return out


TECHNIQUE = "Coq theorems over the Gallina model of the 19 GRAPH.* instruction bodies (effect summary: the GRAPH stack only grows or has its top replaced by an API call on it; induction over interpreter steps) + differential correspondence of whole states and instruction programs against the real interpreter with absolute node ids"
DESIGN_REF = "DESIGN.md section 6.C18"
LEVEL_TEXT = ("Instruction level. Props/C18i.v: C18i_dup_is_snapshot / C18i_snapshots_below_kept (after GRAPH.DUP the duplicated graph and everything below stay in place under every later GRAPH.* program; on a full 100-slot stack DUP is ignored), "
              "C18i_history_reads_depth (NODE*/EDGE*/NODES*HISTORY read exactly the k-th newest snapshot = get(k) of the C17 buffer, with the guards), C18i_edge_history_pinned_refuted, C18i_stale_ids_noop, "
              "C18i_wrappers_match_api (every GRAPH.* name bound to its model; operand order; the API function applied to the top graph), C18i_graph_inv_preserved (no panic; the structural invariant on every snapshot under every GRAPH.* program).")
LEVEL_NOTE = "Trusted: Coq kernel, extraction, driver, harness (incl. the node-counter protocol and the fresh-process fallback), generators. Theorems closed under the global context."

"""C20 — neighbourhoods on index topologies (Topology::find_neighbors, decompose_index, euclidean_distance)."""
import hashlib, math, random, re, struct
import vcheck
from vcheck import Stream, sx_str, sx_parse, run_impl, run_model, die

PROPERTY = "C20"
PROPS_VO = ["Props/C20", "Props/C20i", "Props/FloatFacts"]
AXIOMS_OK = []
AXIOMS_OK_BY_FILE = {"Props/FloatFacts": vcheck.FLOCQ_AXIOMS}
THEOREM_FILTER = {"Props/FloatFacts": r"FF_(C20_|fie_|FloatIntExact|powf_sq)"}
KNOWN_SUITE = {"topo": "topo.known"}
ASSUMPTIONS = [
    "every field of FloatIntExact is a THEOREM for the Flocq binary32 instance (Props/FloatFacts.v FF_fie_*); fie_sq_powf speaks about libm's powf and holds for oracle tables that answer powf(d, 2.0) with d*d (FF_FloatIntExact; such a table exists: FF_powf_sq_table_inhabited; Rust's powf is compared with d*d by stream float-facts); the Release-profile theorems need no table assumption (FF_C20_*_flocq)",
    "theorems are parametric in the float interface (FloatOps) and assume the record FloatIntExact: IEEE-754 binary32 facts on integers below 2^24 "
    "(exact +, exact (a-b).powf(2.0), exact sqrt of perfect squares, monotone sqrt, comparison agrees with integer order, sqrt 0 = 0, <= transitive); "
    "every field is evaluated on Rust's own f32 by the 'f32-facts' stream of this check (sub-operation 3) and on the Flocq instance by the correspondence",
    "x.powf(2.0) is build dependent: the debug binary calls libm's powf (answered by the oracle table of each case, computed by the harness binary's own powf), the release binary computes x*x (LLVM); "
    "the two differ in the last bit when x*x is not representable (|x| > 4096) — modelled per profile, and outside the theorems' size condition",
    "size side-conditions of the theorems: ndim * (e-1)^2 < 2^24 (float exactness), e^(ndim-1) < 2^64 (checked_pow succeeds), ntotal <= 2^31 (`i as i32`), with e the integer root",
    "index == ntotal is accepted by the guard (`>`), negative / NaN radius and ndim = 0 / ntotal = 0 give None: outside the quantifier, both sides are still compared there",
    "long 1-dimensional topologies (ntotal 46340 .. 70000, beyond the size condition): the release build is compared with the model and the geometric set; the debug build (libm powf per cell; "
    "the model's oracle table is an association list) is judged by the geometric set only, the model is not run there (stream long-1d-debug-impl-only)",
    "ndim >= 65 with ntotal >= 2: find_neighbors returns None (checked_pow(64) overflows) — KnownClass 1, see known_findings.jsonl",
]

TRUSTED_EXTRA = [
    "checks/C20.py wraps vcheck._shard: find_neighbors cases with ndim 1 and ntotal >= 20000 run one per worker (implementation, model and checker)",
    "Suites/STopology.v geo_nbrs_fast (index enumeration in Z) replaces the specification's geo_nbrs inside the wire checker; lemma geo_nbrs_fast_eq proves them equal",
    "Base/F32Flocq.v (Flocq binary32 instance of FloatOps, with the classical axioms of Coq's Reals) runs inside the extracted model and the wire checker only; no C20 theorem mentions it",
    "libm oracle: powf values in the case tables are computed by the harness binary itself (Rust std f32::powf), suite 'libm'",
]

TWO = 0x40000000

# A find_neighbors case on a long 1-dimensional topology costs seconds in the extracted model (one Flocq sqrt per
# cell): such cases go one per worker, for the implementation, the model and the checker alike.  lib/vcheck.py
# honours Stream.per_shard for the implementation only, hence the wrapper around its sharding function.
_HEAVY = re.compile(r"^topo(?:\.check)? \(*[01] \(\) 2 (\d+) 1 ")
_plain_shard = vcheck._shard


def _shard_heavy_alone(lines, n, per_shard=200):
    m = _HEAVY.match(lines[0][:80]) if lines else None
    return _plain_shard(lines, n, 1 if m and int(m.group(1)) >= 20000 else per_shard)


vcheck._shard = _shard_heavy_alone

# edge lengths around the largest coordinate difference whose square fits a 32-bit integer (46340^2 < 2^31 <= 46341^2)
# and around 2^16 (65536^2 = 2^32)
LONG_NTOTAL = [46340, 46341, 46342, 65536, 65537, 70000]
LONG_RADII = [0.0, 1.0, 46340.0, 46341.0, 65536.0, 1e6]


def long_1d_cases(prof, rng, per_size):
    """ndim = 1, ntotal = one long edge.  Per size: index 0 with a radius that covers everything, the last index with a
    radius beyond the overflow point, then the extreme and middle indices with radii rotating over
    {0, 1, 46340, 46341, 65536, 10^6}; per_size[k] of them are kept for the k-th size"""
    cases = []
    k = rng.randrange(len(LONG_RADII))
    for nt, keep in zip(LONG_NTOTAL, per_size):
        first = [(0, 1e6), (nt - 1, 65536.0 if nt > 65536 else 46341.0)]
        rest = []
        for index in (1, nt // 2, 0, nt - 1):
            rest.append((index, LONG_RADII[k % len(LONG_RADII)])); k += 1
        rest = [p for p in rest if p not in first]
        rng.shuffle(rest)
        for index, r in (first + rest)[:keep]:
            cases.append(sx_str([prof, [], 2, nt, 1, index, bits(r)]))
    return cases


def bits(x):
    return struct.unpack("<I", struct.pack("<f", x))[0]


def iroot_ceil(n, d):
    e = 1
    while e ** d < n:
        e += 1
    return e


_POWF = {}


def powf_sq_entries(maxd):
    """oracle entries (5 key result) for powf(d, 2.0), d = -maxd..maxd, from the harness binary's own libm"""
    need = [d for d in range(-maxd, maxd + 1) if d not in _POWF]
    if need:
        keys = [bits(float(d)) * 2 ** 32 + TWO for d in need]
        q = "libm " + sx_str([0, [[5, k] for k in keys]])
        out = sx_parse(run_impl([q])[0])
        if out[0] != 0 or len(out[1]) != len(keys):
            die("libm oracle suite failed")
        for d, ent in zip(need, out[1]):
            _POWF[d] = ent
    return [_POWF[d] for d in range(-maxd, maxd + 1)]


def nbr_case(prof, ntotal, ndim, op, *rest):
    """a find_neighbors case; only the debug build calls libm's powf (release: x * x), so only profile 0 carries a table"""
    return sx_str([prof, nbr_table(ntotal, ndim) if prof == 0 else [], op, ntotal, ndim] + list(rest))


def nbr_table(ntotal, ndim):
    if ntotal < 1 or ndim < 1:
        return []
    e = 2 if ndim > 64 and ntotal > 1 else iroot_ceil(ntotal, ndim)
    return powf_sq_entries(e - 1)


R_SQRT2, R_SQRT3, R_SQRT5 = 0x3FB504F3, 0x3FDDB3D7, 0x400F1BBD
RADII = [bits(0.0), bits(0.5), bits(1.0), bits(1.2), R_SQRT2, bits(1.5), bits(2.0), R_SQRT5, bits(3.0)]


def fill_tables(suite, cases):
    """generic oracle protocol: run the model, answer every (2 fn arg) from the harness' libm, re-run"""
    cases = [sx_parse(c) for c in cases]
    for _ in range(200):
        res = run_model(["%s %s" % (suite, sx_str(c)) for c in cases])
        todo = [(i, sx_parse(r)) for i, r in enumerate(res) if r.startswith("(2 ")]
        if not todo:
            return [sx_str(c) for c in cases]
        q = "libm " + sx_str([0, [[r[1], r[2]] for _, r in todo]])
        ans = sx_parse(run_impl([q])[0])[1]
        for (i, _), ent in zip(todo, ans):
            cases[i][1] = cases[i][1] + [ent]
    die("oracle tables do not converge")


def api_streams(seed, tier):
    rng = random.Random(seed)
    out = []
    nmax = {"quick": 60, "thorough": 400, "search": 130}[tier]   # "search": after a broken correspondence

    # 1. exhaustive small domain.  Full product up to nfull; beyond it (thorough only) every
    #    (ntotal, ndim, index) with one radius each, the nine radii rotating with index and ntotal,
    #    and for ndim = 1 the debug build (whose oracle table has 2*ntotal-1 entries) on every 8th size only.
    nfull = {"quick": 60, "thorough": 120, "search": 130}[tier]
    cases = []
    for ntotal in range(1, nmax + 1):
        for ndim in range(1, 6):
            for index in range(ntotal):
                if ntotal <= nfull:
                    for k, r in enumerate(RADII):
                        cases.append(nbr_case((ntotal + index + k) % 2, ntotal, ndim, 2, index, r))
                else:
                    prof = (ntotal // 8 + index) % 2
                    if ndim == 1 and ntotal % 8:
                        prof = 1
                    cases.append(nbr_case(prof, ntotal, ndim, 2, index, RADII[(index + ntotal + ndim) % 9]))
    note = "find_neighbors for every ntotal 1..%d x ndim 1..5 x every index x radii {0,.5,1,1.2,sqrt2,1.5,2,sqrt5,3}, profiles alternating" % nfull
    if nmax > nfull:
        note += "; ntotal %d..%d x ndim 1..5 x every index with one of the nine radii each (rotating)" % (nfull + 1, nmax)
    out.append(Stream("exhaustive-nbr<=%d" % nmax, "topo", "topo.check", cases, note))

    # 2. exact powers and larger sizes (where a float root is at risk), guards, special radii, many dimensions
    cases = []
    powers = [(e ** d, d) for d in range(2, 13) for e in range(2, 40) if e ** d <= (6000 if tier != "quick" else 2500)]
    for (n, d) in powers:
        for nt in (n - 1, n, n + 1):
            for index in sorted(set([0, nt // 2, nt - 1])):
                for r in (bits(1.0), R_SQRT2):
                    cases.append(nbr_case((nt + index) % 2, nt, d, 2, index, r))
    special_r = [bits(-1.0), bits(-0.0), 0x7fc00000, 0x7f800000, 0xff800000, bits(1e-30), 1, bits(1e30), bits(-1e-30)]
    for ntotal in (0, 1, 2, 5, 9, 37):
        for ndim in (0, 1, 2, 3):
            for index in (0, 1, ntotal - 1, ntotal, ntotal + 1):
                if index < 0:
                    continue
                for k, r in enumerate(special_r + [bits(1.0)]):
                    cases.append(nbr_case((ntotal + index + k) % 2, ntotal, ndim, 2, index, r))
    for ntotal in (1, 2, 3, 17):
        for ndim in (6, 17, 32, 63, 64, 65, 66, 100):
            for index in range(min(ntotal, 3)):
                for k, r in enumerate((bits(0.0), bits(1.0), R_SQRT2, bits(3.0))):
                    cases.append(nbr_case((ntotal + ndim + k) % 2, ntotal, ndim, 2, index, r))
    for (ntotal, ndim) in ((64, 16), (31, 16), (32, 16), (600, 8), (511, 8), (512, 8), (200, 10), (169, 10), (1024, 10), (2187, 7), (3000, 9), (100, 20), (70, 40)):
        for index in (0, ntotal - 1):
            cases.append(nbr_case((ntotal + index) % 2, ntotal, ndim, 2, index, bits(1.0)))
    nrand = {"quick": 100, "thorough": 1500, "search": 1500}[tier]
    for k in range(nrand):
        ntotal = rng.choice([rng.randrange(1, 3000), rng.randrange(1, 300), rng.choice([e ** d for d in (2, 3, 4, 5) for e in range(2, 12) if e ** d < 3000])])
        ndim = rng.choice([1, 2, 2, 3, 3, 4, 5, 6, 7, 8])
        if ndim == 1:
            ntotal = min(ntotal, 600)
        index = rng.choice([0, ntotal - 1, rng.randrange(ntotal)])
        r = rng.choice(RADII + [bits(rng.uniform(0, 6)), bits(float(rng.randrange(0, 8)))])
        cases.append(nbr_case(k % 2, ntotal, ndim, 2, index, r))
    out.append(Stream("powers-guards-random", "topo", "topo.check", cases,
                      "ntotal = e^d and e^d +- 1 (d 2..12), guard cases (ntotal/ndim 0, index >= ntotal, negative/-0/NaN/inf/subnormal radius), 6..100 dimensions, random ntotal < 3000 x ndim 1..8"))

    # 2a. radii one or two float steps below / above a lattice distance (1, sqrt 2, sqrt 3, 2, sqrt 5, sqrt 8, 3): a shell
    #     must be inside exactly when its distance is <= radius, without any tolerance
    def step(b, k): return b + k
    shells = [bits(math.sqrt(q)) for q in (1, 2, 3, 4, 5, 8, 9, 10, 13, 16)]
    cases = []
    for (ntotal, ndim) in [(9, 2), (25, 2), (27, 3), (16, 2), (7, 1), (64, 3), (81, 4), (100, 2)]:
        for b in shells:
            for k in (-2, -1, 0, 1, 2):
                for index in sorted(set([0, ntotal // 2, ntotal - 1])):
                    cases.append(nbr_case((ntotal + index + k) % 2, ntotal, ndim, 2, index, step(b, k)))
    out.append(Stream("shell-boundaries", "topo", "topo.check", cases,
                      "radii at, and one / two float steps below and above, the lattice distances sqrt{1,2,3,4,5,8,9,10,13,16} on 1- to 4-dimensional lattices, centre / corner / last index"))

    # 2a'. consecutive queries (same worker thread, one after the other) that differ ONLY in the total size while the enclosing lattice stays the same
    cases = []
    for (nd, sizes) in ((2, (40, 38, 37, 49, 43)), (2, (10, 16, 11, 12)), (3, (27, 20, 9, 26)), (1, (7, 6, 5))):
        for r in (bits(1.0), R_SQRT2, bits(3.0)):
            for index in (0, 4):
                for prof in (0, 1):
                    for nt in sizes:
                        cases.append(nbr_case(prof, nt, nd, 2, index, r))
    stq = Stream("same-lattice-other-size", "topo", "topo.check", cases,
                 "runs of consecutive find_neighbors queries with identical dimension, index and radius whose total sizes share one enclosing lattice (40, 38, 37, 49, 43 in 2-D ...): each answer is that of its own size")
    stq.per_shard = 400
    out.append(stq)

    # 2b. long one-dimensional topologies (release build: x * x, no oracle table), compared with the model AND
    #     with the geometric set (the checker does not apply the theorems' size condition: verdict 0/1, never 2)
    cases = long_1d_cases(1, rng, {"quick": [2, 2, 3, 3, 3, 3], "thorough": [6] * 6, "search": [6] * 6}[tier])     # quick: 16 cases = one per worker
    st = Stream("long-1d-release", "topo", "topo.check", cases,
                "find_neighbors with ndim 1 and ntotal in {46340, 46341, 46342, 65536, 65537, 70000} (coordinate differences around sqrt(2^31) and 2^16, far beyond the "
                "float-exactness bound 4096 of the theorems), index in {0, 1, ntotal-1, ntotal/2}, radii {0, 1, 46340, 46341, 65536, 10^6}, release build: "
                "equal to the model and to the geometric set evaluated with Flocq's binary32")
    st.per_shard = 1
    st.timeout = 1200
    out.append(st)

    # 3. symmetry and monotonicity stated directly on pairs of calls
    cases = []
    npairs = {"quick": 1000, "thorough": 20000, "search": 6000}[tier]
    for k in range(npairs):
        ntotal = rng.randrange(1, 120 if k % 8 else 700)
        ndim = rng.choice([1, 2, 2, 3, 3, 4, 5])
        if ndim == 1:
            ntotal = min(ntotal, 200)
        i = rng.randrange(ntotal)
        if k % 2 == 0:
            e = iroot_ceil(ntotal, ndim)
            j = rng.choice([rng.randrange(ntotal), min(ntotal - 1, i + 1), min(ntotal - 1, i + e), max(0, i - e - 1)])
            cases.append(nbr_case(k // 2 % 2, ntotal, ndim, 4, i, j, rng.choice(RADII)))
        else:
            r1, r2 = sorted(rng.sample(RADII, 2), key=lambda b: struct.unpack("<f", struct.pack("<I", b))[0])
            cases.append(nbr_case(k // 2 % 2, ntotal, ndim, 5, i, r1, r2))
    out.append(Stream("symmetric-pairs+radius-pairs", "topo", "topo.check", cases,
                      "j in N(i) <-> i in N(j), and N(i, r1) subset of N(i, r2) for r1 <= r2, evaluated on pairs of real find_neighbors calls"))

    # 4. decompose_index and euclidean_distance
    cases = []
    for nedge in range(0, 8):
        for ndim in range(0, 5):
            top = min(nedge ** ndim + 3, 90)
            for index in range(0, top):
                cases.append(sx_str([(index + nedge) % 2, [], 0, index, nedge, ndim]))
    for (index, nedge, ndim) in [(14, 6, 2), (4, 2, 3), (13, 3, 3), (26, 3, 3), (80, 3, 4), (5, 3, 70), (2 ** 64 - 1, 2, 64), (2 ** 64 - 1, 2, 65),
                                 (2 ** 64 - 1, 2 ** 32, 2), (2 ** 64 - 1, 2 ** 32, 3), (2 ** 64 - 1, 2 ** 64 - 1, 2), (12345678901234567, 10, 19),
                                 (12345678901234567, 10, 20), (12345678901234567, 10, 21), (7, 1, 100), (0, 1, 1), (99, 100, 1)]:
        cases.append(sx_str([index % 2, [], 0, index, nedge, ndim]))
    for _ in range({"quick": 300, "thorough": 3000, "search": 3000}[tier]):
        nedge = rng.choice([2, 3, 7, 10, 16, rng.randrange(1, 5000)])
        ndim = rng.randrange(1, 8)
        index = rng.randrange(0, min(nedge ** ndim, 2 ** 64))
        cases.append(sx_str([index % 2, [], 0, index, nedge, ndim]))
    dist = []
    small = [[], [0], [1], [0, 0], [1, 1], [1, 1, 1], [1, 2, 4], [2, 4], [3, 6], [0, 3], [4, 0], [5, 5, 5, 5]]
    for a in small:
        for b in small:
            dist.append([len(dist) % 2, [], 1, a, b])
    for _ in range({"quick": 400, "thorough": 4000, "search": 4000}[tier]):
        n = rng.randrange(1, 7)
        top = rng.choice([4, 10, 100, 2000, 4096, 5000, 70000, 2 ** 24 + 5, 2 ** 40])
        a = [rng.randrange(0, top) for _ in range(n)]
        b = [rng.randrange(0, top) for _ in range(n if rng.random() < 0.9 else n + 1)]
        dist.append([len(dist) % 2, [], 1, a, b])
    cases += fill_tables("topo", [sx_str(c) for c in dist])
    out.append(Stream("decompose+distance", "topo", "topo.check", cases,
                      "decompose_index on every index of every cube nedge 0..7 x ndim 0..4 (nedge = 0 panics on both sides), overflowing powers, random cubes; "
                      "euclidean_distance on equal / unequal lengths, coordinates up to 2^40 (powf answered by the oracle protocol)"))

    # 5. the IEEE-754 facts assumed by the theorems (record FloatIntExact), on Rust's f32 and on the Flocq instance
    facts = []
    edge_vals = [0, 1, 2, 3, 4, 5, 63, 64, 65, 4094, 4095, 4096, 4097, 2 ** 24 - 2, 2 ** 24 - 1, 2 ** 24, 2 ** 24 + 1]
    for a in edge_vals:
        for b in edge_vals:
            facts.append([len(facts) % 2, [], 3, a, b])
    for R in range(0, 4096, {"quick": 9, "thorough": 1, "search": 1}[tier]):
        for a in (R * R, R * R + 1, max(0, R * R - 1)):
            if a < 2 ** 24:
                facts.append([len(facts) % 2, [], 3, a, R])
    for _ in range({"quick": 1500, "thorough": 30000, "search": 10000}[tier]):
        top = rng.choice([16, 4096, 4096, 2 ** 16, 2 ** 24, 2 ** 24])
        facts.append([len(facts) % 2, [], 3, rng.randrange(top), rng.randrange(top)])
    cases = fill_tables("topo", [sx_str(c) for c in facts])
    out.append(Stream("f32-facts", "topo", "topo.check", cases,
                      "fields of FloatIntExact evaluated on Rust's f32: (a-b).powf(2.0) as compiled = libm powf = (a-b)*(a-b) = (a-b)^2 below 2^24, a+b exact, comparison = integer order, sqrt monotone, "
                      "sqrt(a) <= R iff a <= R^2 at the boundaries R^2, R^2+-1, sqrt(a^2) = a"))
    return out


TECHNIQUE = ("Coq proofs over an executable model of topology.rs (digit decomposition, libm-oracle powf, f32 interface) against an integer-geometry specification "
             "+ exhaustive differential correspondence against pushr::push::topology::Topology with the specification evaluated on the implementation's outputs")
DESIGN_REF = "DESIGN.md section 6.C20"
LEVEL_TEXT = ("Machine-checked theorems: the edge computed by the (repaired) code is the integer root iroot_ceil (least e with e^ndim >= ntotal); decompose_index is a bijection "
              "between [0, e^d) and [0,e)^d with explicit inverse; for every ntotal, ndim, index < ntotal and radius >= 0 within the stated size conditions the model's "
              "find_neighbors returns exactly the ascending list of indices whose digit vectors lie within the radius (f32 sqrt of the exact integer squared distance <= radius) in the "
              "iroot_ceil cube, hence contains the centre, is valid/sorted/duplicate-free, symmetric and monotone in the radius. The model is tied to the code by running every "
              "(ntotal <= 60 [thorough: 400], ndim <= 5, index, 9 radii) case plus exact powers, guards, many dimensions and random sizes on the real Topology and on the extracted model, and by "
              "evaluating the geometric specification, symmetry and monotonicity on the implementation's own outputs."
              " Instruction level (Props/C20i.v): LIST.NEIGHBOR*IDS pushes exactly find_neighbors of the clamped operands (clamps stated) and, under the API theorem's side conditions, the geometric set; the three *VALS instructions push the addressed values of the records present at the neighbour positions in ascending order; missing operands and the size/dims = 0 guard are characterised exactly. Tied by exhaustive (size 0..12 x dims 0..3 x index -1..size x 4 radii) and random single-step streams on the real interpreter.")
LEVEL_NOTE = ("Trusted: Coq kernel, extraction, ocaml/driver.ml, Rust harness, generators. Theorems are closed under the global context; their float hypotheses (FloatIntExact) are "
              "explicit premises, not axioms, validated on Rust's f32 by the f32-facts stream. The Flocq binary32 instance (with the classical axioms of Coq's Reals) is used only by the "
              "extracted model and the wire checker, never by a theorem.")


def extra(ctx):
    """The debug build on the long 1-dimensional topologies: it calls libm's powf once per cell, and the model's oracle
    table is an association list (quadratic for 46342 entries), so the model is NOT run here: the implementation's
    output is judged by topo.check alone (the geometric set, which needs no powf)."""
    rng = random.Random(ctx.seed + 20)
    cases = long_1d_cases(0, rng, {"quick": [2] * 6, "thorough": [6] * 6, "search": [6] * 6}[ctx.tier])
    outs = vcheck.run_impl(["topo " + c for c in cases], timeout=600, per_shard=1)
    verdicts = vcheck.run_checker("topo.check", cases, outs)
    name = "long-1d-debug-impl-only"
    stat = ctx.stats.setdefault(name, {"cases": 0, "impl_panics": 0, "disagree": 0, "pred_fail": 0, "out_of_scope": 0, "model_compared": False,
                                       "note": "the same grid on the debug build (libm powf), implementation only: topo.check (centre, ascending, valid, = geometric set) on its output"})
    stat["cases"] += len(cases)
    ctx.evaluations += len(cases)
    reported = False
    for c, o, v in zip(cases, outs, verdicts):
        if o == vcheck.BAD or v == vcheck.BAD:
            die("malformed case reached a suite (generator bug): topo %s" % c[:300])
        if o == "(1)" or o.startswith("(9"):
            stat["impl_panics"] += 1
        if v == "2":
            stat["out_of_scope"] += 1
        else:
            ctx.nontrivial.add(hashlib.sha1(("topo" + c).encode()).digest()[:8])
        if v == "0":
            stat["pred_fail"] += 1
            if not reported:
                reported = True
                ctx.violation("property predicate fails on the implementation's output", {
                    "property": ctx.prop, "kind": "predicate-fails", "stream": name, "suite": "topo", "checker": "topo.check",
                    "case": c, "impl_output": o[:2000], "how_to_replay": "bin/check C20 --replay <this file>"})


def streams(seed, tier):
    from checks import C20i_streams
    return api_streams(seed, tier) + C20i_streams.streams(seed, tier)

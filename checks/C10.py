"""C10 — an instruction that lacks an operand only pops; an instruction that applies writes only its documented stacks."""
import itertools, random
import vcheck
from vcheck import Stream, sx_str, sx_parse
from gen.stategen import *
from gen.pools import fbits, rand_f32, rand_i32
from gen import stepgen

PROPERTY = "C10"
PROPS_VO = "Props/C10"
AXIOMS_OK = []

# field numbering of Suites/SFrame.v (fld_ix) -> key of gen.stategen.state
FIELD = {0: "bool", 1: "code", 2: "exec", 3: "float", 4: "index", 5: "int", 6: "name", 7: "bvec", 8: "fvec", 9: "ivec",
         10: "input", 11: "output", 12: "graph", 13: "bind"}
STACKS = ["bool", "code", "exec", "float", "index", "int", "name", "bvec", "fvec", "ivec", "input", "output"]

ASSUMPTIONS = [
    "the operand requirement table (Spec/Footprint.v, nd_*) is the reading of the doc comments: fixed operand counts only; value-dependent guards (division by zero, negative sizes, EXEC.CMD's argument count, unknown node ids) are covered by the frame theorem, not by the only-pops theorem",
    "INTVECTOR.SET*INSERT is recorded as needing nothing: creating an empty vector on an empty INTVECTOR stack is its documented behaviour (vector.rs doc comment), so it is outside the only-pops quantifier",
    "bindings are compared as the name-sorted association list the wire carries (HashMap order is not observable)",
    "NAME.RANDBOUNDNAME is recorded as needing nothing: pushing a fresh name when nothing is bound is documented in random.rs (existing_random_name)",
    "EXEC.CMD is exercised only where it does not apply (no INTEGER, negative count, too few NAMEs): it spawns a process otherwise; the nine RAND instructions are exercised through `run` only where they do not apply (no draw) — when they apply, the state around the drawn value is compared with the model by the `rand` suite (C12/C13)",
]


def _names(line, run):
    return ["".join(chr(c) for c in x) for x in sx_parse(run([line])[0])[1]]


def spec_needs():
    """the proved operand requirement table, read from the extracted specification"""
    v = sx_parse(vcheck.run_model(["frame.needs (0)"])[0])[1]
    return {"".join(chr(c) for c in n): [(FIELD[f], k) for f, k in nd] for n, nd in v}


def elems(rng, key, n, safe, alloc=False):
    """n random items for the stack `key` (top first)"""
    if key == "bool": return [rng.random() < 0.5 for _ in range(n)]
    if key == "code": return [stepgen.rand_item(rng, safe) for _ in range(n)]
    if key == "exec": return [stepgen.rand_item(rng, safe, 2) for _ in range(n)]
    if key == "float": return [fbits(rng.choice([0.0, 0.5, 1.0, 1.5, 2.0, 3.0])) if alloc else rand_f32(rng) for _ in range(n)]
    if key == "index": return [(rng.randrange(0, 4), rng.randrange(0, 5)) for _ in range(n)]
    if key == "int": return [rng.randrange(-3, 13) if alloc else stepgen.rand_small_int(rng, 4) for _ in range(n)]
    if key == "name": return [stepgen.rand_name(rng) for _ in range(n)]
    if key in ("bvec", "ivec", "fvec"): return [stepgen.rand_vec(rng, key, stepgen.rand_vec_len(rng)) for _ in range(n)]
    if key in ("input", "output"):
        return [([rng.randrange(0, 5) for _ in range(rng.randrange(0, 3))], [rng.random() < 0.5 for _ in range(rng.randrange(0, 4))]) for _ in range(n)]
    raise KeyError(key)


def lacking_cases(rng, name, nd, safe, fillings):
    """every non-empty subset of the needed operand stacks made too short (every depth 0..need-1), the other operand
    stacks at or above their need, x `fillings` random fillings of everything else (bystanders non-empty)"""
    out = []
    need = dict(nd)
    keys = list(need)
    alloc = name in stepgen.ALLOCATING
    for r in range(1, len(keys) + 1):
        for short in itertools.combinations(keys, r):
            for depths in itertools.product(*[range(need[k]) for k in short]):
                for _ in range(fillings):
                    depth = {}
                    for k, d in zip(short, depths): depth[k] = d
                    for k in keys:
                        if k not in depth: depth[k] = need[k] + rng.randrange(0, 3)
                    st = {}
                    for k in STACKS:
                        n = depth[k] if k in depth else rng.randrange(1, 4)          # bystanders are never empty
                        st[k] = elems(rng, k, n, safe, alloc)
                    # the items that ARE present are rich enough for the instruction to do something with them if it went on
                    # regardless (a guard that reads the missing operand through a clamped / saturating accessor would)
                    for k in short:
                        if k in ("code", "exec") and st[k] and rng.random() < 0.7:
                            st[k][0] = L(Z(1), L(Z(2), N("a")), Z(3))
                    if st.get("int") and rng.random() < 0.5 and not alloc:
                        st["int"][0] = rng.choice([0, 1, 2, 3])
                    st["bind"] = [(n, stepgen.rand_item(rng, safe, 2)) for n in rng.sample(stepgen.NAMES_POOL, rng.randrange(1, 3))]
                    st["quote"] = rng.random() < 0.3
                    st["send"] = rng.random() < 0.3
                    nsnap = depth["graph"] if "graph" in depth else rng.randrange(1, 3)
                    if nsnap:
                        gs, nn = stepgen.rand_graphs(rng, nsnap=nsnap)
                        st["graph"] = [g.wire() for g in gs]
                    else:
                        nn = stepgen.next_base(8) + 1
                        st["graph"] = []
                    st["exec"] = [I(name)] + st["exec"]
                    out.append(case_run(rng.randrange(2), state(**st), 0, 1, world=(nn, ())))
    return out


GSTACK = lambda rng, n: stepgen.rand_graphs(rng, nsnap=n)


def guard_cases(rng, name, nd, safe, per):
    """all operands present, but the value the guard looks at fails it (Spec/Footprint.v gd_all; the classification
    of every generated case is re-read from the specification through suite frame.class)"""
    need = dict(nd)
    alloc = name in stepgen.ALLOCATING
    out = []
    for _ in range(per):
        st = {}
        for k in STACKS:
            st[k] = elems(rng, k, need.get(k, 0) + rng.randrange(1, 3), safe, alloc)
        st["bind"] = [(n, stepgen.rand_item(rng, safe, 2)) for n in rng.sample(stepgen.NAMES_POOL, rng.randrange(1, 3))]
        st["quote"] = rng.random() < 0.3
        st["send"] = rng.random() < 0.3
        gs, nn = stepgen.rand_graphs(rng, nsnap=max(need.get("graph", 0), rng.randrange(1, 3)))
        st["graph"] = [g.wire() for g in gs]
        nonpos = lambda: rng.choice([0, 0, -1, -2, -7, -2147483648])
        neg = lambda: rng.choice([-1, -1, -2, -7, -2147483648])
        if name in ("INTEGER./", "INTEGER.%"): st["int"][0] = 0
        elif name in ("FLOAT./", "FLOAT.%"): st["float"][0] = rng.choice([0, 0x80000000])
        elif name == "INDEX.INCREASE":
            d = rng.randrange(0, 5); st["index"][0] = (d + rng.randrange(0, 3), d)
        elif name == "FLOATVECTOR.SINE": st["int"][0] = neg()
        elif name.endswith(".ONES") or name.endswith(".ZEROS"): st["int"][0] = nonpos()
        elif name == "CODE.DEFINITION": st["name"][0] = "unbound-%d" % rng.randrange(100)
        elif name == "EXEC.CMD":
            if rng.random() < 0.5: st["int"][0] = neg()
            else: st["int"][0] = len(st["name"]) + rng.randrange(0, 3)          # fewer than n + 1 NAMEs
        elif name == "GRAPH.NODE*SETSTATE": st["int"][1] = nonpos()
        elif name in ("GRAPH.NODE*GETSTATE", "GRAPH.NODE*NEIGHBORS", "GRAPH.NODE*PREDECESSORS", "GRAPH.NODE*SUCCESSORS"): st["int"][0] = nonpos()
        elif name in ("GRAPH.NODES*HISTORY", "GRAPH.NODE*HISTORY", "GRAPH.EDGE*HISTORY"): st["int"][0] = neg()
        elif name == "BOOLVECTOR.RAND":
            if rng.random() < 0.4: st["int"][0] = neg()
            else:
                st["int"][0] = rng.randrange(0, 9)
                # out of range by a hair too: a guard evaluated after rounding would let these through
                st["float"][0] = rng.choice([0x7fc00000, fbits(-0.5), fbits(1.5), 0x7f800000, 0xff800000, fbits(-1e-30), fbits(1.004), fbits(-0.003),
                                             0x3f800001, 0x80000001, fbits(1.0049), fbits(-0.0049), 0xffc00000])
                if rng.random() < 0.5: st["int"][0] = rng.choice([8, 100, 150])
        elif name == "INTVECTOR.RAND":
            if rng.random() < 0.4: st["int"][0] = neg()
            else:
                lo = rng.randrange(-5, 6); st["int"][0] = rng.randrange(0, 9); st["int"][1] = lo - rng.randrange(0, 3); st["int"][2] = lo
        elif name == "FLOATVECTOR.RAND":
            if rng.random() < 0.4: st["int"][0] = neg()
            else:
                st["int"][0] = rng.randrange(0, 9)
                st["float"][1] = rng.choice([0x7fc00000, fbits(-0.5), 0x7f800000, 0xff800000, fbits(-1e-30)])
        elif name == "FLOATVECTOR./":
            while True:
                n2 = rng.randrange(1, 5); j = rng.randrange(n2); off = rng.randrange(-2, 3); i = j - off
                if i >= 0: break
            top = [fbits(rng.randrange(1, 9) / 2) for _ in range(i + 1 + rng.randrange(0, 3))]
            top[i] = rng.choice([0, 0x80000000])
            st["fvec"] = [top, [fbits(rng.randrange(-8, 9) / 2) for _ in range(n2)]] + st["fvec"][2:]
            st["int"][0] = off
        else: raise KeyError(name)
        st["exec"] = [I(name)] + st["exec"]
        out.append(case_run(rng.randrange(2), state(**st), 0, 1, world=(nn, ())))
    return out


GUARDED = ["INTEGER./", "INTEGER.%", "FLOAT./", "FLOAT.%", "INDEX.INCREASE", "FLOATVECTOR.SINE",
           "BOOLVECTOR.ONES", "BOOLVECTOR.ZEROS", "INTVECTOR.ONES", "INTVECTOR.ZEROS", "FLOATVECTOR.ONES", "FLOATVECTOR.ZEROS",
           "CODE.DEFINITION", "EXEC.CMD", "GRAPH.NODE*GETSTATE", "GRAPH.NODE*SETSTATE", "GRAPH.NODE*NEIGHBORS",
           "GRAPH.NODE*PREDECESSORS", "GRAPH.NODE*SUCCESSORS", "GRAPH.NODES*HISTORY", "GRAPH.NODE*HISTORY", "GRAPH.EDGE*HISTORY",
           "BOOLVECTOR.RAND", "INTVECTOR.RAND", "FLOATVECTOR.RAND", "FLOATVECTOR./"]


def classes(cases):
    """0 applies / 1 lacking / 2 guard fails / 3 not an instruction — as the specification sees the case"""
    return [sx_parse(r)[1] for r in vcheck.run_model(["frame.class " + c for c in cases])]


def streams(seed, tier):
    rng = random.Random(seed)
    names = sorted(_names("names (0)", vcheck.run_impl))
    modelled = set(_names("names (0)", vcheck.run_model))
    needs = spec_needs()
    unmodelled = [n for n in names if n not in modelled]
    missing_spec = [n for n in modelled if n not in needs]
    if missing_spec:
        vcheck.die("registered and modelled instructions without a line in the specification tables: %s" % missing_spec)
    safe = [x for x in names if x not in stepgen.UNSAFE and x not in stepgen.RANDOM and x not in stepgen.ALLOCATING]
    todo = [n for n in names if n in modelled]
    fillings = 6 if tier == "quick" else 12
    lack = []
    nolack = []
    for nm in todo:
        if needs[nm]:
            lack += lacking_cases(rng, nm, needs[nm], safe, fillings)
        else:
            nolack.append(nm)
    cl = classes(lack)
    if any(c != 1 for c in cl):
        vcheck.die("generator bug: a lacking-operand case is not classified as lacking by the specification: %s" % lack[[c != 1 for c in cl].index(True)][:300])
    out = [Stream("lacking-operands", "run", "frame.check", lack,
                  "every registered instruction (%d of %d names modelled) x every non-empty subset of its needed operand stacks made too short "
                  "(each depth 0..need-1; needs read from the proved table through suite frame.needs; every case re-classified as `lacking` by the specification) x %d random fillings of all other fields "
                  "(bystander stacks, bindings, graph stack, input/output queues non-empty; flags random), both profiles at random; the RAND instructions with operands are included (no draw happens); "
                  "instructions that need nothing (no lacking state exists): %s; not modelled: %s"
                  % (len(todo), len(names), fillings, nolack, unmodelled))]
    gper = {"quick": 12, "thorough": 120, "search": 120}[tier]
    guard = []
    for nm in GUARDED:
        if nm in todo:
            guard += guard_cases(rng, nm, needs[nm], safe, gper)
    cl = classes(guard)
    if any(c != 2 for c in cl):
        vcheck.die("generator bug: a failed-guard case is not classified as such by the specification: %s" % guard[[c != 2 for c in cl].index(True)][:300])
    out.append(Stream("failed-guards", "run", "frame.check", guard,
                      "%d instructions with a guard on operand values (Spec/Footprint.v gd_all) x %d states with every operand present and the guard failing "
                      "(zero divisor incl. -0.0, size <= 0 incl. i32::MIN, unbound name, EXEC.CMD with a negative count or too few NAMEs, node id <= 0, negative stack position, "
                      "*.RAND vectors with a negative size, NaN / out-of-range sparsity, max <= min, negative or non-finite deviation, FLOATVECTOR./ with a zero divisor over the second vector), "
                      "every case re-classified as `guard fails` by the specification" % (len([g for g in GUARDED if g in todo]), gper)))
    per = {"quick": 40, "thorough": 300, "search": 300}[tier]
    fired = []
    skipped_b = sorted(set(unmodelled) | set(n for n in todo if n in stepgen.UNSAFE or n in stepgen.RANDOM))
    for nm in todo:
        if nm in stepgen.UNSAFE or nm in stepgen.RANDOM: continue
        for _ in range(per):
            fired.append(stepgen.step_case(rng, nm, names, safe))
    cl = classes(fired)
    out.append(Stream("random-states", "run", "frame.check", fired,
                      "%d random whole states per instruction (gen/stepgen.step_case: operands shaped per family); footprint checked on every case, only-pops on those the specification "
                      "classifies as not applying (this run: %d apply, %d lack an operand, %d fail a guard); skipped: %s (EXEC.CMD spawns a process when it applies; the RAND instructions draw from an unseeded "
                      "generator when they apply: their whole post-state around the drawn value is compared with the model by the `rand` suite of C12/C13)"
                      % (per, cl.count(0), cl.count(1), cl.count(2), skipped_b)))
    # directed: full buffers whose newest entry resembles the operand; EXEC.CMD really firing on harmless commands that succeed and that fail
    directed = []
    for prof in (0, 1):
        for hdr, body in (([7, 1], [True]), ([7, 1], [False, False]), ([], [True]), ([9], [])):
            outq = [([7, 1], [True, True]), ([2], [False]), ([3], [])]            # newest first: the newest header is [7,1]
            for q in (outq, outq[:2], [([7, 1], [True])] * 3):
                directed.append(case_run(prof, state(exec=[I("OUTPUT.WRITE")], ivec=[hdr, [5]], bvec=[body, [True]], output=q, int=[1], bool=[True]), 0, 1))
        for nm_, k in (("false", 0), ("true", 0), ("false", 1)):
            directed.append(case_run(prof, state(exec=[I("EXEC.CMD"), Z(7)], int=[k, 5], name=[nm_] * (k + 1) + ["A"], bool=[True], float=[fbits(1.0)], code=[Z(1)]), 0, 1))
    counter = []
    for prof in (0, 1):
        for pre in ([I("GRAPH.NODE*ADD")] * 3, [I("GRAPH.EDGE*ADD"), I("GRAPH.NODE*ADD")], [I("GRAPH.NODE*SETSTATE"), I("GRAPH.NODE*ADD"), I("GRAPH.NODE*ADD")]):
            b1 = stepgen.next_base(12)
            g1 = stepgen.PyGraph({b1 + 1: 1}, {})
            prog = pre + [I("INTEGER.FLUSH"), Z(5), I("GRAPH.NODE*ADD"), Z(6), I("GRAPH.NODE*ADD")]
            counter.append(case_run(prof, state(exec=prog, graph=[g1.wire()], float=[fbits(1.0)]), 0, len(prog), world=(b1 + 2, ())))
    out.append(Stream("unfired-then-fired", "run", "run.check", counter,
                      "GRAPH.NODE*ADD / EDGE*ADD / NODE*SETSTATE lacking their operands, followed by two GRAPH.NODE*ADD that have them: the new nodes get the NEXT ids (an instruction that does not fire issues no id either)"))
    out.append(Stream("directed-full-buffers-and-commands", "run", "frame.check", directed,
                      "OUTPUT.WRITE onto full / nearly full OUTPUT queues whose newest header equals the header operand; EXEC.CMD applied to `true` and to `false` "
                      "(a command that exits non-zero): nothing outside the documented footprint changes"))
    return out


TECHNIQUE = ("Coq theorems by reflection over the registry table: one footprint line and one operand-requirement line per instruction NAME (Spec/Footprint.v), "
             "a generic tactic per family proves every registered body stays inside its footprint and only pops when an operand is lacking (a missing or wrong line is a failed Qed); "
             "+ differential correspondence on every name x every pattern of missing operands, with the decidable frame predicates (proved equivalent to the Props) evaluated on the implementation's before/after states")
DESIGN_REF = "DESIGN.md section 6.C10"
LEVEL_TEXT = ("Props/C10.v proves, for all 280 instructions of the registry (core, three vector families, LIST incl. NEIGHBOR*, INPUT/OUTPUT, GRAPH, RAND), every profile, world and state: "
              "the instruction changes only the fields of its documented footprint (C10_frame), and when a needed operand is missing it only removes top items of typed stacks — "
              "nothing pushed, no binding, flag, graph, INDEX entry, queue or configuration field changed, node counter and generator untouched (C10_unfired_only_pops), likewise when all operands are there but a guard on their values fails (C10_guard_fails_only_pops, 26 guards); "
              "one interpreter step changes EXEC plus the footprint of the executed item (C10_step_frame); no instruction writes the configuration; only NAME.QUOTE sets the quote flag. "
              "The tables are the human-readable specification; the checker looks instructions up in them BY NAME (not in the model) and evaluates the decidable predicates "
              "(C10_checker_sound) on the real interpreter's states: every name x every non-empty subset of too-short operand stacks x 4 fillings, every guard failing, plus random firing states, "
              "each also compared with the model's whole post-state.")
LEVEL_NOTE = ("Trusted: Coq kernel, extraction, driver, harness, generators (see evidence trusted_base). Theorems closed under the global context. "
              "Two documented exceptions are recorded in the requirement table as needing nothing (INTVECTOR.SET*INSERT, NAME.RANDBOUNDNAME); value-dependent conditions beyond the 26 listed guards "
              "(e.g. CODE.RAND with a size limit <= 1, LIST.GET on an item that is not a list) are covered by the frame theorem only.")

"""C10 — an instruction that lacks an operand only pops; an instruction that applies writes only its documented stacks."""
import itertools, random
import vcheck
from vcheck import Stream, sx_str, sx_parse
from gen.stategen import *
from gen.pools import fbits, rand_f32, rand_i32
from gen import stepgen

PROPERTY = "C10"
PROPS_VO = "Props/C10"
AXIOMS_OK = []

# field numbering of Suites/SFrame.v (fld_ix) -> key of gen.stategen.state
FIELD = {0: "bool", 1: "code", 2: "exec", 3: "float", 4: "index", 5: "int", 6: "name", 7: "bvec", 8: "fvec", 9: "ivec",
         10: "input", 11: "output", 12: "graph", 13: "bind"}
STACKS = ["bool", "code", "exec", "float", "index", "int", "name", "bvec", "fvec", "ivec", "input", "output"]

ASSUMPTIONS = [
    "the operand requirement table (Spec/Footprint.v, nd_*) is the reading of the doc comments: fixed operand counts only; value-dependent guards (division by zero, negative sizes, EXEC.CMD's argument count, unknown node ids) are covered by the frame theorem, not by the only-pops theorem",
    "INTVECTOR.SET*INSERT is recorded as needing nothing: creating an empty vector on an empty INTVECTOR stack is its documented behaviour (vector.rs doc comment), so it is outside the only-pops quantifier",
    "bindings are compared as the name-sorted association list the wire carries (HashMap order is not observable)",
    "not yet modelled on this branch and therefore skipped by the correspondence streams (listed in the stream notes): the nine RAND names and LIST.NEIGHBOR*; EXEC.CMD is exercised only without its operands (it spawns a process otherwise)",
]


def _names(line, run):
    return ["".join(chr(c) for c in x) for x in sx_parse(run([line])[0])[1]]


def spec_needs():
    """the proved operand requirement table, read from the extracted specification"""
    v = sx_parse(vcheck.run_model(["frame.needs (0)"])[0])[1]
    return {"".join(chr(c) for c in n): [(FIELD[f], k) for f, k in nd] for n, nd in v}


def elems(rng, key, n, safe, alloc=False):
    """n random items for the stack `key` (top first)"""
    if key == "bool": return [rng.random() < 0.5 for _ in range(n)]
    if key == "code": return [stepgen.rand_item(rng, safe) for _ in range(n)]
    if key == "exec": return [stepgen.rand_item(rng, safe, 2) for _ in range(n)]
    if key == "float": return [fbits(rng.choice([0.0, 0.5, 1.0, 1.5, 2.0, 3.0])) if alloc else rand_f32(rng) for _ in range(n)]
    if key == "index": return [(rng.randrange(0, 4), rng.randrange(0, 5)) for _ in range(n)]
    if key == "int": return [rng.randrange(-3, 13) if alloc else stepgen.rand_small_int(rng, 4) for _ in range(n)]
    if key == "name": return [stepgen.rand_name(rng) for _ in range(n)]
    if key in ("bvec", "ivec", "fvec"): return [stepgen.rand_vec(rng, key, stepgen.rand_vec_len(rng)) for _ in range(n)]
    if key in ("input", "output"):
        return [([rng.randrange(0, 5) for _ in range(rng.randrange(0, 3))], [rng.random() < 0.5 for _ in range(rng.randrange(0, 4))]) for _ in range(n)]
    raise KeyError(key)


def lacking_cases(rng, name, nd, safe, fillings):
    """every non-empty subset of the needed operand stacks made too short (every depth 0..need-1), the other operand
    stacks at or above their need, x `fillings` random fillings of everything else (bystanders non-empty)"""
    out = []
    need = dict(nd)
    keys = list(need)
    alloc = name in stepgen.ALLOCATING
    for r in range(1, len(keys) + 1):
        for short in itertools.combinations(keys, r):
            for depths in itertools.product(*[range(need[k]) for k in short]):
                for _ in range(fillings):
                    depth = {}
                    for k, d in zip(short, depths): depth[k] = d
                    for k in keys:
                        if k not in depth: depth[k] = need[k] + rng.randrange(0, 3)
                    st = {}
                    for k in STACKS:
                        n = depth[k] if k in depth else rng.randrange(1, 4)          # bystanders are never empty
                        st[k] = elems(rng, k, n, safe, alloc)
                    st["bind"] = [(n, stepgen.rand_item(rng, safe, 2)) for n in rng.sample(stepgen.NAMES_POOL, rng.randrange(1, 3))]
                    st["quote"] = rng.random() < 0.3
                    st["send"] = rng.random() < 0.3
                    nsnap = depth["graph"] if "graph" in depth else rng.randrange(1, 3)
                    if nsnap:
                        gs, nn = stepgen.rand_graphs(rng, nsnap=nsnap)
                        st["graph"] = [g.wire() for g in gs]
                    else:
                        nn = stepgen.next_base(8) + 1
                        st["graph"] = []
                    st["exec"] = [I(name)] + st["exec"]
                    out.append(case_run(rng.randrange(2), state(**st), 0, 1, world=(nn, ())))
    return out


def streams(seed, tier):
    rng = random.Random(seed)
    names = sorted(_names("names (0)", vcheck.run_impl))
    modelled = set(_names("names (0)", vcheck.run_model))
    needs = spec_needs()
    unmodelled = [n for n in names if n not in modelled]
    missing_spec = [n for n in modelled if n not in needs]
    if missing_spec:
        vcheck.die("registered and modelled instructions without a line in the specification tables: %s" % missing_spec)
    safe = [x for x in names if x not in stepgen.UNSAFE and x not in stepgen.RANDOM and x not in stepgen.ALLOCATING]
    todo = [n for n in names if n in modelled]
    fillings = 4 if tier == "quick" else 12
    lack = []
    nolack = []
    for nm in todo:
        if needs[nm]:
            lack += lacking_cases(rng, nm, needs[nm], safe, fillings)
        else:
            nolack.append(nm)
    out = [Stream("lacking-operands", "run", "frame.check", lack,
                  "every registered and modelled instruction (%d of %d names) x every non-empty subset of its needed operand stacks made too short "
                  "(each depth 0..need-1; needs read from the proved table through suite frame.needs) x %d random fillings of all other fields "
                  "(bystander stacks, bindings, graph stack, input/output queues non-empty; flags random), both profiles at random; "
                  "instructions that need nothing (no lacking state exists): %s; skipped, not modelled yet: %s"
                  % (len(todo), len(names), fillings, nolack, unmodelled))]
    per = {"quick": 40, "thorough": 300, "search": 300}[tier]
    fired = []
    skipped_b = sorted(set(unmodelled) | set(n for n in todo if n in stepgen.UNSAFE))
    for nm in todo:
        if nm in stepgen.UNSAFE: continue
        for _ in range(per):
            fired.append(stepgen.step_case(rng, nm, names, safe))
    out.append(Stream("random-states", "run", "frame.check", fired,
                      "%d random whole states per instruction (gen/stepgen.step_case: operands shaped per family, mostly firing); footprint checked on every case, "
                      "only-pops on those that happen to lack an operand; skipped: %s (EXEC.CMD spawns a process when it has its operands)" % (per, skipped_b)))
    return out


TECHNIQUE = ("Coq theorems by reflection over the registry table: one footprint line and one operand-requirement line per instruction NAME (Spec/Footprint.v), "
             "a generic tactic per family proves every registered body stays inside its footprint and only pops when an operand is lacking (a missing or wrong line is a failed Qed); "
             "+ differential correspondence on every name x every pattern of missing operands, with the decidable frame predicates (proved equivalent to the Props) evaluated on the implementation's before/after states")
DESIGN_REF = "DESIGN.md section 6.C10"
LEVEL_TEXT = ("Props/C10.v proves, for all 267 modelled instructions of the registry (core, three vector families, LIST, INPUT/OUTPUT, GRAPH), every profile, world and state: "
              "the instruction changes only the fields of its documented footprint (C10_frame), and when a needed operand is missing it only removes top items of typed stacks — "
              "nothing pushed, no binding, flag, graph, INDEX entry, queue or configuration field changed, node counter untouched (C10_unfired_only_pops); "
              "one interpreter step changes EXEC plus the footprint of the executed item (C10_step_frame); no instruction writes the configuration; only NAME.QUOTE sets the quote flag. "
              "The tables are the human-readable specification; the checker looks instructions up in them BY NAME (not in the model) and evaluates the decidable predicates "
              "(C10_checker_sound) on the real interpreter's states: every name x every non-empty subset of too-short operand stacks x 4 fillings, plus random firing states, "
              "each also compared with the model's whole post-state.")
LEVEL_NOTE = ("Trusted: Coq kernel, extraction, driver, harness, generators (see evidence trusted_base). Theorems closed under the global context. "
              "The nine RAND names and LIST.NEIGHBOR* are modelled on other branches: their table lines and lemmas are one more `++` (fp_all / nd_all / all_framed / all_unfired).")

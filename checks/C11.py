"""C11 — print then parse reproduces the program."""
import random
import vcheck
from vcheck import Stream, sx_str, sx_parse
from gen import parsegen as G
from gen.pools import rand_f32, rand_i32, I32, F32, fbits
from gen.stategen import L, I, N, B, Z, F, BV, IV, FV

PROPERTY = "C11"
PROPS_VO = ["Props/C11", "Props/C11f"]
AXIOMS_OK_BY_FILE = {"Props/C11f": vcheck.FLOCQ_AXIOMS}
AXIOMS_OK = []
ASSUMPTIONS = [
    "class of the exact round trip: printable programs (Spec/ParseSpec.v: every atom's printed text is one token that lexes back to the same atom) = lists, i32, TRUE/FALSE, registered instructions, parser-producible names; names that lex as something else ('5', 'TRUE', 'INT[1]') and vector literals (printed without their INT/FLOAT/BOOL prefix) are outside and shown to be mis-read (C11_*_refuted)",
    "floats: C11_print_parse_print_floats_partial is parametric in the scalar law fparse (ffmt 3 x) = Some y -> ffmt 3 y = ffmt 3 x; the law IS proved for the executable Flocq binary32 instance (Proofs/Fmt3Law.v: fmt3_stable, every bit pattern; Props/C11f.v: C11_print_parse_print_floats_flocq has no float premise left; these depend on the four classical axioms of Coq's Reals that Flocq imports) and it is enumerated on the implementation by the float-scalar-law-sweep stream (all 2^32 bit patterns in the thorough tier)",
    "side condition str_fits (fewer than 2^64 characters), as in C03",
    "items produced by pushr's random_code generator are not drawn by this check; the random trees cover the same atom kinds",
]


def model_names():
    return sorted("".join(chr(c) for c in n) for n in sx_parse(vcheck.run_model(["names (0)"])[0])[1])


def chunks(l, n):
    return [l[i:i + n] for i in range(0, len(l), n)]


def base_streams(seed, tier):
    rng = random.Random(seed)
    names = model_names()
    out = []

    # 1. printable trees: exact round trip
    n = {"quick": 3000, "thorough": 30000, "search": 12000}[tier]
    cases = []
    for k in range(n):
        instrs = [rng.choice(names) for _ in range(4)]
        stack = [G.rand_print_tree(rng, instrs, rng.randrange(0, 7), rng.randrange(1, 40)) for _ in range(rng.choice([1, 1, 1, 2, 3, 0]))]
        cases.append(G.case_prim(k % 2, 5, stack))
    # long lists and deep stacks: more elements than any print limit someone might introduce
    for k, n_el in enumerate([999, 1000, 1001, 1002, 1500, 2500] if tier == "quick" else [999, 1000, 1001, 1002, 1024, 1025, 1500, 2500, 4097, 10001]):
        flat = L(*[rng.choice([Z(i % 7), N("q"), B(i % 2 == 0), I(names[i % len(names)])]) for i in range(n_el)])
        cases.append(G.case_prim(k % 2, 5, [flat]))
        cases.append(G.case_prim(k % 2, 5, [L(Z(1), flat, Z(2))]))
        cases.append(G.case_prim(k % 2, 5, [Z(i % 5) for i in range(n_el)]))
    out.append(Stream("printable-trees", "parse.prim", "parse.prim.check", cases,
                      "random stacks of programs over lists (incl. empty, depth <= 6), i32 (boundaries, negatives), TRUE/FALSE, names (non-ASCII too) and registered instructions: to_string -> parse_program -> structural comparison and to_string again",
                      ))
    # 2. with floats (pools incl. -0, subnormals, non-finite)
    cases = []
    for k in range(n):
        instrs = [rng.choice(names) for _ in range(3)]
        stack = [G.rand_print_tree(rng, instrs, rng.randrange(0, 5), rng.randrange(1, 30), floats=True) for _ in range(rng.choice([1, 1, 2]))]
        cases.append(G.case_prim(k % 2, 5, stack))
    out.append(Stream("float-trees", "parse.prim", "parse.prim.check", cases,
                      "the same with float literals from gen/pools.py (boundary values, -0, subnormals, inf, NaN, random bit patterns): print . parse . print = print"))
    # 3. outside the class: mis-lexed names, vector literals, index literals, unregistered instructions, names with blanks
    cases = []
    for k in range(n // 3):
        stack = [G.rand_print_tree(rng, names[:5], rng.randrange(0, 4), rng.randrange(1, 12), floats=True, odd=True) for _ in range(rng.choice([1, 2]))]
        cases.append(G.case_prim(k % 2, 5, stack))
    for nm in G.ODD_NAMES + G.PRINT_NAMES + G.NUMBER_LIKE:
        cases.append(G.case_prim(0, 5, [N(nm)]))
        cases.append(G.case_prim(1, 5, [L(N(nm), Z(1))]))
    out.append(Stream("outside-the-class", "parse.prim", "parse.prim.check", cases,
                      "programs with atoms outside the printable class (names that lex as numbers / booleans / parentheses / vector literals, names with blanks, vector and index literals, unregistered instruction atoms): model agreement; the predicate answers 2 unless all atoms happen to be printable"))
    # 4. i32 decimal round trip
    zs = list(I32) + [rand_i32(rng) for _ in range({"quick": 2000, "thorough": 40000, "search": 8000}[tier])]
    cases = [G.case_prim(i % 2, 6, c) for i, c in enumerate(chunks(zs, 50))]
    out.append(Stream("i32-roundtrip", "parse.prim", "parse.prim.check", cases, "i32 -> to_string -> parse::<i32> on boundary and random values (50 per case)"))
    # 5. float sweep: format {:.3} -> parse -> format on the implementation (the scalar law of the _partial theorem)
    nf = {"quick": 20000, "thorough": 240000, "search": 40000}[tier]
    bits = list(F32)
    for e in range(0, 256):                       # every exponent, mantissa corners
        for m in (0, 1, 0x400000, 0x7fffff):
            for s in (0, 1):
                b = (s << 31) | (e << 23) | m
                if e == 255 and m:
                    b = 0x7fc00000
                bits.append(b)
    third = (nf - len(bits)) // 3
    for _ in range(third):                        # next to the rounding boundaries (2n+1)/2000 and the printed values n/1000
        n_ = rng.randrange(-4000000, 4000000) if rng.random() < 0.7 else rng.randrange(-4000, 4000)
        v = (2 * n_ + 1) / 2000.0 if rng.random() < 0.7 else n_ / 1000.0
        b = fbits(v)
        b = max(0, min(0xffffffff, b + rng.randrange(-2, 3)))
        if (b & 0x7f800000) == 0x7f800000 and (b & 0x7fffff):
            b = 0x7fc00000
        bits.append(b)
    for _ in range(third):                        # log-uniform magnitudes where the third decimal matters
        v = rng.choice([-1, 1]) * 10 ** rng.uniform(-5, 8)
        bits.append(fbits(v))
    while len(bits) < nf:
        b = rng.getrandbits(32)
        if (b & 0x7f800000) == 0x7f800000 and (b & 0x7fffff):
            b = 0x7fc00000
        bits.append(b)
    cases = [G.case_prim(i % 2, 4, c) for i, c in enumerate(chunks(bits, 100))]
    out.append(Stream("float-sweep", "parse.prim", "parse.prim.check", cases,
                      "%d f32 bit patterns (pool; every exponent x mantissa corners x sign; neighbours of the rounding boundaries (2n+1)/2000 and of n/1000; log-uniform magnitudes 1e-5..1e8; random bit patterns): s = format!(\"{:.3}\", x); y = s.parse::<f32>(); format!(\"{:.3}\", y) == s evaluated on the implementation's output, and the three values compared with the Flocq model (100 per case)" % len(bits)))
    # instruction atoms registered by the HOST (InstructionSet::add), also with names that lex as numbers, print as their name and must
    # be read back as instructions; nothing a previous run executed may change how a text is read
    out.append(Stream("host-instructions-and-history", "parse.st", "parse.st.check", G.onto_state_cases(rng, names, names[:8], {"quick": 600, "thorough": 6000, "search": 2000}[tier]),
                      "texts containing host-added instruction names (INF, 42, 1e3, TRUE, INTEGER.SQUARE, ...) and bound names, parsed onto whole states; 30% after the same InstructionSet executed unknown instruction items"))
    return out



def extra(ctx):
    vcheck.new_names(ctx, "C11")      # every program the random code generator emits prints and parses back: its fresh names are names


TECHNIQUE = ("Coq proof: the printed text of a program is the token sequence of its tree (split_whitespace over Display's \"( \" .. \" )\" and trim), each printable atom lexes back to itself (decimal i32 printer/parser inverse by digit-list induction), "
             "then the C03 tree theorem; float case parametric in the scalar codec law + differential round-trip runs through Item::to_string and PushParser::parse_program, float sweep on the implementation")
DESIGN_REF = "DESIGN.md section 6.C11, 2.3"
LEVEL_TEXT = ("Machine-checked theorems for every build profile, every instruction set and every float implementation: C11_parse_print_tree (a printable program, printed by Display for Item and parsed onto an empty EXEC stack, is the same program, structurally), "
              "C11_code_print_roundtrip (the same for a whole stack printed by PushStack::to_string, i.e. what CODE.PRINT and the stack dumps emit), C11_i32_roundtrip (parse_i32 (print z) = z for every i32), "
              "C11_printable_int/_bool/_instr/_name (which atoms are in the class), C11_print_tokens (the empty list prints as '(  )' and still tokenises as '(' ')'). "
              "With float literals: C11_print_parse_print_floats_partial and C11_print_parse_print_stack_floats_partial give print . parse . print = print under the hypothesis that a 3-decimal text which parses re-prints as itself; that scalar law is a hypothesis of the theorem (hence _partial), validated on the implementation by the float-sweep stream. "
              "Tie to the code: random printable programs and stacks are printed by the real to_string, parsed by the real parser and compared structurally and textually, on both build profiles, against the extracted model; programs outside the class are run for model agreement only.")
LEVEL_NOTE = ("Trusted: Coq kernel, extraction, ocaml/driver.ml, the Rust harness and generators; all theorems closed under the global context. "
              "The float scalar law is an explicit premise of the two _partial theorems, not an axiom; its evidence is the sweep (quick 20k, thorough 240k bit patterns incl. every exponent), i.e. a test of format!/parse::<f32>, not a proof.")


def sweep_stream(seed, tier):
    """the scalar float law  fmt3(parse(fmt3 x)) = fmt3 x  enumerated on the implementation"""
    from vcheck import sx_str
    if tier == "thorough":
        step = 1 << 24
        cases = [sx_str([1, [], lo, lo + step]) for lo in range(0, 1 << 32, step)]
        note = "EXHAUSTIVE: all 2^32 f32 bit patterns in 256 ranges, natively in the release binary: format {:.3} -> parse -> format {:.3} reproduces the text"
    else:
        rng = random.Random(seed + 5)
        step = 1 << 20
        starts = sorted(set([0, 0x7f000000, 0x7f800000 - step, 0x80000000, 0xff800000 - step, 0x3f000000, 0x3a000000, 0x4b000000] +
                            [rng.randrange(0, (1 << 32) - step) for _ in range(24)]))
        cases = [sx_str([1, [], lo, lo + step]) for lo in starts]
        note = "32 ranges of 2^20 consecutive bit patterns (around 0, 0.5, 2^23, the largest finite values, both signs, plus random ranges), natively in the release binary"
    st = Stream("float-scalar-law-sweep", "f32sweep", None, cases, note)
    st.per_shard = 1          # heavy cases: one per worker slot
    st.timeout = 3600         # a range of 2^24 patterns takes seconds, but the machine may be loaded
    return [st]


def streams(seed, tier):
    return base_streams(seed, tier) + sweep_stream(seed, tier)

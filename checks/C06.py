"""C06 — control flow runs code in the documented order, the documented number of times."""
import random
import vcheck
from vcheck import Stream, sx_parse
from gen.stategen import *
from gen import stepgen, proggen

PROPERTY = "C06"
PROPS_VO = "Props/C06"
AXIOMS_OK = []
KNOWN_ARGS = "pair"     # the known-class suite looks at (case observed)
KNOWN_SUITE = {"run": "loops.known"}
COMBINATORS = ["EXEC.IF", "CODE.IF", "EXEC.K", "EXEC.S", "EXEC.Y", "CODE.DO", "CODE.DO*", "CODE.QUOTE", "EXEC.DUP", "EXEC.LOOP", "CODE.LOOP",
               "INTVECTOR.LOOP", "INDEX.DEFINE", "INDEX.INCREASE", "INDEX.CURRENT", "INDEX.DESTINATION", "INDEX.POP", "CODE.POP", "EXEC.POP"]
ASSUMPTIONS = ["loop theorems are stated for well-behaved bodies (terminate, restore the rest of EXEC and the INDEX stack); for other bodies only step-by-step equality with the model is checked",
               "INDEX.DESTINATION pushes an INDEX instead of an INTEGER (doc mismatch, outside the statement)"]


def exec_loop(n, body): return L(Z(n), I("INDEX.DEFINE"), I("EXEC.LOOP"), body)
def code_loop(n, body): return L(Z(n), I("INDEX.DEFINE"), I("CODE.QUOTE"), body, I("CODE.LOOP"))
def vec_loop(v, body): return L(IV(v), I("INTVECTOR.LOOP"), body)


def loop_programs(rng, tier):
    progs = []
    nmax = 12 if tier != "thorough" else 20
    for n in list(range(-1, nmax + 1)):
        progs.append(exec_loop(n, I("INDEX.CURRENT")))
        progs.append(exec_loop(n, I("NOOP")))
        if n <= 6:
            progs.append(code_loop(n, I("INDEX.CURRENT")))
    for n in range(0, 5):
        for m in range(0, 5):
            progs.append(exec_loop(n, exec_loop(m, I("INDEX.CURRENT"))))
            progs.append(exec_loop(n, vec_loop(list(range(m)), I("NOOP"))))
    for n in range(0, 4):
        for m in range(0, 3):
            for k in range(0, 3):
                progs.append(exec_loop(n, exec_loop(m, exec_loop(k, I("INDEX.CURRENT")))))
    for ln in range(0, 9):
        v = [rng.randrange(-5, 50) for _ in range(ln)]
        progs.append(vec_loop(v, I("NOOP")))
        progs.append(vec_loop(v, exec_loop(2, I("INDEX.CURRENT"))))
    return progs


def streams(seed, tier):
    rng = random.Random(seed)
    modelled = set("".join(chr(c) for c in n) for n in sx_parse(vcheck.run_model(["names (0)"])[0])[1])
    safe = sorted(n for n in modelled if n not in stepgen.UNSAFE and n not in stepgen.RANDOM and n not in stepgen.ALLOCATING and not n.startswith("GRAPH."))
    out = []
    cases = [case_run(k % 2, state(exec=[t]), 0, 4000) for k, t in enumerate(loop_programs(rng, tier))]
    out.append(Stream("loop-counts", "run", "loops.check", cases,
                      "EXEC.LOOP / CODE.LOOP / INTVECTOR.LOOP programs, n in -1..12, nesting to depth 3, vectors of length 0..8, bodies INDEX.CURRENT / NOOP / loops: exposed indices and leftovers compared with the documented sequence"))
    # single steps of every combinator on random EXEC / CODE / BOOLEAN / INDEX contents
    n = {"quick": 150, "thorough": 2000, "search": 1500}[tier]
    cases = []
    for nm in COMBINATORS:
        if nm not in modelled: continue
        for _ in range(n):
            cases.append(stepgen.step_case(rng, nm, sorted(modelled), safe))
    # every combinator in tail position: what FOLLOWS on EXEC x whether the top CODE / EXEC items coincide
    follow = [[], [I("CODE.POP")], [I("CODE.POP"), Z(99)], [I("EXEC.POP")], [I("CODE.DUP")], [I("NOOP")], [L(I("INDEX.INCREASE"), I("EXEC.LOOP"), I("NOOP"))],
              [Z(1), L(I("INDEX.INCREASE"), I("CODE.LOOP"), L(Z(2)))], [L(Z(7), I("CODE.DO"))], [I("EXEC.K")], [I("EXEC.DUP"), I("EXEC.DUP")]]
    progs = [L(Z(7), I("CODE.DO")), Z(5), L(), I("CODE.DUP"), L(I("CODE.DUP"), I("CODE.DO"))]
    for nm in COMBINATORS:
        if nm not in modelled: continue
        for fo in follow:
            for a in progs:
                for b in (a, progs[(progs.index(a) + 1) % len(progs)]):
                    st = dict(exec=[I(nm)] + fo, code=[a, b, Z(3)], bool=[True, False], int=[2, 0], index=[(1, 3), (0, 7)], name=["n"], float=[fbits(1.0)])
                    cases.append(case_run(len(cases) % 2, state(**st), 0, 1))
                    cases.append(case_run(len(cases) % 2, state(**st), 0, 4))
    # a list runs ALL its elements in order: pairs that cancel when executed (T.DUP T.POP, T.SWAP T.SWAP, NOOP) are still elements - the
    # first of them may be the ARGUMENT of the instruction in front of it
    for T in ("INTEGER", "BOOLEAN", "CODE", "EXEC", "FLOAT", "NAME"):
        for a_, b_ in ((T + ".DUP", T + ".POP"), (T + ".SWAP", T + ".SWAP"), ("NOOP", "NOOP"), (T + ".DUP", T + ".DUP")):
            if a_ not in modelled or b_ not in modelled: continue
            for head in ([I("CODE.QUOTE")], [I("EXEC.K")], [B(True), I("EXEC.IF")], [Z(2), I("INDEX.DEFINE"), I("EXEC.LOOP")], [I("EXEC.DUP")], [I("EXEC.S")], []):
                prog = L(Z(1), *(head + [I(a_), I(b_), Z(5), Z(6)]))
                st = dict(exec=[prog], code=[Z(8), Z(9)], bool=[True, False], int=[3, 4], float=[fbits(1.0), fbits(2.0)], name=["p", "q"])
                for k in (1, 2, 12):
                    cases.append(case_run(len(cases) % 2, state(**st), 0, k))
    out.append(Stream("combinator-steps", "run", "run.check", cases, "one step of each control-flow instruction on random stack contents; each of them followed on EXEC by a pending CODE.POP / EXEC.POP / loop continuation / itself, with equal and unequal items on top of CODE (1 and 4 steps)"))
    # loops with richer bodies, step-by-step equality with the model
    cases = []
    bodies_ok = ["( 1 INTEGER.+ )", "( INDEX.CURRENT INTEGER.* )", "( TRUE BOOLEAN.NOT BOOLEAN.POP )", "( INDEX.CURRENT FLOAT.FROMINTEGER )", "NOOP", "( 2 INDEX.DEFINE EXEC.LOOP ( INDEX.CURRENT INTEGER.+ ) )"]
    bodies_bad = ["INDEX.POP", "EXEC.POP", "( 1 INDEX.DEFINE )", "EXEC.DUP", "( CODE.QUOTE X )", "INDEX.INCREASE", "EXEC.FLUSH", "( EXEC.Y NOOP )"]
    # a loop whose body is a BOUND NAME (looked up at every iteration, also when the body rebinds it), duplicate INDEX entries beneath
    for nn in range(0, 5):
        for mk in (exec_loop, code_loop):
            bnd = [("BODY", L(Z(1), I("INTEGER.+"))), ("REBIND", L(I("CODE.QUOTE"), Z(5), I("NAME.QUOTE"), N("BODY"), I("CODE.DEFINE"), N("BODY")))]
            for body in (N("BODY"), N("REBIND"), N("unbound")):
                for k in (3, 10, 60):
                    cases.append(case_run(rng.randrange(2), state(exec=[mk(nn, body)], int=[1, 2, 3], bind=bnd), 0, k))
        for body in (N("BODY"), N("REBIND")):
            cases.append(case_run(rng.randrange(2), state(exec=[vec_loop(list(range(nn)), body)], int=[1, 2, 3],
                                  bind=[("BODY", L(Z(1), I("INTEGER.+"))), ("REBIND", L(I("CODE.QUOTE"), Z(5), I("NAME.QUOTE"), N("BODY"), I("CODE.DEFINE"), N("BODY")))]), 0, 60))
        for idx in ([(0, nn), (0, nn)], [(nn, nn), (nn, nn), (1, 9)], [(0, 0), (0, 0)]):
            cases.append(case_run(rng.randrange(2), state(exec=[I("EXEC.LOOP"), L(Z(9)), I("INDEX.CURRENT")], index=idx), 0, 40))
            cases.append(case_run(rng.randrange(2), state(exec=[I("CODE.LOOP"), I("INDEX.CURRENT")], code=[L(Z(9))], index=idx), 0, 40))
    for b in bodies_ok + bodies_bad:
        for nn in range(0, 7):
            body = parse_prog(b, modelled)[0]
            for mk in (exec_loop, code_loop):
                st = state(exec=[mk(nn, body)], int=[1, 2, 3], float=[0])
                for k in (3, 10, 200):
                    cases.append(case_run(rng.randrange(2), st, 0, k))
            cases.append(case_run(rng.randrange(2), state(exec=[vec_loop(list(range(nn)), body)], int=[1, 2, 3]), 0, 200))
    out.append(Stream("loop-bodies", "run", "run.check", cases, "loops over well-behaved and ill-behaved bodies (bodies that touch INDEX/EXEC/CODE), stopped after 3 / 10 / 200 steps: whole state compared"))
    return out


TECHNIQUE = "Coq induction on the iteration count for EXEC.LOOP / INTVECTOR.LOOP over arbitrary well-behaved bodies (incl. nesting by composition), one-step equations for the combinators + differential correspondence; documented loop sequence evaluated on the implementation's output"
DESIGN_REF = "DESIGN.md section 6.C06"
LEVEL_TEXT = ("Props/C06.v: for every well-behaved body b with effect f, every count and every surrounding state, EXEC.LOOP reaches, after finitely many interpreter steps, exactly the state obtained by applying f destination-many times with the index advancing 0..n-1, with the EXEC stack below and the INDEX stack restored (no index, no loop code left); "
              "with INDEX.CURRENT as body the INTEGER stack receives 0..n-1 in order; a whole counted loop is again a well-behaved body, so arbitrary nesting follows by composition; INTVECTOR.LOOP runs the body once per element in element order with the element on INTEGER. One-step equations for IF/K/S/Y/DO/DO*/QUOTE and list unpacking. "
              "CODE.LOOP violates the property on the pinned tree and cannot be repaired without editing a unit test: proved refuted, listed as a known finding. Tie: loop programs (nesting to depth 3) and every combinator run on the real interpreter; the documented index sequence is evaluated on its output.")
LEVEL_NOTE = "Trusted: Coq kernel, extraction, driver, harness, generators. Theorems closed under the global context, parametric in FloatOps."

"""C17 — the ring buffer behaves like a bounded sequence (buffer part; INPUT/OUTPUT queues: see below)."""
import itertools, random
from vcheck import Stream, sx_str

PROPERTY = "C17"
REGISTRY_PREFIX = ("INPUT.", "OUTPUT.")
PROPS_VO = ["Props/C17", "Props/C17io"]
AXIOMS_OK = []
ASSUMPTIONS = [
    "capacity >= 1 and within the cast bound cap_ok (Queue kind: capacity <= 2^30, Stack kind: capacity <= 2^31 - 1): get_index computes in i32; beyond the Queue bound `(end + i) as i32` wraps (Example C17_queue_cast_bound_sharp) — such a buffer needs > 2^30 cells and is not exercised",
    "element type of the correspondence histories is i32 (PushBuffer<i32>, T::default() = 0); the theorems are generic in the element type",
    "to_string is compared as the list of printed cells (each cell is written as \" {}\" and the result trimmed); for i32 the cells are recovered exactly by splitting at blanks. An element whose Display is empty or contains blanks cannot be recovered from the string by anyone",
    "documented order of to_string chosen as newest first (the code walks down from the write cursor, PushStack::to_string prints top first, the only caller prints the Stack-kind GRAPH buffer); the pinned defect fails under every order (it prints a dead cell)",
]

# op tags of the wire suite "buffer"
CAPACITY, SIZE, TOSTRING, COPY, COPYOLDEST, FLUSH, GET, PUSH, PUSHFORCE, POP, PEEKOLD, PEEKNEW, ITER, ISEMPTY, ISFULL = range(15)


def observers(cap):
    ops = [[t] for t in (CAPACITY, SIZE, TOSTRING, COPYOLDEST, PEEKOLD, PEEKNEW, ITER, ISEMPTY, ISFULL)]
    for i in range(cap + 2):
        ops.append([GET, i])
        ops.append([COPY, i])
    # far positions: an index narrowed to 32 bits would alias a live cell
    for i in (2 ** 32, 2 ** 32 + 1, 2 ** 31, 2 ** 63, 2 ** 64 - 1):
        ops.append([GET, i])
        ops.append([COPY, i])
    return ops


def mutator_histories(length):
    """all sequences of `length` mutators; pushed values are 1, 2, 3, ... (distinct, never the default 0)"""
    for seq in itertools.product((PUSH, PUSHFORCE, POP, FLUSH), repeat=length):
        yield seq


def observed_history_str(seq, cap, obs_str):
    """the history as an sx string: each mutator followed by the whole observer block"""
    parts, nxt = [], 1
    for t in seq:
        if t in (PUSH, PUSHFORCE):
            parts.append("(%d %d)" % (t, nxt)); nxt += 1
        else:
            parts.append("(%d)" % t)
        parts.append(obs_str)
    return "(" + " ".join(parts) + ")"


def default_value_histories(length):
    """all sequences of `length` letters from {push d, push v, push_force d, push_force v, pop, flush} where d is the
    element type's default value (0: what an empty cell holds) and v a fresh non-default value"""
    for seq in itertools.product(((PUSH, 0), (PUSH, 1), (PUSHFORCE, 0), (PUSHFORCE, 1), (POP,), (FLUSH,)), repeat=length):
        yield seq


def default_history_str(seq, obs_str):
    parts, nxt = [], 1
    for o in seq:
        if len(o) == 2:
            if o[1]:
                parts.append("(%d %d)" % (o[0], nxt)); nxt += 1
            else:
                parts.append("(%d 0)" % o[0])
        else:
            parts.append("(%d)" % o[0])
        parts.append(obs_str)
    return "(" + " ".join(parts) + ")"


def rand_history(rng, cap, n):
    ops = []
    ln = 0
    phase_push = True
    vals = [0, 1, -1, 2147483647, -2147483648]
    # how often a pushed value is the default value 0 (an empty cell and a live 0 look the same in the container)
    pzero = rng.choice([0.0, 0.1, 0.35, 0.7])
    for _ in range(n):
        if rng.random() < 0.02:
            phase_push = not phase_push
        r = rng.random()
        if r < 0.55:
            # mutate: push-heavy and pop-heavy phases alternate so the cursors wrap many times
            w = rng.random()
            if w < (0.7 if phase_push else 0.3):
                t = PUSHFORCE if rng.random() < 0.45 else PUSH
                v = 0 if rng.random() < pzero else rng.choice(vals) if rng.random() < 0.2 else rng.randrange(-1000, 1000)
                ops.append([t, v])
                ln = min(cap, ln + 1)
            elif w < 0.995:
                ops.append([POP]); ln = max(0, ln - 1)
            else:
                ops.append([FLUSH]); ln = 0
        elif r < 0.75:
            i = rng.choice([0, ln - 1, ln, ln + 1, cap - 1, cap, rng.randrange(0, cap + 2), 18446744073709551615 if rng.random() < 0.05 else 1,
                            rng.choice([2 ** 32, 2 ** 32 + max(0, ln - 1), 2 ** 33 + 1, 2 ** 31, 2 ** 63, 2 ** 64 - 2]) if rng.random() < 0.3 else 0])
            ops.append([rng.choice((GET, COPY)), max(0, i)])
        else:
            ops.append([rng.choice((CAPACITY, SIZE, TOSTRING, COPYOLDEST, PEEKOLD, PEEKNEW, ITER, ISEMPTY, ISFULL, TOSTRING, ITER))])
    return ops


def buffer_streams(seed, tier):
    rng = random.Random(seed)
    out = []
    caps = (1, 2, 3, 4)
    # 1. every mutator sequence of length L, everything observed after every step
    L = {"quick": 7, "thorough": 8, "search": 8}[tier]
    cases = []
    for prof, ll in ((0, L), (1, L - 1 if tier == "quick" else L)):
        for kind in (0, 1):
            for cap in caps:
                obs_str = " ".join(sx_str(o) for o in observers(cap))
                for seq in mutator_histories(ll):
                    cases.append("(%d %d %d %s)" % (prof, kind, cap, observed_history_str(seq, cap, obs_str)))
    out.append(Stream("mutators^%d+observe-all" % L, "buffer", "buffer.check", cases,
                      "every sequence of %d operations from {push, push_force, pop, flush} (release profile: %d), capacities 1..4, both kinds; after every operation all observers run "
                      "(capacity, size, to_string, copy_oldest, peek_oldest, peek_newest, iter, is_empty, is_full, get/get_mut(i) and copy(i) for i in 0..cap+1 and at 2^31, 2^32, 2^32+1, 2^63, 2^64-1); covers all shorter sequences as prefixes"
                      % (L, L - 1 if tier == "quick" else L)))
    # 1b. the same with the DEFAULT value among the pushed values: every push pushes either 0 (= T::default(), the
    #     content of an empty cell) or a fresh non-default value, in every combination
    L0 = {"quick": 5, "thorough": 6, "search": 6}[tier]
    cases = []
    for kind in (0, 1):
        for cap in caps:
            obs_str = " ".join(sx_str(o) for o in observers(cap))
            for k, seq in enumerate(default_value_histories(L0)):
                cases.append("(%d %d %d %s)" % ((k + kind) % 2, kind, cap, default_history_str(seq, obs_str)))
    out.append(Stream("mutators^%d-default-values+observe-all" % L0, "buffer", "buffer.check", cases,
                      "every sequence of %d operations from {push 0, push v, push_force 0, push_force v, pop, flush} (0 = the element type's default value, which is also what an empty cell holds; v = a fresh non-default value), "
                      "capacities 1..4, both kinds, profiles alternating; after every operation all observers run: a live default-valued item (oldest, newest, in the middle) is told apart from an empty cell" % L0))
    # 2. every history up to length D over the whole API with each operation on its own
    D = {"quick": 3, "thorough": 4, "search": 3}[tier]
    cases = []
    for kind in (0, 1):
        for cap in caps:
            alpha = [[PUSH, 7], [PUSHFORCE, 9], [PUSH, 0], [PUSHFORCE, 0], [POP], [FLUSH]] + observers(cap)
            for d in range(1, D + 1):
                for k, ops in enumerate(itertools.product(alpha, repeat=d)):
                    cases.append(sx_str([(k + d) % 2, kind, cap, list(ops)]))
    out.append(Stream("whole-api<=%d" % D, "buffer", "buffer.check", cases,
                      "all histories up to length %d over the whole public API (each observer as an operation of its own; pushes of a non-default value and of the default value 0), capacities 1..4, both kinds, profiles alternating" % D))
    # 3. long random histories, many wrap-arounds
    n = {"quick": 600, "thorough": 6000, "search": 6000}[tier]
    cases = []
    for k in range(n):
        cap = rng.choice([1, 2, 3, 3, 4, 5, 7, 8, 16, 33])
        cases.append(sx_str([k % 2, rng.randrange(2), cap, rand_history(rng, cap, 500)]))
    out.append(Stream("random500", "buffer", "buffer.check", cases,
                      "random histories of 500 operations, capacities 1..33, alternating push-heavy and pop-heavy phases (cursors wrap many times), positions concentrated at len/capacity and at usize::MAX, values incl. i32 extremes; per history 0 / 10 / 35 / 70 percent of the pushed values are 0 (= the default cell)"))
    # 4. capacity 0: outside the quantifier (checker verdict 2); model and code are still compared
    cases = []
    for prof in (0, 1):
        for kind in (0, 1):
            alpha = [[PUSH, 7], [PUSHFORCE, 9], [POP], [FLUSH]] + observers(0)
            for d in (1, 2):
                for ops in itertools.product(alpha, repeat=d):
                    cases.append(sx_str([prof, kind, 0, list(ops)]))
    out.append(Stream("capacity0", "buffer", "buffer.check", cases,
                      "capacity 0 (outside the quantifier: push_force indexes an empty Vec and panics; `% 0`): correspondence only"))
    return out


TECHNIQUE = "Coq refinement proof (ring-buffer record with cursors refines a bounded oldest-first list; cursor invariant; induction over operation histories) + exhaustive/random differential correspondence against PushBuffer<i32>"
DESIGN_REF = "DESIGN.md section 6.C17"
LEVEL_TEXT = ("Machine-checked theorem C17_buffer_refines_bounded_seq: for every element type, both buffer kinds, every capacity >= 1 within the i32 cast bound, both build profiles and every history over the whole public API "
              "(capacity, size, to_string, copy, copy_oldest, flush, get/get_mut, push, push_force, pop, peek_oldest, peek_newest, iter, is_empty, is_full), the model of the Rust record "
              "(Vec of `capacity` cells, start/end/len cursors, the real `% capacity`, usize subtractions and `as i32`/`as usize` casts, Vec index panics) never panics and returns exactly the outputs and final contents of a bounded list: "
              "plain push ignored when full, forced push drops the oldest, Queue pops the oldest / Stack pops the newest, get(i) = i-th oldest / i-th newest, iteration oldest first, printing exactly the live items newest first, size = number of live items <= capacity "
              "(C17_buffer_inv_preserved, C17_buffer_step_refines, C17_buffer_run_refines from any state satisfying the invariant; C17_spec_bounded; C17_to_string_live_items_newest_first; C17_iter_live_items_oldest_first; C17_get_by_kind). "
              "The model is tied to the code by running every sequence of 7 (thorough: 8) mutators with all observers after every step for capacities 1..4 and both kinds, every sequence of 5 (6) mutators whose pushed values are the default value 0 or fresh non-default values in every combination (a live item equal to T::default() vs an empty cell), every whole-API history up to length 3 (4), and random histories of 500 operations (0..70 percent default values), "
              "on the real PushBuffer<i32> and on the extracted model, and by evaluating the specification itself on the implementation's outputs (C17_suite_result_is_spec: inside the quantifier the model's printed result is the specification's)."
              " Instruction level (Props/C17io.v): C17_io_fifo proves for every input queue and every sequence of INPUT.READ/GET/NEXT/AVAILABLE/STACKDEPTH and OUTPUT.* instructions, run through the interpreter with the real registry, that reads see exactly the oldest unconsumed message, NEXT consumes exactly it, and OUTPUT.WRITE enqueues in program order (ignored when the 3-slot queue is full); tied by exhaustive/random INPUT/OUTPUT instruction sequences on the real interpreter.")
LEVEL_NOTE = ("Trusted: Coq kernel, extraction (ExtrOcamlBasic), ocaml/driver.ml, the Rust harness and generators; theorems are closed under the global context (no axioms). "
              "The model is hand-written: behaviour outside the generated histories is tied only by the proof-to-model link, not to the code. "
              "to_string is modelled as repaired by fixes/C17-buffer-to_string.patch; until that patch is applied to /repo the check reports the pinned defect (known_findings.jsonl: buffer-to_string-start-slot).")


def streams(seed, tier):
    from gen import iogen
    return buffer_streams(seed, tier) + iogen.io_streams(seed, tier)

"""C03 — the parser accepts every string and builds the tree the text describes."""
import itertools, random
import vcheck
from vcheck import Stream, sx_str, sx_parse
from gen import parsegen as G
from gen.pools import rand_i32, I32
from gen.stategen import L, I, N, B, Z, F, BV, IV, FV

PROPERTY = "C03"
PROPS_VO = "Props/C03"
AXIOMS_OK = []
ASSUMPTIONS = [
    "side condition str_fits: the text has fewer than 2^64 characters (every Rust &str: len <= isize::MAX bytes); it keeps the usize counter `depth += 1` from overflowing",
    "the tree equation is claimed for balanced token sequences; for unbalanced ones the theorems still give totality, the frame and C03_parse_is_spec (an unmatched ')' is ignored, open lists are closed at the end), and the correspondence diff covers them, but the predicate parse.check answers 2 there",
    "INT[] / FLOAT[] / BOOL[] (no element) are dropped as malformed: current behaviour, kept; a literal without ']' loses its last character instead (INT[1,23 reads as [1,2]): behaviour of the pinned tree, unchanged by the repair",
    "the instruction names of the model are those of Model/RegistryAll.v; tokens naming an instruction that is registered by pushr but not yet in that table are not generated",
    "str::parse::<f32>() is the FloatOps field fparse (universally quantified in the theorems, Flocq instance in the correspondence)",
]


def model_names():
    return sorted("".join(chr(c) for c in n) for n in sx_parse(vcheck.run_model(["names (0)"])[0])[1])


def streams(seed, tier):
    rng = random.Random(seed)
    names = model_names()
    some = ["INTEGER.+", "CODE.DUP", "EXEC.IF", "BOOLEAN.OR", "FLOAT.+", "NAME.QUOTE", "INTVECTOR.GET", "EXEC.Y"]
    some = [n for n in some if n in names]
    out = []

    # 1. exhaustive token sequences over the six-token alphabet
    alpha = ["(", ")", "1", "A", "INT[1]", "INT["]
    maxlen = 5
    cases = []
    for n in range(0, maxlen + 1):
        for k, seq in enumerate(itertools.product(alpha, repeat=n)):
            text = " ".join(seq)
            if n <= 4 or tier == "thorough":
                cases.append(G.case_parse(0, text)); cases.append(G.case_parse(1, text))
            else:
                cases.append(G.case_parse(k % 2, text))
    out.append(Stream("exhaustive-tokens<=5", "parse", "parse.check", cases,
                      "all token sequences of length <= 5 over ( ) 1 A INT[1] INT[ separated by blanks (length <= 4 in both profiles; length 5 alternating, thorough: both)"))

    # 2. renderings of random token trees, every whitespace character as separator
    n = {"quick": 3000, "thorough": 30000, "search": 12000}[tier]
    cases = []
    for k in range(n):
        toks = G.rand_tok_tree(rng, some + names[:0] + [rng.choice(names)], rng.randrange(0, 7), rng.randrange(0, 41))
        pre = [] if rng.random() < 0.8 else [G.rand_print_tree(rng, some, 2, 4, True, True) for _ in range(rng.randrange(1, 3))]
        cases.append(G.case_parse(k % 2, G.join_ws(rng, toks, k % 3 != 0), pre))
    out.append(Stream("token-trees", "parse", "parse.check", cases,
                      "balanced random token trees (depth <= 6, <= 40 tokens, every atom kind incl. number-like tokens, well- and ill-formed vector literals, non-ASCII names), separators drawn from all 25 whitespace characters, 20% onto a non-empty EXEC stack"))

    # 3. token soup: unbalanced parentheses
    n = {"quick": 3000, "thorough": 30000, "search": 12000}[tier]
    cases = []
    for k in range(n):
        toks = G.rand_soup(rng, some, rng.randrange(0, 25))
        pre = [] if rng.random() < 0.7 else [G.rand_print_tree(rng, some, 3, 6, True, True) for _ in range(rng.randrange(1, 3))]
        cases.append(G.case_parse(k % 2, G.join_ws(rng, toks, k % 2), pre))
    out.append(Stream("token-soup", "parse", "parse.check", cases,
                      "random token sequences with unbalanced parentheses (totality, frame and model agreement; 30% onto a non-empty EXEC stack whose bottom item may be a list or an atom)"))

    # 4. vector literals and number-like tokens: alone, in a list, between neighbours
    cases = []
    for k, t in enumerate(G.VEC_GOOD + G.VEC_BAD + G.NUMBER_LIKE + G.NAMES + ["TRUE", "FALSE"] + some):
        for ctx in ("%s", "( %s )", "1 %s 2", "( A %s ( %s ) B )", "%s %s"):
            text = ctx.replace("%s", t)
            cases.append(G.case_parse(0, text)); cases.append(G.case_parse(1, text))
    out.append(Stream("lexical-corners", "parse", "parse.check", cases,
                      "every listed vector literal (well-formed, INT[ INT[] INT[1,,2] BOOL[true,0] missing ], multi-byte scalar before the last byte), number-like token (+5 -0 1e5 .5 5. inf NaN Infinity 2147483648 0x10 1_0 ...) and odd name in 5 contexts, both profiles"))

    # 5. every registered instruction name as a token
    cases = [G.case_parse(k % 2, "( %s 1 %s )" % (nm, nm)) for k, nm in enumerate(names)]
    out.append(Stream("registered-names", "parse", "parse.check", cases, "each of the model's %d instruction names as a token" % len(names)))

    # 6. arbitrary UTF-8
    n = {"quick": 4000, "thorough": 40000, "search": 16000}[tier]
    cases = []
    for k in range(n):
        ln = rng.choice([0, 1, 2, 3, 5, 8, 13, 40, 120])
        text = [G.rand_scalar(rng) for _ in range(ln)]
        if rng.random() < 0.3:
            pos = rng.randrange(0, len(text) + 1)
            text[pos:pos] = G.cps(rng.choice(["INT[", "FLOAT[", "BOOL[", "(", ")", " ( ", " ) "]))
        cases.append(G.case_parse(k % 2, text))
    out.append(Stream("utf8", "parse", "parse.check", cases,
                      "arbitrary strings of Unicode scalar values (all UTF-8 lengths, U+0085 U+00A0 U+1680 U+2000-200A U+2028 U+2029 U+202F U+205F U+3000 and the look-alikes U+001C-001F U+200B U+FEFF), vector prefixes and parentheses spliced in"))

    # 7. the primitives, one by one
    cases = []
    toks = list(G.NUMBER_LIKE) + [str(z) for z in I32] + ["+" + str(z) for z in I32 if z >= 0]
    for k in range({"quick": 300, "thorough": 3000, "search": 600}[tier]):
        z = rand_i32(rng) * rng.choice([1, 1, 1, 10, 100])
        toks.append(rng.choice(["", "+", "-", "0", "00"]) + str(z) + rng.choice(["", "", "", " ", "a", ".", "_"]))
    for i in range(0, len(toks), 20):
        cases.append(G.case_prim(i % 2, 0, [G.cps(t) for t in toks[i:i + 20]]))
    for k in range({"quick": 1500, "thorough": 15000, "search": 6000}[tier]):
        text = [G.rand_scalar(rng) if rng.random() < 0.7 else rng.choice(G.WS) for _ in range(rng.choice([0, 1, 2, 5, 12, 40]))]
        cases.append(G.case_prim(k % 2, 1, text))
    for w in G.WS + G.NOT_WS:
        cases.append(G.case_prim(0, 1, [65, w, 66]))
    for k in range({"quick": 1500, "thorough": 15000, "search": 6000}[tier]):
        stack = [G.rand_print_tree(rng, some, 3, 8, True, True) for _ in range(rng.randrange(0, 4))]
        x = G.rand_print_tree(rng, some, 1, 2, False, True)
        d = rng.choice([0, 0, 1, 1, 2, 3, 4, 7, 2 ** 64 - 1, 2 ** 63])
        cases.append(G.case_prim(k % 2, 3, stack, x, d))
        cases.append(G.case_prim(k % 2, 2, stack))
    # 8. onto an arbitrary state (bindings, pending flags, other stacks non-empty) and with instruction names
    #    registered by the host through InstructionSet::add after load()
    st_cases = G.onto_state_cases(rng, names, some, {"quick": 1500, "thorough": 15000, "search": 6000}[tier])
    out.append(Stream("onto-any-state", "parse.st", "parse.st.check", st_cases,
                      "random token trees parsed onto random WHOLE states (0..3 name bindings whose names occur in the text, pending quote/send flags, all stacks non-empty) with 0..3 extra "
                      "instruction names registered through InstructionSet::add after load() (incl. names that lex as numbers: INF, 42, 1e3, TRUE); in 30% the same InstructionSet has first EXECUTED instruction items with unknown names spelled like names of the text: EXEC = the specification over registered + added names, everything else untouched"))
    out.append(Stream("primitives", "parse.prim", "parse.prim.check", cases,
                      "i32::from_str on number-like tokens, split_whitespace on random texts and on each whitespace / look-alike character, PushStack<Item>::to_string, PushParser::rec_push at depths 0..7 and 2^64-1 on stacks whose bottom chain ends in a list, an atom or nothing"))
    return out


TECHNIQUE = ("Coq proof: the token loop of parser.rs (rec_push along the chain of bottom items, usize depth) simulates an explicit stack of open lists for EVERY token sequence; "
             "tree theorem by induction on token forests; character-level lexical cascade proved equal to the byte-slice code; + differential correspondence against PushParser::parse_program in both build profiles")
DESIGN_REF = "DESIGN.md section 6.C03, 2.3, 7a (parser spine)"
LEVEL_TEXT = ("Machine-checked theorems, for every build profile, every instruction set, every float parser and every text of fewer than 2^64 characters: C03_parse_total (parse_program returns normally), "
              "C03_parse_is_spec (the EXEC stack afterwards is spec_parse: tokens read with an explicit stack of open lists, first token on top, unmatched ')' ignored), C03_parse_frame (only EXEC changes), "
              "C03_parse_tokens_tree / C03_parse_text_tree (a token forest rendered as '(' children ')' parses to exactly that forest), C03_parse_classifies with the rule lemmas C03_classify_* (vector literal, instruction, integer, float, TRUE/FALSE, name, in that order), "
              "C03_parse_drops_bad_vector (a malformed vector literal is as good as absent), C03_parse_onto_nonempty (new items go beneath the old ones). "
              "The model is the parser after two fix: commits (unmatched ')' underflowed the depth counter: debug panic / release mis-nesting; 'INT[' and a multi-byte last character made the byte slice panic); the pinned code is kept as parse_program_pinned and refuted by the C03_*_pinned_refuted examples. "
              "Tie to the code: every token sequence of length <= 5 over ( ) 1 A INT[1] INT[, random token trees and token soup with all 25 whitespace separators, vector-literal and number-token corner lists, arbitrary UTF-8, and the primitives (i32 parsing, split_whitespace, printing, rec_push) are run on PushParser and on the extracted model in both profiles, and the specification is evaluated on the implementation's output.")
LEVEL_NOTE = ("Trusted: Coq kernel, extraction, ocaml/driver.ml, the Rust harness and generators; all theorems closed under the global context. parse::<f32>() is a parameter of the theorems (FloatOps.fparse); its Flocq instance is validated by the f32 suite. "
              "The model's instruction-name list is Model/RegistryAll.v.")

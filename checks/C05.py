"""C05 — stack-manipulation instructions act uniformly on every stack and conserve items."""
import random
import vcheck
from vcheck import Stream, sx_str, sx_parse
from gen.stategen import *
from gen.pools import fbits
from gen import stepgen

PROPERTY = "C05"
PROPS_VO = "Props/C05"
AXIOMS_OK = []
OPS = ["DUP", "POP", "SWAP", "ROT", "FLUSH", "YANK", "YANKDUP", "SHOVE", "STACKDEPTH"]
TYPES = {
    "BOOLEAN": ("bool", lambda k: k % 3 == 0), "INTEGER": ("int", lambda k: 100 + k), "FLOAT": ("float", lambda k: fbits(1.5 + k)),
    "NAME": ("name", lambda k: "n%d" % k), "CODE": ("code", lambda k: L(Z(k), N("c%d" % k))), "EXEC": ("exec", lambda k: Z(50 + k)),
    "BOOLVECTOR": ("bvec", lambda k: [True] * k), "INTVECTOR": ("ivec", lambda k: [k, k + 1]), "FLOATVECTOR": ("fvec", lambda k: [fbits(float(k))]),
}
ASSUMPTIONS = ["stack depths stay below 2^31 (the `size() as i32` cast); the Vec cannot be driven there by the check",
               "BOOLVECTOR/INTVECTOR/FLOATVECTOR have no ROT instruction in the registry (vector.rs registers none): the property's 'every stack type' is read over the instructions that exist (C05_uniform_vector_stacks proves the absence)"]


def model_names():
    return set("".join(chr(c) for c in n) for n in sx_parse(vcheck.run_model(["names (0)"])[0])[1])


def bystanders():
    return dict(bool=[True], code=[Z(1)], exec=[], float=[fbits(2.5)], index=[(1, 3)], int=[], name=["keep"],
                bvec=[[True, False]], fvec=[[fbits(1.0)]], ivec=[[9, 8]], input=[([1], [True])], output=[([2], [False])],
                bind=[("K", Z(5))])


def streams(seed, tier):
    rng = random.Random(seed)
    names = model_names()
    cases, skipped = [], set()
    maxd = 6 if tier != "thorough" else 8
    for T, (field, mk) in TYPES.items():
        for op in OPS:
            nm = T + "." + op
            if nm not in names:
                skipped.add(nm); continue
            for depth in range(0, maxd + 1):
                idxs = [None] if op in ("DUP", "POP", "SWAP", "ROT", "FLUSH", "STACKDEPTH") else \
                    [None, -2147483648, -2, -1] + list(range(0, depth + 2)) + [2147483647, 255, 256, 65535, 65536, 65537, 131072, 1 << 20, (1 << 16) + depth - 1, (1 << 24) + 1]
                for idx in idxs:
                    for prof in (0, 1):
                        st = bystanders()
                        st[field] = [mk(k) for k in range(depth)]
                        if T == "EXEC":
                            st["exec"] = [I(nm)] + st["exec"]
                        else:
                            # for CODE: EXEC keeps 0 .. 3 further items (depths that coincide with CODE positions)
                            st["exec"] = [I(nm)] + ([Z(70 + j) for j in range((depth + (idx or 0)) % 4)] if T == "CODE" else [])
                        if idx is not None:
                            st["int"] = [idx] + (st["int"] if T != "INTEGER" else st["int"])
                        cases.append(case_run(prof, state(**st), 0, 1))
    out = [Stream("exhaustive", "run", "stackops.check", cases,
                  "every stack type x 9 instructions x depth 0..%d x index in {none, MIN, -2, -1, 0..depth+1, MAX}, distinct values, non-empty bystander stacks, both profiles; not yet in the model (skipped): %s" % (maxd, sorted(skipped)))]
    # random deeper stacks
    n = {"quick": 1500, "thorough": 15000, "search": 15000}[tier]
    allnames = sorted(names)
    safe = [x for x in allnames if x not in stepgen.UNSAFE and x not in stepgen.RANDOM and x not in stepgen.ALLOCATING]
    fam = [T + "." + op for T in TYPES for op in OPS if T + "." + op in names]
    cases = []
    for _ in range(n):
        nm = rng.choice(fam)
        st = stepgen.rand_state(rng, allnames, safe, maxdepth=rng.choice([3, 8, 40]))
        st["exec"] = [I(nm)] + st["exec"]
        cases.append(case_run(rng.randrange(2), state(**st), 0, 1))
    out.append(Stream("random-deep", "run", "stackops.check", cases, "random whole states with stacks up to 40 deep, random indices"))
    # size thresholds: depths at / around powers of two, where a cap or a buffer size would sit
    scales = stepgen.SCALES + [16384, 16385]
    per = {"quick": 3, "thorough": 12, "search": 6}[tier]
    cases = []
    for T, (field, mk) in TYPES.items():
        small = {"bvec": lambda k: [k % 2 == 0], "code": lambda k: Z(k % 9)}.get(field, mk)
        for op in OPS:
            nm = T + "." + op
            if nm not in names:
                continue
            for _ in range(per):
                depth = rng.choice(scales)
                st = bystanders()
                st[field] = [small(k) for k in range(depth)]
                st["exec"] = ([I(nm)] + st["exec"]) if T == "EXEC" else [I(nm)]
                if op in ("YANK", "YANKDUP", "SHOVE"):
                    st["int"] = [rng.choice([0, 1, depth - 2, depth - 1, depth, depth // 2, -1, 2147483647])] + st["int"]
                cases.append(case_run(rng.randrange(2), state(**st), 0, 1))
    # value-dependent shortcuts: items that compare equal without being the same (0.0 / -0.0, NaN payloads), identical
    # neighbours, and LARGE single items (more points / characters / elements than any configured limit)
    big = L(*[Z(i % 5) for i in range(120)])
    SPECIAL = {
        "float": [0, 0x80000000, 0x7fc00000, 0xffc00000, 0x7f800000, 0xff800000, fbits(1.0), fbits(1.0), 1, 0x80000001],
        "bool": [True, True, False, False], "int": [0, 0, -1, 2147483647, -2147483648, 7, 7],
        "name": ["a", "a", "A", "", "x" * 300, "\u00e9" * 200], "code": [big, big, L(), L(), Z(1), L(big, big), N("q"), L(*[I("NOOP")] * 101), L(I("INDEX.INCREASE"), I("EXEC.LOOP"), I("NOOP")), N(""), I("CODE.POP")],
        "exec": [big, Z(3), Z(3), L(*[Z(0)] * 101), L(), L(I("INDEX.INCREASE"), I("EXEC.LOOP"), L(Z(1), I("EXEC.DUP"))), L(I("INDEX.INCREASE"), I("CODE.LOOP"), I("NOOP")), I("EXEC.DUP"), I("CODE.POP")], "bvec": [[], [], [True] * 600, [True], [True]],
        "ivec": [[], [0] * 600, [1, 2], [1, 2]], "fvec": [[0], [0x80000000], [0x7fc00000], [0xffc00000], [fbits(1.0)] * 600],
    }
    sp = []
    nper = {"quick": 12, "thorough": 120, "search": 40}[tier]
    for T, (field, mk) in TYPES.items():
        for op in OPS:
            nm = T + "." + op
            if nm not in names:
                continue
            for _ in range(nper):
                depth = rng.randrange(2, 6)
                st = bystanders()
                st[field] = [rng.choice(SPECIAL[field]) for _ in range(depth)]
                st["exec"] = ([I(nm)] + st["exec"]) if T == "EXEC" else [I(nm)]
                if op in ("YANK", "YANKDUP", "SHOVE"):
                    base_int = st["int"] if T != "INTEGER" else []
                    for idx in range(-1, depth + 1):        # every position of this stack
                        st2 = dict(st); st2["int"] = [idx] + list(base_int)
                        sp.append(case_run(rng.randrange(2), state(**st2), 0, 1))
                    continue
                sp.append(case_run(rng.randrange(2), state(**st), 0, 1))
    out.append(Stream("special-values", "run", "stackops.check", sp,
                      "every stack type x 9 instructions on stacks of 2..5 items drawn from look-alike / extreme values: +-0.0, NaN payloads, infinities, repeated items, "
                      "empty and 600-element vectors, 300-character names, code items of 101..240 points"))
    # two stack instructions in a row, executed by run() (the loop that dispatches them must not treat a repeated instruction specially)
    pairs = []
    c30 = list(DEFAULT_CFG); c30[4] = 30
    for T, (field, mk) in TYPES.items():
        for op1 in OPS:
            for op2 in OPS:
                n1, n2 = T + "." + op1, T + "." + op2
                if n1 not in names or n2 not in names:
                    continue
                st = bystanders()
                st[field] = [mk(k) for k in range(4)]
                st["int"] = [1, 2, 0] + (st["int"] if T != "INTEGER" else [])
                st["exec"] = [I(n1), I(n2), Z(61), Z(62), Z(63)] if T == "EXEC" else [I(n1), I(n2)]
                st["cfg"] = c30
                pairs.append(case_run(len(pairs) % 2, state(**st), 1, 0))
                if T != "EXEC":        # the pair as two neighbouring members of a list, after an instruction that takes the next EXEC item as its argument
                    st2 = dict(st); st2["exec"] = [L(I("CODE.QUOTE"), I(n1), I(n2), Z(5)), L(I("EXEC.K"), I(n1), I(n2))]
                    pairs.append(case_run(len(pairs) % 2, state(**st2), 1, 0))
    out.append(Stream("pairs-through-run", "run", "run.check", pairs,
                      "every stack instruction followed by itself, by SWAP and by DUP of the same type, executed by PushInterpreter::run from a 4-deep stack: whole final state = model"))
    out.append(Stream("size-thresholds", "run", "stackops.check", cases,
                      "every stack type x 9 instructions on stacks %s deep (%d depths drawn per pair), indices at 0 / middle / depth-1 / depth / beyond" % (scales, per)))
    return out


TECHNIQUE = "Coq theorems over a lens-generic definition of the nine stack instructions (position maps = plain-sequence yank/shove of C16, permutation/conservation, frame) + registry uniformity lemma + exhaustive/random differential correspondence with the sequence specification evaluated on the implementation's output"
DESIGN_REF = "DESIGN.md section 6.C05"
LEVEL_TEXT = ("The nine stack-manipulation instructions are ONE Gallina definition over a lens; Props/C05.v proves for every lens (hence every stack type, every depth, every index in Z): YANK/SHOVE/SWAP/ROT are the plain-sequence position maps of C16 and permutations, "
              "DUP/YANKDUP add exactly one copy of an existing item, POP/FLUSH remove the documented items, STACKDEPTH reports the depth, the index is taken from INTEGER first and clamped, and nothing outside the instruction's stack (and INTEGER) changes; "
              "C05_uniform_* prove every typed NAME is bound to that definition in the model's registry. The tie to the code: every (type, instruction, depth 0..6, boundary index) case and random deep states run on the real interpreter by NAME and are compared with the model, "
              "and the sequence specification itself is evaluated on the implementation's output.")
LEVEL_NOTE = "Trusted: Coq kernel, extraction, driver, harness, generators (see evidence trusted_base). Theorems closed under the global context. Depths < 2^31 assumed."

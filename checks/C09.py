"""C09 — vector instructions follow the README rules for lengths, offsets and indices."""
import itertools, random
import vcheck
from vcheck import Stream, sx_parse, sx_str
from gen.stategen import *
from gen.pools import fbits, I32, F32, rand_i32, rand_f32
from gen import stepgen

PROPERTY = "C09"
PROPS_VO = ["Props/C09", "Props/FloatFacts"]
AXIOMS_OK = []
AXIOMS_OK_BY_FILE = {"Props/FloatFacts": vcheck.FLOCQ_AXIOMS}
THEOREM_FILTER = {"Props/FloatFacts": r"FF_(C09_|fle_)"}
ASSUMPTIONS = [
    "the total-preorder hypothesis of C09_sort_spec is a THEOREM for the Flocq binary32 instance (Props/FloatFacts.v: FF_fle_nan_last_total / _trans / _shape, FF_C09_sort_spec_flocq), depending on the 4 classical axioms of Coq's real numbers through Flocq",
    "vector lengths and stack depths stay below 2^31 (the `len() as i32` casts); the check cannot drive a Vec there (C15 covers the resource envelope)",
    "FLOATVECTOR.SORT*: C09_sort_spec assumes that `fle_nan_last` (IEEE comparison with NaN last) is a total preorder; this is a property of binary32 comparison, validated by the f32 stream of C04 and exercised here with NaN, both zeros and infinities",
    "FLOATVECTOR.SINE: libm's sin is an oracle (the model asks the implementation's own libm for each argument); `2.0 * PI` is the f32 constant 0x40c90fdb",
    "<f32 as Sum>::sum starts from -0.0 on the pinned toolchain (rustc 1.95); FLOATVECTOR.SUM/MEAN of an empty vector therefore is -0.0 resp. NaN",
    "the three *.RAND instructions belong to C12/C13; INTVECTOR.* and INTVECTOR./ are implemented and proved but not registered, so they cannot be driven by name",
]

MIN, MAX = -2147483648, 2147483647
NAN, PINF, NINF, NZERO = 0x7fc00000, 0x7f800000, 0xff800000, 0x80000000
FAM = {"BOOLVECTOR": "bvec", "INTVECTOR": "ivec", "FLOATVECTOR": "fvec"}
SCALAR = {"BOOLVECTOR": "bool", "INTVECTOR": "int", "FLOATVECTOR": "float"}


def bystanders():
    """non-empty stacks everywhere, so that a wrong footprint shows"""
    return dict(bool=[False, True], code=[Z(1)], exec=[Z(3)], float=[fbits(2.5), fbits(-1.0)], index=[(1, 3)], int=[], name=["keep"],
                bvec=[[True, False, True]], fvec=[[fbits(1.0), fbits(9.0)]], ivec=[[9, 8, 7]], input=[([1], [True])], output=[([2], [False])],
                bind=[("K", Z(5))])


def one(prof, name, _bare=False, **over):
    """one interpreter step of `name`; the given stacks are put on top of the bystander contents (replace them with _bare)"""
    st = bystanders()
    for k, v in over.items():
        st[k] = list(v) + (st[k] if k in ("bool", "float", "bvec", "fvec", "ivec") and not _bare else [])
    st["exec"] = [I(name)] + st["exec"]
    return case_run(prof, state(**st), 0, 1)


def all_bool_vectors(maxlen):
    return [list(v) for n in range(maxlen + 1) for v in itertools.product([False, True], repeat=n)]


def int_fillings(rng, n):
    return [[(i * 7 + 3) % 11 - 5 for i in range(n)], [I32[(3 * i + n) % len(I32)] for i in range(n)],
            [rng.choice([MAX, MIN, 0, 1, -1, rand_i32(rng)]) for _ in range(n)]]


FPOOL = [0, NZERO, fbits(1.0), fbits(-1.0), fbits(0.5), fbits(2.5), fbits(3.0), PINF, NINF, NAN, 0x7f7fffff, 0x00000001, fbits(1e20), fbits(-7.5)]


def float_fillings(rng, n):
    return [[fbits(float((i * 5 + 2) % 9 - 4)) for i in range(n)], [FPOOL[(3 * i + n) % len(FPOOL)] for i in range(n)],
            [rng.choice(FPOOL + [rand_f32(rng)]) for _ in range(n)]]


def model_names():
    return set("".join(chr(c) for c in n) for n in sx_parse(vcheck.run_model(["names (0)"])[0])[1])


def streams(seed, tier):
    rng = random.Random(seed)
    out = []
    big = tier != "quick"

    # 1. BOOLVECTOR.AND / OR / NOT: exhaustive
    offs = list(range(-5, 6)) + [MIN, MIN + 1, MAX - 1, MAX]
    bvs = all_bool_vectors(3)
    cases = []
    for nm in ("BOOLVECTOR.AND", "BOOLVECTOR.OR"):
        for top in bvs:
            for second in bvs:
                for off in offs:
                    for prof in (0, 1):
                        cases.append(one(prof, nm, bvec=[top, second], int=[off, 4]))
    for v in all_bool_vectors(4):
        for off in offs + [6, -6]:
            for prof in (0, 1):
                cases.append(one(prof, "BOOLVECTOR.NOT", bvec=[v], int=[off]))
    out.append(Stream("bool-exhaustive", "run", "run.check", cases,
                      "BOOLVECTOR.AND/OR on ALL pairs of vectors of length 0..3 x offsets -5..5, MIN, MIN+1, MAX-1, MAX; BOOLVECTOR.NOT on all vectors of length 0..4; both profiles; other stacks non-empty"))

    # 2. INTVECTOR / FLOATVECTOR element-wise: all length pairs 0..5, offsets -7..7 and extremes, boundary elements
    offs = list(range(-7, 8)) + [MIN, MIN + 1, MAX - 1, MAX]
    cases = []
    k = 0
    for n2 in range(6):
        for n1 in range(6):
            for off in offs:
                for nm in ("INTVECTOR.+", "INTVECTOR.-"):
                    for a, b in zip(int_fillings(rng, n1), int_fillings(rng, n2)):
                        for prof in ((0, 1) if big else (k % 2,)):
                            cases.append(one(prof, nm, ivec=[a, b], int=[off, 11]))
                        k += 1
                for nm in ("FLOATVECTOR.+", "FLOATVECTOR.-", "FLOATVECTOR.*", "FLOATVECTOR./"):
                    for a, b in zip(float_fillings(rng, n1), float_fillings(rng, n2)):
                        for prof in ((0, 1) if big else (k % 2,)):
                            cases.append(one(prof, nm, fvec=[a, b], int=[off]))
                        k += 1
    out.append(Stream("overlay-int-float", "run", "run.check", cases,
                      "INTVECTOR.+ - and FLOATVECTOR.+ - * / on every pair of lengths 0..5 x 0..5, offsets -7..7, MIN, MIN+1, MAX-1, MAX, three fillings (small, boundary pool incl. i32 extremes / NaN / inf / both zeros / zero divisors, random)"))

    # 3. GET / SET: every index around the vector and extreme
    cases = []
    for n in range(6):
        idxs = list(range(-3, n + 3)) + [MIN, MAX]
        for idx in idxs:
            for prof in (0, 1):
                bv = [i % 2 == 0 for i in range(n)]
                iv = [10 + i for i in range(n)]
                fv = [fbits(0.5 + i) for i in range(n)]
                cases += [one(prof, "BOOLVECTOR.GET", bvec=[bv], int=[idx]), one(prof, "BOOLVECTOR.SET", bvec=[bv], int=[idx], bool=[n % 2 == 1]),
                          one(prof, "INTVECTOR.GET", ivec=[iv], int=[idx, 77]), one(prof, "INTVECTOR.SET", ivec=[iv], int=[idx, 77]),
                          one(prof, "INTVECTOR.SET", ivec=[iv], int=[idx]),
                          one(prof, "FLOATVECTOR.GET", fvec=[fv], int=[idx]), one(prof, "FLOATVECTOR.SET", fvec=[fv], int=[idx], float=[fbits(-3.0)])]
    out.append(Stream("get-set-clamped", "run", "run.check", cases,
                      "GET and SET of the three families on vectors of length 0..5 with every index in -3..len+2 and MIN, MAX; missing new element"))

    # 4. constructors, aggregates, sort, rotate, membership: boundary cases by hand
    cases = []
    for prof in (0, 1):
        for n in [MIN, -2, -1, 0, 1, 2, 5]:
            for nm in ("BOOLVECTOR.ONES", "BOOLVECTOR.ZEROS", "INTVECTOR.ONES", "INTVECTOR.ZEROS", "FLOATVECTOR.ONES", "FLOATVECTOR.ZEROS"):
                cases.append(one(prof, nm, int=[n, 3]))
        # sizes beyond every configured limit (growth cap 500, point limits 100 / 25) and under unusual limits
        for n in [99, 100, 101, 499, 500, 501, 1000, 1025]:
            for nm in ("BOOLVECTOR.ONES", "BOOLVECTOR.ZEROS", "INTVECTOR.ONES", "INTVECTOR.ZEROS", "FLOATVECTOR.ONES", "FLOATVECTOR.ZEROS"):
                cases.append(one(prof, nm, int=[n, 3]))
        for n, cap in [(8, 5), (8, 0), (3, 1), (30, 25)]:
            for nm in ("BOOLVECTOR.ONES", "INTVECTOR.ZEROS", "FLOATVECTOR.ONES"):
                c = list(DEFAULT_CFG); c[6] = cap; c[8] = min(c[8], cap); c[9] = min(c[9], max(cap, 1))
                cases.append(one(prof, nm, int=[n, 3], cfg=c))
        for n in [MIN, -3, -1, 0, 1, 2, 6]:
            for (a, x, phi) in [(1.0, 0.25, 0.0), (2.0, 0.125, 0.5), (0.0, 1.0, 1.0)]:
                cases.append(one(prof, "FLOATVECTOR.SINE", float=[fbits(a), fbits(x), fbits(phi)], int=[n]))
        cases.append(one(prof, "FLOATVECTOR.SINE", float=[fbits(1.0), fbits(1.0)], int=[2], _bare=True))
        ivs = [[], [0], [MAX, 1], [MAX, MAX, MAX], [MIN, -1], [MIN, MIN], [MAX, MIN, 5], [1, 3, -2, 5, 7], [3, 3, 3], [2, 1, 2, 1], [MAX] * 5 + [MIN] * 5]
        # sums beyond 2^24 (not representable in f32), lengths that are not powers of two; beyond 2^31 and 2^53
        ivs += [[16777217] * 3, [16777217, 16777217, 16777219], [MAX] * 3, [MAX] * 7, [MIN] * 3, [33554433, 1, 1], [16777216, 1], [16777217, 2, 0],
                [MAX, MAX, MAX, MAX, MAX, MAX - 1], [123456789, 987654321, 5], [-16777217] * 5]
        ivs += [[rand_i32(rng) for _ in range(rng.choice([3, 5, 6, 7, 9, 11]))] for _ in range(40)]
        for v in ivs:
            for nm in ("INTVECTOR.SUM", "INTVECTOR.MEAN", "INTVECTOR.LENGTH", "INTVECTOR.SORT*ASC", "INTVECTOR.SORT*DESC"):
                cases.append(one(prof, nm, ivec=[v]))
            for x in (2, 3, MAX, 0):
                for nm in ("INTVECTOR.ROTATE", "INTVECTOR.APPEND", "INTVECTOR.REMOVE", "INTVECTOR.SET*INSERT", "INTVECTOR.CONTAINS"):
                    cases.append(one(prof, nm, ivec=[v], int=[x, 4]))
        for nm in ("INTVECTOR.SET*INSERT", "INTVECTOR.APPEND", "INTVECTOR.REMOVE", "INTVECTOR.ROTATE", "INTVECTOR.CONTAINS", "INTVECTOR.EMPTY"):
            cases.append(one(prof, nm, ivec=[], int=[5], _bare=True))
            cases.append(one(prof, nm, ivec=[[1]], _bare=True))
        fvs = [[], [NAN], [NAN, fbits(1.0)], [fbits(1.0), NAN], [fbits(2.0), NAN, fbits(1.0), NAN, NINF], [0, NZERO], [NZERO, 0, NZERO], [PINF, NINF],
               [fbits(34.2), 0, fbits(-28.1), fbits(111.1), fbits(-1.5)], [fbits(1.0), fbits(1.0), fbits(0.5)], [0x7f7fffff, 0x7f7fffff], [fbits(1e20), fbits(-1e20), fbits(1.0)]]
        # long vectors of general floats: the left-to-right f32 sum is not what a re-associated (chunked, pairwise, SIMD) sum gives
        fvs = fvs + [[fbits(1e8)] + [fbits(1.0)] * 15 + [fbits(-1e8)] + [fbits(1.0)] * 15, [fbits(0.1 * i) for i in range(40)],
                     [fbits(1e-3 * (i * i % 17) + 1e4 * (i % 3)) for i in range(33)], [fbits(16777216.0)] + [fbits(1.0)] * 17]
        fvs = fvs + [[fbits(x)] * n_ for x in (0.1, 0.3, 1e-3, 3.3333333, 1e20) for n_ in (3, 6, 7, 10, 13, 50)]
        fvs = fvs + [[rand_f32(rng) for _ in range(n_)] for n_ in (16, 17, 18, 31, 32, 33, 64, 100) for _ in range(2)]
        fvs = fvs + [[fbits(rng.uniform(-1000, 1000)) for _ in range(n_)] for n_ in (16, 17, 18, 32, 33, 100, 257) for _ in range(2)]
        for v in fvs:
            for nm in ("FLOATVECTOR.SUM", "FLOATVECTOR.MEAN", "FLOATVECTOR.LENGTH", "FLOATVECTOR.SORT*ASC", "FLOATVECTOR.SORT*DESC"):
                cases.append(one(prof, nm, fvec=[v]))
            for x in (fbits(3.0), NAN, 0):
                for nm in ("FLOATVECTOR.ROTATE", "FLOATVECTOR.APPEND", "FLOATVECTOR.*SCALAR"):
                    cases.append(one(prof, nm, fvec=[v], float=[x]))
        for v in all_bool_vectors(3) + [[True, False, False, True, False]]:
            for nm in ("BOOLVECTOR.COUNT", "BOOLVECTOR.LENGTH", "BOOLVECTOR.SORT*ASC", "BOOLVECTOR.SORT*DESC", "INTVECTOR.BOOLINDEX"):
                cases.append(one(prof, nm, bvec=[v]))
            for b in (True, False):
                cases.append(one(prof, "BOOLVECTOR.ROTATE", bvec=[v], bool=[b]))
        cases.append(one(prof, "BOOLVECTOR.ROTATE", bvec=[[True, False]], bool=[True], int=[3], float=[fbits(0.5)]))
        for depth in range(0, 6):
            for n in [MIN, -1, 0, 1, depth - 1, depth, depth + 1, MAX]:
                cases.append(one(prof, "INTVECTOR.FROMINT", int=[n] + list(range(1, depth + 1))))
        for a, b in [([1, 2], [1, 2]), ([1, 2], [1, 3]), ([1], [1, 1]), ([], [])]:
            cases.append(one(prof, "INTVECTOR.EQUAL", ivec=[a, b]))
            cases.append(one(prof, "BOOLVECTOR.EQUAL", bvec=[[x == 1 for x in a], [x == 1 for x in b]]))
        for a, b in [([NAN], [NAN]), ([0], [NZERO]), ([fbits(1.0)], [fbits(1.0), fbits(1.0)]), ([], [])]:
            cases.append(one(prof, "FLOATVECTOR.EQUAL", fvec=[a, b]))
        for v in ([], [4], [4, 5, 6]):
            cases.append(one(prof, "INTVECTOR.LOOP", ivec=[v]))
            cases.append(one(prof, "INTVECTOR.LOOP", ivec=[v], exec=[], _bare=True))
    out.append(Stream("constructors-aggregates", "run", "run.check", cases,
                      "ONES/ZEROS/SINE with sizes MIN, negative, 0, positive; SUM/MEAN/LENGTH/SORT on empty, overflowing and NaN/both-zero vectors; ROTATE/APPEND/REMOVE/SET*INSERT/CONTAINS incl. empty vector and empty stack; COUNT/BOOLINDEX on all bool vectors of length 0..3; FROMINT with every count around the stack depth; EQUAL incl. NaN and -0.0; LOOP; BOOLVECTOR.ROTATE and FLOATVECTOR.SUM by name"))

    # 4b. the public vector / io functions that load() does NOT register (INTVECTOR.* and INTVECTOR./ are commented out there;
    #     input_flush): no program reaches them, they are called directly and compared with the model all the same
    cases = []
    k = 0
    for n2 in range(0, 5):
        for n1 in range(0, 5):
            for off in list(range(-5, 6)) + [MIN, MIN + 1, MAX - 1, MAX]:
                for a, b in zip(int_fillings(rng, n1), int_fillings(rng, n2)):
                    for fn in ("INTVECTOR.*", "INTVECTOR./"):
                        st = bystanders(); st["ivec"] = [a, b] + st["ivec"]; st["int"] = [off] + st["int"]
                        cases.append(sx_str([k % 2, [], state(**st), S(fn)])); k += 1
    for (a, b, off) in [([-1, 3], [7, MIN, -9, 100], 1), ([-1], [MIN], 0), ([0, 1], [5, 6], 0), ([1, 0], [5, 6], 1), ([-1, -1], [MIN, MIN], 0), ([2], [MIN, MAX], 1)]:
        for fn in ("INTVECTOR.*", "INTVECTOR./"):
            for prof in (0, 1):
                cases.append(sx_str([prof, [], state(ivec=[a, b], int=[off, 9]), S(fn)]))
    for fn in ("INTVECTOR.*", "INTVECTOR./", "INPUT.FLUSH"):
        for st in (dict(), dict(ivec=[[1]], int=[0]), dict(ivec=[[1], [2]]), dict(input=[([1], [True]), ([2], [])], ivec=[[1], [2]], int=[0])):
            cases.append(sx_str([0, [], state(**st), S(fn)]))
    out.append(Stream("unregistered-public-functions", "callfn", "callfn.check", cases,
                      "int_vector_multiply / int_vector_divide (public, documented as INTVECTOR.* and INTVECTOR./, not registered) on every pair of lengths 0..4, offsets -5..5 and extreme, "
                      "boundary fillings incl. i32::MIN / -1 and zero divisors; input_flush"))

    # 5. every vector name on random whole states (operand shaping of gen/stepgen.py)
    names = model_names()
    allnames = sorted(names)
    safe = [x for x in allnames if x not in stepgen.UNSAFE and x not in stepgen.RANDOM and x not in stepgen.ALLOCATING]
    vec = [n for n in allnames if n.split(".")[0] in FAM and n not in stepgen.RANDOM]
    n = {"quick": 60, "thorough": 1500, "search": 1500}[tier]
    cases = []
    for nm in vec:
        for _ in range(n):
            cases.append(stepgen.step_case(rng, nm, allnames, safe))
    # every vector name with operand stacks EMPTY in every combination (what a missing operand leaves behind)
    opkeys = ["bool", "int", "float", "bvec", "ivec", "fvec"]
    for nm in vec:
        for mask in range(1 << len(opkeys)):
            st = dict(bool=[True, False], int=[1, 2, 0], float=[fbits(1.0), fbits(0.5)], bvec=[[True], [False, True]], ivec=[[1, 2], [3]], fvec=[[fbits(1.0)], [fbits(2.0), fbits(3.0)]],
                      code=[Z(1)], name=["n"])
            for j, k in enumerate(opkeys):
                if mask >> j & 1:
                    st[k] = []
            if mask % 7 == 3:
                for k in ("bvec", "ivec", "fvec"):
                    st[k] = st[k][:1]
            st["exec"] = [I(nm)]
            cases.append(case_run((mask + len(nm)) % 2, state(**st), 0, 1))
    # sequences of 3..6 instructions of one vector family with literals in between, executed step by step (what one instruction leaves
    # behind - also inside the vector value - is what the next one sees)
    progs = []
    lit = {"BOOLVECTOR": lambda: BV([rng.random() < 0.5 for _ in range(rng.randrange(0, 5))]), "INTVECTOR": lambda: IV([rng.randrange(-3, 12) for _ in range(rng.randrange(0, 5))]),
           "FLOATVECTOR": lambda: FV([fbits(rng.choice([0.0, 0.5, 1.0, 2.5, -1.0, 10.0])) for _ in range(rng.randrange(0, 5))])}
    for _ in range({"quick": 1500, "thorough": 15000, "search": 5000}[tier]):
        fam = rng.choice(list(lit))
        own = [x for x in vec if x.startswith(fam + ".") and x not in stepgen.ALLOCATING]
        prog = [lit[fam](), lit[fam]()]
        for _ in range(rng.randrange(3, 7)):
            prog.append(I(rng.choice(own)))
            r = rng.random()
            if r < 0.35: prog.append(Z(rng.randrange(-2, 11)))
            elif r < 0.5: prog.append(lit[fam]())
            elif r < 0.6: prog.append(rng.choice([B(True), F(fbits(2.0))]))
        progs.append(case_run(rng.randrange(2), state(exec=prog, int=[0, 1], bool=[True], float=[fbits(1.0)]), 0, len(prog)))
    # producer -> modifier -> observer, every combination: what a producer may have remembered about the vector (sortedness, a cached
    # aggregate) must not survive the modifier
    for fam, mkv in lit.items():
        own = [x for x in vec if x.startswith(fam + ".")]
        prod = [x for x in own if x.split(".")[1] in ("SORT*ASC", "SORT*DESC", "DUP", "SUM", "MEAN", "LENGTH", "COUNT")]
        modi = [x for x in own if x.split(".")[1] in ("+", "-", "*", "/", "AND", "OR", "NOT", "ROTATE", "APPEND", "SET", "SET*INSERT", "REMOVE", "*SCALAR", "SWAP")]
        obse = [x for x in own if x.split(".")[1] in ("CONTAINS", "GET", "SUM", "MEAN", "SORT*ASC", "SORT*DESC", "COUNT", "EQUAL", "LENGTH", "BOOLINDEX")]
        vals = {"BOOLVECTOR": [BV([True, False, True]), BV([False, True])], "INTVECTOR": [IV([3, 1, 2]), IV([9, 0, 0])], "FLOATVECTOR": [FV([fbits(3.0), fbits(1.0), fbits(2.0)]), FV([fbits(9.0), fbits(0.0), fbits(0.0)])]}[fam]
        for a_ in prod:
            for b_ in modi:
                for c_ in obse:
                    prog = [vals[0], I(a_), vals[1], Z(0), B(True), F(fbits(2.0)), I(b_), Z(10), F(fbits(10.0)), B(False), I(c_)]
                    progs.append(case_run(len(progs) % 2, state(exec=prog, int=[1, 2], bool=[True], float=[fbits(1.0), fbits(3.0)]), 0, len(prog)))
    out.append(Stream("family-programs", "run", "run.check", progs,
                      "random sequences of 3..6 instructions of ONE vector family (sort, then element-wise arithmetic, then a search, ...) with literals in between, executed step by step"))
    # the same call twice with one instruction set: what the dispatch closure of an instruction may remember must not matter
    twice = []
    nong = [x for x in allnames if x not in stepgen.UNSAFE and x not in stepgen.RANDOM and not x.startswith("GRAPH.")]
    nsafe = [x for x in nong if x not in stepgen.ALLOCATING]
    for nm in vec:
        for j in range({"quick": 4, "thorough": 40, "search": 10}[tier] * (4 if nm == "FLOATVECTOR.SINE" else 1)):
            st0 = sx_parse(stepgen.step_case(rng, nm, nong, nsafe, profile=j % 2))[2]
            c = list(DEFAULT_CFG); c[4] = 30; st0[14] = c
            twice.append(sx_str([j % 2, [], st0, 1, 0, [1, []], [3, 0, 0], []]))
    for n_ in (-1, -7, 0, 1, 3):         # SINE with a length that pushes nothing / little, other vectors lying on the stack
        for prof in (0, 1):
            c = list(DEFAULT_CFG); c[4] = 30
            st0 = state(exec=[I("FLOATVECTOR.SINE")], int=[n_, 5], float=[fbits(0.5), fbits(0.25), fbits(2.0), fbits(9.0)], fvec=[[fbits(9.0), fbits(8.0)]], cfg=c)
            twice.append(sx_str([prof, [], st0, 1, 0, [1, []], [3, 0, 0], []]))
    out.append(Stream("same-call-again", "thr.repeat", "thr.repeat.check", twice,
                      "every vector instruction: a random state whose program starts with it, run three times in a row with ONE InstructionSet (loaded once): one result"))
    out.append(Stream("by-name-random", "run", "run.check", cases,
                      "%d vector instruction names x %d random whole states each (vectors of equal / unequal / zero length, offsets and indices near the lengths and extreme, NaN elements, missing operands), both profiles" % (len(vec), n)))
    return out


TECHNIQUE = ("Coq proof that the element-wise loops of the model equal the README overlay rule for all pairs of lengths and all i32 offsets (loop invariant by induction on the top vector), "
             "clamped GET/SET, one specification theorem per remaining instruction family, registry dispatch lemma; exhaustive + boundary + random differential correspondence by instruction NAME, the proven model evaluated against the implementation's output")
DESIGN_REF = "DESIGN.md section 6.C09"
LEVEL_TEXT = ("SORT is STABLE and uniquely determined: C09_sort_is_stable (elements that compare equal - 0.0 / -0.0, all NaNs - keep their order ascending and reverse it descending) and C09_stable_sort_unique (any sorted, stable permutation is the model's result), hypothesis-free for the Flocq instance (FF_C09_*_flocq). "
              "Spec/VecSpec.v states the README rule as a position-wise function (`overlay`: position j of the result combines second[j] with top[j - off] where that element exists and is second[j] otherwise; result length = second's length). "
              "C09_overlay_correct / C09_overlay_total prove, for every element type, every operation, ALL pairs of vector lengths and ALL offsets in Z, that the model's loop (the repaired Rust loop, with its index arithmetic) computes exactly that, "
              "with corollaries C09_overlay_length, C09_overlay_outside_unchanged, C09_overlay_inside_combined and the instruction-level C09_elementwise_instructions (10 instructions, divisions push nothing on a zero divisor in the overlap), C09_not_spec. "
              "C09_get_set_clamped proves GET/SET never fail and hit the clamped position for every i32 index; C09_ones_zeros/aggregates/sort/rotate/append/remove/set_insert/contains/boolindex/fromint/scalar/sine_spec relate each remaining instruction to a readable specification "
              "(sort = sorted permutation, integer sum = wrap32 of the true sum, mean = exact sum / length, sine over the libm oracle); C09_vector_names_dispatch proves each of the 83 modelled vector names is bound to its own operation. All theorems hold for every FloatOps. "
              "The model is tied to the code by running, by instruction NAME through the real interpreter step: all pairs of BOOLVECTORs of length 0..3 x 15 offsets, all INT/FLOAT length pairs 0..5 x 19 offsets x 3 fillings, all GET/SET indices, hand-picked boundary cases of every other instruction and random whole states; "
              "each result is compared with the proven model. On the pinned tree the property was REFUTED (8 repairs, fixes/C09-01..08): two names bound to foreign functions, loops indexed the top vector with the second vector's indices (panic / ignored elements for unequal lengths), offset overflow, ROTATE on empty, NaN in SORT, SUM/MEAN overflow, SINE with negative length, INTVECTOR element overflow.")
LEVEL_NOTE = ("Trusted: Coq kernel, extraction, driver, harness, generators; Flocq instance of f32 arithmetic validated by C04's f32 stream; libm trusted (oracle). Theorems closed under the global context. "
              "The float SORT theorems are conditional on the comparison being a total preorder for an abstract FloatOps and unconditional for the Flocq binary32 instance (Props/FloatFacts.v). The checker is `run.check` (observed = proven model), the specification functions themselves are proven equal to the model, not re-evaluated on the wire.")


def extra(ctx):
    # "Every vector instruction name dispatches to its own operation": the registered names are the model's
    import vcheck
    vcheck.check_registry(ctx, prefix=None)

"""C01 — executing any Push program never panics or aborts the host process (inside the resource envelope)."""
import os, random, subprocess, time
from concurrent.futures import ThreadPoolExecutor
import vcheck
from vcheck import Stream, sx_parse, sx_str
from gen.stategen import *
from gen import stepgen, proggen, boundgen, randgen

PROPERTY = "C01"
PROPS_VO = ["Props/C01", "Props/FloatFacts"]
AXIOMS_OK = []
AXIOMS_OK_BY_FILE = {"Props/FloatFacts": vcheck.FLOCQ_AXIOMS}
THEOREM_FILTER = {"Props/FloatFacts": r"FF_(C01_|fo_typed|fo_nbits|nbits_sane)"}

ALLOC_BOUND, NBR_BOUND, SIZE_BOUND, STEP_BOUND, DEPTH_BOUND, RAND_POINTS_BOUND = 100000, 1000, 200000, 10000, 5000, 1000      # = Suites/SNoPanic.v
QUICK_BOUNDS = "allocation sizes <= 3000, vector lengths <= 9000, size measure <= 60000"                                       # = quick_bounds there
PARTIAL = ("native stack exhaustion by recursion over very deeply nested items (Item::size, Display, Drop, rec_push), allocation failure and "
           "process aborts cannot be exhibited by the Gallina model; they are covered only by stream (d) inside the envelope")
ASSUMPTIONS = [
    "the float hypotheses of the C01 theorems (fo_typed, fo_nbits) are THEOREMS for the Flocq binary32 instance the correspondence run executes, for every libm table (Props/FloatFacts.v: FF_fo_typed, FF_fo_nbits, FF_C01_*_flocq: the no-panic theorems restated at flocq_ops with the hypotheses gone; these depend on the 4 classical axioms of Coq's real numbers, through Flocq)",
    "resource envelope of the correspondence run (decided on the model by suite nopanic.env, Suites/SNoPanic.v, before a case reaches the implementation): "
    "the INTEGER operand of an instruction that allocates by operand (BOOLVECTOR/INTVECTOR/FLOATVECTOR .ONES .ZEROS .RAND, FLOATVECTOR.SINE) is <= %d; "
    "the four INTEGER operands of LIST.NEIGHBOR* are <= %d; the point limit of CODE.RAND, min(|operand|, |max_points_in_random_expressions|), is <= %d; "
    "the size measure of every visited state (points of CODE, EXEC and the bindings "
    "weighted by name characters and vector-literal elements, NAME characters, vector elements, stack depths) is <= %d; "
    "no item on CODE, EXEC or in the bindings is nested deeper than %d (pushr's Clone / Drop / Item::size / Display recurse on the native stack: with the "
    "default 8 MiB main-thread stack a nesting of 20000 aborts the process, 5000 does not - observed with suite deepnest); "
    "at most %d interpreter steps per case (eval_push_limit <= %d). C15 covers the envelope itself"
    % (ALLOC_BOUND, NBR_BOUND, RAND_POINTS_BOUND, SIZE_BOUND, DEPTH_BOUND, STEP_BOUND, STEP_BOUND),
    "the generated cases of the model-compared streams are held to tighter bounds (suite nopanic.envq: %s) because the list-based model is quadratic in the vector length for the "
    "element-wise vector instructions; between those bounds and the envelope the implementation is exercised by stream (c) (whose guard uses the envelope's bounds) and by the "
    "ALLOC_BOUND-sized allocations of stream (a)" % QUICK_BOUNDS,
    "hypotheses of the theorems: wf_state (typing of the state: every i32-typed value is an i32, INDEX fields are usize; no length bounds), envelope (the top CODE item has "
    "<= i32::MAX points; only CODE.EXTRACT and CODE.NTH depend on it), stays_in_envelope for k steps / the run loop",
    "facts of IEEE binary32 arithmetic assumed of the abstract FloatOps (fo_typed: `x as i32` is an i32; fo_nbits: BOOLVECTOR.RAND's bit count lies in 0..=size); "
    "evaluated on observed cases by the C13 checker",
    "EXEC.CMD pointed at a harmless target: the generated cases never give EXEC.CMD its n+1 NAME operands, except a few thorough-tier cases "
    "whose names all spell the command `true`; the spawned process itself is outside the model",
    PARTIAL,
    "the random number generator is an oracle (tape of the world, Model/RandomGen.v); the theorems hold for every tape. The implementation draws from thread_rng and cannot be "
    "seeded: cases with the nine RAND instructions are compared through suite runnp (returned normally / panicked) instead of the full final state",
    "stream (c) (programs of pushr's own CodeGenerator::random_code) is not reproducible from the seed; the text of every panicking program is part of the result and is "
    "re-read as a deterministic `run` case. Its instruction list excludes EXEC.CMD and the ALLOCATING names (random i32 operands reach them)",
    "programs of the exact-compare stream (b) contain neither the RAND instructions nor the six HashMap-ordered GRAPH instructions (%s): their results are not a function "
    "of the case; they are single-stepped in (a) and run inside programs in (b-rand) (suite runnp), (c) and (d)" % ", ".join(sorted(stepgen.HASH_ORDERED)),
]

_dec = lambda s: ["".join(chr(c) for c in x) for x in sx_parse(s)[1]]
_STASH = {}


def registry():
    impl = sorted(_dec(vcheck.run_impl(["names (0)"])[0]))
    modelled = set(_dec(vcheck.run_model(["names (0)"])[0]))
    return impl, modelled


def env_filter(cases, suite="nopanic.envq"):
    """suite nopanic.envq (the envelope decision of nopanic.env with the tighter bounds QUICK_BOUNDS that keep the list-based model fast) on the
    model: (cases inside with their libm tables filled in, #outside, #libm-unresolved)"""
    if not cases:
        return [], 0, 0
    res, lines = vcheck.resolve_needs(["%s %s" % (suite, c) for c in cases])
    keep = [l.split(" ", 1)[1] for r, l in zip(res, lines) if r == "(0 1)"]
    for r, l in zip(res, lines):
        if r == vcheck.BAD:
            vcheck.die("malformed case reached nopanic.env (generator bug): %s" % l[:300])
    unresolved = sum(1 for r in res if r.startswith("(2 "))
    return keep, sum(1 for r in res if r == "(0 0)"), unresolved


def cfg(limit, cap):
    c = list(DEFAULT_CFG); c[4] = limit; c[6] = cap
    return c


# ------------------------------------------------------------------------------------------------ (a)
POOLS_TEXT = ("boundary operand tuples: full product of the two topmost elements of every stack over the pools i32 {MIN,MIN+1,-2..2,MAX-1,MAX}, "
              "f32 {+-0,+-1,+-0.5,+-inf,NaN,subnormal,MAX,2^31,1e20}, vectors empty/length 1/unequal, code atoms of every kind/empty/nested lists; "
              "stack depths 0..4 jointly and one stack short; top INTEGER at a length +-1")


def stream_a(rng, tier, impl, modelled):
    sweep = [n for n in impl if n in modelled and n not in stepgen.UNSAFE and n not in stepgen.RANDOM]
    safe = [n for n in impl if n in modelled and n not in stepgen.UNSAFE and n not in stepgen.RANDOM and n not in stepgen.ALLOCATING]
    skipped = [n for n in impl if n not in modelled]
    dense = tier != "quick"
    nrand = {"quick": 20, "thorough": 200, "search": 120}[tier]
    nscale = {"quick": 4, "thorough": 30, "search": 12}[tier]
    cases = []
    for nm in sweep:
        cases += boundgen.cases(rng, nm, impl, safe, dense=dense)
        for _ in range(nrand):
            cases.append(stepgen.step_case(rng, nm, impl, safe))
        if not nm.startswith("GRAPH.") and nm not in stepgen.NBR:
            for _ in range(nscale):          # one component of the state LARGE: sizes at / around powers of two
                cases.append(stepgen.step_case(rng, nm, impl, safe, scale=1.0))
    for (tgt, pat, sub) in ((L(N("C"), N("A")), N("A"), L(N("A"), N("B"))), (L(Z(1), Z(2), L(Z(3), Z(1))), Z(1), L(Z(1), Z(1))), (L(L(Z(1)), Z(2)), L(Z(1)), L(L(Z(1)), L(Z(1)))),
                            (N("A"), N("A"), L(N("A"))), (L(N("A")), N("A"), L(L(N("A"))))):
        for prof in (0, 1):
            for order in ([tgt, pat, sub], [tgt, sub, pat], [sub, pat, tgt], [pat, sub, tgt]):
                cases.append(case_run(prof, state(exec=[I("CODE.SUBST")], code=order + [Z(9)], int=[1], name=["A"], bind=[("A", Z(1))]), 0, 1))
    if "EXEC.CMD" in modelled:
        cases += boundgen.cmd_cases(rng, harmless=(tier == "thorough"))
    n0 = len(cases)
    cases, outside, unres = env_filter(cases)
    # the edge of the envelope itself: allocations of ALLOC_BOUND elements (decided by nopanic.env, not by the tighter filter)
    edge = [case_run(prof, state(exec=[I(nm)], int=[z, 1], float=[fbits(0.5)]), 0, 1)
            for nm in sorted(stepgen.ALLOCATING) if nm in modelled and nm.endswith(("ONES", "ZEROS")) for prof in (0, 1) for z in (ALLOC_BOUND, ALLOC_BOUND + 1)]
    edge, eout, _ = env_filter(edge, "nopanic.env")
    assert eout == len(edge), "ALLOC_BOUND of checks/C01.py and Suites/SNoPanic.v differ"
    cases += edge
    note = ("single-step sweep: %d deterministic modelled names x (%s) + %d random states per name (stepgen.step_case), "
            "both profiles%s; allocation sizes tamed (INTEGER pool <= 300, LIST.NEIGHBOR* <= 40); EXEC.CMD only without its NAME operands%s. "
            "generated %d, outside the generators' bounds (%s; dropped) %d, libm unresolved (dropped) %d; + %d allocations of exactly ALLOC_BOUND elements. "
            "not in the model registry (skipped): %s"
            % (len(sweep), POOLS_TEXT, nrand, "" if dense else " (quick: the product alternates the profile)",
               " + 4 harmless `true` cases" if tier == "thorough" else "", n0, QUICK_BOUNDS, outside, unres, len(edge), ", ".join(skipped) or "none"))
    return Stream("a:single-step", "run", "nopanic.check", cases, note)


def stream_a_rand(rng, tier, impl, modelled):
    sweep = [n for n in impl if n in modelled and n in stepgen.RANDOM]
    safe = [n for n in impl if n in modelled and n not in stepgen.UNSAFE and n not in stepgen.ALLOCATING and n not in boundgen.VEC_RAND]
    dense = tier != "quick"
    nrand = {"quick": 150, "thorough": 1500, "search": 600}[tier]
    cases = []
    for nm in sweep:
        cases += boundgen.cases(rng, nm, impl, safe, dense=dense)
        for _ in range(nrand):
            cases.append(boundgen.rand_step_case(rng, nm, impl, safe))
    n0 = len(cases)
    cases, outside, unres = env_filter(cases)
    note = ("single-step sweep of the %d RAND instructions: the same boundary tuples as (a) + %d random states per name with boundary configurations "
            "(random-number bounds equal / reversed / extreme / NaN, max_points_in_random_expressions 0, 1, 2, negative, extreme), a 48-element tape for the model; "
            "compared through suite runnp (returned normally / panicked): the implementation draws from thread_rng. "
            "generated %d, outside the envelope (dropped) %d, libm unresolved (dropped) %d" % (len(sweep), nrand, n0, outside, unres))
    return Stream("a-rand:single-step", "runnp", "nopanic.check", cases, note)


# ------------------------------------------------------------------------------------------------ (b)
def program_state(rng, names):
    st = stepgen.rand_state(rng, names, names, maxdepth=3)
    if rng.random() < 0.6:
        gs, nn = stepgen.rand_graphs(rng)
        st["graph"] = [g.wire() for g in gs]
    else:
        nn = stepgen.next_base(9) + 1
    return st, nn


def program_cases(rng, names, n, fixed=True, limits=None, ks=None, tapes=False):
    """`run` cases: generated programs (<= 60 points per top-level item) from random states, run (mode 1) or single-stepped (mode 0)"""
    limits = limits or [0, 1, 2, 5, 17, 40, 100, 100, 300, 300, 1000]
    ks = ks or [1, 2, 3, 10, 30, 100, 250]
    caps = [0, 1, 2, 8, 500, 500, 500]
    nameset = set(names)
    cases = []
    if fixed:
        for text in proggen.DIVERGING + proggen.TERMINATING + proggen.EXPLODING:
            prog = parse_prog(text, nameset)
            for lim in ([5, 17] if text in proggen.EXPLODING else [17, 300]):
                for mode in (0, 1):
                    w = (stepgen.next_base(lim + 16) + 1, ())
                    cases.append(case_run(rng.randrange(2), state(exec=prog, int=[4], cfg=cfg(lim, 500)), mode, lim if mode == 0 else 0, world=w))
    for _ in range(n):
        st, nn = program_state(rng, names)
        st["exec"] = proggen.rand_program(rng, names, 61) if rng.random() < 0.7 else proggen.rand_family_program(rng, names)
        if rng.random() < 0.5:
            st = stepgen.tame_ints(st)
        lim = rng.choice(limits)
        st["cfg"] = cfg(lim, rng.choice(caps))
        mode = rng.randrange(2)
        k = rng.choice(ks) if mode == 0 else 0
        stepgen.next_base(max(lim, k) + 16)            # node ids the steps may issue
        cases.append(case_run(rng.randrange(2), state(**st), mode, k, world=(nn, randgen.tape(rng, 64) if tapes else ())))
    return cases


def stream_b(rng, tier, impl, modelled):
    names = sorted(n for n in modelled if n not in stepgen.UNSAFE and n not in stepgen.HASH_ORDERED and n not in stepgen.RANDOM)
    n = {"quick": 8000, "thorough": 40000, "search": 20000}[tier]
    cases = program_cases(rng, names, n)
    n0 = len(cases)
    cases, outside, unres = env_filter(cases)
    _STASH["b"] = cases
    note = ("generated programs (gen/proggen.py grammar over the %d modelled names minus EXEC.CMD, the RAND and the HashMap-ordered GRAPH names; 1-3 top-level items of "
            "<= 60 points; 30%% single-family histories, proggen.rand_family_program) + the DIVERGING/TERMINATING/EXPLODING texts, from random initial states (stepgen.rand_state, half of them with extreme INTEGERs, "
            "random GRAPH stacks), run by PushInterpreter::run (eval_push_limit in 0..1000, growth_cap in 0..500) or single-stepped k <= 250 steps, random profile. "
            "generated %d, outside the generators' bounds (dropped before reaching implementation or model) %d, libm unresolved (dropped) %d" % (len(names), n0, outside, unres))
    return Stream("b:programs", "run", "nopanic.check", cases, note)


def stream_b_rand(rng, tier, impl, modelled):
    # CODE.RAND is left out of PROGRAMS: it draws from the implementation's full instruction cache, so code it generates and a
    # following CODE.DO / CODE.IF executes may contain EXEC.CMD (spawns a process named by a NAME: outside the "harmless target"
    # clause) or an operand-sized allocation (C15's envelope) — nondeterministically.  CODE.RAND itself is swept in stream
    # a-rand and the programs it generates are executed, filtered, in stream c.
    # ... and the instructions that allocate by an INTEGER operand (ONES / ZEROS / SINE / NEIGHBOR*, the vector RANDs) are left out too:
    # whether a program stays inside the resource envelope is decided on the MODEL's draws, the implementation draws for itself, and an
    # INTEGER computed from its own draws may be allocation-sized (a false alarm of this kind was observed once: worker aborted on a case
    # that passes when replayed).  They are swept in streams a / a-rand and run inside deterministic programs in stream b.
    names = sorted(n for n in modelled if n not in stepgen.UNSAFE and n != "CODE.RAND" and n not in stepgen.ALLOCATING and n not in boundgen.VEC_RAND)
    n = {"quick": 3000, "thorough": 20000, "search": 8000}[tier]
    cases = program_cases(rng, names, n, fixed=False, limits=[0, 1, 2, 5, 17, 40, 60], ks=[1, 2, 3, 10, 30, 60], tapes=True)
    n0 = len(cases)
    cases, outside, unres = env_filter(cases)
    _STASH["b-rand"] = cases
    note = ("generated programs over the %d modelled names minus EXEC.CMD, CODE.RAND and the instructions that allocate by operand (with the scalar / name RAND and the HashMap-ordered GRAPH instructions), at most 61 steps (a short horizon: "
            "the envelope decision follows the model's draws, the implementation's own draws may take another path), a 64-element tape for the model; "
            "compared through suite runnp (returned normally / panicked). generated %d, outside the envelope (dropped) %d, libm unresolved (dropped) %d"
            % (len(names), n0, outside, unres))
    return Stream("b-rand:programs", "runnp", "nopanic.check", cases, note)


# ------------------------------------------------------------------------------------------------ (c)
def stream_c(rng, tier, impl, modelled):
    lst = [n for n in impl if n not in stepgen.UNSAFE and n not in stepgen.ALLOCATING]
    per, lines = {"quick": (250, 128), "thorough": (500, 1280), "search": (500, 640)}[tier]
    cases = []
    for i in range(lines):
        mp = [10, 20, 30, 60, 100, 150][i % 6]
        cases.append(sx_str([i % 2, per, mp, [S(n) for n in lst]]))
    note = ("%d x %d programs from pushr's own CodeGenerator::random_code (max_points 10..150) over all %d registered names minus EXEC.CMD and the "
            "ALLOCATING names (random i32 operands reach them), each on a fresh PushState for <= 200 steps under its own catch_unwind, stopped when "
            "it leaves the envelope; thread_rng: not reproducible, panicking programs are returned as text; the model side answers 'no panics'"
            % (lines, per, len(lst)))
    return Stream("c:random_code", "randcode", "nopanic.check", cases, note)


def streams(seed, tier):
    rng = random.Random(seed)
    impl, modelled = registry()
    out = [f(rng, tier, impl, modelled) for f in (stream_a, stream_a_rand, stream_b, stream_b_rand, stream_c)]
    if tier == "thorough":
        _STASH["d_extra"] = supervised_only_cases(rng, impl, modelled)
    return out


# ------------------------------------------------------------------------------------------------ (d)
DEEP_PROGS = ["( )", "( CODE.SIZE )", "( CODE.DUP CODE.= )", "( CODE.DUP CODE.CONTAINS )", "( 5 CODE.EXTRACT )", "( CODE.DUP 3 CODE.INSERT )",
              "( CODE.PRINT )", "( CODE.DUP CODE.DISCREPANCY )", "( CODE.DUP CODE.POSITION )", "( CODE.DUP CODE.MEMBER )", "( CODE.LENGTH CODE.CAR CODE.CDR )",
              "( CODE.DUP CODE.DUP CODE.SUBST )", "( CODE.DO )", "( CODE.DUP CODE.CONTAINER )", "( CODE.DUP CODE.APPEND CODE.LIST )", "( EXEC.= )",
              "( A CODE.DEFINE A CODE.DEFINITION )", "( CODE.DUP CODE.CONS CODE.NULL CODE.ATOM )", "( 2 CODE.NTH )", "( CODE.DUP EXEC.DUP NAME.QUOTE A EXEC.DEFINE A )"]


def deep(depth, core):
    """the wire text of core wrapped in `depth` lists (built as text: sx_str recurses)"""
    return "(0 " * depth + core + ")" * depth


def with_marker(case_text, marker_item, text):
    m = sx_str(marker_item)
    assert case_text.count(m) >= 1
    return case_text.replace(m, text)


def supervised_only_cases(rng, impl, modelled):
    """cases that only stream (d) runs (implementation only): programs with the HashMap-ordered GRAPH names, and
    deep-but-inside-envelope nesting (recursion in Item::size / Display / Clone / Drop / equality)"""
    names = sorted(n for n in modelled if n not in stepgen.UNSAFE and n not in stepgen.RANDOM)
    cases = program_cases(rng, names, 3000, fixed=False)
    cases, outside, unres = env_filter(cases)
    MARK = Z(1234567891)
    deep_run, deep_nest = [], []
    for text in DEEP_PROGS:
        prog = parse_prog(text, set(names))
        for prof in (0, 1):
            for core, corek in (("(4 1)", 0), ("(0)", 1), ("(2 (65))", 2)):
                # through suite `run` (the harness itself recurses over the item when it decodes and prints it): moderate depths;
                # not CODE.PRINT: the model's item_str is cubic in the nesting depth and the envelope decision runs on the model
                for depth in ((1000, 2000) if "CODE.PRINT" not in text else ()):
                    c = case_run(prof, state(exec=prog + [MARK], code=[MARK, Z(7)], cfg=cfg(300, 500)), 1, 0)
                    deep_run.append(with_marker(c, MARK, deep(depth, core)))
                # through suite `deepnest` (item built by a loop inside the harness, nothing but pushr recurses): up to DEPTH_BOUND
                for depth in (1000, 2000, DEPTH_BOUND):
                    for where in (0, 1, 2):
                        deep_nest.append(sx_str([prof, depth, corek, where, prog, 300]))
    deep_run, out2, _ = env_filter(deep_run, "nopanic.env")
    assert out2 == 0
    return {"programs": cases, "outside": outside, "deep_run": deep_run, "deep_nest": deep_nest}


def rebase(case):
    """a `run` case with its node ids shifted down to start at 2 (reading the counter consumes id 1): a fresh process per case would otherwise spend its time
    advancing pushr's process-global node counter to the ids the sharded streams handed out (stepgen.next_base)"""
    v = sx_parse(case)
    graphs, nn = v[2][12], v[5][0]
    ids = [nn] + [n[0] for g in graphs for n in g[0]]
    delta = min(ids) - 2
    if delta <= 0:
        return case
    for g in graphs:
        for n in g[0]: n[0] -= delta
        for e in g[1]:
            e[0] -= delta
            for o in e[1]: o[0] -= delta
    v[5][0] = nn - delta
    return sx_str(v)


def run_supervised(line, prof):
    """one case in its own process: 2 GiB address space, 20 s; returns (result line or None, exit code, seconds).
    The limits are set by a shell wrapper, not by preexec_fn: without it Python spawns with vfork, which matters for 60000 processes"""
    t = time.time()
    try:
        r = subprocess.run(["/bin/sh", "-c", 'ulimit -v 2097152; ulimit -c 0; exec "$0"', vcheck.IMPL[prof]],
                           input=line + "\n", capture_output=True, text=True, timeout=20)
        out = r.stdout.splitlines()
        return (out[0] if out else None), r.returncode, time.time() - t
    except subprocess.TimeoutExpired:
        return None, "timeout", time.time() - t


def replay_random_code(ctx):
    """stream (c) again, with the panicking programs kept: each text is re-read as a deterministic `run` case (fresh state, 200
    steps), minimised and written as a replayable violation (the randcode case itself cannot be replayed: thread_rng)"""
    impl, modelled = registry()
    names = set(impl)
    st = stream_c(random.Random(ctx.seed + 1), ctx.tier, impl, modelled)
    outs = vcheck.run_impl(["randcode " + c for c in st.cases])
    stat = ctx.stats.setdefault("c:random_code-replay", {"cases": 0, "programs": 0, "panicking_programs": 0, "reproduced_as_run_case": 0, "note":
        "a second draw of stream (c) whose panicking programs are re-read from their text as `run` cases (suite run, 200 single steps from the empty state), "
        "minimised with the envelope decision in the loop, and reported with their text"})
    texts = []
    for c, o in zip(st.cases, outs):
        ctx.evaluations += 1
        stat["cases"] += 1
        v = sx_parse(o)
        if v[0] != 0:
            ctx.violation("suite randcode did not return (abort of the worker process)", {"property": "C01", "kind": "randcode-abort", "suite": "randcode", "checker": "nopanic.check", "case": c, "impl_output": o[:300]})
            continue
        stat["programs"] += v[1][0]
        stat["panicking_programs"] += v[1][1]
        texts += ["".join(chr(x) for x in t) for t in v[1][2]]
    seen = set()
    for text in sorted(texts, key=len)[:8]:
        try:
            prog = parse_prog(text, names)
        except AssertionError:
            prog = None
        obj = {"property": "C01", "kind": "random_code-program-panics", "stream": "c:random_code-replay", "program_text": text[:2000]}
        if prog is not None:
            for prof in (0, 1):
                case = case_run(prof, state(exec=prog), 0, 200)
                if vcheck.run_impl(["run " + case])[0] != "(1)":
                    continue

                def still(cand):
                    keep, _, _ = env_filter([cand])
                    return bool(keep) and vcheck.run_impl(["run " + cand])[0] == "(1)"
                small = vcheck.shrink(case, still, budget=250)
                stat["reproduced_as_run_case"] += 1
                obj.update({"suite": "run", "checker": "nopanic.check", "case": small, "original_case": case, "impl_output": "(1)",
                            "how_to_replay": "bin/check C01 --replay <this file>"})
                break
        key = obj.get("case", text)
        if key in seen:
            continue
        seen.add(key)
        ctx.violation("a program drawn from CodeGenerator::random_code panics", obj)


def supervise(ctx, name, suite, cases, note):
    stat = ctx.stats.setdefault(name, {"cases": 0, "impl_panics": 0, "aborts": 0, "note": note})
    if not cases:
        return
    lines = [suite + " " + c for c in cases]
    with ThreadPoolExecutor(max_workers=vcheck.NPROC) as pool:
        res = list(pool.map(lambda l: run_supervised(l, vcheck.case_profile(l.split(" ", 1)[1])), lines))
    reported = 0
    for l, (out, rc, dt) in zip(lines, res):
        ctx.evaluations += 1
        stat["cases"] += 1
        if out is not None and out.startswith("(0 ") and rc == 0:
            continue
        if out == vcheck.BAD:
            vcheck.die("malformed case reached a suite (generator bug): %s" % l[:300])
        stat["impl_panics" if out == "(1)" else "aborts"] += 1
        if reported < 3:
            reported += 1
            ctx.violation("a program inside the envelope %s in a supervised child process" % ("panicked" if out == "(1)" else "aborted / overflowed its stack / ran out of memory / timed out"),
                          {"property": "C01", "kind": "supervised-run", "stream": name, "suite": suite, "checker": "nopanic.check" if suite == "run" else "", "case": l.split(" ", 1)[1],
                           "impl_output": (out or "")[:300], "exit": rc, "seconds": round(dt, 2),
                           "how_to_replay": "echo '%s <case>' | (ulimit -v 2097152; .cache/target/{debug,release}/impl_run)" % suite})


def extra(ctx):
    replay_random_code(ctx)
    if ctx.tier != "thorough":
        return
    # stream (d): aborts, native stack overflow and OOM are invisible to catch_unwind and to the model
    ex = _STASH.get("d_extra") or {"programs": [], "deep_run": [], "deep_nest": [], "outside": 0}
    supervise(ctx, "d:supervised-programs", "run", [rebase(c) for c in list(_STASH.get("b", [])) + list(_STASH.get("b-rand", [])) + ex["programs"]],
              "every program case of streams (b) and (b-rand) plus %d deterministic program cases that also use the HashMap-ordered GRAPH names (%d more dropped outside the envelope), "
              "each in its own child process (RLIMIT_AS 2 GiB, 20 s; node ids shifted down to start at 2): a missing result, (1) or a non-zero exit is a violation" % (len(ex["programs"]), ex["outside"]))
    supervise(ctx, "d:supervised-deep-nesting-run", "run", ex["deep_run"],
              "items nested 1000 / 2000 deep on CODE and EXEC under %d programs that recurse over them (CODE.SIZE, CODE.=, CODE.CONTAINS, CODE.EXTRACT, CODE.INSERT, "
              "CODE.PRINT, CODE.SUBST, ... the copy to CODE and the final Drop); decided inside the envelope by nopanic.env; own child process each" % len(DEEP_PROGS))
    supervise(ctx, "d:supervised-deep-nesting", "deepnest", ex["deep_nest"],
              "the same programs next to items nested 1000 / 2000 / %d deep (the envelope's nesting bound) on CODE, EXEC or both, built by a loop inside the harness so that "
              "only pushr recurses over them (suite deepnest, implementation only); own child process each" % DEPTH_BOUND)


TECHNIQUE = ("Coq proof that no instruction, step, k-step execution or bounded run of the Gallina model reaches a Panic site from a well-formed state inside the resource envelope "
             "+ differential correspondence of PushInterpreter::step/run against the extracted model with 'normal return' evaluated on the implementation's own results: "
             "systematic boundary single-step sweep of every modelled instruction, generated programs filtered through a model-side envelope decision, "
             "programs of pushr's own random code generator, and (thorough) every program again in a supervised child process")
DESIGN_REF = "DESIGN.md section 6.C01"
LEVEL_TEXT = ("Props/C01.v (9 theorems, closed under the global context; for every FloatOps, both profiles, every tape of the random number generator, every clock): "
              "wf_state is the TYPING of a state and nothing more (every value the Rust code keeps in an i32 - INTEGER stack, INTVECTOR elements, integer literals anywhere in CODE / EXEC / bound items, "
              "message headers, node states, the two INTEGER.RAND bounds - is an i32; INDEX fields are usize; no length, capacity or graph-invariant hypothesis). "
              "C01_instr_no_panic: no instruction of the full registry (280 names, nine RAND and four LIST.NEIGHBOR* included) returns Panic from a wf state whose top CODE item has <= i32::MAX points (envelope); "
              "C01_instr_no_panic_outside_envelope: every instruction except CODE.EXTRACT and CODE.NTH needs no envelope at all; C01_base_instr_no_panic: the 271 deterministic instructions need no float fact; "
              "C01_wf_preserved / C01_step_wf_preserved: a normal return is wf again, i.e. every result is in-type (the invariant); C01_step_no_panic: literals, bound and unbound names, quoting, lists and instructions; "
              "C01_steps_no_panic (every k) and C01_run_no_panic (every clock, every configured limit) for executions all of whose visited states are inside the envelope (stays_in_envelope; the envelope is not an invariant, "
              "CODE.APPEND doubles sizes; C01_envelope_from_size_bound derives it from a bound on the CODE items). Proof: one table-walking tactic per family table (Proofs/NoPanic*.v, one lemma per family, concatenated), "
              "the component lemmas for the bodies that contain possible panics (traverse never underflows, insert total, `len as i32` clamps stay inside a vector of any length, rem_euclid divisor non-zero inside the envelope, "
              "edge length >= 1 in the topology code, the C12/C13 theorems for the RAND bodies).\n"
              "Tie to the code: (a) every instruction of the model registry is single-stepped on boundary operand tuples (full product of the two topmost elements of every stack over the boundary pools, "
              "stack depths 0..4, one stack short, INTEGER operands at a length +-1) and random states, both profiles (the nine RAND instructions through suite runnp: normal return only, the implementation draws from thread_rng); (b) grammar-generated programs of up to 60 points per item from random initial states, run by "
              "PushInterpreter::run and single-stepped, after suite nopanic.env decided on the model that the case stays inside the envelope; in (a) and (b) the implementation's result is compared with the model's "
              "(model Ok vs implementation panic is a disagreement) and the predicate 'returned normally' is evaluated on the implementation's result; (c) programs drawn from CodeGenerator::random_code executed "
              "under catch_unwind (implementation only; the model side states 'no panics'); (d, thorough) every program of (b), programs with the HashMap-ordered GRAPH instructions and 1000-5000-deep nestings, "
              "each in its own child process with a 2 GiB address space and 20 s.")
LEVEL_NOTE = ("Trusted: Coq kernel, extraction, driver, harness, generators. PARTIAL: " + PARTIAL + ". The envelope bounds are those of Suites/SNoPanic.v (ALLOC_BOUND %d, NBR_BOUND %d, RAND_POINTS_BOUND %d, SIZE_BOUND %d, STEP_BOUND %d, DEPTH_BOUND %d); "
              "EXEC.CMD is assumed to be pointed at a harmless target." % (ALLOC_BOUND, NBR_BOUND, RAND_POINTS_BOUND, SIZE_BOUND, STEP_BOUND, DEPTH_BOUND))

"""C14 — determinism and isolation: same program + same state => same final state, whatever ran before,
whatever runs concurrently, whatever the build profile; node ids unique under concurrency; CLI = library."""
import random
import vcheck
from vcheck import Stream, sx_parse, sx_str
from gen.stategen import *
from gen import stepgen, proggen
from gen.pools import fbits

PROPERTY = "C14"
PROPS_VO = "Props/C14"
AXIOMS_OK = []
ASSUMPTIONS = [
    "PARTIAL (runtime behaviour the model cannot exhibit, observed by sampling only): real thread interleavings; the memory model behind "
    "AtomicUsize (the proof assumes that the fetch_add operations on NODE_COUNTER take effect in SOME total order, one atomic read-modify-write "
    "each); HashMap seed randomness (a fresh RandomState per PushState / Graph; results that depend on iteration order are canonicalised by the "
    "harness and excluded from the programs of this check); thread-local RNG state (rand::thread_rng)",
    "the world of the model = node counter + RNG outcomes: that nothing ELSE outside the PushState value is read by an instruction (no other static, "
    "no environment, no clock in an instruction body) is part of the model-to-code correspondence, sampled by the streams below (repeat / after "
    "unrelated runs / on threads); EXEC.CMD spawns a process and is excluded from the generated programs",
    "the time limit of PushInterpreter::run is a wall clock: programs are run with a limit that never fires (C02 covers the limit logic)",
    "CLI: stdout of the pushr binary is parsed (last '> EXEC/CODE/INT' block); programs are whitespace-separated tokens without newlines; "
    "argv[0] is whatever the harness passes (its value only reaches the binding BIN)",
]


def names():
    dec = lambda s: ["".join(chr(c) for c in x) for x in sx_parse(s)[1]]
    modelled = set(dec(vcheck.run_model(["names (0)"])[0]))
    safe = sorted(n for n in modelled if n not in stepgen.UNSAFE and n not in stepgen.RANDOM and n not in stepgen.ALLOCATING
                  and not n.startswith("GRAPH."))
    return modelled, safe


def cfg(limit, cap):
    c = list(DEFAULT_CFG); c[4] = limit; c[6] = cap
    return c


def rand_case_state(rng, safe):
    st = stepgen.rand_state(rng, safe, safe, maxdepth=3)
    st["exec"] = proggen.rand_program(rng, safe, 30)
    # step limits <= 30: a structure-doubling loop (EXEC.Y ( CODE.DUP CODE.LIST )) stays below 2^15 points
    # (the resource envelope itself is C15's subject; C02 runs the longer limits)
    st["cfg"] = cfg(rng.choice([10, 20, 30]), rng.choice([8, 500]))
    return state(**stepgen.tame_ints(st))


def repeat_case(profile, st, n, m, t, others):
    return sx_str([profile, [], st, 1, 0, [1, []], [n, m, t], others])


CLI_FIXED = ["( 1 2 INTEGER.+ )", "( )", "( ( ( ) ) )", "( 5 INDEX.DEFINE EXEC.LOOP ( INDEX.CURRENT INTEGER.+ ) )",
             "( 4 CODE.QUOTE ( INTEGER.POP 1 ) CODE.QUOTE ( CODE.DUP INTEGER.DUP 1 INTEGER.- CODE.DO INTEGER.* ) INTEGER.DUP 2 INTEGER.< CODE.IF )",
             "( 3 EXEC.DUP ( 1 INTEGER.+ ) )", "( 1 2 3 4 5 6 7 8 )", "( TRUE EXEC.IF ( 1 ) ( 2 ) )", "( FALSE EXEC.IF ( 1 ) ( 2 ) )",
             "( 0 INT[2,3,4] INTVECTOR.LOOP ( INTEGER.+ ) )", "( X 7 INTEGER.DEFINE X X INTEGER.* )", "( 2 3 INTEGER.* 4 5 INTEGER.- )",
             "( 10 3 INTEGER.% 10 3 INTEGER./ )", "( 1 0 INTEGER./ )", "( 2147483647 1 INTEGER.+ )", "( -2147483648 -1 INTEGER.* )",
             "( 3 INDEX.DEFINE CODE.QUOTE ( 2 INTEGER.* ) 1 CODE.LOOP )", "( 1 2 INTEGER.SWAP INTEGER.DUP INTEGER.ROT )",
             "( 5 4 3 2 1 2 INTEGER.YANK 1 INTEGER.SHOVE )", "( 1 2 EXEC.K 3 4 )", "( 1 EXEC.S 2 3 4 )", "( CODE.QUOTE ( 1 2 ) CODE.DO* )",
             "( INTEGER.STACKDEPTH CODE.STACKDEPTH EXEC.STACKDEPTH )", "( 7 CODE.FROMINTEGER CODE.DO )", "( A B NAME.= INTEGER.FROMBOOLEAN )",
             "1 2 3", "", "( 1 ( 2 ( 3 ( 4 INTEGER.+ ) INTEGER.+ ) INTEGER.+ ) )",
             "( 1 a(2) INTEGER.+ )", "( f(x) (y 3 )", "( a) 1 (b 2 )", "( x[3] 4 INT[5,6] )", "( POINT.X 5 INTEGER.DEFINE POINT.X )", "( in_f 1_000 _7 )"]
CLI_NAMES = ["INTEGER.+", "INTEGER.-", "INTEGER.*", "INTEGER.DUP", "INTEGER.SWAP", "INTEGER.POP", "INTEGER.<", "INTEGER.=", "INTEGER.MAX",
             "INTEGER.MIN", "INTEGER.ABS", "EXEC.IF", "EXEC.DUP", "EXEC.K", "EXEC.POP", "EXEC.SWAP", "CODE.QUOTE", "CODE.DO", "CODE.DUP",
             "CODE.CAR", "CODE.CDR", "CODE.LENGTH", "CODE.SIZE", "BOOLEAN.NOT", "BOOLEAN.AND", "INTEGER.FROMBOOLEAN", "INTEGER.STACKDEPTH",
             "INDEX.DEFINE", "EXEC.LOOP", "INDEX.CURRENT", "CODE.FROMINTEGER", "CODE.LIST", "CODE.CONS", "CODE.NTH", "CODE.EXTRACT", "CODE.INSERT"]


def rand_cli_text(rng, size):
    def tree(sz, depth):
        if sz <= 1 or depth == 0:
            k = rng.random()
            if k < 0.5: return rng.choice(CLI_NAMES)
            if k < 0.8: return str(rng.choice([0, 1, 2, 3, 5, -1, 7, 100, -3]))
            if k < 0.9: return rng.choice(["TRUE", "FALSE"])
            return rng.choice(["A", "X1", "foo"])
        parts, left = [], sz - 1
        while left > 0:
            k = rng.randrange(1, left + 1) if rng.random() < 0.3 else 1
            parts.append(tree(k, depth - 1)); left -= k
        return "( " + " ".join(parts) + " )"
    return tree(size, 3)


def cli_case(profile, text):
    return sx_str([profile, [], [ord(c) for c in text]])


def streams(seed, tier):
    rng = random.Random(seed)
    modelled, safe = names()
    out = []
    # (1) the same RAND-free, id-free case: repeated, after unrelated runs, on T threads, both profiles
    nprog = {"quick": 40, "thorough": 800, "search": 100}[tier]
    cases, cases_after = [], []
    for k in range(nprog):
        st = rand_case_state(rng, safe)
        others = [rand_case_state(rng, safe) for _ in range(3)]
        for t in (1, 2, 8, 16):
            for prof in (0, 1):
                cases.append(repeat_case(prof, st, 2, 0, t, []))
        prof = k % 2
        cases_after.append(repeat_case(prof, st, 1, 100, 2, others))
    for text in proggen.TERMINATING + proggen.DIVERGING:
        prog = parse_prog(text, modelled)
        for prof in (0, 1):
            cases.append(repeat_case(prof, state(exec=prog, int=[4], cfg=cfg(60, 500)), 2, 0, 8, []))
    out.append(Stream("repeat-and-threads", "thr.repeat", "thr.repeat.check", cases,
                      "random RAND-free, GRAPH-free programs from random states: run twice in a row and on T in {1,2,8,16} threads at once, debug and release; "
                      "the list of distinct final results must be exactly [model's run]"))
    out.append(Stream("after-100-unrelated-runs", "thr.repeat", "thr.repeat.check", cases_after,
                      "the same kind of case run once, then again after 100 runs of three other programs interleaved with graph node creations and "
                      "RAND draws, then on 2 threads"))
    # (1b) history sensitivity: the same instruction applied first to NEAR-MISS operands (one operand perturbed)
    #      in the same thread, then to the case itself: a result cached on part of the operands would leak
    near = []
    radii = [fbits(x) for x in (0.0, 0.5, 1.0, 1.2, 1.4142135, 1.5, 2.0, 2.236068, 3.0)]
    nn = {"quick": 60, "thorough": 1200, "search": 200}[tier]
    for k in range(nn):
        size, dims = rng.choice([(9, 2), (16, 2), (27, 3), (8, 1), (12, 2), (25, 2)])
        index = rng.randrange(0, size)
        nm = rng.choice(["LIST.NEIGHBOR*IDS", "LIST.NEIGHBOR*IVALS"])
        def nb(r, idx=index, sz=size, dm=dims):
            ints = [sz, idx, dm] if nm.endswith("IDS") else [0, sz, idx, dm]
            return state(exec=[I(nm)], int=ints, float=[r], code=[L(Z(j)) for j in range(sz)], cfg=cfg(30, 500))
        r = rng.choice(radii)
        others = [nb(o) for o in rng.sample(radii, 3)] + [nb(r, idx=(index + 1) % size)]
        if nm in modelled:
            near.append(repeat_case(k % 2, nb(r), 1, len(others), 1, others))
    for k in range(nn):
        nmx = rng.choice([x for x in safe if x.split(".")[0] in ("INTEGER", "FLOAT", "CODE", "BOOLVECTOR", "INTVECTOR", "FLOATVECTOR", "LIST")])
        base = stepgen.rand_state(rng, safe, safe, maxdepth=3)
        base["exec"] = [I(nmx)]; base["cfg"] = cfg(30, 500)
        base = stepgen.tame_ints(base)
        others = []
        for _ in range(3):
            v = {kk: (list(vv) if isinstance(vv, list) else vv) for kk, vv in base.items()}
            if v["int"] and rng.random() < 0.6:
                v["int"] = [v["int"][0] + rng.choice([-1, 1])] + v["int"][1:]
            elif v["float"]:
                v["float"] = [rng.choice(radii)] + v["float"][1:]
            elif v["bool"]:
                v["bool"] = [not v["bool"][0]] + v["bool"][1:]
            others.append(state(**v))
        near.append(repeat_case(k % 2, state(**base), 1, 3, 1, others))
    out.append(Stream("after-near-miss-runs", "thr.repeat", "thr.repeat.check", near,
                      "one instruction (LIST.NEIGHBOR* on small lattices with radii between lattice distances; random scalar / vector / list instructions) "
                      "executed after runs of the SAME instruction on near-miss operands (one operand perturbed) in the same thread: the result must not depend on that history"))
    # (1c) pending flags and half-finished protocols: a run that ENDS with NAME.QUOTE (or a send flag) pending must not
    #      leak into the next run on another state, nor into the same program running on another thread
    flag = []
    X7 = [("X", Z(7)), ("Y", L(Z(1), Z(2)))]
    progs = ["( NAME.QUOTE X X )", "( X NAME.QUOTE X X )", "( X )", "( NAME.QUOTE Y Y X )", "( X NAME.QUOTE )", "( NAME.QUOTE )", "( NAME.QUOTE 1 2 X X )",
             "( Y NAME.QUOTE X 5 INTEGER.DEFINE X )"]
    leftovers = [state(exec=parse_prog(t, modelled), bind=X7, cfg=cfg(30, 500)) for t in ("( NAME.QUOTE )", "( 1 NAME.QUOTE 2 )", "( X NAME.QUOTE )")] + \
                [state(exec=[], quote=True, cfg=cfg(30, 500)), state(exec=[], send=True, cfg=cfg(30, 500))]
    for k, t in enumerate(progs):
        st0 = state(exec=parse_prog(t, modelled), bind=X7, cfg=cfg(30, 500))
        for prof in (0, 1):
            for th in (1, 8, 16):
                flag.append(repeat_case(prof, st0, 3, 0, th, []))
            flag.append(repeat_case(prof, st0, 1, 3, 2, [rng.choice(leftovers) for _ in range(3)]))
    out.append(Stream("pending-flags", "thr.repeat", "thr.repeat.check", flag,
                      "programs around NAME.QUOTE and bound names: three times in a row, on 1 / 8 / 16 threads at once, and after runs (other states) that END with a "
                      "NAME.QUOTE or a send flag pending: the pending flag belongs to the PushState, nothing leaks between states or threads"))
    # (1c') the same call again: every deterministic instruction run three times in a row from the same state with ONE instruction set
    #       (whatever an instruction closure or a thread-local remembers from the first call must not change the second)
    again = []
    nong = [x for x in sorted(modelled) if x not in stepgen.UNSAFE and x not in stepgen.RANDOM and not x.startswith("GRAPH.")]
    nsafe = [x for x in nong if x not in stepgen.ALLOCATING]
    per2 = {"quick": 2, "thorough": 20, "search": 6}[tier]
    for nm in nong:
        for j in range(per2):
            parsed = sx_parse(stepgen.step_case(rng, nm, nong, nsafe, profile=j % 2))
            st0 = parsed[2]
            st0[14] = cfg(30, 500)
            # the libm oracle table of the case (LIST.NEIGHBOR* in the debug build) travels with it
            again.append(sx_str([j % 2, parsed[1], st0, 1, 0, [1, []], [3, 0, 1], []]))
    out.append(Stream("same-call-again", "thr.repeat", "thr.repeat.check", again,
                      "each of the %d deterministic non-GRAPH instructions: a random state whose program starts with it, run three times in a row with one InstructionSet and once more on another thread" % len(nong)))
    # (1c'') measurements of very deeply nested items by earlier runs on the same thread must not change how later runs measure ordinary items
    deep = Z(1)
    for _ in range(1100):
        deep = L(deep)
    probe = state(exec=parse_prog("( CODE.QUOTE ( 1 ( 2 FOO ) ( ) ) CODE.SIZE 3 CODE.EXTRACT CODE.QUOTE ( ( A ) B ) CODE.QUOTE A CODE.POSITION )", modelled), cfg=cfg(30, 500))
    deep_other = state(exec=[I("CODE.QUOTE"), deep, I("CODE.SIZE"), I("INTEGER.POP"), I("CODE.POP")] * 30, cfg=cfg(200, 500))
    out.append(Stream("after-deep-nesting-runs", "thr.repeat", "thr.repeat.check", [repeat_case(p_, probe, 1, 70, 1, [deep_other]) for p_ in (0, 1)],
                      "CODE.SIZE / CODE.EXTRACT / CODE.POSITION on small items, before and after 70 runs (same thread) that quote and measure an item nested 1100 levels deep 2100 times"))
    # (1d) every deterministic instruction, the SAME random state in the debug and in the release build (a side effect inside
    #      debug_assert!, an overflow check, a libm call compiled differently): both must equal the model
    both = []
    sweep = [x for x in sorted(modelled) if x not in stepgen.UNSAFE and x not in stepgen.RANDOM and x not in stepgen.HASH_ORDERED]
    allsafe = [x for x in sweep if x not in stepgen.ALLOCATING]
    per = {"quick": 8, "thorough": 80, "search": 20}[tier]
    for nm in sweep:
        for j in range(per):
            sd = rng.getrandbits(48)
            for prof in (0, 1):
                both.append(stepgen.step_case(random.Random(sd), nm, sorted(modelled), allsafe, profile=prof))
    out.append(Stream("single-steps-both-profiles", "run", "run.check", both,
                      "one step of each of the %d deterministic instructions on %d random whole states, each state run in the debug AND in the release build" % (len(sweep), per)))
    # (1e) reading a program text depends on the instruction set HANDED IN, not on what was parsed earlier on the thread
    from gen import parsegen as PG
    out.append(Stream("parse-after-other-parses", "parse.st", "parse.st.check", PG.onto_state_cases(rng, sorted(modelled), sorted(modelled)[:8], {"quick": 400, "thorough": 4000, "search": 1000}[tier]),
                      "program texts with and without host-registered instruction names, parsed one after the other by the same worker thread (each with its own InstructionSet)"))
    # (2) node ids under real concurrency
    idc = [[16, 10000, 0], [16, 100000, 0], [16, 10000, 1], [1, 1000, 0], [2, 100000, 1], [8, 20000, 1], [1, 300, 2], [8, 3000, 2], [16, 1000, 2], [1, 200, 3], [8, 2000, 3], [1100, 3, 0], [1500, 2, 1]]
    if tier != "quick":
        idc += [[16, 1000000, 0], [64, 10000, 0], [64, 10000, 1], [16, 100000, 1]]
    cases = [sx_str([prof] + c) for c in idc for prof in (0, 1)]
    out.append(Stream("node-ids-threads", "thr.ids", "thr.ids.check", cases,
                      "T threads x K node creations (Graph::add_node, GRAPH.NODE*ADD, and add_node interleaved with complete unrelated runs that create nodes themselves), T x K up to 1.6e6 (thorough 1.6e7): ids pairwise distinct, "
                      "each thread's ids increasing"))
    # (3) the pushr binary against the library, programs that terminate in the model
    ncli = {"quick": 40, "thorough": 1200, "search": 150}[tier]
    texts = list(CLI_FIXED) + [rand_cli_text(rng, rng.randrange(2, 14)) for _ in range(ncli)]
    probe = vcheck.run_model(["thr.cli " + cli_case(0, t) for t in texts], timeout=120, tolerant=True)      # texts on which the model gives no answer in time are not used
    keep = [t for t, r in zip(texts, probe) if r.startswith("(0 ") and r.endswith(" 0))")]
    cases = [cli_case(prof, t) for t in keep for prof in (0, 1)]
    out.append(Stream("cli-vs-library", "thr.cli", "thr.cli.check", cases,
                      "%d program texts (fixed list + random INTEGER/EXEC/CODE programs that end with NoErrors in the model): last printed block of the "
                      "pushr binary = the library's EXEC / CODE / INT printing = the model's, debug and release" % len(keep)))
    return out


def extra(ctx):
    """debug binary against release binary, directly: the same case must give the same answer"""
    rng = random.Random(ctx.seed + 14)
    _, safe = names()
    n = {"quick": 60, "thorough": 1500}.get(ctx.tier, 200)
    sts = [rand_case_state(rng, safe) for _ in range(n)]
    lines = []
    for st in sts:
        for prof in (0, 1):
            lines.append("thr.repeat " + repeat_case(prof, st, 1, 0, 0, []))
    res = vcheck.run_impl(lines)
    stat = ctx.stats.setdefault("debug-vs-release", {"cases": 0, "differ": 0, "note": "the same RAND-free case on the debug and on the release binary: identical answers (implementation against implementation)"})
    for k, st in enumerate(sts):
        a, b = res[2 * k], res[2 * k + 1]
        stat["cases"] += 1
        ctx.evaluations += 1
        if a != b:
            stat["differ"] += 1
            if stat["differ"] == 1:
                ctx.violation("debug and release builds disagree on a RAND-free program", {
                    "property": "C14", "kind": "profile-dependence", "suite": "thr.repeat", "checker": "thr.repeat.check",
                    "case": lines[2 * k].split(" ", 1)[1], "impl_output": a, "release_output": b})


TECHNIQUE = ("Coq proofs over the interpreter model: two table walks (every registry entry keeps 'no selected instruction/identifier occurs in the state'; "
             "every entry but DEFINE/CODE.DEFINITION/RAND is oblivious to the binding table), world- and profile-independence of steps and run by simulation, "
             "list induction for the atomic node counter, simulation of main.rs against run + runtime sampling: repeated runs, runs after unrelated runs, "
             "1-16 concurrent threads, debug vs release binaries, 16 threads x 1e5 node creations, the pushr binary's stdout against the library")
DESIGN_REF = "DESIGN.md section 6.C14"
LEVEL_TEXT = ("Props/C14.v, for every FloatOps: (1) every registry entry whose name is not GRAPH.NODE*ADD or one of the nine RAND instructions ignores the world "
              "(node counter + RNG outcomes) and returns it unchanged; (2) one interpreter step adds at most the six re-arm names to the set of instruction names "
              "occurring anywhere in the state, unless the state mentions CODE.RAND — so 'mentions no world-reading instruction' is invariant; (3) for such states "
              "k steps and run (any clock) give the same completion flag / outcome and state from ANY two worlds — what ran earlier and what other threads do can "
              "reach an interpreter only through the world; (4) every entry except CODE.INSERT, LIST.NEIGHBOR* and BOOLVECTOR.RAND gives the same result under "
              "Debug and Release on every state, CODE.INSERT whenever its index operand is >= -2^64 (every i32), LIST.NEIGHBOR* whenever the neighbourhood search "
              "agrees (C20's size condition), and whole runs agree for states mentioning none of these (nor CODE.RAND); (5) for ANY schedule of atomic fetch_add "
              "operations from counter value c with c + n < 2^64 the ids are c, c+1, ... in schedule order: pairwise distinct across threads, increasing per thread, "
              "no wrap; (6) the model of main.rs (copy to CODE, bind BIN, step until completion, no limits) stops whenever the library's run ends with NoErrors "
              "and then equals the library's final state in every field but the binding table, the tables agreeing off BIN — for programs that do not name BIN "
              "and mention no name-synthesising or RAND instruction. Tie to the code: the 'run' correspondence plus the streams of this check.")
LEVEL_NOTE = ("PARTIAL: real interleavings, the memory model behind AtomicUsize (assumed: a total order of atomic RMWs on the counter), HashMap seed randomness and "
              "thread-local RNG state are outside the model and only sampled (repeat / after 100 unrelated runs / 1,2,8,16 threads / debug vs release / "
              "16 x 1e5 node creations / CLI stdout). Profile independence excludes CODE.INSERT on non-i32 model integers, LIST.NEIGHBOR* beyond C20's bound "
              "and BOOLVECTOR.RAND; name closure excludes CODE.RAND; the CLI theorem excludes NAME.CAT, CODE.PRINT, GRAPH.PRINT, GRAPH.PRINT*DIFF and RAND. "
              "Trusted: Coq kernel, extraction, driver, harness (thread orchestration, stdout parsing), generators. Theorems closed under the global context.")

"""C08 — CODE list surgery is coherent with depth-first point indexing (API level: Item::*)."""
import random
from functools import lru_cache
from vcheck import Stream, sx_str
from gen.pools import rand_f32, rand_i32

PROPERTY = "C08"
PROPS_VO = ["Props/C08", "Props/C08i"]
AXIOMS_OK = []
ASSUMPTIONS = [
    "API level (Item::*) and instruction level (CODE.* wrappers by NAME)",
    "Item::traverse / Item::insert take a usize depth: negative indices cannot be sent at this level (CODE.EXTRACT / CODE.INSERT normalisation belongs to the instruction level)",
    "Item::insert never replaces the root (index 0 returns Ok(true), left to the caller): the insert equation is claimed for 0 < i < size only",
    "structural equality is Item::equals: float literals compare with IEEE ==, so a NaN literal matches nothing, itself included",
    "PushType::Graph literals are not modelled (no parser rule or instruction builds one)",
]

# ---- atoms (wire encoding of Suites/SItem.v) ----
def name(s): return [2, [ord(c) for c in s]]
def instr(s): return [1, [ord(c) for c in s]]
A, B = name("A"), [4, 1]
X = name("X")
XL = [0, name("X"), [0, name("Y")]]


# ---- all trees with exactly n points over the two atom labels A, B ----
@lru_cache(maxsize=None)
def trees(n):
    if n == 1:
        return (A, B, [0])
    return tuple([0] + list(f) for f in forests(n - 1))


@lru_cache(maxsize=None)
def forests(n):
    if n == 0:
        return ((),)
    out = []
    for k in range(1, n + 1):
        for t in trees(k):
            for f in forests(n - k):
                out.append((t,) + f)
    return tuple(out)


def tsize(t):
    return 1 + sum(tsize(c) for c in t[1:]) if t[0] == 0 else 1


def points(t):
    out = [t]
    if t[0] == 0:
        for c in t[1:]:
            out += points(c)
    return out


# ---- random trees over every atom kind ----
NAMES = ["A", "B", "x1", "NOOP"]
INSTRS = ["NOOP", "INTEGER.+", "CODE.DUP", "A"]
NAN = 0x7fc00000


def rand_atom(rng):
    k = rng.randrange(10)
    if k == 0: return [4, rng.choice([0, 1, 1, 2, -1, rand_i32(rng)])]
    if k == 1: return [6, rng.choice([0, 0x80000000, 0x3f800000, NAN, NAN, rand_f32(rng), 0x7f800000, 0xff800000, 0x7f800000, 0x3f000000, 0x3f000001, 0x322bcc77, 0x32abcc77, 1, 0x7f7fffff])]
    if k == 2: return [3, rng.randrange(2)]
    if k == 3: return name(rng.choice(NAMES))
    if k == 4: return instr(rng.choice(INSTRS))
    if k == 5: return [7, [rng.randrange(2) for _ in range(rng.randrange(0, 3))]]
    if k == 6: return [8, rng.choice([[rng.choice([0, 1, rand_i32(rng)]) for _ in range(rng.randrange(0, 3))], [1, 2, 3], [3, 1, 2], [2, 1], [1, 2]])]
    if k == 7: return [9, [rng.choice([0, 0x80000000, NAN, rand_f32(rng)]) for _ in range(rng.randrange(0, 3))]]
    if k == 8: return [5, rng.randrange(0, 4), rng.randrange(0, 4)]
    return [0]


def rand_tree(rng, depth, budget):
    """a tree with at most `budget` points and nesting depth at most `depth`"""
    if budget <= 1 or depth == 0 or rng.random() < 0.3:
        return rand_atom(rng)
    kids = []
    left = budget - 1
    while left > 0 and rng.random() < 0.8:
        c = rand_tree(rng, depth - 1, rng.randrange(1, left + 1))
        kids.append(c)
        left -= tsize(c)
    return [0] + kids


def mutate(rng, t):
    if t[0] == 6 and rng.random() < 0.6:            # a float one or two steps away: distinct, but closer than any tolerance
        return [6, (t[1] + rng.choice([1, -1, 2, 0x80000000])) & 0xffffffff]
    if t[0] == 9 and t[1] and rng.random() < 0.5:
        return [9, [(t[1][0] + 1) & 0xffffffff] + t[1][1:]]
    if t[0] in (7, 8, 9) and len(t[1]) >= 2 and rng.random() < 0.3:      # the same elements in another order
        return [t[0], rng.choice([list(reversed(t[1])), t[1][1:] + t[1][:1], sorted(t[1])])]
    if t[0] in (7, 8, 9) and rng.random() < 0.6:      # a vector atom that is a proper prefix / an extension of the original
        return [t[0], rng.choice([t[1][:-1], t[1] + t[1][:1], t[1] + [0], t[1][1:]])] if t[1] else [t[0], [0]]
    if t[0] == 0 and len(t) > 1 and rng.random() < 0.7:
        i = rng.randrange(1, len(t))
        r = rng.random()
        if r < 0.3: return t[:i] + t[i + 1:]
        if r < 0.6: return t[:i] + [mutate(rng, t[i])] + t[i + 1:]
        return t[:i] + [rand_atom(rng)] + t[i:]
    return rand_atom(rng)


def rand_pattern(rng, t):
    r = rng.random()
    if r < 0.55:
        return rng.choice(points(t))
    if r < 0.8:
        return mutate(rng, rng.choice(points(t)))
    return rand_tree(rng, 2, 4)


def self_nested(rng, mk_tree=None):
    """(target, pattern, substitute) where the substitute is an element of the list pattern and the target holds
    the pattern nested in itself at the substitute's place: a bottom-up substitution would re-match its own output"""
    mk = mk_tree or (lambda: rand_tree(rng, 2, 3))
    sub = rng.choice([rand_atom(rng), mk()])
    kids = [mk() for _ in range(rng.randrange(0, 3))]
    i = rng.randrange(0, len(kids) + 1)
    pat = [0] + kids[:i] + [sub] + kids[i:]
    inner = pat
    for _ in range(rng.randrange(1, 4)):
        inner = [0] + kids[:i] + [inner] + kids[i:]
    around = [mk() for _ in range(rng.randrange(0, 3))]
    j = rng.randrange(0, len(around) + 1)
    target = [0] + around[:j] + [inner] + around[j:]
    if rng.random() < 0.3:
        target = [0, mk(), target]
    return target, pat, sub


def case(prof, op, *args):
    return sx_str([prof, [], op] + list(args))


def api_streams(seed, tier):
    rng = random.Random(seed)
    out = []
    maxpts = {"quick": 6, "thorough": 7, "search": 6}[tier]
    small = [t for n in range(1, maxpts + 1) for t in trees(n)]
    pats = [t for n in range(1, 4) for t in trees(n)]

    # every tree x every index in [0, 2*size], both build profiles
    cases = []
    for t in small:
        s = tsize(t)
        for d in range(0, 2 * s + 1):
            for prof in (0, 1):
                cases.append(case(prof, 2, t, d))
    out.append(Stream("exhaustive-traverse<=%d" % maxpts, "item", "item.check", cases,
                      "Item::traverse on all %d trees with <= %d points over 2 atom labels x all indices in [0, 2*size], both profiles" % (len(small), maxpts)))
    cases = []
    for t in small:
        s = tsize(t)
        for d in range(0, 2 * s + 1):
            for k, x in enumerate((X, XL)):
                cases.append(case((d + k) % 2, 3, t, x, d))
    out.append(Stream("exhaustive-insert<=%d" % maxpts, "item", "item.check", cases,
                      "Item::insert of an atom and of a 3-point list into all trees with <= %d points x all indices in [0, 2*size]" % maxpts))
    cases = []
    for ti, t in enumerate(small):
        cases.append(case(ti % 2, 0, t))
        cases.append(case(ti % 2, 1, t))
        cases.append(case(ti % 2, 10, t))
        for pi, p in enumerate(pats):
            prof = (ti + pi) % 2
            cases.append(case(prof, 5, t, p))
            cases.append(case(prof, 7, t, p))
            cases.append(case(prof, 4, t, p, [0, name("S"), p]))
            if tsize(t) <= 4 or tier == "thorough":
                cases.append(case(prof, 8, t, p))
        for p in (A, B, [0]):
            for n in range(0, 4):
                cases.append(case(ti % 2, 6, t, p, n))
            cases.append(case(ti % 2, 9, t, p))
    out.append(Stream("exhaustive-search<=%d" % maxpts, "item", "item.check", cases,
                      "size, shallow_size, to_string, contains, container, substitute, equals, find, == on all trees with <= %d points x all %d patterns with <= 3 points" % (maxpts, len(pats))))

    # random trees: depth <= 5, size <= 25, every atom kind
    n = {"quick": 2500, "thorough": 25000, "search": 25000}[tier]
    cases = []
    for k in range(n):
        t = rand_tree(rng, 5, rng.randrange(1, 26))
        s = tsize(t)
        prof = k % 2
        cases.append(case(prof, 0, t))
        cases.append(case(prof, 1, t))
        cases.append(case(prof, 10, t))
        for _ in range(3):
            d = rng.choice([0, 1, s - 1, s, s + 1, rng.randrange(0, 2 * s + 2), rng.randrange(0, s + 1)])
            d = max(d, 0)
            cases.append(case(prof, 2, t, d))
            cases.append(case(1 - prof, 3, t, rand_tree(rng, 3, 6), d))
        for _ in range(3):
            p = rand_pattern(rng, t)
            cases.append(case(prof, 5, t, p))
            cases.append(case(prof, 7, t, p))
            cases.append(case(prof, 4, t, p, rng.choice([rand_tree(rng, 2, 4), [0, p, p]])))
            cases.append(case(prof, 8, t, p))
            cases.append(case(prof, 8, p, t))
            cases.append(case(prof, 9, t, p))
            cases.append(case(prof, 6, t, p, rng.randrange(0, 5)))
        if rng.random() < 0.3:
            tt, pp, ss = self_nested(rng)
            cases.append(case(prof, 4, tt, pp, ss))
            cases.append(case(prof, 4, tt, ss, pp))
        if rng.random() < 0.05:
            cases.append(case(prof, 2, t, rng.choice([2 ** 63, 2 ** 64 - 1, 2 ** 32])))
            cases.append(case(prof, 3, t, X, rng.choice([2 ** 63, 2 ** 64 - 1, 2 ** 32])))
    out.append(Stream("random-trees", "item", "item.check", cases,
                      "random trees (depth <= 5, <= 25 points; ints, floats incl. NaN/-0, bools, names, instructions, bool/int/float vectors, index literals, empty lists); patterns drawn from the tree's own points, mutated points and fresh trees"))
    return out


TECHNIQUE = ("Coq proofs by induction over the nested item type (item_ind' with list-level generalisations carrying the running point counter) that the executable model of Item::{size,traverse,insert,contains,container,substitute} "
             "equals a specification on the preorder point listing (TreeSpec) + exhaustive/random differential correspondence of the model against the real Item::* functions, with the specification itself evaluated on the implementation's outputs")
DESIGN_REF = "DESIGN.md section 6.C08"
LEVEL_TEXT = ("API level (Item::*) and instruction level (CODE.* wrappers by NAME). Machine-checked for all code trees (unbounded depth and size, every atom kind), all indices and both build profiles: "
              "size = number of points of the preorder listing (C08_size_is_length_points); traverse at d returns the d-th point and otherwise the remaining count, never underflowing (C08_traverse_spec, C08_traverse_no_underflow); "
              "insert at 0 < i < size equals the structurally defined replace_point, leaves the tree alone beyond the last point, makes a following traverse at i return the inserted item, "
              "keeps every point before i in place (ancestors of i contain the new subtree, all others are unchanged) and shifts the points after the replaced subtree by the size difference with unchanged values "
              "(C08_insert_spec, C08_insert_out_of_range_noop, C08_extract_after_insert, C08_insert_local); contains returns the index of the first structurally equal point, or nothing exactly when no point is equal "
              "(C08_position_spec, C08_position_extract, C08_position_none_iff_absent, C08_position_finds_present for float-free items); container returns the list whose direct child is the first occurrence (C08_container_spec, C08_container_ok, C08_container_err_true_iff, C08_container_err_false_iff, C08_parent_point_is_parent, C08_parent_is_smallest); "
              "substitute replaces all and only the maximal matches below the root (C08_subst_spec, C08_subst_only_matches). The theorems speak about the repaired insert/contains; the code of the pinned tree is kept as insert_pinned/contains_pinned and refuted by Examples. "
              "The model is tied to the code by running every tree with <= 6 points (thorough: 7) over two atom labels x every index in [0, 2*size] x every pattern with <= 3 points, plus random trees over all atom kinds, on the real functions and on the extracted model, "
              "and by evaluating the TreeSpec description directly on the implementation's outputs.")
LEVEL_NOTE = ("Trusted: Coq kernel, extraction (ExtrOcamlBasic), ocaml/driver.ml, the Rust harness and generators; theorems are closed under the global context (parametric in the float comparison). "
              "The model is hand-written: behaviour outside the generated trees is tied only by the proof-to-model link, not to the code. Item::find, shallow == and to_string are covered by the differential run only.")


CODE_SURGERY = ["CODE.SIZE", "CODE.EXTRACT", "CODE.INSERT", "CODE.POSITION", "CODE.CONTAINER", "CODE.SUBST", "CODE.CAR", "CODE.CDR", "CODE.CONS",
                "CODE.LIST", "CODE.LENGTH", "CODE.NTH", "CODE.NULL", "CODE.ATOM", "CODE.MEMBER", "CODE.CONTAINS", "CODE.=", "CODE.DISCREPANCY", "CODE.APPEND"]


def instr_streams(seed, tier):
    """instruction level: the CODE.* wrappers (index normalisation, operand order, what is popped) by NAME"""
    import vcheck
    from gen import stepgen
    from gen.stategen import state, case_run, I, Z, L, N, B
    rng = random.Random(seed + 17)
    impl, model = vcheck.registry_names()
    names = sorted(model)
    safe = [x for x in names if x not in stepgen.UNSAFE and x not in stepgen.RANDOM and x not in stepgen.ALLOCATING]
    n = {"quick": 250, "thorough": 3000, "search": 2000}[tier]
    cases = []
    for nm in CODE_SURGERY:
        if nm not in model: continue
        for k in range(n):
            st = stepgen.rand_state(rng, names, safe, maxdepth=3)
            r = rng.random()
            if r < 0.6:
                # related operands: the pattern is a sub-item of (or equal to) the target, indices around the size
                target = stepgen.rand_item(rng, safe, 3, 4)
                subs = [target]
                def walk(t):
                    if isinstance(t, list) and t and t[0] == 0:
                        for c in t[1:]:
                            subs.append(c); walk(c)
                walk(target)
                pat = rng.choice(subs)
                sub = stepgen.rand_item(rng, safe, 2, 3)
                order = rng.choice([[target, pat, sub], [target, sub, pat], [pat, target, sub]])
                st["code"] = order + st["code"]
                st["int"] = [rng.randrange(-2 * len(subs) - 2, 2 * len(subs) + 3)] + st["int"]
            elif r < 0.8 and nm in ("CODE.DISCREPANCY", "CODE.=", "CODE.APPEND", "CODE.MEMBER", "CODE.CONTAINS"):
                # a list and a near copy of it: a prefix, a suffix, one element dropped / changed / added, the one-element list of an atom
                target = stepgen.rand_item(rng, safe, 3, 5)
                if not (isinstance(target, list) and target and target[0] == 0 and len(target) > 2):
                    target = [0, [4, 1], [4, 2], [4, 3]]
                kids = target[1:]
                near = rng.choice([[0] + kids[:-1], [0] + kids[1:], [0] + kids + [[4, 9]], [0] + [[4, 9]] + kids, mutate(rng, target), kids[0], [0, kids[0]], [0, target]])
                st["code"] = rng.choice([[target, near], [near, target]]) + st["code"]
            elif r < 0.8 and nm in ("CODE.SUBST", "CODE.POSITION", "CODE.CONTAINER"):
                tt, pp, ss = self_nested(rng, lambda: stepgen.rand_item(rng, safe, 2, 3))
                st["code"] = rng.choice([[tt, pp, ss], [tt, ss, pp], [pp, tt, ss], [ss, pp, tt], [pp, ss, tt], [ss, tt, pp]]) + st["code"]
            st["exec"] = [I(nm)] + st["exec"]
            cases.append(case_run(rng.randrange(2), state(**st), 0, 1))
    return [Stream("code-instructions", "run", "run.check", cases,
                   "one step of each CODE list-surgery instruction by NAME on random states; in 60% of the cases the CODE operands are related (pattern = a sub-item of the target or the target itself) and the index ranges over [-2S, 2S]; for SUBST / search instructions 20% self-nested operand triples (substitute inside the pattern, pattern nested in itself inside the target)")]


KNOWN_ARGS = "pair"
KNOWN_SUITE = {"run": "insext.known", "run#codeeq": "codeeq.known"}


def insext_stream(seed, tier):
    """CODE.INSERT at i then CODE.EXTRACT at i must yield the inserted item (all indices in [-2S, 2S])"""
    from gen import stepgen
    from gen.stategen import state, case_run, I, Z, L, N
    rng = random.Random(seed + 29)
    names = ["NOOP", "INTEGER.+", "CODE.DUP"]
    cases = []
    n = {"quick": 60, "thorough": 600, "search": 400}[tier]
    for _ in range(n):
        t = stepgen.rand_item(rng, names, 3, 4)
        x = stepgen.rand_item(rng, names, 2, 3)
        S = 1
        def sz(u):
            return 1 + sum(sz(c) for c in u[1:]) if (isinstance(u, list) and u and u[0] == 0) else 1
        S = sz(t)
        for i in range(-2 * S, 2 * S + 1):
            cases.append(case_run(rng.randrange(2), state(exec=[Z(i), I("CODE.INSERT"), Z(i), I("CODE.EXTRACT")], code=[t, x]), 0, 4))
    return [Stream("insert-then-extract", "run", "insext.check", cases,
                   "random target trees (size S) x every index in [-2S, 2S]: ( i CODE.INSERT i CODE.EXTRACT ) must leave the inserted item on top of CODE")]


def codeeq_stream(seed, tier):
    """CODE.= / EXEC.= against structural equality"""
    from gen import stepgen
    from gen.stategen import state, case_run, I, Z, L, N, F, B
    from gen.pools import fbits
    rng = random.Random(seed + 31)
    names = ["NOOP", "INTEGER.+", "TRUE"]
    n = {"quick": 400, "thorough": 5000, "search": 3000}[tier]
    cases = []
    special = [(F(fbits(1.0)), F(fbits(1.0004))), (F(0x7fc00000), F(0x7fc00000)), (N("TRUE"), B(True)), (N("12"), Z(12)), (I("NOOP"), N("NOOP")),
               (L(Z(1), Z(2)), L(Z(1), Z(2))), (L(), L()), (F(0), F(0x80000000)), (L(N("a b")), L(N("a"), N("b")))]
    for k in range(n):
        if k < len(special) * 2:
            a, b = special[k // 2]
        else:
            a = stepgen.rand_item(rng, names, 3, 3)
            b = a if rng.random() < 0.4 else stepgen.rand_item(rng, names, 3, 3)
        if k % 2 == 0:
            cases.append(case_run(rng.randrange(2), state(exec=[I("CODE.=")], code=[b, a]), 0, 1))
        else:
            cases.append(case_run(rng.randrange(2), state(exec=[I("EXEC.="), b, a]), 0, 1))
    st = Stream("code-equality", "run", "codeeq.check", cases, "CODE.= and EXEC.= on equal / unequal / text-colliding item pairs: result vs structural equality")
    st.known_suite = "codeeq.known"
    return [st]


def streams(seed, tier):
    return api_streams(seed, tier) + instr_streams(seed, tier) + insext_stream(seed, tier) + codeeq_stream(seed, tier)

(* Wire suite "stackitem": a history of PushStack<Item> operations (nested code
   items as elements).  The container compares elements in two ways: `==`
   (last_eq; for Item that is the SHALLOW PartialEq: same kind) and equality of
   the Display text (equal_at).  Both differ from structural identity — items
   that print alike (floats equal to 3 decimals, a name and an instruction with
   the same text) are different elements — so results are reported
   structurally (Suites/SItem.v encoding), only to_string as text.
   case   : (profile libm init ops)   init = items, bottom first; ops as in Suites/SStack.v
            with items in the element positions
   result : (0 (final top-first) (out ...)) | (1)
            out of to_string = the code points of the printed stack *)
From Coq Require Import ZArith List Bool.
From PushModel Require Import Base.Sx Base.Machine Base.ListOps Base.F32 Base.F32Flocq
  Model.Stack Spec.SeqSpec Model.StackMachine Model.Item Suites.SItem Suites.SStackGen.
Import ListNotations.
Open Scope Z_scope.

Definition un_stackitem_case (s : sx) : option (profile * list (Z * Z * Z) * list item * list (op item)) :=
  match s with
  | SL [p; tab; init; SL ops] =>
      let? p := un_profile p in
      let? tab := un_libm tab in
      let? init := un_list un_item init in
      let? ops := un_all (un_op_g un_item) ops in
      Some (p, tab, init, ops)
  | _ => None
  end.

Section Run.
  Context {FO : FloatOps}.
  Definition sx_item_listing (l : list item) : sx := sx_str (items_str l).
  Definition stackitem_run (p : profile) (init : list item) (ops : list (op item)) : sx :=
    run_g sx_item sx_item_listing shallow_eq item_streq p init ops.
  Definition stackitem_check (init : list item) (ops : list (op item)) (observed : sx) : sx :=
    check_g sx_item sx_item_listing shallow_eq item_streq init ops observed.
End Run.

Definition pm_stackitem (s : sx) : sx :=
  match un_stackitem_case s with
  | Some (p, tab, init, ops) => let FO := flocq_ops tab in stackitem_run p init ops
  | None => sx_bad
  end.

Definition pm_stackitem_check (s : sx) : sx :=
  match s with
  | SL [c; observed] =>
      match un_stackitem_case c with
      | Some (p, tab, init, ops) => let FO := flocq_ops tab in stackitem_check init ops observed
      | None => sx_bad
      end
  | _ => sx_bad
  end.

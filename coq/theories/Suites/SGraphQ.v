(* Suite "graphq": a `run` case (Suites/SState.v, same case format) whose result is compared up to the
   iteration order of Rust's HashMaps: in the final state the top INTVECTOR is sorted ascending and the top
   NAME is replaced by its lines (split at '\n', trailing ',' and ' ' removed) sorted and joined by '\n'.
   Used for GRAPH.NODES, NODES*HISTORY, NODE*SUCCESSORS, NODE*NEIGHBORS, GRAPH.PRINT, GRAPH.PRINT*DIFF. *)
From Coq Require Import ZArith String List Bool.
From PushModel Require Import Base.Sx Base.Machine Base.ListOps Base.F32 Base.F32Flocq Model.Item Model.GraphT Model.State
  Model.InstrBase Model.Registry Model.Interp Model.RegistryAll Suites.SItem Suites.SGraphT Suites.SState.
Import ListNotations.
Open Scope Z_scope.

Fixpoint z_ins (x : Z) (l : list Z) : list Z :=
  match l with [] => [x] | h :: r => if x <=? h then x :: l else h :: z_ins x r end.
Definition z_sort (l : list Z) : list Z := fold_right z_ins [] l.

Fixpoint s_ins (x : str) (l : list str) : list str :=
  match l with [] => [x] | h :: r => if str_leb x h then x :: l else h :: s_ins x r end.
Definition s_sort (l : list str) : list str := fold_right s_ins [] l.

(* split at '\n' *)
Fixpoint split_nl (s : str) (cur : str) : list str :=
  match s with
  | [] => [rev cur]
  | c :: r => if c =? 10 then rev cur :: split_nl r [] else split_nl r (c :: cur)
  end.
Fixpoint drop_cs (s : str) : str :=
  match s with c :: r => if (c =? 44) || (c =? 32) then drop_cs r else s | [] => [] end.
Definition trim_end_cs (s : str) : str := rev (drop_cs (rev s)).
Definition canon_text (s : str) : str := join [10] (s_sort (map trim_end_cs (split_nl s []))).

Definition canon_state (s : state) : state :=
  let s1 := match st_ivec s with v :: r => set_ivec s (z_sort v :: r) | [] => s end in
  match st_name s1 with n :: r => set_name s1 (canon_text n :: r) | [] => s1 end.

Definition pm_graphq (c : sx) : sx :=
  match c with
  | SL [pr; tab; st; SZ mode; SZ arg; wd] =>
      match un_profile pr, un_libm tab, un_state st, un_world wd with
      | Some p, Some tab, Some s, Some w =>
          let FO := flocq_ops tab in
          if mode =? 0 then
            sx_res (fun r : bool * world * state => SL [sx_bool (fst (fst r)); sx_state (canon_state (snd r))])
                   (steps p full_registry (Z.to_nat arg) w s)
          else
            sx_res (fun r : outcome * world * state => SL [sx_outcome (fst (fst r)); sx_state (canon_state (snd r))])
                   (run p full_registry (fun _ => 0) w s)
      | _, _, _, _ => sx_bad
      end
  | _ => sx_bad
  end.

Definition pm_graphq_check (c : sx) : sx :=
  match c with
  | SL [case; observed] =>
      let m := pm_graphq case in
      if sx_eqb m sx_bad then sx_bad
      else match m with
           | SL (SZ 2 :: _) => m
           | _ => sx_bool (sx_eqb m observed)
           end
  | _ => sx_bad
  end.

(* Wire encoding of a whole PushState and the generic execution suite "run".
   state : (bool code exec float index int name bvec fvec ivec input output graph bind cfg quote send)
           every stack top-first; input/output oldest-first; bind sorted by name on output.
   case  : (profile libm state mode arg (next_node tape))
           mode 0 : arg interpreter steps       -> (finished state)
           mode 1 : PushInterpreter::run, clock never fires -> (outcome state)
                    outcome: 0 NoErrors 1 StepLimit 2 TimeLimit 3 GrowthCap 9 out-of-fuel (unreachable) *)
From Coq Require Import ZArith String List Bool.
From PushModel Require Import Base.Sx Base.Machine Base.ListOps Base.F32 Base.F32Flocq Model.Item Model.GraphT Model.State
  Model.InstrBase Model.Registry Model.Interp Model.RegistryAll Suites.SItem Suites.SGraphT.
Import ListNotations.
Open Scope Z_scope.

Definition sx_msg (m : msg) : sx := SL [sx_list SZ (fst m); sx_list sx_bool (snd m)].
Definition un_msg (s : sx) : option msg :=
  match s with
  | SL [h; b] => match un_zlist h, un_list un_bool b with Some h, Some b => Some (h, b) | _, _ => None end
  | _ => None
  end.

(* lexicographic order on code point strings, for the canonical order of bindings *)
Fixpoint str_leb (a b : str) : bool :=
  match a, b with
  | [], _ => true
  | _ :: _, [] => false
  | x :: ra, y :: rb => if x <? y then true else if y <? x then false else str_leb ra rb
  end.
Fixpoint ins_sorted (e : str * item) (l : list (str * item)) : list (str * item) :=
  match l with
  | [] => [e]
  | h :: r => if str_leb (fst e) (fst h) then e :: l else h :: ins_sorted e r
  end.
Definition sort_binds (l : list (str * item)) : list (str * item) := fold_right ins_sorted [] l.

Definition sx_cfg (c : config) : sx :=
  SL [SZ (cfg_max_rand_float c); SZ (cfg_min_rand_float c); SZ (cfg_max_rand_int c); SZ (cfg_min_rand_int c);
      SZ (cfg_eval_push_limit c); SZ (cfg_eval_time_limit c); SZ (cfg_growth_cap c);
      SZ (cfg_new_erc_name_prob c); SZ (cfg_max_points_rand c); SZ (cfg_max_points_prog c)].
Definition un_cfg (s : sx) : option config :=
  match s with
  | SL [SZ a; SZ b; SZ c; SZ d; SZ e; SZ f; SZ g; SZ h; SZ i; SZ j] =>
      Some {| cfg_max_rand_float := a; cfg_min_rand_float := b; cfg_max_rand_int := c; cfg_min_rand_int := d;
              cfg_eval_push_limit := e; cfg_eval_time_limit := f; cfg_growth_cap := g;
              cfg_new_erc_name_prob := h; cfg_max_points_rand := i; cfg_max_points_prog := j |}
  | _ => None
  end.

Definition sx_state (s : state) : sx :=
  SL [ sx_list sx_bool (st_bool s); sx_list sx_item (st_code s); sx_list sx_item (st_exec s);
       sx_list SZ (st_float s); sx_list (fun i => SL [SZ (fst i); SZ (snd i)]) (st_index s);
       sx_list SZ (st_int s); sx_list sx_str (st_name s);
       sx_list (sx_list sx_bool) (st_bvec s); sx_list (sx_list SZ) (st_fvec s); sx_list (sx_list SZ) (st_ivec s);
       sx_list sx_msg (st_input s); sx_list sx_msg (st_output s); sx_graphs (st_graph s);
       sx_list (fun e => SL [sx_str (fst e); sx_item (snd e)]) (sort_binds (st_bind s));
       sx_cfg (st_cfg s); sx_bool (st_quote s); sx_bool (st_send s) ].

Definition un_pair (s : sx) : option (Z * Z) :=
  match s with SL [SZ a; SZ b] => Some (a, b) | _ => None end.
Definition un_bind (s : sx) : option (str * item) :=
  match s with
  | SL [n; t] => match un_zlist n, un_item t with Some n, Some t => Some (n, t) | _, _ => None end
  | _ => None
  end.

Definition un_state (s : sx) : option state :=
  match s with
  | SL [b; c; e; f; ix; i; n; bv; fv; iv; inp; outp; g; bd; cfg; q; sd] =>
      let? b := un_list un_bool b in
      let? c := un_list un_item c in
      let? e := un_list un_item e in
      let? f := option_map (map f_canon) (un_zlist f) in
      let? ix := un_list un_pair ix in
      let? i := un_zlist i in
      let? n := un_list un_zlist n in
      let? bv := un_list (un_list un_bool) bv in
      let? fv := option_map (map (map f_canon)) (un_list un_zlist fv) in
      let? iv := un_list un_zlist iv in
      let? inp := un_list un_msg inp in
      let? outp := un_list un_msg outp in
      let? g := un_graphs g in
      let? bd := un_list un_bind bd in
      let? cfg := un_cfg cfg in
      let? q := un_bool q in
      let? sd := un_bool sd in
      Some {| st_bool := b; st_code := c; st_exec := e; st_float := f; st_index := ix; st_int := i;
              st_name := n; st_bvec := bv; st_fvec := fv; st_ivec := iv; st_input := inp; st_output := outp;
              st_graph := g; st_bind := bd; st_cfg := cfg; st_quote := q; st_send := sd |}
  | _ => None
  end.

Definition un_world (s : sx) : option world :=
  match s with
  | SL [SZ nn; tape] => match un_zlist tape with Some t => Some {| w_next_node := nn; w_tape := t |} | None => None end
  | _ => None
  end.

Definition sx_outcome (o : outcome) : sx :=
  SZ (match o with NoErrors => 0 | StepLimit => 1 | TimeLimit => 2 | GrowthCap => 3 | OutOfFuel => 9 end).

Definition pm_run (c : sx) : sx :=
  match c with
  | SL [pr; tab; st; SZ mode; SZ arg; wd] =>
      match un_profile pr, un_libm tab, un_state st, un_world wd with
      | Some p, Some tab, Some s, Some w =>
          let FO := flocq_ops tab in
          if mode =? 0 then
            sx_res (fun r : bool * world * state => SL [sx_bool (fst (fst r)); sx_state (snd r)])
                   (steps p full_registry (Z.to_nat arg) w s)
          else
            sx_res (fun r : outcome * world * state => SL [sx_outcome (fst (fst r)); sx_state (snd r)])
                   (run p full_registry (fun _ => 0) w s)
      | _, _, _, _ => sx_bad
      end
  | _ => sx_bad
  end.

(* the registered instruction names, for the registry-equality assertion *)
Definition pm_names (c : sx) : sx :=
  let FO := flocq_ops [] in
  SL [SZ 0; sx_list (fun e : str * sem => sx_str (fst e)) full_registry].

(* Generic checker for "implementation = reference" properties whose reference IS the
   proven model: the observed result must equal the model's result on the same case. *)
Definition pm_run_check (c : sx) : sx :=
  match c with
  | SL [case; observed] =>
      let m := pm_run case in
      if sx_eqb m sx_bad then sx_bad
      else match m with
           | SL (SZ 2 :: _) => m              (* libm value still missing: the caller resolves it and retries *)
           | _ => sx_bool (sx_eqb m observed)
           end
  | _ => sx_bad
  end.

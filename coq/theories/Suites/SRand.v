(* Suite "rand" (C12 / C13).  The implementation's generator cannot be seeded, so the tie to the
   code is by MEMBERSHIP: a case asks the real code for n independent draws.
     case     : (profile () op n args tape)
     harness  : (0 (det draws))  |  (1) panic
     pm_rand  : (0 (det ()))     |  (1)          -- the model run on the case's tape
   `det` is the part of the result that does not depend on the generator (None/Some, the state
   around the pushed value); lib/vcheck.py compares it (the check blanks the draws before
   diffing).  pm_rand_check evaluates the PROVED characterisation (Spec/RandSpec.v: valid_gen,
   valid_parts, the range / length / count predicates) on every observed draw:
   1 holds, 0 fails, 2 outside the quantifier.  Ops and argument layouts: harness/src/suites/rand.rs. *)
From Coq Require Import ZArith String List Bool Lia.
From Flocq Require Import IEEE754.BinarySingleNaN IEEE754.Binary IEEE754.Bits Core.
From PushModel Require Import Base.Sx Base.Machine Base.ListOps Base.F32 Base.F32Flocq Model.Item Model.GraphT Model.State
  Model.InstrBase Model.Registry Model.RandomGen Model.IRand Model.RegistryRand Spec.RandSpec Proofs.RandVec
  Suites.SItem Suites.SState.
Import ListNotations.
Open Scope Z_scope.

(* the stack a RAND instruction pushes on *)
Inductive tgt := TBool | TInt | TFloat | TCode | TName | TBvec | TIvec | TFvec.
Definition tgt_table : list (string * tgt) :=
  [ ("BOOLEAN.RAND", TBool); ("INTEGER.RAND", TInt); ("FLOAT.RAND", TFloat); ("CODE.RAND", TCode);
    ("NAME.RAND", TName); ("NAME.RANDBOUNDNAME", TName); ("BOOLVECTOR.RAND", TBvec);
    ("INTVECTOR.RAND", TIvec); ("FLOATVECTOR.RAND", TFvec) ]%string.
Fixpoint assoc_str {A} (tbl : list (string * A)) (n : str) : option A :=
  match tbl with
  | [] => None
  | (k, v) :: r => if str_eqb n (s2l k) then Some v else assoc_str r n
  end.
Definition tgt_len (t : tgt) (s : state) : nat :=
  match t with
  | TBool => length (st_bool s) | TInt => length (st_int s) | TFloat => length (st_float s)
  | TCode => length (st_code s) | TName => length (st_name s) | TBvec => length (st_bvec s)
  | TIvec => length (st_ivec s) | TFvec => length (st_fvec s)
  end.
Definition tgt_pop (t : tgt) (s : state) : state :=
  match t with
  | TBool => set_bool s (tl (st_bool s)) | TInt => set_int s (tl (st_int s))
  | TFloat => set_float s (tl (st_float s)) | TCode => set_code s (tl (st_code s))
  | TName => set_name s (tl (st_name s)) | TBvec => set_bvec s (tl (st_bvec s))
  | TIvec => set_ivec s (tl (st_ivec s)) | TFvec => set_fvec s (tl (st_fvec s))
  end.

Definition is_some {A} (o : option A) : bool := match o with Some _ => true | None => false end.
Definition un_names (s : sx) : option (list str) := un_list un_zlist s.

Section S.
  Context {FO : FloatOps}.

  Definition det_only {A} (f : A -> sx) (r : res A) : sx := sx_res (fun a => SL [f a; SL []]) r.
  Definition det_unit {A} (r : res A) : sx := det_only (fun _ => SL []) r.
  Definition det_opt {A B} (r : res (option A * B)) : sx := det_only (fun a => sx_bool (is_some (fst a))) r.

  Definition run_model (p : profile) (op : Z) (args : list sx) (t : tape) : sx :=
    match op, args with
    | 1, [SZ r] => det_unit (decompose (Z.to_nat r) t r)
    | 2, [st; ins; SZ k; _; _] =>
        match un_state st, un_names ins with
        | Some s, Some instrs => det_unit (random_code_with_size (st_bind s) (st_cfg s) instrs t k)
        | _, _ => sx_bad
        end
    | 3, [st; ins; SZ k; _; _] =>
        match un_state st, un_names ins with
        | Some s, Some instrs => det_opt (random_code (st_bind s) (st_cfg s) instrs t k)
        | _, _ => sx_bad
        end
    | 4, SZ size :: SZ sp :: _ => det_opt (random_bool_vector p size sp t)
    | 5, [SZ size; SZ mean; SZ sd] => det_opt (random_float_vector size mean sd t)
    | 6, [SZ size; SZ lo; SZ hi] => det_opt (random_int_vector size lo hi t)
    | 7, [st] => match un_state st with Some s => det_opt (random_float (st_cfg s) t) | None => sx_bad end
    | 8, [st] => match un_state st with Some s => det_opt (random_integer (st_cfg s) t) | None => sx_bad end
    | 9, [] => det_unit (Ok (new_random_name t))
    | 10, [st] => match un_state st with Some s => det_unit (existing_random_name (st_bind s) t) | None => sx_bad end
    | 11, st :: ins :: nm :: _ =>
        match un_state st, un_names ins, un_zlist nm with
        | Some s, Some instrs, Some nm =>
            match assoc_str (tbl_rand instrs) nm, assoc_str tgt_table nm with
            | Some f, Some tg =>
                det_only (fun r : world * state =>
                            let s' := snd r in
                            let pushed := Nat.ltb (tgt_len tg s) (tgt_len tg s') in
                            SL [sx_bool pushed; sx_state (if pushed then tgt_pop tg s' else s')])
                         (f p {| w_next_node := 1; w_tape := t |} s)
            | _, _ => sx_bad
            end
        | _, _, _ => sx_bad
        end
    | _, _ => sx_bad
    end.

  (* ---------------- the checker ---------------- *)
  Definition all_sx (f : sx -> bool) (draws : sx) : bool :=
    match draws with SL l => forallb f l | _ => false end.
  Definition is_nil_sx (x : sx) : bool := match x with SL [] => true | _ => false end.
  Definition ok_flag (x : sx) : bool := match x with SZ 0 => false | SZ _ => true | _ => false end.

  (* every position below [size] is non-default in at least one observed vector *)
  Fixpoint or_vec (a b : list bool) : list bool :=
    match a, b with
    | x :: ra, y :: rb => (x || y) :: or_vec ra rb
    | _, _ => a
    end.
  Definition seen_all (d : bool) (size : Z) (vs : list (list bool)) : bool :=
    forallb (fun b => b)
      (fold_left (fun acc v => or_vec acc (map (fun b => negb (Bool.eqb b d)) v)) vs (repeat false (Z.to_nat size))).

  (* draws of a bool-vector generator: `unw` extracts the vector from one draw ((vec) or (vec ok)) *)
  Definition check_bvec (size sp : Z) (reach : bool) (unw : sx -> option (option sx)) (draws : sx) : bool :=
    if bv_params_ok size sp then
      nbits_sane size sp &&
      match draws with
      | SL l =>
          match un_all (fun x => match unw x with Some (Some v) => un_list un_bool v | _ => None end) l with
          | Some vs =>
              forallb (bool_vec_ok size sp) vs &&
              (if reach && (1 <=? nbits size sp) then seen_all (bv_default sp) size vs else true)
          | None => false
          end
      | _ => false
      end
    else all_sx (fun x => match unw x with Some None => true | _ => false end) draws.
  Definition check_ivec (size lo hi : Z) (unw : sx -> option (option sx)) (draws : sx) : bool :=
    all_sx (fun x => match unw x with
                     | Some (Some v) => iv_params_ok size lo hi &&
                                        match un_zlist v with Some v => int_vec_ok size lo hi v | None => false end
                     | Some None => negb (iv_params_ok size lo hi)
                     | None => false
                     end) draws.
  Definition check_fvec (size sd : Z) (unw : sx -> option (option sx)) (draws : sx) : bool :=
    all_sx (fun x => match unw x with
                     | Some (Some v) => fv_params_ok size sd &&
                                        match un_zlist v with Some v => float_vec_ok size v | None => false end
                     | Some None => negb (fv_params_ok size sd)
                     | None => false
                     end) draws.
  Definition check_float (c : config) (unw : sx -> option (option sx)) (draws : sx) : bool :=
    let lo := cfg_min_rand_float c in
    let hi := cfg_max_rand_float c in
    let valid := flt lo hi && f_is_finite (fsub hi lo) in
    all_sx (fun x => match unw x with
                     | Some (Some (SZ v)) => valid && fle lo v && flt v hi
                     | Some None => negb valid
                     | _ => false
                     end) draws.
  Definition check_int (c : config) (unw : sx -> option (option sx)) (draws : sx) : bool :=
    let lo := cfg_min_rand_int c in
    let hi := cfg_max_rand_int c in
    all_sx (fun x => match unw x with
                     | Some (Some (SZ v)) => (lo <? hi) && (lo <=? v) && (v <? hi)
                     | Some None => hi <=? lo
                     | _ => false
                     end) draws.
  Definition check_existing (binds : list (str * item)) (nm : sx) : bool :=
    match un_zlist nm with
    | Some nm => match binds with [] => nonempty nm | _ => mem_str nm (map fst binds) end
    | None => false
    end.
  (* a generated item with its exercise flag; [bound] = exclusive upper bound on the size, or exact size *)
  Definition check_item (instrs : list str) (s : state) (exact : option Z) (bound : Z) (it ok : sx) : bool :=
    match un_item it with
    | Some x =>
        let n := match exact with Some n => n | None => size x end in
        valid_gen instrs (st_bind s) (n_event_new (st_cfg s)) n x && (1 <=? size x) && (size x <? bound) && ok_flag ok
    | None => false
    end.

  (* function-level draws: () | (v) *)
  Definition unw_opt (x : sx) : option (option sx) :=
    match x with SL [] => Some None | SL [v] => Some (Some v) | _ => None end.
  (* instruction-level draws: () | (v ok) *)
  Definition unw_instr (x : sx) : option (option sx) :=
    match x with SL [] => Some None | SL [v; SZ _] => Some (Some v) | _ => None end.

  Definition bigZ : Z := 1000000000000000000000.

  Definition check_draws (op : Z) (args : list sx) (draws : sx) : option bool :=
    match op, args with
    | 1, [SZ r] => if r <? 1 then None
                   else Some (all_sx (fun x => match un_zlist x with Some ps => valid_parts r ps | None => false end) draws)
    | 2, [st; ins; SZ k; _; _] =>
        match un_state st, un_names ins with
        | Some s, Some instrs =>
            if k <? 1 then None
            else Some (all_sx (fun x => match x with SL [it; ok] => check_item instrs s (Some k) bigZ it ok | _ => false end) draws)
        | _, _ => Some false
        end
    | 3, [st; ins; SZ k; _; _] =>
        match un_state st, un_names ins with
        | Some s, Some instrs =>
            Some (all_sx (fun x => match x with
                                   | SL [SL []; _] => k <=? 1
                                   | SL [SL [it]; ok] => (2 <=? k) && check_item instrs s None k it ok
                                   | _ => false
                                   end) draws)
        | _, _ => Some false
        end
    | 4, [SZ size; SZ sp; SZ reach] => Some (check_bvec size sp (reach =? 1) unw_opt draws)
    | 5, [SZ size; SZ mean; SZ sd] => Some (check_fvec size sd unw_opt draws)
    | 6, [SZ size; SZ lo; SZ hi] => Some (check_ivec size lo hi unw_opt draws)
    | 7, [st] => match un_state st with Some s => Some (check_float (st_cfg s) unw_opt draws) | None => Some false end
    | 8, [st] => match un_state st with Some s => Some (check_int (st_cfg s) unw_opt draws) | None => Some false end
    | 9, [] => Some (all_sx (fun x => match un_zlist x with Some nm => nonempty nm | None => false end) draws)
    | 10, [st] => match un_state st with Some s => Some (all_sx (check_existing (st_bind s)) draws) | None => Some false end
    | 11, [st; ins; nm; _; _; SZ reach] =>
        match un_state st, un_names ins, un_zlist nm with
        | Some s, Some instrs, Some nm =>
            match assoc_str tgt_table nm with
            | Some TBool => Some (all_sx (fun x => match x with SL [v; SZ _] => is_some (un_bool v) | _ => false end) draws)
            | Some TInt => Some (check_int (st_cfg s) unw_instr draws)
            | Some TFloat => Some (check_float (st_cfg s) unw_instr draws)
            | Some TCode =>
                match st_int s with
                | n :: _ =>
                    let limit := Z.min (Z.abs n) (Z.abs (cfg_max_points_rand (st_cfg s))) in
                    Some (all_sx (fun x => match x with
                                           | SL [] => limit <=? 1
                                           | SL [it; ok] => (2 <=? limit) && check_item instrs s None limit it ok
                                           | _ => false
                                           end) draws)
                | [] => Some (all_sx is_nil_sx draws)
                end
            | Some TName =>
                if str_eqb nm (s2l "NAME.RAND")
                then Some (all_sx (fun x => match x with
                                            | SL [v; SZ _] => match un_zlist v with Some n => nonempty n | None => false end
                                            | _ => false end) draws)
                else Some (all_sx (fun x => match x with SL [v; SZ _] => check_existing (st_bind s) v | _ => false end) draws)
            | Some TBvec =>
                match st_int s, st_float s with
                | size :: _, sp :: _ => Some (check_bvec size sp (reach =? 1) unw_instr draws)
                | _, _ => Some (all_sx is_nil_sx draws)
                end
            | Some TIvec =>
                match st_int s with
                | size :: hi :: lo :: _ => Some (check_ivec size lo hi unw_instr draws)
                | _ => Some (all_sx is_nil_sx draws)
                end
            | Some TFvec =>
                match st_int s, st_float s with
                | size :: _, mean :: sd :: _ => Some (check_fvec size sd unw_instr draws)
                | _, _ => Some (all_sx is_nil_sx draws)
                end
            | None => Some false
            end
        | _, _, _ => Some false
        end
    | _, _ => Some false
    end.
End S.

Definition pm_rand (c : sx) : sx :=
  match c with
  | SL [pr; _; SZ op; SZ _; SL args; tp] =>
      match un_profile pr, un_zlist tp with
      | Some p, Some t => let FO := flocq_ops [] in run_model p op args t
      | _, _ => sx_bad
      end
  | _ => sx_bad
  end.

(* (case observed) -> 1 / 0 / 2.  A panic of the implementation inside the quantifier is a failure. *)
Definition pm_rand_check (a : sx) : sx :=
  match a with
  | SL [SL (pr :: _ :: SZ op :: SZ _ :: SL args :: _); observed] =>
      let FO := flocq_ops [] in
      match observed with
      | SL [SZ 0; SL [_; draws]] =>
          match check_draws op args draws with
          | Some b => sx_bool b
          | None => SZ 2
          end
      | _ =>
          match check_draws op args (SL []) with
          | Some _ => SZ 0
          | None => SZ 2
          end
      end
  | _ => sx_bad
  end.

(* the pinned code on the executable float instance *)
Example rand_pinned_nan_sparsity_refuted :
  let FO := flocq_ops [] in
  random_bool_vector_pinned Debug 3 f_nan [] = Ok (Some [false; false; false], []) /\
  random_bool_vector Debug 3 f_nan [] = Ok (None, []).
Proof. vm_compute. split; reflexivity. Qed.
Example rand_pinned_last_position_refuted :
  let FO := flocq_ops [] in
  forallb (fun x => match random_bool_vector_pinned Debug 2 f_half [x] with
                    | Ok (Some [true; false], _) => true | _ => false end) [0; 1; 2; 3; 7; -5] = true /\
  random_bool_vector Debug 2 f_half [1] = Ok (Some [false; true], []).
Proof. vm_compute. split; reflexivity. Qed.
(* the float facts the abstract theorems take as a hypothesis, on the grid of the check *)
Example rand_nbits_sane_grid :
  let FO := flocq_ops [] in
  forallb (fun size => forallb (fun sp => nbits_sane size sp)
             [0; 1008981770; 1048576000; 1056964608; 1057132380; 1061158912; 1065353216; 2147483648])
          [0; 1; 2; 3; 7; 64; 200; 100000; 2147483646] = true.
Proof. vm_compute. reflexivity. Qed.

(* For the executable IEEE instance the interval of C13_float_rand_in_range is the plain one:
   f_in_range's first disjunct (bit equality with min) implies min <= x < max there, because a
   float that compares Lt with something is not a NaN and therefore compares Eq with itself. *)
Lemma b32_compare_lt_refl (x y : binary32) : b32_compare x y = Some Lt -> b32_compare x x = Some Eq.
Proof.
  unfold b32_compare.
  destruct x as [s|s|s pl H|s m e H]; destruct y as [s'|s'|s' pl' H'|s' m' e' H']; cbn; try discriminate; intros _;
    try (destruct s; reflexivity).
  all: try (rewrite Z.compare_refl, Pos.compare_refl; destruct s; reflexivity).
Qed.
Lemma flocq_f_in_range tab lo hi x :
  let FO := flocq_ops tab in
  flt lo hi = true -> f_in_range lo hi x = true -> fle lo x && flt x hi = true.
Proof.
  intros FO Hlt H. unfold f_in_range in H. apply orb_true_iff in H as [H|H]; [|exact H].
  apply Z.eqb_eq in H. subst x. rewrite Hlt, andb_true_r.
  unfold flt, fle in *. cbn [fcmp FO flocq_ops] in *. unfold fl_cmp in *.
  destruct (b32_compare (of_bits lo) (of_bits hi)) as [[| |]|] eqn:E; try discriminate.
  now rewrite (b32_compare_lt_refl _ _ E).
Qed.

(* Suites of property C01 (no program crashes the host).

   "nopanic.env"   : does a `run` case (see Suites/SState.v) stay inside the resource envelope the
                     property is stated in?  Decided on the MODEL, by simulating the case step by step
                     and evaluating a guard BEFORE every step ((iii) also on the last state):
                       (i)   an instruction whose operand is an allocation size (ONES / ZEROS / SINE /
                             the vector RANDs) is only executed with top INTEGER <= ALLOC_BOUND; the
                             LIST.NEIGHBOR* family (cost size x dimensions) only with its four INTEGER
                             operands <= NBR_BOUND; CODE.RAND only when its point limit
                             min(|top INTEGER|, |max_points_in_random_expressions|) is <= RAND_POINTS_BOUND;
                       (ii)  EXEC.CMD is only executed when it cannot spawn (operands missing) or when
                             every NAME it consumes spells the harmless command "true";
                       (iii) the size measure of the state (weighted points of CODE, EXEC and the
                             bindings, characters of the NAME stack, elements of the vector stacks,
                             stack depths) is <= SIZE_BOUND;
                       (iv)  no item on CODE, EXEC or in the bindings is nested deeper than DEPTH_BOUND
                             (pushr recurses over items on the native stack: Clone, Drop, Item::size,
                             Display; the model cannot exhibit native stack exhaustion);
                     and the number of steps asked for is <= STEP_BOUND.
                     result (0 1) inside, (0 0) outside, (2 fn arg) a libm value is missing.
                     A Panic of the model step ends the simulation INSIDE the envelope: the differential
                     run shows it.
   "nopanic.envq"  : the same decision with tighter bounds (allocation sizes <= 3000, vector lengths <= 9000,
                     size measure <= 60000): the filter the generators of the model-compared streams apply, so
                     that the list-based model stays fast.  Inside it implies inside the envelope.
   "nopanic.check" : (case observed) -> 1 the observed result is a normal return, 0 it is a panic / abort,
                     2 the case lies outside the envelope.  Two case shapes: a `run` case (6 elements)
                     and a `randcode` case (4 elements), whose observed payload (N k texts) counts the
                     panicking programs: 1 iff k = 0.
   "runnp"         : suite "run" with the payload dropped: (0 ()) returned normally, (1) panicked.  For cases
                     whose result is not a function of the case (the RAND instructions: the implementation
                     draws from thread_rng, the model from the tape of the case); the theorems of C01 hold for
                     every tape, so "returned normally" is compared and nothing else.
   "randcode"      : the model side of the stream of programs drawn from pushr's own random code
                     generator: (profile N max_points (name ...)) -> (0 (N 0 ())), "no program panicked". *)
From Coq Require Import ZArith String List Bool.
From PushModel Require Import Base.Sx Base.Machine Base.ListOps Base.F32 Base.F32Flocq Model.Item Model.GraphT Model.State
  Model.InstrBase Model.Registry Model.Interp Model.RegistryAll Suites.SItem Suites.SGraphT Suites.SState.
Import ListNotations.
Open Scope Z_scope.

Definition ALLOC_BOUND : Z := 100000.
Definition NBR_BOUND : Z := 1000.
Definition SIZE_BOUND : Z := 200000.
Definition STEP_BOUND : Z := 10000.
Definition DEPTH_BOUND : Z := 5000.
Definition RAND_POINTS_BOUND : Z := 1000.

Definition alloc_names : list str := map s2l
  [ "BOOLVECTOR.ONES"; "BOOLVECTOR.ZEROS"; "INTVECTOR.ONES"; "INTVECTOR.ZEROS"; "FLOATVECTOR.ONES"; "FLOATVECTOR.ZEROS";
    "FLOATVECTOR.SINE"; "BOOLVECTOR.RAND"; "INTVECTOR.RAND"; "FLOATVECTOR.RAND" ]%string.
Definition nbr_names : list str := map s2l
  [ "LIST.NEIGHBOR*IDS"; "LIST.NEIGHBOR*BVALS"; "LIST.NEIGHBOR*IVALS"; "LIST.NEIGHBOR*FVALS" ]%string.
Definition cmd_name : str := s2l "EXEC.CMD".
Definition code_rand_name : str := s2l "CODE.RAND".
Definition harmless_cmd : str := s2l "true".

Fixpoint str_mem (n : str) (l : list str) : bool :=
  match l with [] => false | x :: r => str_eqb n x || str_mem n r end.

(* ---- the size measure ---- *)
Fixpoint weight (t : item) : Z :=
  match t with
  | IList l => 1 + (fix go (l : list item) : Z := match l with [] => 0 | x :: r => weight x + go r end) l
  | IInstr n => 1 + zlen n
  | IName n => 1 + zlen n
  | ILit (LBoolVec v) => 1 + zlen v
  | ILit (LIntVec v) => 1 + zlen v
  | ILit (LFloatVec v) => 1 + zlen v
  | ILit _ => 1
  end.
Definition weights (l : list item) : Z := fold_right (fun x a => weight x + a) 0 l.
Definition lens {A} (l : list (list A)) : Z := fold_right (fun x a => zlen x + 1 + a) 0 l.
Definition msgs (l : list msg) : Z := fold_right (fun m a => zlen (fst m) + zlen (snd m) + 1 + a) 0 l.

Definition measure (s : state) : Z :=
  weights (st_code s) + weights (st_exec s) +
  fold_right (fun e a => zlen (fst e) + weight (snd e) + a) 0 (st_bind s) +
  lens (st_name s) + lens (st_bvec s) + lens (st_fvec s) + lens (st_ivec s) +
  zlen (st_bool s) + zlen (st_float s) + zlen (st_int s) + zlen (st_index s) +
  msgs (st_input s) + msgs (st_output s) + zlen (st_graph s).

Fixpoint depth (t : item) : Z :=
  match t with
  | IList l => 1 + (fix go (l : list item) : Z := match l with [] => 0 | x :: r => Z.max (depth x) (go r) end) l
  | _ => 0
  end.
Definition depths (l : list item) : Z := fold_right (fun x a => Z.max (depth x) a) 0 l.
Definition nesting (s : state) : Z :=
  Z.max (depths (st_code s)) (Z.max (depths (st_exec s)) (depths (map snd (st_bind s)))).

(* the bounds that differ between the envelope and the generators' tighter filter "nopanic.envq" *)
Record bounds := { b_alloc : Z; b_size : Z; b_veclen : Z }.
Definition env_bounds : bounds := {| b_alloc := ALLOC_BOUND; b_size := SIZE_BOUND; b_veclen := SIZE_BOUND |}.
(* what the generated cases of the model-compared streams are held to: the list-based model is quadratic in the
   vector length for the element-wise vector instructions and in the points for some CODE instructions *)
Definition quick_bounds : bounds := {| b_alloc := 3000; b_size := 60000; b_veclen := 9000 |}.

Definition max_len {A} (l : list (list A)) : Z := fold_right (fun x a => Z.max (zlen x) a) 0 l.
Definition size_guard (b : bounds) (s : state) : bool :=
  (measure s <=? b_size b) && (nesting s <=? DEPTH_BOUND) &&
  (max_len (st_bvec s) <=? b_veclen b) && (max_len (st_fvec s) <=? b_veclen b) && (max_len (st_ivec s) <=? b_veclen b).

(* ---- the guard ---- *)
Definition ints_le (k : nat) (b : Z) (s : state) : bool := forallb (fun z => z <=? b) (firstn k (st_int s)).

(* EXEC.CMD pops n, then n + 1 names when it has them; only then it spawns *)
Definition cmd_guard (s : state) : bool :=
  match st_int s with
  | n :: _ =>
      if n <? 0 then true
      else if zlen (st_name s) <? n + 1 then true
      else forallb (fun x => str_eqb x harmless_cmd) (firstn (Z.to_nat (n + 1)) (st_name s))
  | [] => true
  end.

Definition instr_guard (b : bounds) (s : state) : bool :=
  match st_exec s with
  | IInstr n :: _ =>
      if str_mem n alloc_names then ints_le 1 (b_alloc b) s
      else if str_mem n nbr_names then ints_le 4 NBR_BOUND s
      else if str_eqb n cmd_name then cmd_guard s
      else if str_eqb n code_rand_name then
        match st_int s with
        | z :: _ => Z.min (Z.abs z) (Z.abs (cfg_max_points_rand (st_cfg s))) <=? RAND_POINTS_BOUND
        | [] => true
        end
      else true
  | _ => true
  end.

Section Sim.
  Context {FO : FloatOps}.
  Variable p : profile.
  Variable reg : registry.
  Variable b : bounds.

  (* [grow]: stop like the run loop does when a step exceeds the growth cap *)
  Fixpoint sim (grow : bool) (k : nat) (w : world) (s : state) : res bool :=
    if negb (size_guard b s) then Ok false
    else match k with
         | O => Ok true
         | S k' =>
             if negb (instr_guard b s) then Ok false
             else match step p reg w s with
                  | Ok (fin, w', s') =>
                      if fin then Ok true
                      else if grow && (state_size s + cfg_growth_cap (st_cfg s') <? state_size s')
                           then Ok (size_guard b s')
                           else sim grow k' w' s'
                  | Panic => Ok true
                  | Need fn x => Need fn x
                  end
         end.
End Sim.

Definition sx_inside (b : bool) : sx := SL [SZ 0; sx_bool b].

Definition env_with (b : bounds) (c : sx) : sx :=
  match c with
  | SL [pr; tab; st; SZ mode; SZ arg; wd] =>
      match un_profile pr, un_libm tab, un_state st, un_world wd with
      | Some p, Some tab, Some s, Some w =>
          let FO := flocq_ops tab in
          let reg := full_registry in
          if mode =? 0 then
            if STEP_BOUND <? arg then sx_inside false
            else sx_res sx_bool (sim p reg b false (Z.to_nat arg) w s)
          else
            let s1 := copy_to_code s in
            let lim := cfg_eval_push_limit (st_cfg s1) in
            if STEP_BOUND <? lim then sx_inside false
            else sx_res sx_bool (sim p reg b true (Z.to_nat (lim + 1)) w s1)
      | _, _, _, _ => sx_bad
      end
  | _ => sx_bad
  end.

Definition pm_nopanic_env : sx -> sx := env_with env_bounds.
(* the generators' filter: inside [quick_bounds] implies inside the envelope *)
Definition pm_nopanic_envq : sx -> sx := env_with quick_bounds.

(* ---- suite "run" reduced to normal return / panic ---- *)
Definition pm_runnp (c : sx) : sx :=
  match pm_run c with
  | SL [SZ 0; _] => SL [SZ 0; SL []]
  | r => r
  end.

(* ---- stream (c): programs of pushr's own random code generator ---- *)
Definition randcode_ok (c : sx) : option Z :=
  match c with
  | SL [pr; SZ n; SZ maxp; names] =>
      match un_profile pr, un_list un_zlist names with
      | Some _, Some _ => if (0 <=? n) && (2 <=? maxp) then Some n else None
      | _, _ => None
      end
  | _ => None
  end.

Definition pm_randcode (c : sx) : sx :=
  match randcode_ok c with
  | Some n => SL [SZ 0; SL [SZ n; SZ 0; SL []]]
  | None => sx_bad
  end.

(* ---- the property predicate on an observed result ---- *)
Definition normal_return (o : sx) : bool := match o with SL (SZ 0 :: _) => true | _ => false end.

Definition pm_nopanic_check (a : sx) : sx :=
  match a with
  | SL [case; observed] =>
      match case with
      | SL [_; _; _; _; _; _] =>
          match pm_nopanic_env case with
          | SL [SZ 0; SZ 1] => sx_bool (normal_return observed)
          | SL [SZ 0; SZ 0] => SZ 2
          | SL (SZ 2 :: r) => SL (SZ 2 :: r)        (* libm value missing: the caller resolves it and retries *)
          | _ => sx_bad
          end
      | SL [_; _; _; _] =>
          match randcode_ok case with
          | Some _ =>
              match observed with
              | SL [SZ 0; SL [SZ _; SZ k; SL _]] => sx_bool (k =? 0)
              | _ => SZ 0
              end
          | None => sx_bad
          end
      | _ => sx_bad
      end
  | _ => sx_bad
  end.

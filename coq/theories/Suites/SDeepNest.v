(* Checker "deepnest.check" (C01, implementation-only suite "deepnest"): a program next to an item
   nested `depth` levels deep must return normally.  case: (profile depth core where program limit).
   1 = returned, 0 = panicked / aborted.  "deepnest.known": class 1 = depth above 5000 — native stack
   exhaustion in pushr's recursive clone / Drop / Display (known finding: outside the Gallina model,
   no small safe repair). *)
From Coq Require Import ZArith List Bool.
From PushModel Require Import Base.Sx.
Import ListNotations.
Open Scope Z_scope.

Definition pm_deepnest_check (a : sx) : sx :=
  match a with
  | SL [SL (SZ _ :: SZ _ :: _); SL (SZ 0 :: _)] => SZ 1
  | SL [SL (SZ _ :: SZ _ :: _); _] => SZ 0
  | _ => sx_bad
  end.

Definition pm_deepnest_known (c : sx) : sx :=
  match c with
  | SL (SZ _ :: SZ depth :: _) => if 5000 <? depth then SZ 1 else SZ 0
  | _ => sx_bad
  end.

(* Wire encoding of graph values carried by a state:
   graph : (((id state) ...) ((dest ((origin weight) ...)) ...)) ; graph stack oldest-first;
   nodes sorted by id, incoming-edge lists sorted by destination.  Node ids are ABSOLUTE (the real ids of
   the process-global counter; id protocol: header of Model/IGraph.v), nothing is renamed. *)
From Coq Require Import ZArith List Bool.
From PushModel Require Import Base.Sx Base.F32 Model.GraphT.
Import ListNotations.
Open Scope Z_scope.

Definition sx_zpair (e : Z * Z) : sx := SL [SZ (fst e); SZ (snd e)].
Definition sx_graph (g : graph) : sx :=
  SL [ sx_list sx_zpair (g_nodes g);
       sx_list (fun e : Z * list (Z * f32) => SL [SZ (fst e); sx_list sx_zpair (snd e)]) (g_edges g) ].
Definition sx_graphs (l : list graph) : sx := sx_list sx_graph l.
Definition un_zpair (s : sx) : option (Z * Z) := match s with SL [SZ a; SZ b] => Some (a, b) | _ => None end.
Definition un_graph (s : sx) : option graph :=
  match s with
  | SL [ns; es] =>
      match un_list un_zpair ns,
            un_list (fun e => match e with
                              | SL [SZ d; l] => match un_list un_zpair l with Some l => Some (d, map (fun e => (fst e, f_canon (snd e))) l) | None => None end
                              | _ => None end) es with
      | Some ns, Some es => Some (mkGraph ns es)
      | _, _ => None
      end
  | _ => None
  end.
Definition un_graphs (s : sx) : option (list graph) := un_list un_graph s.

(* Checker "insext.check" (C08): "CODE.INSERT at i makes a following EXTRACT at i yield the inserted
   item".  The case is a "run" case (mode 0, 4 steps) with EXEC = i CODE.INSERT i CODE.EXTRACT and at
   least two CODE items (target on top, item to insert second).  1 = the top CODE item afterwards is
   the inserted item, 0 = it is not, 2 = other shape.
   "insext.known": class 1 = the index is outside 0 < i < size(target): CODE.INSERT does not
   normalise its index and never replaces the root (known finding, pinned by a unit test). *)
From Coq Require Import ZArith String List Bool.
From PushModel Require Import Base.Sx Base.Machine Base.ListOps Base.F32 Model.Item Model.GraphT Model.State
  Model.InstrBase Suites.SItem Suites.SState Suites.SLoops.
Import ListNotations.
Open Scope Z_scope.

Definition insext_shape (c : sx) : option (Z * item * item) :=
  match c with
  | SL [_; _; st; SZ 0; SZ 4; _] =>
      match un_state st with
      | Some s =>
          match st_exec s, st_code s with
          | [ILit (LInt i); a; ILit (LInt j); b], t :: x :: _ =>
              if (i =? j) && is_i a "CODE.INSERT" && is_i b "CODE.EXTRACT" then Some (i, t, x) else None
          | _, _ => None
          end
      | None => None
      end
  | _ => None
  end.

Definition pm_insext_check (a : sx) : sx :=
  match a with
  | SL [c; observed] =>
      match insext_shape c with
      | Some (_, _, x) =>
          match observed with
          | SL [SZ 0; SL [_; SL (_ :: SL (top :: _) :: _)]] => sx_bool (sx_eqb top (sx_item x))
          | _ => SZ 0
          end
      | None => SZ 2
      end
  | _ => sx_bad
  end.

Definition pm_insext_known (a : sx) : sx :=
  match a with
  | SL [c; _] => match insext_shape c with
                 | Some (i, t, _) => if (0 <? i) && (i <? size t) then SZ 0 else SZ 1
                 | None => SZ 0
                 end
  | _ => sx_bad
  end.

(* Checker "codeeq.check" (C08): CODE.= / EXEC.= "agree with the list structure of their operands":
   the pushed BOOLEAN must be the structural equality [equals] of the two top items.
   "codeeq.known": class 2 = the two items differ structurally but print the same text (or are
   NaN-bearing and print the same): the instructions compare printed text (known finding). *)
From PushModel Require Import Base.F32Flocq.

Definition codeeq_shape (c : sx) : option (list (Z * Z * Z) * item * item) :=
  match c with
  | SL [_; tab; st; SZ 0; SZ 1; _] =>
      match un_libm tab, un_state st with
      | Some tb, Some s =>
          match st_exec s with
          | i :: rest =>
              if is_i i "CODE.=" then
                match st_code s with b :: a :: _ => Some (tb, a, b) | _ => None end
              else if is_i i "EXEC.=" then
                match rest with b :: a :: _ => Some (tb, a, b) | _ => None end
              else None
          | [] => None
          end
      | _, _ => None
      end
  | _ => None
  end.

Definition pm_codeeq_check (a : sx) : sx :=
  match a with
  | SL [c; observed] =>
      match codeeq_shape c with
      | Some (tb, x, y) =>
          let FO := flocq_ops tb in
          match observed with
          | SL [SZ 0; SL [_; SL (SL (top :: _) :: _)]] => sx_bool (sx_eqb top (sx_bool (equals x y)))
          | _ => SZ 0
          end
      | None => SZ 2
      end
  | _ => sx_bad
  end.

Definition pm_codeeq_known (a : sx) : sx :=
  match a with
  | SL [c; _] =>
      match codeeq_shape c with
      | Some (tb, x, y) => let FO := flocq_ops tb in
                           if Bool.eqb (equals x y) (item_streq x y) then SZ 0 else SZ 2
      | None => SZ 0
      end
  | _ => sx_bad
  end.

(* Wire suite "item": one call of a tree function of pushr::push::item::Item.
   case : (profile libm op args...)
     0 size(t)            1 shallow_size(t)        2 traverse(t, d)      3 insert(t, x, d)
     4 substitute(t, pat, sub)   5 contains(t, pat) [depth 0]   6 find(t, pat, n) [cnt 0]
     7 container(t, pat)  8 equals(a, b)           9 a == b (shallow)    10 to_string(t)
   payload:
     size, shallow_size : n          traverse : (0 item) | (1 remaining)
     insert : (tree' (0 b) | (1 remaining))        substitute : (tree' matched_at_root)
     contains : () | (k)             find : (() | (item)  cnt_after)
     container : (0 item) | (1 b)    equals, == : 0/1      to_string : code points
   Suite "item.check": (case observed) -> 1 / 0 / 2 : the TreeSpec description of the
   call evaluated on the observed result (2: the call is outside C08's quantifier). *)
From Coq Require Import ZArith List Bool.
From PushModel Require Import Base.Sx Base.Machine Base.F32 Base.F32Flocq Model.Item Spec.TreeSpec
  Suites.SItem.
Import ListNotations.
Open Scope Z_scope.

Inductive iop :=
| QSize (t : item)
| QShallow (t : item)
| QTraverse (t : item) (d : Z)
| QInsert (t x : item) (d : Z)
| QSubst (t pat sub : item)
| QContains (t pat : item)
| QFind (t pat : item) (n : Z)
| QContainer (t pat : item)
| QEquals (a b : item)
| QShallowEq (a b : item)
| QStr (t : item).

Definition in_usize_b (z : Z) : bool := (0 <=? z) && (z <? two64).

Definition un_iop (l : list sx) : option iop :=
  match l with
  | [SZ 0; t] => let? t := un_item t in Some (QSize t)
  | [SZ 1; t] => let? t := un_item t in Some (QShallow t)
  | [SZ 2; t; SZ d] => let? t := un_item t in if in_usize_b d then Some (QTraverse t d) else None
  | [SZ 3; t; x; SZ d] =>
      let? t := un_item t in let? x := un_item x in
      if in_usize_b d then Some (QInsert t x d) else None
  | [SZ 4; t; a; b] =>
      let? t := un_item t in let? a := un_item a in let? b := un_item b in Some (QSubst t a b)
  | [SZ 5; t; a] => let? t := un_item t in let? a := un_item a in Some (QContains t a)
  | [SZ 6; t; a; SZ n] =>
      let? t := un_item t in let? a := un_item a in
      if in_usize_b n then Some (QFind t a n) else None
  | [SZ 7; t; a] => let? t := un_item t in let? a := un_item a in Some (QContainer t a)
  | [SZ 8; t; a] => let? t := un_item t in let? a := un_item a in Some (QEquals t a)
  | [SZ 9; t; a] => let? t := un_item t in let? a := un_item a in Some (QShallowEq t a)
  | [SZ 10; t] => let? t := un_item t in Some (QStr t)
  | _ => None
  end.

Definition un_item_case (s : sx) : option (profile * list (Z * Z * Z) * iop) :=
  match s with
  | SL (p :: tab :: rest) =>
      let? p := match p with SZ 0 => Some Debug | SZ 1 => Some Release | _ => None end in
      let? tab := un_libm tab in
      let? o := un_iop rest in
      Some (p, tab, o)
  | _ => None
  end.

Definition sx_tr (r : tr) : sx :=
  match r with Found t => SL [SZ 0; sx_item t] | Rem d => SL [SZ 1; SZ d] end.
Definition sx_ins (r : ins_r) : sx :=
  match r with IOk b => SL [SZ 0; sx_bool b] | IErr d => SL [SZ 1; SZ d] end.
Definition sx_cont (r : cont_r) : sx :=
  match r with COk t => SL [SZ 0; sx_item t] | CErr b => SL [SZ 1; sx_bool b] end.

Section Run.
  Context {FO : FloatOps}.

  Definition run_iop (p : profile) (o : iop) : res sx :=
    match o with
    | QSize t => Ok (SZ (size t))
    | QShallow t => Ok (SZ (shallow_size t))
    | QTraverse t d => rmap sx_tr (traverse p t d)
    | QInsert t x d => rmap (fun r => SL [sx_item (fst r); sx_ins (snd r)]) (insert p t x d)
    | QSubst t pat sub => let r := substitute t pat sub in Ok (SL [sx_item (fst r); sx_bool (snd r)])
    | QContains t pat => Ok (sx_opt SZ (contains t pat 0))
    | QFind t pat n => let r := find t pat 0 n in Ok (SL [sx_opt sx_item (fst r); SZ (snd r)])
    | QContainer t pat => Ok (sx_cont (container t pat))
    | QEquals a b => Ok (sx_bool (equals a b))
    | QShallowEq a b => Ok (sx_bool (shallow_eq a b))
    | QStr t => Ok (sx_str (item_str t))
    end.

  (* what TreeSpec says the call returns; None: outside the property's quantifier
     (find, shallow ==, printing are tied by the differential run only) *)
  Definition spec_iop (o : iop) : option sx :=
    match o with
    | QSize t => Some (SZ (psize t))
    | QShallow t => Some (SZ (match t with IList l => Z.of_nat (length l) + 1 | _ => 1 end))
    | QTraverse t d =>
        Some (if d <? psize t then SL [SZ 0; sx_item (nth_point t d)]
              else SL [SZ 1; SZ (d - psize t + 1)])
    | QInsert t x d =>
        Some (if d =? 0 then SL [sx_item t; SL [SZ 0; SZ 1]]
              else if d <? psize t then SL [sx_item (replace_point t d x); SL [SZ 0; SZ 0]]
              else SL [sx_item t; SL [SZ 1; SZ (d - psize t + 1)]])
    | QSubst t pat sub => Some (SL [sx_item (subst_all t pat sub); sx_bool (equals t pat)])
    | QContains t pat => Some (sx_opt SZ (first_index pat t))
    | QContainer t pat => Some (sx_cont (container_of t pat))
    | QEquals a b => Some (sx_bool (equals a b))
    | QFind _ _ _ | QShallowEq _ _ | QStr _ => None
    end.
End Run.

Definition pm_item (s : sx) : sx :=
  match un_item_case s with
  | Some (p, tab, o) => let FO := flocq_ops tab in sx_res (fun x => x) (run_iop p o)
  | None => sx_bad
  end.

Definition pm_item_check (s : sx) : sx :=
  match s with
  | SL [c; observed] =>
      match un_item_case c with
      | Some (p, tab, o) =>
          let FO := flocq_ops tab in
          match spec_iop o with
          | Some e => sx_bool (sx_eqb observed (SL [SZ 0; e]))
          | None => SZ 2
          end
      | None => sx_bad
      end
  | _ => sx_bad
  end.

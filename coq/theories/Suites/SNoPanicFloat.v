(* C01: the float fact [fo_typed] (`x as i32` yields an i32) holds for the executable
   float instance used by every correspondence run (Flocq binary32, Base/F32Flocq.v),
   whatever the libm oracle table.  (The other fact, [fo_nbits], is a property of an
   IEEE product and is evaluated on observed cases by the C13 checker.) *)
From Coq Require Import ZArith List Bool Lia.
From PushModel Require Import Base.Sx Base.Machine Base.F32 Base.F32Flocq Proofs.NoPanicBase.
Open Scope Z_scope.

Lemma fl_to_int_range lo hi z : lo <= 0 <= hi -> lo <= fl_to_int lo hi z <= hi.
Proof.
  intros H. unfold fl_to_int.
  destruct (fl_is_nan z); [lia|]. destruct (fl_is_inf z); [destruct (fl_sign z); lia|].
  destruct (fl_parts z) as [[m e]|]; lia.
Qed.

Theorem flocq_fo_typed tab : @fo_typed (flocq_ops tab).
Proof.
  intros x. cbn [f_to_i32 flocq_ops]. pose proof (fl_to_int_range (-2147483648) 2147483647 x ltac:(lia)).
  unfold in_i32, min32, max32. apply andb_true_intro; split; apply Z.leb_le; lia.
Qed.
(* depends on the classical axioms of Flocq's real numbers (the instance is defined with them); not part of Props/C01.v *)

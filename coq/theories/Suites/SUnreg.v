(* Suite "callfn": public instruction FUNCTIONS of pushr that InstructionSet::load() does not register
   (int_vector_multiply, int_vector_divide: their registration is commented out; input_flush), called
   directly by the harness.  No program can reach them; they are compared with the model all the same
   (the model has had INTVECTOR.* and INTVECTOR./ "for completeness" since the vector family was written).
   case   (profile libm state name)  ->  the state after the call
   "callfn.check": the observed result equals the model's. *)
From Coq Require Import ZArith String List Bool.
From PushModel Require Import Base.Sx Base.Machine Base.ListOps Base.F32 Base.F32Flocq Model.Item Model.GraphT Model.State
  Model.InstrBase Model.Registry Model.IVector Suites.SItem Suites.SState.
Import ListNotations.
Open Scope Z_scope.

Section S.
  Context {FO : FloatOps}.
  Definition unregistered : list (string * instr) :=
    [ ("INTVECTOR.*"%string, ivec_mul); ("INTVECTOR./"%string, ivec_div);
      ("INPUT.FLUSH"%string, (fun s => Ok (set_input s []))) ].
  Fixpoint find_fn (tbl : list (string * instr)) (n : str) : option instr :=
    match tbl with
    | [] => None
    | (k, f) :: r => if str_eqb n (s2l k) then Some f else find_fn r n
    end.
End S.

Definition pm_callfn (c : sx) : sx :=
  match c with
  | SL [pr; tab; st; nm] =>
      match un_profile pr, un_libm tab, un_state st, un_zlist nm with
      | Some p, Some tab, Some s, Some nm =>
          let FO := flocq_ops tab in
          match find_fn unregistered nm with
          | Some f => sx_res sx_state (f s)
          | None => sx_bad
          end
      | _, _, _, _ => sx_bad
      end
  | _ => sx_bad
  end.

Definition pm_callfn_check (c : sx) : sx :=
  match c with
  | SL [case; observed] =>
      let m := pm_callfn case in
      if sx_eqb m sx_bad then sx_bad else sx_bool (sx_eqb m observed)
  | _ => sx_bad
  end.

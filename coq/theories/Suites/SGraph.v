(* Wire suite "graph": a history of Graph operations over a few graph registers.
   case   : (profile nregs ops)
   id operand z :  0 <= z < 2^20   the z-th node created in this case (symbolic);
                                   not created yet -> the never-issued id 2^64-1-z
                   z < 0           the raw id -z-1            (0 is never issued)
                   2^20 <= z<2^21  the id of the (z-2^20)-th created node PLUS 2^32 (never issued; equal to a live id modulo 2^32)
                   2^40 <= z<2^64  the raw id z               (never issued)
   ops    : (0 r) new | (1 a b) clone a into b | (2 r st) add_node | (3 r id) remove_node
            (4 r o d w) add_edge | (5 r o d) remove_edge | (6 r id) get_state
            (7 r id st) set_state | (8 r o d) get_weight | (9 r o d w) set_weight
            (10 r) node_size | (11 r) edge_size | (12 r (st..)) filter | (13 a b) a.diff(b)
            (14 r id (st..)) predecessors | (15 r id (st..)) successors | (16 r id (st..)) neighbours
   result : (0 ((out ...) (content ...)))   content of a register = ((id st)..) ((d ((o w)..))..)
   ids in results are canonical: the index of the node in creation order, or
   -(raw+1) for an id that was never issued in this case. *)
From Coq Require Import ZArith List Bool.
From PushModel Require Import Base.Sx Base.Machine Base.ListOps Base.F32 Base.F32Flocq
  Model.Graph Spec.GraphSpec Model.GraphMachine.
Import ListNotations.
Open Scope Z_scope.

Definition graph_FO : FloatOps := flocq_ops [].

Definition un_nat (s : sx) : option nat :=
  match s with SZ z => if (0 <=? z) && (z <? 16) then Some (Z.to_nat z) else None | _ => None end.
Definition un_i32 (s : sx) : option Z :=
  match s with SZ z => if in_i32 z then Some z else None | _ => None end.
Definition un_f32 (s : sx) : option Z :=
  match s with SZ z => if (0 <=? z) && (z <? two32) then Some z else None | _ => None end.
Definition un_id (s : sx) : option Z :=
  match s with
  | SZ z => if (z <? 2097152) || ((1099511627776 <=? z) && (z <? two64)) then
              if (- two64 <=? z) then Some z else None
            else None
  | _ => None
  end.

(* decoding leaves id operands unresolved (resolution depends on the history) *)
Definition un_gop (s : sx) : option gop :=
  match s with
  | SL [SZ 0; r] => let? r := un_nat r in Some (GNew r)
  | SL [SZ 1; a; b] => let? a := un_nat a in let? b := un_nat b in Some (GClone a b)
  | SL [SZ 2; r; st] => let? r := un_nat r in let? st := un_i32 st in Some (GAddNode r st)
  | SL [SZ 3; r; id] => let? r := un_nat r in let? id := un_id id in Some (GRemoveNode r id)
  | SL [SZ 4; r; o; d; w] =>
      let? r := un_nat r in let? o := un_id o in let? d := un_id d in let? w := un_f32 w in
      Some (GAddEdge r o d w)
  | SL [SZ 5; r; o; d] => let? r := un_nat r in let? o := un_id o in let? d := un_id d in Some (GRemoveEdge r o d)
  | SL [SZ 6; r; id] => let? r := un_nat r in let? id := un_id id in Some (GGetState r id)
  | SL [SZ 7; r; id; st] =>
      let? r := un_nat r in let? id := un_id id in let? st := un_i32 st in Some (GSetState r id st)
  | SL [SZ 8; r; o; d] => let? r := un_nat r in let? o := un_id o in let? d := un_id d in Some (GGetWeight r o d)
  | SL [SZ 9; r; o; d; w] =>
      let? r := un_nat r in let? o := un_id o in let? d := un_id d in let? w := un_f32 w in
      Some (GSetWeight r o d w)
  | SL [SZ 10; r] => let? r := un_nat r in Some (GNodeSize r)
  | SL [SZ 11; r] => let? r := un_nat r in Some (GEdgeSize r)
  | SL [SZ 12; r; sts] => let? r := un_nat r in let? sts := un_list un_i32 sts in Some (GFilter r sts)
  | SL [SZ 13; a; b] => let? a := un_nat a in let? b := un_nat b in Some (GDiff a b)
  | SL [SZ 14; r; id; sts] =>
      let? r := un_nat r in let? id := un_id id in let? sts := un_list un_i32 sts in Some (GPreds r id sts)
  | SL [SZ 15; r; id; sts] =>
      let? r := un_nat r in let? id := un_id id in let? sts := un_list un_i32 sts in Some (GSuccs r id sts)
  | SL [SZ 16; r; id; sts] =>
      let? r := un_nat r in let? id := un_id id in let? sts := un_list un_i32 sts in Some (GNeigh r id sts)
  | _ => None
  end.

Definition op_regs_ok (n : nat) (o : gop) : bool :=
  match o with
  | GClone a b | GDiff a b => Nat.ltb a n && Nat.ltb b n
  | GNew r | GAddNode r _ | GRemoveNode r _ | GAddEdge r _ _ _ | GRemoveEdge r _ _ | GGetState r _
  | GSetState r _ _ | GGetWeight r _ _ | GSetWeight r _ _ _ | GNodeSize r | GEdgeSize r | GFilter r _
  | GPreds r _ _ | GSuccs r _ _ | GNeigh r _ _ => Nat.ltb r n
  end.

Definition un_graph_case (s : sx) : option (nat * list gop) :=
  match s with
  | SL [SZ p; n; SL ops] =>
      if (p =? 0) || (p =? 1) then
        let? n := un_nat n in
        let? ops := un_all un_gop ops in
        if forallb (op_regs_ok n) ops then Some (n, ops) else None
      else None
  | _ => None
  end.

(* symbolic id -> id, given the ids issued so far (creation order) *)
Definition resolve_id (issued : list Z) (z : Z) : Z :=
  if z <? 0 then - z - 1
  else if z <? 1048576 then nth (Z.to_nat z) issued (two64 - 1 - z)
  else if z <? 2097152 then                       (* an ALIAS of the (z - 2^20)-th created node: its id + 2^32, never issued *)
    match nth_error issued (Z.to_nat (z - 1048576)) with
    | Some id => id + 4294967296
    | None => two64 - 1 - z
    end
  else z.

Definition resolve_op (iss : list Z) (o : gop) : gop :=
  let f := resolve_id iss in
  match o with
  | GRemoveNode r id => GRemoveNode r (f id)
  | GAddEdge r o d w => GAddEdge r (f o) (f d) w
  | GRemoveEdge r o d => GRemoveEdge r (f o) (f d)
  | GGetState r id => GGetState r (f id)
  | GSetState r id st => GSetState r (f id) st
  | GGetWeight r o d => GGetWeight r (f o) (f d)
  | GSetWeight r o d w => GSetWeight r (f o) (f d) w
  | GPreds r id sts => GPreds r (f id) sts
  | GSuccs r id sts => GSuccs r (f id) sts
  | GNeigh r id sts => GNeigh r (f id) sts
  | _ => o
  end.

(* id -> canonical id *)
Fixpoint index_of (id : Z) (iss : list Z) (k : Z) : option Z :=
  match iss with
  | [] => None
  | x :: r => if x =? id then Some k else index_of id r (k + 1)
  end.
Definition canon (iss : list Z) (id : Z) : Z :=
  match index_of id iss 0 with Some k => k | None => - id - 1 end.

Definition sx_nchange (iss : list Z) (c : nchange) : sx :=
  match c with
  | NRem id st => SL [SZ 0; SZ (canon iss id); SZ st]
  | NAdd id st => SL [SZ 1; SZ (canon iss id); SZ st]
  | NChg id st st' => SL [SZ 2; SZ (canon iss id); SZ st; SZ st']
  end.
Definition sx_echange (iss : list Z) (c : echange) : sx :=
  match c with
  | ERem d o w => SL [SZ 0; SZ (canon iss d); SZ (canon iss o); SZ w]
  | EAdd d o w => SL [SZ 1; SZ (canon iss d); SZ (canon iss o); SZ w]
  | EChg d o w w' => SL [SZ 2; SZ (canon iss d); SZ (canon iss o); SZ w; SZ w']
  end.

(* `v as i32` back to the id it came from (ids in a case are far below 2^31) *)
Definition sx_gout (iss : list Z) (o : gop) (u : gout) : sx :=
  match u with
  | UUnit => SL []
  | UZ z => match o with GAddNode _ _ => SZ (canon iss z) | _ => SZ z end
  | UOZ x => sx_opt SZ x
  | UOF x => sx_opt SZ x
  | UIds l => sx_list (fun id => SZ (canon iss id)) l
  | UDiff None => SL []
  | UDiff (Some (n, e)) =>
      SL [SL [SL [SZ (Z.of_nat (length n)); sx_list (sx_nchange iss) n];
              SL [SZ (Z.of_nat (length e)); sx_list (sx_echange iss) e]]]
  end.

Section RunSym.
  Context {W : Type}.
  Variable step : W -> gop -> W * gout.
  Fixpoint run_sym (w : W) (iss : list Z) (ops : list gop) : W * list Z * list sx :=
    match ops with
    | [] => (w, iss, [])
    | o :: r =>
        let o' := resolve_op iss o in
        let s := step w o' in
        let iss' := match o', snd s with GAddNode _ _, UZ id => iss ++ [id] | _, _ => iss end in
        let '(wf, issf, outs) := run_sym (fst s) iss' r in
        (wf, issf, sx_gout iss' o' (snd s) :: outs)
    end.
End RunSym.

Definition sx_content (iss : list Z) (g : graph) : sx :=
  SL [sx_list (fun n => SL [SZ (canon iss (fst n)); SZ (snd n)]) (g_nodes g);
      sx_list (fun kv => SL [SZ (canon iss (fst kv));
                             sx_list (fun e => SL [SZ (canon iss (e_origin e)); SZ (e_weight e)]) (snd kv)])
              (g_edges g)].

Definition pm_graph (s : sx) : sx :=
  match un_graph_case s with
  | Some (n, ops) =>
      let FO := graph_FO in
      let '(w, iss, outs) := run_sym g_step (w_init 1 n) [] ops in
      SL [SZ 0; SL [SL outs; sx_list (sx_content iss) (w_regs w)]]
  | None => sx_bad
  end.

(* suite "graph.eq": `==` (impl PartialEq for Graph) between all pairs of
   registers after the history; validates [g_eqb], not part of the property *)
Definition pm_graph_eq (s : sx) : sx :=
  match un_graph_case s with
  | Some (n, ops) =>
      let FO := graph_FO in
      let '(w, iss, outs) := run_sym g_step (w_init 1 n) [] ops in
      SL [SZ 0; sx_list (fun a => sx_list (fun b => sx_bool (g_eqb a b)) (w_regs w)) (w_regs w)]
  | None => sx_bad
  end.

(* ---------------------------------------------------------------------- *)
(* The property predicate on an observed result: the outputs are those of the
   set-based specification (node sets compared as sorted lists, a diff by its
   emptiness), and every register's final content is well formed and holds
   exactly the specification's nodes, states, edges and weights. *)
Fixpoint z_insert (x : Z) (l : list Z) : list Z :=
  match l with [] => [x] | y :: r => if x <=? y then x :: l else y :: z_insert x r end.
Definition z_sort (l : list Z) : list Z := fold_right z_insert [] l.

Definition norm_out (o : gop) (x : sx) : option sx :=
  match o with
  | GFilter _ _ | GPreds _ _ _ | GSuccs _ _ _ | GNeigh _ _ _ =>
      let? l := un_zlist x in Some (sx_list SZ (z_sort l))
  | GDiff _ _ => match x with SL [] => Some (SZ 0) | SL [_] => Some (SZ 1) | _ => None end
  | _ => Some x
  end.

Fixpoint outs_match (ops : list gop) (obs spec : list sx) : bool :=
  match ops, obs, spec with
  | [], [], [] => true
  | o :: ro, x :: rx, y :: ry =>
      match norm_out o x, norm_out o y with
      | Some a, Some b => sx_eqb a b && outs_match ro rx ry
      | _, _ => false
      end
  | _, _, _ => false
  end.

Definition un_pair (s : sx) : option (Z * Z) :=
  match s with SL [SZ a; SZ b] => Some (a, b) | _ => None end.
Definition un_content (s : sx) : option (list (Z * Z) * list (Z * list (Z * Z))) :=
  match s with
  | SL [ns; es] =>
      let? ns := un_list un_pair ns in
      let? es := un_list (fun kv => match kv with
                                    | SL [SZ d; l] => let? l := un_list un_pair l in Some (d, l)
                                    | _ => None
                                    end) es in
      Some (ns, es)
  | _ => None
  end.

Fixpoint z_nodup (l : list Z) : bool :=
  match l with [] => true | x :: r => negb (existsb (Z.eqb x) r) && z_nodup r end.
Definition z_in (x : Z) (l : list Z) : bool := existsb (Z.eqb x) l.

(* well-formedness of an observed content (canonical ids) *)
Definition content_wf (c : list (Z * Z) * list (Z * list (Z * Z))) : bool :=
  let ids := map fst (fst c) in
  z_nodup ids && z_nodup (map fst (snd c))
  && forallb (fun kv => z_in (fst kv) ids && z_nodup (map fst (snd kv))
                        && forallb (fun e => z_in (fst e) ids) (snd kv)) (snd c).

Definition content_edges (c : list (Z * Z) * list (Z * list (Z * Z))) : list sedge :=
  flat_map (fun kv => map (fun e => ((fst e, fst kv), snd e)) (snd kv)) (snd c).

(* the observed content holds exactly the specification's maps *)
Definition content_is (iss : list Z) (c : list (Z * Z) * list (Z * list (Z * Z))) (s : sgraph) : bool :=
  (Z.of_nat (length (fst c)) =? s_node_count s)
  && forallb (fun n => match assoc (canon iss (fst n)) (fst c) with
                       | Some st => st =? snd n
                       | None => false
                       end) (s_nodes s)
  && (Z.of_nat (length (content_edges c)) =? s_edge_count s)
  && forallb (fun e => match assoc2 (canon iss (se_o e)) (canon iss (se_d e)) (content_edges c) with
                       | Some w => w =? se_w e
                       | None => false
                       end) (s_edges s).

Fixpoint contents_ok (iss : list Z) (obs : list sx) (regs : list sgraph) : bool :=
  match obs, regs with
  | [], [] => true
  | x :: rx, s :: rs =>
      match un_content x with
      | Some c => content_wf c && content_is iss c s && contents_ok iss rx rs
      | None => false
      end
  | _, _ => false
  end.

Definition pm_graph_check (s : sx) : sx :=
  match s with
  | SL [c; observed] =>
      match un_graph_case c with
      | Some (n, ops) =>
          let FO := graph_FO in
          let '(w, iss, outs) := run_sym spec_step (sw_init 1 n) [] ops in
          match observed with
          | SL [SZ 0; SL [SL obs; SL fin]] =>
              sx_bool (outs_match ops obs outs && contents_ok iss fin (sw_regs w))
          | _ => SZ 0
          end
      | None => sx_bad
      end
  | _ => sx_bad
  end.

(* Checker "stackops.check" (C05): the property predicate evaluated on an observed
   single-step result.  The expected post-state is computed from the plain-sequence
   specification (Spec/SeqSpec.v: OYank/OShove/OGet on the top-first list) applied to the
   instruction's own stack — independently of the instruction model — with the index taken
   from INTEGER first and clamped, and every other field required unchanged.
   Verdict 2: the case is not a single stack-manipulation instruction on top of EXEC. *)
From Coq Require Import ZArith String List Bool.
From PushModel Require Import Base.Sx Base.Machine Base.ListOps Base.F32 Base.F32Flocq Model.Item Model.GraphT Model.State
  Model.InstrBase Spec.SeqSpec Suites.SItem Suites.SState.
Import ListNotations.
Open Scope Z_scope.

Section Ref.
  Context {A : Type} (get : state -> list A) (set : state -> list A -> state).
  Let sp (l : list A) (o : op A) : list A := fst (spec_step (fun _ _ => false) (fun _ _ => false) l o).

  Definition ref_op (opn : str) (is_int : bool) (s : state) : option state :=
    let with_index (k : state -> Z -> state) :=
      match st_int s with
      | idx :: r => let s1 := set_int s r in
                    Some (k s1 (Z.max (Z.min (zlen (get s1) - 1) idx) 0))
      | [] => Some s
      end in
    if str_eqb opn (s2l "DUP") then Some (match get s with x :: _ => set s (x :: get s) | [] => s end)
    else if str_eqb opn (s2l "POP") then Some (set s (tl (get s)))
    else if str_eqb opn (s2l "SWAP") then Some (set s (sp (get s) (OShove 1)))
    else if str_eqb opn (s2l "ROT") then Some (set s (sp (get s) (OYank 2)))
    else if str_eqb opn (s2l "FLUSH") then Some (set s [])
    else if str_eqb opn (s2l "YANK") then with_index (fun s1 i => set s1 (sp (get s1) (OYank i)))
    else if str_eqb opn (s2l "SHOVE") then with_index (fun s1 i => set s1 (sp (get s1) (OShove i)))
    else if str_eqb opn (s2l "YANKDUP") then
      with_index (fun s1 i => match nth_error (get s1) (Z.to_nat i) with
                              | Some x => set s1 (x :: get s1)
                              | None => s1 end)
    else if str_eqb opn (s2l "STACKDEPTH") then
      Some (set_int s ((zlen (get s) + (if is_int then 1 else 0)) :: st_int s))
    else None.
End Ref.

(* split "T.OP" at the first '.' *)
Fixpoint split_dot (n : str) (acc : str) : option (str * str) :=
  match n with
  | [] => None
  | c :: r => if c =? 46 then Some (rev acc, r) else split_dot r (c :: acc)
  end.

Definition ref_instr (n : str) (s : state) : option state :=
  match split_dot n [] with
  | Some (t, o) =>
      if str_eqb t (s2l "BOOLEAN") then ref_op st_bool set_bool o false s
      else if str_eqb t (s2l "INTEGER") then ref_op st_int set_int o true s
      else if str_eqb t (s2l "FLOAT") then ref_op st_float set_float o false s
      else if str_eqb t (s2l "NAME") then ref_op st_name set_name o false s
      else if str_eqb t (s2l "CODE") then ref_op st_code set_code o false s
      else if str_eqb t (s2l "EXEC") then ref_op st_exec set_exec o false s
      else if str_eqb t (s2l "BOOLVECTOR") then ref_op st_bvec set_bvec o false s
      else if str_eqb t (s2l "INTVECTOR") then ref_op st_ivec set_ivec o false s
      else if str_eqb t (s2l "FLOATVECTOR") then ref_op st_fvec set_fvec o false s
      else None
  | None => None
  end.

Definition pm_stackops_check (c : sx) : sx :=
  match c with
  | SL [SL [_; _; st; SZ 0; SZ 1; _]; observed] =>
      match un_state st with
      | Some s =>
          match st_exec s with
          | IInstr n :: r =>
              match ref_instr n (set_exec s r) with
              | Some s' => sx_bool (sx_eqb observed (SL [SZ 0; SL [sx_bool false; sx_state s']]))
              | None => SZ 2
              end
          | _ => SZ 2
          end
      | None => sx_bad
      end
  | _ => sx_bad
  end.

(* Checker "scalar.check" (C04): evaluates the documented reference signature
   (Spec/ScalarSpec.v) on the case's input state and compares with the observed
   single-step result.  For BOOLEAN.FROMFLOAT / BOOLEAN.FROMINTEGER the DOCUMENTED
   signature is used, so the pinned behaviour fails the predicate (known finding);
   "scalar.known" recognises exactly that pinned behaviour (class 1). *)
From Coq Require Import ZArith String List Bool.
From PushModel Require Import Base.Sx Base.Machine Base.ListOps Base.F32 Base.F32Flocq Model.Item Model.GraphT Model.State
  Model.InstrBase Model.Interp Spec.ScalarSpec Suites.SItem Suites.SState.
Import ListNotations.
Open Scope Z_scope.

Fixpoint sig_of (tbl : list (string * ssig)) (n : str) : option ssig :=
  match tbl with
  | [] => None
  | (k, g) :: r => if str_eqb n (s2l k) then Some g else sig_of r n
  end.

Section S.
  Context {FO : FloatOps}.
  Definition documented_table : list (string * ssig) :=
    scalar_table ++ [("BOOLEAN.FROMFLOAT"%string, documented_from_float);
                     ("BOOLEAN.FROMINTEGER"%string, documented_from_integer)].

  Definition eval_with (tbl : list (string * ssig)) (c observed : sx) : sx :=
    match c with
    | SL [_; _; st; SZ 0; SZ 1; _] =>
        match un_state st with
        | Some s =>
            match st_exec s with
            | IInstr n :: r =>
                match sig_of tbl n with
                | Some g =>
                    match apply_sig g (set_exec s r) with
                    | Ok s' => sx_bool (sx_eqb observed (SL [SZ 0; SL [sx_bool false; sx_state s']]))
                    | Panic => SZ 0
                    | Need fn a => SL [SZ 2; SZ fn; SZ a]
                    end
                | None => SZ 2
                end
            | _ => SZ 2
            end
        | None => sx_bad
        end
    | _ => sx_bad
    end.
End S.

Definition with_ops (c : sx) (k : FloatOps -> sx) : sx :=
  match c with
  | SL (_ :: tab :: _) => match un_libm tab with Some t => k (flocq_ops t) | None => sx_bad end
  | _ => sx_bad
  end.

Definition pm_scalar_check (a : sx) : sx :=
  match a with
  | SL [c; observed] => with_ops c (fun FO => eval_with documented_table c observed)
  | _ => sx_bad
  end.

(* KnownClass: 1 = BOOLEAN.FROMFLOAT/FROMINTEGER behaving exactly as pinned by the unit tests *)
Definition pm_scalar_known (a : sx) : sx :=
  match a with
  | SL [c; observed] =>
      with_ops c (fun FO => match eval_with known_table c observed with SZ 1 => SZ 1 | _ => SZ 0 end)
  | _ => sx_bad
  end.

(* Wire suites of the parser.
   "parse"       (profile libm text pre_exec_items)
                 -> ((item ...) others_untouched)     EXEC top-first after PushParser::parse_program
                    on a fresh state whose EXEC stack holds pre_exec_items
   "parse.check" the C03 predicate on an observed result: no panic, every other stack untouched,
                 and for balanced token sequences EXEC = Spec.ParseSpec.spec_parse (built with an
                 explicit stack of open lists, not with rec_push); 2 = unbalanced (only totality
                 and the frame are claimed there)
   "parse.prim"  the primitives, one by one (see harness/src/suites/parse.rs)
   "parse.prim.check"  ops 0-3: the observed result equals the model's; op 4: the float scalar law
                 fmt3 (parse (fmt3 x)) = fmt3 x on the observed strings; op 5: C11 on the observed
                 round trip (2 = the stack is outside the printable class); op 6: i32 round trip *)
From Coq Require Import ZArith String List Bool.
From PushModel Require Import Base.Sx Base.Machine Base.F32 Base.F32Flocq Model.Item Model.GraphT Model.State
  Model.InstrBase Model.Registry Model.Interp Model.RegistryAll Model.Parser Spec.ParseSpec
  Suites.SItem Suites.SGraphT Suites.SState.
Import ListNotations.
Open Scope Z_scope.

Definition reg_names {FO : FloatOps} : list str := map fst full_registry.

Definition others_untouched (s : state) : bool :=
  sx_eqb (sx_state (set_exec s [])) (sx_state empty_state).

Definition pm_parse (c : sx) : sx :=
  match c with
  | SL [pr; tab; text; pre] =>
      match un_profile pr, un_libm tab, un_zlist text, un_list un_item pre with
      | Some p, Some tab, Some text, Some pre =>
          let FO := flocq_ops tab in
          sx_res (fun s' : state => SL [sx_list sx_item (st_exec s'); sx_bool (others_untouched s')])
                 (parse_program p reg_names (set_exec empty_state pre) text)
      | _, _, _, _ => sx_bad
      end
  | _ => sx_bad
  end.

(* "parse.st": the parser on an ARBITRARY pre-state (bindings, flags, other stacks) and with EXTRA names
   registered through InstructionSet::add after load().
   case (profile libm text state (name ...))  ->  the whole state after parsing
   "parse.st.check": EXEC is the independent spec_parse over (registered ++ extra) names, and every other
   field of the state is what it was. *)
(* a 6th element (items the harness EXECUTES with the same InstructionSet before parsing: lookups must not register anything) is ignored *)
Definition drop_warm (c : sx) : sx :=
  match c with
  | SL [pr; tab; text; st; extra; _] => SL [pr; tab; text; st; extra]
  | _ => c
  end.

Definition pm_parse_st (c : sx) : sx :=
  match drop_warm c with
  | SL [pr; tab; text; st; extra] =>
      match un_profile pr, un_libm tab, un_zlist text, un_state st, un_list un_zlist extra with
      | Some p, Some tab, Some text, Some s, Some extra =>
          let FO := flocq_ops tab in
          sx_res sx_state (parse_program p (reg_names ++ extra) s text)
      | _, _, _, _, _ => sx_bad
      end
  | _ => sx_bad
  end.

Definition pm_parse_st_check (c : sx) : sx :=
  match (match c with SL [case; obs] => SL [drop_warm case; obs] | _ => c end) with
  | SL [SL [pr; tab; text; st; extra]; obs] =>
      match un_profile pr, un_libm tab, un_zlist text, un_state st, un_list un_zlist extra with
      | Some p, Some tab, Some text, Some s, Some extra =>
          let FO := flocq_ops tab in
          match obs with
          | SL [SZ 0; st'] =>
              match un_state st' with
              | Some s' =>
                  let names := (reg_names ++ extra)%list in
                  let toks := split_ws text in
                  if balanced names toks
                  then sx_bool (sx_eqb (sx_list sx_item (st_exec s')) (sx_list sx_item (spec_parse_tokens names (st_exec s) toks))
                                && sx_eqb (sx_state (set_exec s' [])) (sx_state (set_exec s [])))
                  else sx_bool (sx_eqb (sx_state (set_exec s' [])) (sx_state (set_exec s [])))
              | None => SZ 0
              end
          | _ => SZ 0
          end
      | _, _, _, _, _ => sx_bad
      end
  | _ => sx_bad
  end.

(* the code of the pinned tree, for the defect witnesses *)
Definition pm_parse_pinned (c : sx) : sx :=
  match c with
  | SL [pr; tab; text; pre] =>
      match un_profile pr, un_libm tab, un_zlist text, un_list un_item pre with
      | Some p, Some tab, Some text, Some pre =>
          let FO := flocq_ops tab in
          sx_res (fun s' : state => SL [sx_list sx_item (st_exec s'); sx_bool (others_untouched s')])
                 (parse_program_pinned p reg_names (set_exec empty_state pre) text)
      | _, _, _, _ => sx_bad
      end
  | _ => sx_bad
  end.

Definition pm_parse_check (c : sx) : sx :=
  match c with
  | SL [SL [pr; tab; text; pre]; obs] =>
      match un_profile pr, un_libm tab, un_zlist text, un_list un_item pre with
      | Some p, Some tab, Some text, Some pre =>
          let FO := flocq_ops tab in
          match obs with
          | SL [SZ 0; SL [items; SZ 1]] =>
              let toks := split_ws text in
              if balanced reg_names toks
              then sx_bool (sx_eqb items (sx_list sx_item (spec_parse_tokens reg_names pre toks)))
              else SZ 2
          | _ => SZ 0
          end
      | _, _, _, _ => sx_bad
      end
  | _ => sx_bad
  end.

Definition sx_triple (x : str * option Z * str) : sx :=
  SL [sx_str (fst (fst x)); sx_opt SZ (snd (fst x)); sx_str (snd x)].

Definition pm_parse_prim (c : sx) : sx :=
  match c with
  | SL (pr :: tab :: SZ op :: args) =>
      match un_profile pr, un_libm tab with
      | Some p, Some tab =>
          let FO := flocq_ops tab in
          match op, args with
          | 0, [toks] =>
              match un_list un_zlist toks with
              | Some toks => SL [SZ 0; sx_list (sx_opt SZ) (map parse_i32 toks)]
              | None => sx_bad
              end
          | 1, [text] =>
              match un_zlist text with
              | Some text => SL [SZ 0; sx_list sx_str (split_ws text)]
              | None => sx_bad
              end
          | 2, [its] =>
              match un_list un_item its with
              | Some its => SL [SZ 0; sx_str (items_str its)]
              | None => sx_bad
              end
          | 3, [its; x; SZ d] =>
              match un_list un_item its, un_item x with
              | Some its, Some x =>
                  if in_usize d
                  then let r := rec_push its x d in SL [SZ 0; SL [sx_list sx_item (fst r); sx_bool (snd r)]]
                  else sx_bad
              | _, _ => sx_bad
              end
          | 4, [bits] =>
              match un_zlist bits with
              | Some bits =>
                  SL [SZ 0; sx_list sx_triple
                              (map (fun x => let s := ffmt 3 x in
                                             let y := fparse s in
                                             (s, y, match y with Some y => ffmt 3 y | None => [] end)) bits)]
              | None => sx_bad
              end
          | 5, [its] =>
              match un_list un_item its with
              | Some its =>
                  let s := items_str its in
                  sx_res (fun s' : state => SL [sx_str s; sx_list sx_item (st_exec s'); sx_str (items_str (st_exec s'))])
                         (parse_program p reg_names empty_state s)
              | None => sx_bad
              end
          | 6, [zs] =>
              match un_zlist zs with
              | Some zs => if forallb in_i32 zs
                           then SL [SZ 0; sx_list (fun z => SL [sx_str (z_str z); sx_opt SZ (parse_i32 (z_str z))]) zs]
                           else sx_bad
              | None => sx_bad
              end
          | _, _ => sx_bad
          end
      | _, _ => sx_bad
      end
  | _ => sx_bad
  end.

Definition law_triple (t : sx) : bool :=
  match t with
  | SL [s; SL [SZ _]; s2] => sx_eqb s s2
  | _ => false
  end.

Definition pm_parse_prim_check (c : sx) : sx :=
  match c with
  | SL [SL (pr :: tab :: SZ op :: args) as case; obs] =>
      match un_profile pr, un_libm tab with
      | Some p, Some tab =>
          let FO := flocq_ops tab in
          match op, args with
          | 4, [SL bits] =>
              match obs with
              | SL [SZ 0; SL triples] => sx_bool (Nat.eqb (length triples) (length bits) && forallb law_triple triples)
              | _ => SZ 0
              end
          | 5, [its] =>
              match un_list un_item its with
              | Some its =>
                  match obs with
                  | SL [SZ 0; SL [s; exec; s2]] =>
                      if forallb (printable reg_names) its
                      then sx_bool (sx_eqb exec (sx_list sx_item its) && sx_eqb s s2 && sx_eqb s (sx_str (items_str its)))
                      else if forallb (printable_f reg_names) its then sx_bool (sx_eqb s s2)
                      else SZ 2
                  | _ => SZ 0
                  end
              | None => sx_bad
              end
          | 6, [SL zs] =>
              match obs with
              | SL [SZ 0; SL pairs] =>
                  sx_bool (sx_eqb (SL (map (fun q => match q with SL [_; SL [z]] => z | _ => SL [] end) pairs)) (SL zs))
              | _ => SZ 0
              end
          | _, _ =>
              let m := pm_parse_prim case in
              if sx_eqb m sx_bad then sx_bad else sx_bool (sx_eqb m obs)
          end
      | _, _ => sx_bad
      end
  | _ => sx_bad
  end.

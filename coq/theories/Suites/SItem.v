(* Wire encoding of code items (shared by every suite that carries items):
   (0 child ...)  list, children top-first      (1 (cp ...)) instruction name
   (2 (cp ...))   identifier                    (3 b) bool   (4 z) int   (5 cur dest) index
   (6 bits) float   (7 (b ...)) bool vector   (8 (z ...)) int vector   (9 (bits ...)) float vector *)
From Coq Require Import ZArith List Bool.
From PushModel Require Import Base.Sx Base.Machine Base.F32 Model.Item.
Import ListNotations.
Open Scope Z_scope.

Definition sx_str (s : str) : sx := SL (map SZ s).

Definition sx_lit (v : lit) : sx :=
  match v with
  | LBool b => SL [SZ 3; sx_bool b]
  | LInt z => SL [SZ 4; SZ z]
  | LIndex c d => SL [SZ 5; SZ c; SZ d]
  | LFloat f => SL [SZ 6; SZ f]
  | LBoolVec v => SL [SZ 7; sx_list sx_bool v]
  | LIntVec v => SL [SZ 8; sx_list SZ v]
  | LFloatVec v => SL [SZ 9; sx_list SZ v]
  end.

Fixpoint sx_item (t : item) : sx :=
  match t with
  | IList l => SL (SZ 0 :: (fix go (l : list item) : list sx :=
                             match l with [] => [] | x :: r => sx_item x :: go r end) l)
  | IInstr n => SL [SZ 1; sx_str n]
  | IName n => SL [SZ 2; sx_str n]
  | ILit v => sx_lit v
  end.

Fixpoint un_item (s : sx) : option item :=
  match s with
  | SL (SZ 0 :: cs) =>
      match (fix go (cs : list sx) : option (list item) :=
               match cs with
               | [] => Some []
               | c :: r => match un_item c, go r with
                           | Some x, Some xr => Some (x :: xr)
                           | _, _ => None
                           end
               end) cs with
      | Some l => Some (IList l)
      | None => None
      end
  | SL [SZ 1; n] => match un_zlist n with Some n => Some (IInstr n) | None => None end
  | SL [SZ 2; n] => match un_zlist n with Some n => Some (IName n) | None => None end
  | SL [SZ 3; b] => match un_bool b with Some b => Some (ILit (LBool b)) | None => None end
  | SL [SZ 4; SZ z] => Some (ILit (LInt z))
  | SL [SZ 5; SZ c; SZ d] => Some (ILit (LIndex c d))
  | SL [SZ 6; SZ f] => Some (ILit (LFloat (f_canon f)))
  | SL [SZ 7; v] => match un_list un_bool v with Some v => Some (ILit (LBoolVec v)) | None => None end
  | SL [SZ 8; v] => match un_zlist v with Some v => Some (ILit (LIntVec v)) | None => None end
  | SL [SZ 9; v] => match un_zlist v with Some v => Some (ILit (LFloatVec (map f_canon v))) | None => None end
  | _ => None
  end.

(* Wire suite "buffer": a history of PushBuffer<i32> operations.
   case   : (profile kind cap ops)    kind 0 = Queue, 1 = Stack; T::default() = 0
   result : (0 (final-live-items-oldest-first (out ...))) | (1)
   ops    : (0) capacity  (1) size  (2) to_string  (3 i) copy  (4) copy_oldest  (5) flush
            (6 i) get/get_mut  (7 a) push  (8 a) push_force  (9) pop  (10) peek_oldest
            (11) peek_newest  (12) iter  (13) is_empty  (14) is_full *)
From Coq Require Import ZArith List Bool.
From PushModel Require Import Base.Sx Base.Machine Model.Buffer Spec.BufSpec Model.BufferMachine.
Import ListNotations.
Open Scope Z_scope.

Definition un_bprofile (s : sx) : option profile :=
  match s with SZ 0 => Some Debug | SZ 1 => Some Release | _ => None end.

Definition un_kind (s : sx) : option kind :=
  match s with SZ 0 => Some Queue | SZ 1 => Some Stack | _ => None end.

Definition un_bop (s : sx) : option (bop Z) :=
  match s with
  | SL [SZ 0] => Some BCapacity
  | SL [SZ 1] => Some BSize
  | SL [SZ 2] => Some BToString
  | SL [SZ 3; SZ i] => Some (BCopy i)
  | SL [SZ 4] => Some BCopyOldest
  | SL [SZ 5] => Some BFlush
  | SL [SZ 6; SZ i] => Some (BGet i)
  | SL [SZ 7; SZ a] => Some (BPush a)
  | SL [SZ 8; SZ a] => Some (BPushForce a)
  | SL [SZ 9] => Some BPop
  | SL [SZ 10] => Some BPeekOldest
  | SL [SZ 11] => Some BPeekNewest
  | SL [SZ 12] => Some BIter
  | SL [SZ 13] => Some BIsEmpty
  | SL [SZ 14] => Some BIsFull
  | _ => None
  end.

Definition sx_bout (u : bout Z) : sx :=
  match u with
  | VUnit => SL []
  | VZ z => SZ z
  | VB b => sx_bool b
  | VOA o => sx_opt SZ o
  | VL l => sx_list SZ l
  end.

(* the harness allocates `cap` cells: capacities on the wire stay small *)
Definition wire_cap_max : Z := 4096.

Definition un_buffer_case (s : sx) : option (profile * kind * Z * list (bop Z)) :=
  match s with
  | SL [p; k; SZ c; SL ops] =>
      match un_bprofile p, un_kind k, un_all un_bop ops with
      | Some p, Some k, Some ops =>
          if (0 <=? c) && (c <=? wire_cap_max) then Some (p, k, c, ops) else None
      | _, _, _ => None
      end
  | _ => None
  end.

(* final contents are observed the way the harness observes them: through iter() *)
Definition buffer_result (p : profile) (k : kind) (c : Z) (ops : list (bop Z)) : res (list Z * list (bout Z)) :=
  let! r := bimpl_run 0 p (b_new 0 k c) ops in
  let! fin := b_iter p (fst r) in
  Ok (fin, snd r).

Definition sx_buffer_payload (r : list Z * list (bout Z)) : sx :=
  SL [sx_list SZ (fst r); sx_list sx_bout (snd r)].

Definition pm_buffer (s : sx) : sx :=
  match un_buffer_case s with
  | Some (p, k, c, ops) => sx_res sx_buffer_payload (buffer_result p k c ops)
  | None => sx_bad
  end.

(* The property predicate evaluated on an observed result: the result equals
   what the bounded-sequence specification yields for the same history.
   1 = holds, 0 = fails, 2 = case outside the property's quantifier
   (capacity 0, or a position that is not a usize value). *)
Definition bop_wf_b (o : bop Z) : bool :=
  match o with
  | BCopy i | BGet i => (0 <=? i) && (i <? 18446744073709551616)
  | _ => true
  end.

Definition buffer_expected (k : kind) (c : Z) (ops : list (bop Z)) : sx :=
  let r := bspec_run k c [] ops in
  SL [SZ 0; sx_buffer_payload r].

Definition pm_buffer_check (s : sx) : sx :=
  match s with
  | SL [c; observed] =>
      match un_buffer_case c with
      | Some (p, k, cp, ops) =>
          if (1 <=? cp) && forallb bop_wf_b ops then
            sx_bool (sx_eqb observed (buffer_expected k cp ops))
          else SZ 2
      | None => sx_bad
      end
  | _ => sx_bad
  end.

(* Wire suite "stack": a history of PushStack<i32> operations.
   case   : (profile init ops)   init = element list, bottom first
   result : (0 (final top-first) (out ...)) | (1)            [0 = returned, 1 = panicked] *)
From Coq Require Import ZArith List Bool.
From PushModel Require Import Base.Sx Base.Machine Base.ListOps Model.Stack Spec.SeqSpec Model.StackMachine.
Import ListNotations.
Open Scope Z_scope.

Definition un_op (s : sx) : option (op Z) :=
  match s with
  | SL [SZ 0] => Some OSize
  | SL [SZ 1] => Some OToList
  | SL [SZ 2; SZ a] => Some (OLastEq a)
  | SL [SZ 3; SZ i; SZ a] => Some (OEqualAt i a)
  | SL [SZ 4] => Some OBottom
  | SL [SZ 5] => Some OFlush
  | SL [SZ 6; SZ i; SZ a] => Some (OReplace i a)
  | SL [SZ 7; SZ i] => Some (ORemove i)
  | SL [SZ 8] => Some OReverse
  | SL [SZ 9; SZ i] => Some (OGet i)
  | SL [SZ 10; SZ a] => Some (OPush a)
  | SL [SZ 11; SZ a] => Some (OPushFront a)
  | SL [SZ 12; SZ i] => Some (OYank i)
  | SL [SZ 13; SZ i] => Some (OShove i)
  | SL [SZ 14; SZ i; SZ j] => Some (OSwap i j)
  | SL [SZ 15] => Some OPopFront
  | SL [SZ 16] => Some OPop
  | SL [SZ 17; SZ n] => Some (OPopVec n)
  | SL [SZ 18; SZ i] => Some (OCopy i)
  | SL [SZ 19; SZ n] => Some (OCopyVec n)
  | SL [SZ 20; l] => match un_zlist l with Some l => Some (OPushVec l) | None => None end
  | _ => None
  end.

Definition sx_out (u : out Z) : sx :=
  match u with
  | UUnit => SL []
  | UZ z => SZ z
  | UB b => sx_bool b
  | UOB o => sx_opt sx_bool o
  | UOA o => sx_opt SZ o
  | UOL o => sx_opt (sx_list SZ) o
  | UL l => sx_list SZ l
  | UOZ o => sx_opt SZ o
  end.

Definition un_stack_case (s : sx) : option (profile * list Z * list (op Z)) :=
  match s with
  | SL [p; init; SL ops] =>
      match un_profile p, un_zlist init, un_all un_op ops with
      | Some p, Some init, Some ops => Some (p, init, ops)
      | _, _, _ => None
      end
  | _ => None
  end.

Definition pm_stack (s : sx) : sx :=
  match un_stack_case s with
  | Some (p, init, ops) =>
      sx_res (fun r : vec Z * list (out Z) => SL [sx_list SZ (rev (fst r)); sx_list sx_out (snd r)])
             (impl_run Z.eqb Z.eqb p (s_from_vec init) ops)
  | None => sx_bad
  end.

(* The property predicate evaluated on an observed result: the result equals
   what the plain-sequence specification yields for the same history.
   (1) = holds, (0) = fails, (2) = history outside the property's quantifier
   (a raw swap index out of range: Vec::swap's own contract). *)
Fixpoint ops_wf_b (t : list Z) (ops : list (op Z)) : bool :=
  match ops with
  | [] => true
  | o :: r =>
      (match o with
       | OEqualAt i _ | OReplace i _ | ORemove i | OGet i | OYank i | OShove i
       | OPopVec i | OCopy i | OCopyVec i => (0 <=? i) && (i <=? 18446744073709551615)
       | OSwap i j => (0 <=? i) && (i <? len t) && (0 <=? j) && (j <? len t)
       | _ => true
       end) && ops_wf_b (fst (spec_step_c Z.eqb Z.eqb t o)) r
  end.

Definition pm_stack_check (s : sx) : sx :=
  match s with
  | SL [c; observed] =>
      match un_stack_case c with
      | Some (p, init, ops) =>
          if ops_wf_b (rev init) ops then
            let r := spec_run_c Z.eqb Z.eqb (rev init) ops in
            sx_bool (sx_eqb observed (SL [SZ 0; SL [sx_list SZ (fst r); sx_list sx_out (snd r)]]))
          else SZ 2
      | None => sx_bad
      end
  | _ => sx_bad
  end.

(* Checker "loops.check" (C06): the documented loop semantics evaluated on an observed result.
   The case is a "run" case whose EXEC stack holds ONE loop program built from
     ( n INDEX.DEFINE EXEC.LOOP body )            ( n INDEX.DEFINE CODE.QUOTE body CODE.LOOP )
     ( INT[..] INTVECTOR.LOOP body )              body ::= INDEX.CURRENT | NOOP | a loop program
   on an otherwise empty state, executed to completion.  Documented outcome: the INTEGER stack holds
   the exposed indices / elements in execution order (last on top), and no index, vector, loop code
   or CODE item is left behind.  "loops.known": class 1 = the program contains a CODE.LOOP that is
   reached with current < destination (known finding). *)
From Coq Require Import ZArith String List Bool.
From PushModel Require Import Base.Sx Base.Machine Base.ListOps Base.F32 Model.Item Model.GraphT Model.State
  Model.InstrBase Suites.SItem Suites.SState.
Import ListNotations.
Open Scope Z_scope.

Definition is_i (t : item) (n : string) : bool :=
  match t with IInstr k => str_eqb k (s2l n) | _ => false end.

Fixpoint zrange (c : Z) (d : nat) : list Z := match d with O => [] | S d' => c :: zrange (c + 1) d' end.

(* the sequence of INTEGER pushes of a body executed with INDEX.CURRENT = c (None: not a loop program) *)
Fixpoint pushes (fuel : nat) (t : item) (c : Z) : option (list Z) :=
  match fuel with
  | O => None
  | S f =>
      if is_i t "INDEX.CURRENT" then Some [c]
      else if is_i t "NOOP" then Some []
      else match t with
           | IList [ILit (LInt n); a; b; body] =>
               if is_i a "INDEX.DEFINE" && is_i b "EXEC.LOOP" then
                 fold_right (fun i acc => match pushes f body i, acc with
                                          | Some x, Some y => Some (x ++ y) | _, _ => None end)
                            (Some []) (zrange 0 (Z.to_nat (Z.max 0 n)))
               else None
           | IList [ILit (LInt n); a; q; body; l] =>
               if is_i a "INDEX.DEFINE" && is_i q "CODE.QUOTE" && is_i l "CODE.LOOP" then
                 fold_right (fun i acc => match pushes f body i, acc with
                                          | Some x, Some y => Some (x ++ y) | _, _ => None end)
                            (Some []) (zrange 0 (Z.to_nat (Z.max 0 n)))
               else None
           | IList [ILit (LIntVec v); l; body] =>
               if is_i l "INTVECTOR.LOOP" then
                 fold_right (fun x acc => match pushes f body c, acc with
                                          | Some y, Some z => Some (x :: y ++ z) | _, _ => None end)
                            (Some []) v
               else None
           | _ => None
           end
  end.

Fixpoint has_code_loop (fuel : nat) (t : item) : bool :=
  match fuel with
  | O => false
  | S f => match t with
           | IList [ILit (LInt n); _; q; body; l] => (is_i l "CODE.LOOP" && (0 <? n)) || has_code_loop f body
           | IList l => existsb (has_code_loop f) l
           | _ => false
           end
  end.

Definition program_of (c : sx) : option item :=
  match c with
  | SL [_; _; st; _; _; _] =>
      match un_state st with
      | Some s => match st_exec s with [t] => Some t | _ => None end
      | None => None
      end
  | _ => None
  end.

Definition pm_loops_check (a : sx) : sx :=
  match a with
  | SL [c; observed] =>
      match program_of c with
      | Some t =>
          match pushes 50 t 0 with
          | Some seq =>
              match observed with
              | SL [SZ 0; SL [_; SL (_ :: code :: exec :: _ :: index :: ints :: _ :: _ :: _ :: ivec :: _)]] =>
                  sx_bool (sx_eqb ints (sx_list SZ (rev seq)) && sx_eqb exec (SL []) && sx_eqb index (SL [])
                           && sx_eqb ivec (SL []) && sx_eqb code (SL []))
              | _ => SZ 0
              end
          | None => SZ 2
          end
      | None => SZ 2
      end
  | _ => sx_bad
  end.

Definition pm_loops_known (a : sx) : sx :=
  match a with
  | SL [c; _] => match program_of c with
                 | Some t => if has_code_loop 50 t then SZ 1 else SZ 0
                 | None => SZ 0
                 end
  | _ => sx_bad
  end.

(* Checker "cost.check" / classifier "cost.known" (C15): the counted growth of a `run` case,
   evaluated on an OBSERVED result (the implementation's output of suite "run").

   case     : (profile libm state mode arg world)        -- as for suite "run" (Suites/SState.v)
   observed : (0 (fin-or-outcome state))  returned normally | (1) panicked / aborted / was killed

   SINGLE STEP (mode 0, arg 1): the predicate of C15_step_growth,
         weight (observed state) <= 2 * weight (initial state) + 64
     1 holds, 0 fails, 2 when the top EXEC instruction pushes a text or an oracle-sized name and the
     bound fails (CODE.PRINT, GRAPH.PRINT, GRAPH.PRINT*DIFF, NAME.RAND, NAME.RANDBOUNDNAME, CODE.RAND:
     outside the theorem's quantifier, not a violation).  An aborted step is a failure.
   PROGRAM (any other mode / arg): with k = the number of steps taken (arg, or the step limit + 1),
         every CODE / EXEC item of the observed state has at most max_points_in_program points, and
         weight (observed) <= weight (initial) + k * growth_cap
     (the configured growth cap read as what its documentation says: elements added per step).

   cost.known : the KnownClass of a FAILING case (0 = none: a new violation)
     1 alloc-by-operand-ones-zeros   T.ONES / T.ZEROS with a positive size
     2 alloc-by-operand-rand         BOOLVECTOR / INTVECTOR / FLOATVECTOR.RAND with a positive size
     3 alloc-by-operand-sine         FLOATVECTOR.SINE with its three FLOATs and a positive length
     4 alloc-by-operand-neighbor     LIST.NEIGHBOR* with a positive size operand
     5 code-subst-multiplies         CODE.SUBST
     6 graph-nodes-multiplies        GRAPH.NODES / GRAPH.NODES*HISTORY
     7 max-points-in-program-dead    PROGRAM: a CODE / EXEC item exceeds max_points_in_program
     8 name-cat-doubling             PROGRAM: items within the maximum, the NAME stack alone exceeds the budget
   Every class requires that the implementation RETURNED: a hang, an abort or a kill is never known. *)
From Coq Require Import ZArith String List Bool.
From PushModel Require Import Base.Sx Base.Machine Base.ListOps Base.F32 Model.Item Model.GraphT Model.State
  Model.InstrBase Model.Cost Suites.SItem Suites.SState.
Import ListNotations.
Open Scope Z_scope.

Definition name_in (n : str) (l : list string) : bool := existsb (fun k => str_eqb n (s2l k)) l.

Definition top_instr (s : state) : option str :=
  match st_exec s with IInstr n :: _ => Some n | _ => None end.

(* the observed state of a normal result *)
Definition observed_state (o : sx) : option state :=
  match o with
  | SL [SZ 0; SL [_; st]] => un_state st
  | _ => None
  end.

Definition fill_names : list string :=
  [ "BOOLVECTOR.ONES"; "BOOLVECTOR.ZEROS"; "INTVECTOR.ONES"; "INTVECTOR.ZEROS"; "FLOATVECTOR.ONES"; "FLOATVECTOR.ZEROS" ]%string.
Definition rand_vec_names : list string := [ "BOOLVECTOR.RAND"; "INTVECTOR.RAND"; "FLOATVECTOR.RAND" ]%string.
Definition nbr_ids_names : list string := [ "LIST.NEIGHBOR*IDS" ]%string.
Definition nbr_val_names : list string := [ "LIST.NEIGHBOR*BVALS"; "LIST.NEIGHBOR*IVALS"; "LIST.NEIGHBOR*FVALS" ]%string.
Definition unquantified_names : list string := (printing_names ++ oracle_names)%list.

(* the state the instruction sees: the interpreter pops it from EXEC first *)
Definition operands (s : state) : state := set_exec s (tl (st_exec s)).

Definition step_class (s : state) : Z :=
  match top_instr s with
  | None => 0
  | Some n =>
      let o := operands s in
      if name_in n fill_names then (if 0 <? top_int o then 1 else 0)
      else if name_in n rand_vec_names then (if 0 <? top_int o then 2 else 0)
      else if name_in n [ "FLOATVECTOR.SINE" ]%string then
        match st_float o, st_int o with
        | _ :: _ :: _ :: _, k :: _ => if 0 <? k then 3 else 0
        | _, _ => 0
        end
      else if name_in n nbr_ids_names then
        match st_int o with size :: _ :: _ :: _ => if 0 <? size then 4 else 0 | _ => 0 end
      else if name_in n nbr_val_names then
        match st_int o with _ :: size :: _ :: _ :: _ => if 0 <? size then 4 else 0 | _ => 0 end
      else if name_in n [ "CODE.SUBST" ]%string then 5
      else if name_in n [ "GRAPH.NODES"; "GRAPH.NODES*HISTORY" ]%string then 6
      else 0
  end.

Definition max_item_size (s : state) : Z :=
  fold_right Z.max 0 (map size (st_code s ++ st_exec s)).

(* steps a PROGRAM case takes *)
Definition steps_taken (s : state) (mode arg : Z) : Z :=
  if mode =? 0 then Z.max 0 arg else cfg_eval_push_limit (st_cfg s) + 1.
Definition budget (s : state) (mode arg : Z) : Z :=
  weight s + steps_taken s mode arg * Z.max 0 (cfg_growth_cap (st_cfg s)).

Definition is_single_step (mode arg : Z) : bool := (mode =? 0) && (arg =? 1).

Definition decode (c : sx) : option (state * Z * Z * sx) :=
  match c with
  | SL [SL [_; _; st; SZ mode; SZ arg; _]; observed] =>
      match un_state st with Some s => Some (s, mode, arg, observed) | None => None end
  | _ => None
  end.

(* CODE.RAND is bounded by the configured limit, whatever its INTEGER operand (C12_code_rand_bound) *)
Definition code_rand_within_limit (s s' : state) : bool :=
  match top_instr s with
  | Some n =>
      if name_in n ["CODE.RAND"%string] then
        match st_code s' with
        | t :: _ => if Nat.ltb (length (st_code s)) (length (st_code s'))
                    then size t <=? Z.abs (cfg_max_points_rand (st_cfg s)) else true
        | [] => true
        end
      else true
  | None => true
  end.

Definition pm_cost_check (c : sx) : sx :=
  match decode c with
  | None => sx_bad
  | Some (s, mode, arg, observed) =>
      match observed_state observed with
      | None => SZ 0                                   (* panicked, aborted, killed, timed out *)
      | Some s' =>
          if is_single_step mode arg then
            if negb (code_rand_within_limit s s') then SZ 0      (* CODE.RAND pushed more points than max-points-in-random-expressions *)
            else if weight s' <=? 2 * weight s + 64 then SZ 1
            else match top_instr s with
                 | Some n => if name_in n unquantified_names then SZ 2 else SZ 0
                 | None => SZ 0
                 end
          else
            sx_bool ((max_item_size s' <=? cfg_max_points_prog (st_cfg s)) && (weight s' <=? budget s mode arg))
      end
  end.

Definition pm_cost_known (c : sx) : sx :=
  match decode c with
  | None => sx_bad
  | Some (s, mode, arg, observed) =>
      match observed_state observed with
      | None => SZ 0
      | Some s' =>
          if is_single_step mode arg then
            (if negb (code_rand_within_limit s s') then SZ 0
             else if weight s' <=? 2 * weight s + 64 then SZ 0 else SZ (step_class s))
          else if cfg_max_points_prog (st_cfg s) <? max_item_size s' then SZ 7
          else if (budget s mode arg <? weight s') &&
                  (wsum vw (st_name s) + steps_taken s mode arg * Z.max 0 (cfg_growth_cap (st_cfg s)) <? wsum vw (st_name s'))
               then SZ 8
          else SZ 0
      end
  end.

(* the measured weights, for the evidence file: (weight-before weight-after max-item-points) *)
Definition pm_cost_measure (c : sx) : sx :=
  match decode c with
  | None => sx_bad
  | Some (s, mode, arg, observed) =>
      match observed_state observed with
      | None => SL [SZ (weight s)]
      | Some s' => SL [SZ (weight s); SZ (weight s'); SZ (max_item_size s')]
      end
  end.

(* Wire suite "f32": one primitive float operation, to validate the Flocq
   instance of FloatOps against Rust's f32.
   case: (profile libm op a b)  |  (profile libm 11 k a)  |  (profile libm 12 (codepoints)) *)
From Coq Require Import ZArith List Bool.
From PushModel Require Import Base.Sx Base.F32 Base.F32Flocq.
Import ListNotations.
Open Scope Z_scope.

Definition sx_cmp (c : option comparison) : sx :=
  SZ (match c with Some Lt => -1 | Some Eq => 0 | Some Gt => 1 | None => 2 end).

Definition pm_f32 (s : sx) : sx :=
  match s with
  | SL [SZ _; tab; SZ 12; str] =>
      match un_libm tab, un_zlist str with
      | Some tab, Some str => let FO := flocq_ops tab in SL [SZ 0; sx_opt SZ (fparse str)]
      | _, _ => sx_bad
      end
  | SL [SZ _; tab; SZ op; SZ a; SZ b] =>
      match un_libm tab with
      | Some tab =>
          let FO := flocq_ops tab in
          let ok z := SL [SZ 0; z] in
          if op =? 0 then ok (SZ (fadd a b)) else if op =? 1 then ok (SZ (fsub a b))
          else if op =? 2 then ok (SZ (fmul a b)) else if op =? 3 then ok (SZ (fdiv a b))
          else if op =? 4 then ok (SZ (frem a b)) else if op =? 5 then ok (sx_cmp (fcmp a b))
          else if op =? 6 then ok (SZ (f_of_i32 a)) else if op =? 7 then ok (SZ (f_to_i32 a))
          else if op =? 8 then ok (SZ (fsqrt a)) else if op =? 9 then ok (SZ (fceil a))
          else if op =? 10 then ok (SZ (fround a)) else if op =? 11 then ok (sx_list SZ (ffmt a b))
          else if op =? 13 then ok (SZ (fabs a)) else if op =? 14 then ok (SZ (fneg a))
          else if op =? 15 then ok (SZ (f_of_usize a)) else if op =? 16 then ok (SZ (f_to_usize a))
          else if op =? 19 then ok (sx_list SZ (ffmt (-1) a))
          else if op =? 17 then sx_res SZ (libm1 b a)
          else if op =? 18 then sx_res SZ (libm2 FN_POWF a b)
          else sx_bad
      | None => sx_bad
      end
  | _ => sx_bad
  end.

(* Suite "f32sweep": the implementation enumerates format -> parse -> format over a range of bit
   patterns; the expected result is "no failure".  (An enumeration on the code, not a theorem about
   the model: it backs the hypothesis of C11_print_parse_print_floats_partial.) *)
Definition pm_f32sweep (s : sx) : sx :=
  match s with
  | SL [SZ _; _; SZ lo; SZ hi] => if (0 <=? lo) && (lo <=? hi) && (hi <=? 4294967296) then SL [SZ 0; SL [SZ 0; SZ (-1)]] else sx_bad
  | _ => sx_bad
  end.

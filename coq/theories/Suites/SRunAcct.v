(* Suite "runacct" (C02): PushInterpreter::run next to an independent accounting of repeated
   step() calls.  case: as suite "run" with mode 1.
   result: (0 ((outcome state) (acct_outcome acct_state steps empty_step_changed)))
   "runacct.check": the accounting laws evaluated on an observed result. *)
From Coq Require Import ZArith String List Bool.
From PushModel Require Import Base.Sx Base.Machine Base.ListOps Base.F32 Base.F32Flocq Model.Item Model.GraphT Model.State
  Model.InstrBase Model.Registry Model.Interp Model.RegistryAll Proofs.RunProofs Suites.SItem Suites.SState.
Import ListNotations.
Open Scope Z_scope.

Definition pm_runacct (c : sx) : sx :=
  match c with
  | SL [pr; tab; st; SZ _; SZ _; wd] =>
      match un_profile pr, un_libm tab, un_state st, un_world wd with
      | Some p, Some tab, Some s, Some w =>
          let FO := flocq_ops tab in
          let s1 := copy_to_code s in
          sx_res (fun r : outcome * world * state * Z =>
                    let '(o, _, s', n) := r in
                    SL [SL [sx_outcome o; sx_state s']; SL [sx_outcome o; sx_state s'; SZ n; SZ 0]])
                 (run_loop_n p full_registry (fun _ => 0) (run_fuel s1) 0 0 w s1)
      | _, _, _, _ => sx_bad
      end
  | _ => sx_bad
  end.

Definition exec_of_state_sx (s : sx) : option (list sx) :=
  match s with SL (_ :: _ :: SL e :: _) => Some e | _ => None end.

Definition pm_runacct_check (a : sx) : sx :=
  match a with
  | SL [SL [_; _; st; _; _; _]; observed] =>
      match un_state st with
      | Some s0 =>
          let lim := cfg_eval_push_limit (st_cfg s0) in
          match observed with
          | SL [SZ 0; SL [SL [SZ o; s]; SL [SZ o2; s2; SZ n; SZ changed]]] =>
              sx_bool ((o =? o2) && sx_eqb s s2 && (changed =? 0) &&     (* the step on an empty EXEC stack changes nothing *)
                       ((lim <? -1) || (n <=? lim + 1)) &&
                       (negb (o =? 1) || (lim <? -1) || (n =? lim + 1)) &&
                       (negb (o =? 0) || match exec_of_state_sx s with Some [] => true | _ => false end) &&
                       (negb (o =? 2)))                 (* the time limit of the generated cases never fires *)
          | _ => SZ 0                                    (* a panic inside run/step: not a normal return *)
          end
      | None => sx_bad
      end
  | _ => sx_bad
  end.

(* Wire suite "topo": the three public functions of Topology, plus the f32
   integer-exactness facts the C20 theorems assume (sub-operation 3).
   case   : (profile libm 0 index nedge ndim)            decompose_index
            (profile libm 1 (i1 ...) (i2 ...))           euclidean_distance
            (profile libm 2 ntotal ndim index radius)    find_neighbors   (radius = f32 bits)
            (profile libm 3 a b)                         f32 facts on the integers a, b
            (profile libm 4 ntotal ndim i j radius)      find_neighbors at i and at j   (symmetry)
            (profile libm 5 ntotal ndim i r1 r2)         find_neighbors with r1 and r2  (monotonicity)
   libm   : ((5 key result) ...) oracle table for powf, key = base_bits * 2^32 + exponent_bits
   result : (0 payload) | (1) panicked | (2 fn arg) table lacks a powf value
   "topo.check": the C20 predicate on an observed result; "topo.known": KnownClass id. *)
From Coq Require Import ZArith List Bool Lia.
From PushModel Require Import Base.Sx Base.Machine Base.F32 Base.F32Flocq Spec.TopoSpec Model.Topology.
Import ListNotations.
Open Scope Z_scope.

Definition is_u32 (z : Z) : bool := (0 <=? z) && (z <? two32).
Definition all_usize (l : list Z) : bool := forallb in_usize l.
Definition sx_cmp3 (c : option comparison) : Z :=
  match c with Some Lt => -1 | Some Eq => 0 | Some Gt => 1 | None => 2 end.

(* The specification's [zseq] converts every index from a unary number, which is quadratic in ntotal
   (40 s for ntotal = 70000); the checker enumerates the indices in Z and is proved to compute the same set. *)
Fixpoint zseq_go (k : nat) (i : Z) : list Z :=
  match k with O => [] | S k' => i :: zseq_go k' (i + 1) end.
Lemma zseq_go_eq k : forall s, zseq_go k (Z.of_nat s) = map Z.of_nat (seq s k).
Proof.
  induction k as [|k IH]; intros s; cbn [zseq_go seq map]; [reflexivity|].
  f_equal. replace (Z.of_nat s + 1) with (Z.of_nat (S s)) by lia. apply IH.
Qed.
Lemma zseq_fast_eq n : zseq_go (Z.to_nat n) 0 = zseq n.
Proof. unfold zseq. exact (zseq_go_eq (Z.to_nat n) 0%nat). Qed.

Section WithOps.
  Context {FO : FloatOps}.

  Definition geo_nbrs_fast (ntotal ndim index : Z) (r : f32) : list Z :=
    let e := iroot_ceil ntotal ndim in
    let d := Z.to_nat ndim in
    let di := digits e d index in
    filter (fun i => within (sqdist di (digits e d i)) r) (zseq_go (Z.to_nat ntotal) 0).
  Lemma geo_nbrs_fast_eq ntotal ndim index r : geo_nbrs_fast ntotal ndim index r = geo_nbrs ntotal ndim index r.
  Proof. unfold geo_nbrs_fast, geo_nbrs. rewrite zseq_fast_eq. reflexivity. Qed.

  (* sub-operation 3: both sides of every integer-exactness fact, computed in f32 *)
  Definition fie_probe (p : profile) (a b : Z) : res (list Z) :=
    let fa := f_of_usize a in
    let fb := f_of_usize b in
    let! sq := sq_term p (fsub fa fb) in
    let! pw := libm2 FN_POWF (fsub fa fb) f_two in
    Ok [ sq; pw; fmul (fsub fa fb) (fsub fa fb); f_of_usize ((a - b) * (a - b));
         fadd fa fb; f_of_usize (a + b);
         sx_cmp3 (fcmp fa fb);
         (if fle (fsqrt fa) (fsqrt fb) then 1 else 0);
         (if fle (fsqrt fa) fb then 1 else 0);
         fsqrt (f_of_usize (a * a)) ].

  Definition topo_run (p : profile) (op : Z) (args : list sx) : option sx :=
    match op, args with
    | 0, [SZ index; SZ nedge; SZ ndim] =>
        if all_usize [index; nedge; ndim]
        then Some (sx_res (sx_opt (sx_list SZ)) (decompose_index index nedge ndim)) else None
    | 1, [l1; l2] =>
        match un_zlist l1, un_zlist l2 with
        | Some l1, Some l2 =>
            if all_usize l1 && all_usize l2
            then Some (sx_res (sx_opt SZ) (euclidean_distance p l1 l2)) else None
        | _, _ => None
        end
    | 2, [SZ ntotal; SZ ndim; SZ index; SZ r] =>
        if all_usize [ntotal; ndim; index] && is_u32 r
        then Some (sx_res (sx_opt (sx_list SZ)) (find_neighbors p ntotal ndim index r)) else None
    | 3, [SZ a; SZ b] =>
        if all_usize [a; b; a + b; a * a] then Some (sx_res (sx_list SZ) (fie_probe p a b)) else None
    | 4, [SZ ntotal; SZ ndim; SZ i; SZ j; SZ r] =>
        if all_usize [ntotal; ndim; i; j] && is_u32 r
        then Some (sx_res (sx_pair (sx_opt (sx_list SZ)) (sx_opt (sx_list SZ)))
                    (let! a := find_neighbors p ntotal ndim i r in
                     let! b := find_neighbors p ntotal ndim j r in Ok (a, b))) else None
    | 5, [SZ ntotal; SZ ndim; SZ i; SZ r1; SZ r2] =>
        if all_usize [ntotal; ndim; i] && is_u32 r1 && is_u32 r2
        then Some (sx_res (sx_pair (sx_opt (sx_list SZ)) (sx_opt (sx_list SZ)))
                    (let! a := find_neighbors p ntotal ndim i r1 in
                     let! b := find_neighbors p ntotal ndim i r2 in Ok (a, b))) else None
    | _, _ => None
    end.

  (* ---- the property predicate on an observed result ---- *)
  Fixpoint zlist_eqb (a b : list Z) : bool :=
    match a, b with
    | [], [] => true
    | x :: ra, y :: rb => (x =? y) && zlist_eqb ra rb
    | _, _ => false
    end.
  Fixpoint ascending (l : list Z) : bool :=
    match l with
    | x :: ((y :: _) as r) => (x <? y) && ascending r
    | _ => true
    end.
  Definition zmem (x : Z) (l : list Z) : bool := existsb (Z.eqb x) l.

  (* find_neighbors: inside the quantifier of C20 *)
  Definition nbr_in_scope (ntotal ndim index r : Z) : bool :=
    (1 <=? ntotal) && (ntotal <=? 2147483648) && (1 <=? ndim) && (index <? ntotal) && fle f_zero r.

  Definition nbr_pred (ntotal ndim index r : Z) (observed : sx) : bool :=
    match observed with
    | SL [SZ 0; SL [l]] =>
        match un_zlist l with
        | Some l =>
            zmem index l                                              (* contains the centre *)
            && ascending l                                            (* ascending, no repeats *)
            && forallb (fun j => (0 <=? j) && (j <? ntotal)) l        (* valid indices *)
            && zlist_eqb l (geo_nbrs_fast ntotal ndim index r)        (* = the geometric set (geo_nbrs_fast_eq) *)
        | None => false
        end
    | _ => false                                                      (* panicked, or no neighbourhood *)
    end.

  Definition topo_check (op : Z) (args : list sx) (observed : sx) : option sx :=
    match op, args with
    | 0, [SZ index; SZ nedge; SZ ndim] =>
        (* digits of an index of the cube [0, nedge^ndim); powers representable *)
        if (1 <=? nedge) && (1 <=? ndim) && (ndim <=? 4096)
           && (nedge ^ (ndim - 1) <? two64) && (index <? nedge ^ ndim) then
          let dg := digits nedge (Z.to_nat ndim) index in
          Some (sx_bool (sx_eqb observed (SL [SZ 0; SL [sx_list SZ dg]]) && (compose nedge dg =? index)))
        else Some (SZ 2)
    | 1, [l1; l2] =>
        match un_zlist l1, un_zlist l2 with
        | Some l1, Some l2 =>
            if Nat.eqb (length l1) (length l2) && forallb (fun x => x <? 4096) (l1 ++ l2)
               && (sqdist l1 l2 <? two24) then
              Some (sx_bool (sx_eqb observed (SL [SZ 0; SL [SZ (fsqrt (f_of_usize (sqdist l1 l2)))]])))
            else Some (SZ 2)
        | _, _ => None
        end
    | 2, [SZ ntotal; SZ ndim; SZ index; SZ r] =>
        if nbr_in_scope ntotal ndim index r then Some (sx_bool (nbr_pred ntotal ndim index r observed))
        else Some (SZ 2)
    | 3, [SZ a; SZ b] =>
        match observed with
        | SL [SZ 0; SL [SZ sq; SZ pw; SZ ml; SZ sq'; SZ ad; SZ ad'; SZ c; SZ sm; SZ wi; SZ rt]] =>
            if (a <? two24) && (b <? two24) then
              Some (sx_bool
                ((if (a - b) * (a - b) <? two24
                  then (sq =? sq') && (pw =? sq') && (ml =? sq') else true)        (* fie_sq_powf, fie_sq_mul *)
                 && (if a + b <? two24 then ad =? ad' else true)                   (* fie_add *)
                 && (c =? sx_cmp3 (Some (a ?= b)))                                 (* fie_cmp_int *)
                 && (if a <=? b then sm =? 1 else true)                            (* fie_sqrt_mono *)
                 && (if b <? 4096 then wi =? (if a <=? b * b then 1 else 0) else true)
                 && (if a <? 4096 then rt =? f_of_usize a else true)))             (* fie_sqrt_sq *)
            else Some (SZ 2)
        | _ => Some (SZ 0)
        end
    | 4, [SZ ntotal; SZ ndim; SZ i; SZ j; SZ r] =>
        (* j is a neighbour of i exactly when i is a neighbour of j *)
        if nbr_in_scope ntotal ndim i r && nbr_in_scope ntotal ndim j r then
          match observed with
          | SL [SZ 0; SL [SL [la]; SL [lb]]] =>
              match un_zlist la, un_zlist lb with
              | Some la, Some lb => Some (sx_bool (Bool.eqb (zmem j la) (zmem i lb)))
              | _, _ => Some (SZ 0)
              end
          | _ => Some (SZ 0)
          end
        else Some (SZ 2)
    | 5, [SZ ntotal; SZ ndim; SZ i; SZ r1; SZ r2] =>
        (* the neighbourhood grows with the radius *)
        if nbr_in_scope ntotal ndim i r1 && fle r1 r2 then
          match observed with
          | SL [SZ 0; SL [SL [la]; SL [lb]]] =>
              match un_zlist la, un_zlist lb with
              | Some la, Some lb => Some (sx_bool (forallb (fun x => zmem x lb) la))
              | _, _ => Some (SZ 0)
              end
          | _ => Some (SZ 0)
          end
        else Some (SZ 2)
    | _, _ => None
    end.
End WithOps.

Definition un_topo_case (s : sx) : option (profile * list (Z * Z * Z) * Z * list sx) :=
  match s with
  | SL (SZ p :: tab :: SZ op :: args) =>
      match un_libm tab with
      | Some tab => if p =? 0 then Some (Debug, tab, op, args) else if p =? 1 then Some (Release, tab, op, args) else None
      | None => None
      end
  | _ => None
  end.

Definition pm_topo (s : sx) : sx :=
  match un_topo_case s with
  | Some (p, tab, op, args) =>
      match @topo_run (flocq_ops tab) p op args with Some r => r | None => sx_bad end
  | None => sx_bad
  end.

Definition pm_topo_check (s : sx) : sx :=
  match s with
  | SL [c; observed] =>
      match un_topo_case c with
      | Some (_, tab, op, args) =>
          match @topo_check (flocq_ops tab) op args observed with Some r => r | None => sx_bad end
      | None => sx_bad
      end
  | _ => sx_bad
  end.

(* KnownClass 1: more than 64 dimensions for more than one cell.  The edge is
   at least 2, decompose_index reaches checked_pow(64) = None and
   find_neighbors reports None (C20_known_large_ndim). *)
Definition pm_topo_known (s : sx) : sx :=
  match un_topo_case s with
  | Some (_, _, 2, [SZ ntotal; SZ ndim; _; _])
  | Some (_, _, 4, [SZ ntotal; SZ ndim; _; _; _])
  | Some (_, _, 5, [SZ ntotal; SZ ndim; _; _; _]) =>
      SZ (if (2 <=? ntotal) && (65 <=? ndim) then 1 else 0)
  | _ => SZ 0
  end.

(* The pinned edge computation, run on binary32 with the value Rust's powf
   returns for (125.0, 1/3) = 5.0000005: the edge becomes 6 although 5^3 = 125. *)
Example C20_nedge_pinned_refuted :
  let FO := flocq_ops [(FN_POWF, 4826169951732279979, 1084227585)] in
  nedge_pinned 125 3 = Ok 6 /\ iroot_ceil 125 3 = 5 /\ edge_length 125 3 = 5.
Proof. vm_compute. repeat split. Qed.

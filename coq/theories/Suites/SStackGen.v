(* The wire suite of the stack container, generic in the element type: the
   operation decoder, the result encoder and the decidable well-formedness test
   of Suites/SStack.v with the element codec as a parameter.  Instances:
   Suites/SStackItem.v (PushStack<Item>).  No float instance is chosen here.
   op tags: see Suites/SStack.v. *)
From Coq Require Import ZArith List Bool.
From PushModel Require Import Base.Sx Base.Machine Base.ListOps Model.Stack Spec.SeqSpec Model.StackMachine.
Import ListNotations.
Open Scope Z_scope.

Section Gen.
  Context {A : Type}.
  Variable un_el : sx -> option A.
  Variable sx_el : A -> sx.
  Variable sx_listing : list A -> sx.    (* what to_string shows of a top-first listing *)
  Variable eqA : A -> A -> bool.
  Variable streq : A -> A -> bool.

  Definition un_op_g (s : sx) : option (op A) :=
    match s with
    | SL [SZ 0] => Some OSize
    | SL [SZ 1] => Some OToList
    | SL [SZ 2; a] => let? a := un_el a in Some (OLastEq a)
    | SL [SZ 3; SZ i; a] => let? a := un_el a in Some (OEqualAt i a)
    | SL [SZ 4] => Some OBottom
    | SL [SZ 5] => Some OFlush
    | SL [SZ 6; SZ i; a] => let? a := un_el a in Some (OReplace i a)
    | SL [SZ 7; SZ i] => Some (ORemove i)
    | SL [SZ 8] => Some OReverse
    | SL [SZ 9; SZ i] => Some (OGet i)
    | SL [SZ 10; a] => let? a := un_el a in Some (OPush a)
    | SL [SZ 11; a] => let? a := un_el a in Some (OPushFront a)
    | SL [SZ 12; SZ i] => Some (OYank i)
    | SL [SZ 13; SZ i] => Some (OShove i)
    | SL [SZ 14; SZ i; SZ j] => Some (OSwap i j)
    | SL [SZ 15] => Some OPopFront
    | SL [SZ 16] => Some OPop
    | SL [SZ 17; SZ n] => Some (OPopVec n)
    | SL [SZ 18; SZ i] => Some (OCopy i)
    | SL [SZ 19; SZ n] => Some (OCopyVec n)
    | SL [SZ 20; l] => let? l := un_list un_el l in Some (OPushVec l)
    | _ => None
    end.

  Definition sx_out_g (u : out A) : sx :=
    match u with
    | UUnit => SL []
    | UZ z => SZ z
    | UB b => sx_bool b
    | UOB o => sx_opt sx_bool o
    | UOA o => sx_opt sx_el o
    | UOL o => sx_opt (sx_list sx_el) o
    | UL l => sx_listing l
    | UOZ o => sx_opt SZ o
    end.

  Definition sx_run_g (r : list A * list (out A)) : sx :=
    SL [sx_list sx_el (fst r); sx_list sx_out_g (snd r)].

  (* decidable form of [ops_wf] along the specification's own run *)
  Fixpoint ops_wf_bg (t : list A) (ops : list (op A)) : bool :=
    match ops with
    | [] => true
    | o :: r =>
        (match o with
         | OEqualAt i _ | OReplace i _ | ORemove i | OGet i | OYank i | OShove i
         | OPopVec i | OCopy i | OCopyVec i => (0 <=? i) && (i <=? 18446744073709551615)
         | OSwap i j => (0 <=? i) && (i <? len t) && (0 <=? j) && (j <? len t)
         | _ => true
         end) && ops_wf_bg (fst (spec_step_c eqA streq t o)) r
    end.

  (* the model's result of a history (init bottom first) *)
  Definition run_g (p : profile) (init : list A) (ops : list (op A)) : sx :=
    sx_res (fun r : vec A * list (out A) => sx_run_g (rev (fst r), snd r))
           (impl_run eqA streq p (s_from_vec init) ops).

  (* the property predicate on an observed result: it is what the plain
     top-first sequence yields for the same history; 2 = outside the quantifier *)
  Definition check_g (init : list A) (ops : list (op A)) (observed : sx) : sx :=
    if ops_wf_bg (rev init) ops then
      sx_bool (sx_eqb observed (SL [SZ 0; sx_run_g (spec_run_c eqA streq (rev init) ops)]))
    else SZ 2.
End Gen.

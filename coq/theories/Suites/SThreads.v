(* Wire suites of C14 (determinism and isolation): what the model says the
   implementation must return when the same case is run repeatedly, after
   unrelated runs, and on several threads at once (harness/src/suites/threads.rs).

   "thr.repeat"  (profile libm state mode arg world (n m t) (other_state ...))
                 the first six fields are a "run" case (Suites/SState.v).  The harness runs it n times
                 in a row, then after m runs of the other states (+ node creations and RAND draws that
                 move the process-wide counter and the thread's generator), then on t threads at once,
                 and returns the list of DISTINCT results (each result is a whole "run" answer:
                 (0 (outcome state)) or (1) = panicked).
                 Model: world independence (C14_world_independent_run) => exactly one result, pm_run's.
   "thr.repeat.check"  1 = the observed list is [pm_run case]; 2 = the state mentions a world-reading
                 instruction (outside the quantifier of C14); 0 otherwise.
   "thr.ids"     (profile t k via) t threads x k node creations (via 0: Graph::add_node, 1: GRAPH.NODE*ADD, 2: add_node interleaved with unrelated runs;
                 through PushInterpreter::step) -> (pairwise_distinct each_thread_increasing how_many)
                 Model: C14_node_ids_unique_under_interleaving => (1 1 t*k) whatever the schedule.
   "thr.cli"     (profile libm text) the `pushr` binary on the program text, its last printed block, and the
                 library (parse_program + run) on the same text
                 -> (cli_exec cli_code cli_int lib_exec lib_code lib_int lib_outcome), strings as code points.
                 Model: parse_program, run, then the three printed stacks, twice (C14_cli_equals_library).
   "thr.cli.check" 1 = the observed answer equals the model's; 2 = the program names BIN, an excluded
                 instruction, or does not end with NoErrors in the model. *)
From Coq Require Import ZArith String List Bool.
From PushModel Require Import Base.Sx Base.Machine Base.ListOps Base.F32 Base.F32Flocq Model.Item Model.GraphT Model.State
  Model.InstrBase Model.Registry Model.Interp Model.RegistryAll Model.Parser Model.Cli Spec.DetSpec
  Proofs.DeterminismInv Proofs.DeterminismCli
  Suites.SItem Suites.SGraphT Suites.SState Suites.SParser.
Import ListNotations.
Open Scope Z_scope.

Definition params_ok (p : sx) : bool :=
  match p with
  | SL [SZ n; SZ m; SZ t] => (0 <=? n) && (0 <=? m) && (0 <=? t) && (1 <=? n + t)
  | _ => false
  end.

Definition pm_thr_repeat (c : sx) : sx :=
  match c with
  | SL [pr; tab; st; mode; arg; wd; params; SL others] =>
      if params_ok params && forallb (fun o => match un_state o with Some _ => true | None => false end) others then
        let r := pm_run (SL [pr; tab; st; mode; arg; wd]) in
        if sx_eqb r sx_bad then sx_bad
        else match r with
             | SL (SZ 2 :: _) => r            (* a libm value is still missing *)
             | _ => SL [SZ 0; SL [r]]
             end
      else sx_bad
  | _ => sx_bad
  end.

Definition pm_thr_repeat_check (a : sx) : sx :=
  match a with
  | SL [SL [pr; tab; st; mode; arg; wd; params; others] as case; observed] =>
      let m := pm_thr_repeat case in
      if sx_eqb m sx_bad then sx_bad
      else match m with
           | SL (SZ 2 :: _) => m
           | _ => match un_state st with
                  | Some s => if mentions_b world_reading_names s then SZ 2 else sx_bool (sx_eqb m observed)
                  | None => sx_bad
                  end
           end
  | _ => sx_bad
  end.

Definition pm_thr_ids (c : sx) : sx :=
  match c with
  | SL [pr; SZ t; SZ k; SZ via] =>
      match un_profile pr with
      | Some _ => if (0 <=? t) && (0 <=? k) && ((via =? 0) || (via =? 1))
                  then SL [SZ 0; SL [SZ 1; SZ 1; SZ (t * k)]]
                  else if (0 <=? t) && (0 <=? k) && (via =? 2)      (* every third creation is followed by an unrelated run that creates one node *)
                  then SL [SZ 0; SL [SZ 1; SZ 1; SZ (t * (k + (k + 2) / 3))]]
                  else if (0 <=? t) && (0 <=? k) && (via =? 3)      (* every second creation is followed by remove + create on the graph and on a clone *)
                  then SL [SZ 0; SL [SZ 1; SZ 1; SZ (t * (k + 2 * ((k + 1) / 2)))]]
                  else sx_bad
      | None => sx_bad
      end
  | _ => sx_bad
  end.

Definition pm_thr_ids_check (a : sx) : sx :=
  match a with
  | SL [case; observed] =>
      let m := pm_thr_ids case in
      if sx_eqb m sx_bad then sx_bad else sx_bool (sx_eqb m observed)
  | _ => sx_bad
  end.

Definition w_fresh : world := {| w_next_node := 1; w_tape := [] |}.

(* (answer, inside the quantifier of C14_cli_equals_library?) *)
Definition thr_cli_model (c : sx) : option (sx * bool) :=
  match c with
  | SL [pr; tab; text] =>
      match un_profile pr, un_libm tab, un_zlist text with
      | Some p, Some tab, Some text =>
          let FO := flocq_ops tab in
          Some
            match parse_program p reg_names empty_state text with
            | Ok s0 =>
                let inq := negb (mentions_name_b [ "BIN"%string ] s0) && negb (mentions_b cli_excluded s0) in
                match run p full_registry (fun _ => 0) w_fresh s0 with
                | Ok (o, _, s) =>
                    let '(e, cd, i) := cli_lines s in
                    (SL [SZ 0; SL [sx_str e; sx_str cd; sx_str i; sx_str e; sx_str cd; sx_str i; sx_outcome o]],
                     inq && match o with NoErrors => true | _ => false end)
                | Panic => (SL [SZ 1], false)
                | Need fn x => (SL [SZ 2; SZ fn; SZ x], false)
                end
            | Panic => (SL [SZ 1], false)
            | Need fn x => (SL [SZ 2; SZ fn; SZ x], false)
            end
      | _, _, _ => None
      end
  | _ => None
  end.

Definition pm_thr_cli (c : sx) : sx :=
  match thr_cli_model c with Some (r, _) => r | None => sx_bad end.

Definition pm_thr_cli_check (a : sx) : sx :=
  match a with
  | SL [case; observed] =>
      match thr_cli_model case with
      | Some (SL (SZ 2 :: _) as m, _) => m
      | Some (m, true) => sx_bool (sx_eqb m observed)
      | Some (_, false) => SZ 2
      | None => sx_bad
      end
  | _ => sx_bad
  end.

(* Checker "frame.check" (C10): the frame predicates evaluated on an observed single-step result.
   case     : a `run` case, mode 0, 1 step, one instruction on top of EXEC
   observed : the implementation's result  (0 (finished state))  or  (1) panicked
   The footprint and the operand requirement of the instruction are looked up BY NAME in the
   specification tables of Spec/Footprint.v (fp_all, nd_all) — not in the instruction model —
   and the decidable predicates of Proofs/FrameDec.v are evaluated on
   (state before with the instruction popped, state after):
     same_outside footprint, and only_pops when an operand is lacking.
   Bindings are compared as the sorted association list the wire carries.
   1 holds / 0 fails (a panic fails) / 2 not a single registered instruction. *)
From Coq Require Import ZArith String List Bool.
From PushModel Require Import Base.Sx Base.Machine Base.ListOps Base.F32 Base.F32Flocq Model.Item Model.GraphT Model.State
  Model.InstrBase Spec.Footprint Proofs.FrameDec Suites.SItem Suites.SState.
Import ListNotations.
Open Scope Z_scope.

(* lookup of a name given as code points in a table keyed by Coq strings *)
Fixpoint lookup_l {B} (t : list (string * B)) (n : str) : option B :=
  match t with
  | [] => None
  | (k, v) :: r => if str_eqb n (s2l k) then Some v else lookup_l r n
  end.

Definition canon (s : state) : state := set_bind s (sort_binds (st_bind s)).

(* does the instruction [n] not apply in [b] ?  0 applies / 1 an operand is lacking / 2 operands there, guard fails *)
Definition unfired_class {FO : FloatOps} (nd : need) (n : str) (b : state) : Z :=
  if lacking_in nd b then 1
  else match lookup_l gd_all n with
       | Some g => if g b then 2 else 0
       | None => 0
       end.

Definition pm_frame_check (c : sx) : sx :=
  match c with
  | SL [SL [_; tab; st; SZ 0; SZ 1; _]; observed] =>
      match un_state st, un_libm tab with
      | Some s, Some tab =>
          let FO := flocq_ops tab in
          match st_exec s with
          | IInstr n :: r =>
              match lookup_l fp_all n, lookup_l nd_all n with
              | Some m, Some nd =>
                  match observed with
                  | SL [SZ 0; SL [_; st']] =>
                      match un_state st' with
                      | Some s' =>
                          let b := canon (set_exec s r) in
                          sx_bool (frame_verdict m (negb (unfired_class nd n b =? 0)) b (canon s'))
                      | None => sx_bad
                      end
                  | _ => SZ 0
                  end
              | _, _ => SZ 2
              end
          | _ => SZ 2
          end
      | _, _ => sx_bad
      end
  | _ => sx_bad
  end.

(* "frame.class": how the specification classifies a case (for the coverage accounting and the
   self-check of the generators of checks/C10.py): 0 applies / 1 lacking / 2 guard fails / 3 not an instruction *)
Definition pm_frame_class (c : sx) : sx :=
  match c with
  | SL [_; tab; st; SZ 0; SZ 1; _] =>
      match un_state st, un_libm tab with
      | Some s, Some tab =>
          let FO := flocq_ops tab in
          match st_exec s with
          | IInstr n :: r =>
              match lookup_l nd_all n with
              | Some nd => SL [SZ 0; SZ (unfired_class nd n (canon (set_exec s r)))]
              | None => SL [SZ 0; SZ 3]
              end
          | _ => SL [SZ 0; SZ 3]
          end
      | _, _ => sx_bad
      end
  | _ => sx_bad
  end.

(* "frame.needs": the operand requirements of the specification, for the case generator of
   checks/C10.py (so that the generator cannot drift from the table that is proved):
   ((name ((field depth) ...)) ...), fields numbered in the order of [fld]. *)
Definition fld_ix (f : fld) : Z :=
  match f with
  | FBool => 0 | FCode => 1 | FExec => 2 | FFloat => 3 | FIndex => 4 | FInt => 5 | FName => 6 | FBvec => 7
  | FFvec => 8 | FIvec => 9 | FInput => 10 | FOutput => 11 | FGraph => 12 | FBind => 13 | FCfg => 14
  | FQuote => 15 | FSend => 16
  end.
Definition pm_frame_needs (c : sx) : sx :=
  SL [SZ 0; sx_list (fun e : string * need =>
                       SL [sx_str (s2l (fst e));
                           sx_list (fun d : fld * nat => SL [SZ (fld_ix (fst d)); SZ (Z.of_nat (snd d))]) (snd e)])
                    nd_all].

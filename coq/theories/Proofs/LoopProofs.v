(* C06: EXEC.LOOP executes a well-behaved body exactly destination-many times with
   INDEX.CURRENT = 0, 1, ..., n-1 in order, and leaves no index or loop code behind. *)
From Coq Require Import ZArith String List Bool Lia ZifyBool.
From PushModel Require Import Base.Sx Base.Machine Base.ListOps Base.F32 Model.Item Model.GraphT Model.State
  Model.InstrBase Model.ICode Model.IVector Model.Registry Model.Interp Model.RegistryAll Proofs.RunProofs.
Import ListNotations.
Open Scope Z_scope.

Section Loop.
  Context {FO : FloatOps}.
  Variable p : profile.
  Notation reg := full_registry.
  Notation iter := (iter_step p reg).

  (* [runs w s s'] : finitely many interpreter steps lead from s to s' (world unchanged) *)
  Definition runs (w : world) (s s' : state) : Prop := exists k : nat, iter k w s = Ok (w, s').

  Lemma iter_app a : forall b w s,
    iter (a + b) w s = (let! r := iter a w s in iter b (fst r) (snd r)).
  Proof.
    induction a as [|a IH]; intros b w s; cbn [Nat.add iter_step].
    - reflexivity.
    - destruct (step p reg w s) as [[[fin w1] s1]| |]; cbn [rbind fst snd]; [apply IH|reflexivity|reflexivity].
  Qed.

  Lemma runs_refl w s : runs w s s.
  Proof. exists O. reflexivity. Qed.
  Lemma runs_trans w s1 s2 s3 : runs w s1 s2 -> runs w s2 s3 -> runs w s1 s3.
  Proof.
    intros (a & Ha) (b & Hb). exists (a + b)%nat. rewrite iter_app, Ha. cbn [rbind fst snd]. exact Hb.
  Qed.
  Lemma runs_step w s s' : step p reg w s = Ok (false, w, s') -> runs w s s'.
  Proof. intros H. exists 1%nat. cbn [iter_step]. rewrite H. reflexivity. Qed.

  (* a body that, from any state, terminates having restored the rest of EXEC and the INDEX stack;
     its effect on the other stacks is the function f *)
  Record behaved (b : item) (f : state -> state) : Prop := {
    bh_run : forall w s r, st_exec s = b :: r -> runs w s (f (set_exec s r));
    bh_exec : forall s, st_exec (f s) = st_exec s;
    bh_index : forall s, st_index (f s) = st_index s;
    bh_comm : forall s e, f (set_exec s e) = set_exec (f s) e;
  }.

  Definition incr (s : state) : state :=
    match st_index s with (c, n) :: ir => set_index s ((c + 1, n) :: ir) | [] => s end.
  Definition pop_index (s : state) : state := set_index s (tl (st_index s)).

  (* d sequential executions of the body, the index advancing after each *)
  Fixpoint loop_iter (f : state -> state) (d : nat) (s : state) : state :=
    match d with O => s | S d' => loop_iter f d' (incr (f s)) end.

  Lemma lookup_exec_loop : lookup reg (s2l "EXEC.LOOP") = Some (pure exec_loop).
  Proof. reflexivity. Qed.
  Lemma lookup_index_increase : lookup reg (s2l "INDEX.INCREASE") = Some (pure index_increase).
  Proof. reflexivity. Qed.

  Lemma step_instr w s n r f : st_exec s = IInstr n :: r -> lookup reg n = Some (pure f) ->
    forall s', f (set_exec s r) = Ok s' -> step p reg w s = Ok (false, w, s').
  Proof. intros E L s' H. unfold step. rewrite E, L. unfold pure. rewrite H. reflexivity. Qed.

  Lemma step_list w s l r : st_exec s = IList l :: r -> step p reg w s = Ok (false, w, set_exec s (l ++ r)).
  Proof. intros E. unfold step. rewrite E. reflexivity. Qed.

  Theorem exec_loop_runs_n_times b f : behaved b f ->
    forall (d : nat) w s r c n ir,
      st_exec s = i_instr "EXEC.LOOP" :: b :: r -> st_index s = (c, n) :: ir ->
      n - c = Z.of_nat d ->
      runs w s (pop_index (loop_iter f d (set_exec s r))).
  Proof.
    intros B. induction d as [|d IH]; intros w s r c n ir E I D.
    - (* current = destination: the index pair is removed and the loop ends *)
      apply runs_step. eapply step_instr; [exact E|exact lookup_exec_loop|].
      unfold exec_loop, loop_g. cbn [st_exec set_exec st_index]. rewrite I.
      replace (c <? n) with false by lia.
      cbn [loop_iter]. unfold pop_index. cbn [st_index set_exec]. rewrite I. reflexivity.
    - (* current < destination *)
      set (LP := IList [i_instr "INDEX.INCREASE"; i_instr "EXEC.LOOP"; b]).
      set (s1 := set_exec s (b :: LP :: r)).
      assert (S1 : step p reg w s = Ok (false, w, s1)).
      { eapply step_instr; [exact E|exact lookup_exec_loop|].
        unfold exec_loop, loop_g. cbn [st_exec set_exec st_index]. rewrite I.
        replace (c <? n) with true by lia. reflexivity. }
      (* the body runs *)
      pose proof (bh_run b f B w s1 (LP :: r) eq_refl) as R2.
      set (s2 := f (set_exec s1 (LP :: r))) in *.
      assert (E2 : st_exec s2 = LP :: r) by (unfold s2; rewrite (bh_exec b f B); reflexivity).
      assert (I2 : st_index s2 = (c, n) :: ir) by (unfold s2; rewrite (bh_index b f B); exact I).
      (* the re-arm list is unpacked, the index advances *)
      set (s3 := set_exec s2 ([i_instr "INDEX.INCREASE"; i_instr "EXEC.LOOP"; b] ++ r)).
      assert (S3 : step p reg w s2 = Ok (false, w, s3)) by (apply step_list; exact E2).
      set (s4 := set_index (set_exec s3 (i_instr "EXEC.LOOP" :: b :: r)) ((c + 1, n) :: ir)).
      assert (S4 : step p reg w s3 = Ok (false, w, s4)).
      { eapply step_instr; [reflexivity|exact lookup_index_increase|].
        unfold index_increase. cbn [st_index set_exec]. unfold s3. cbn [st_index set_exec]. rewrite I2.
        replace (c <? n) with true by lia. reflexivity. }
      assert (R5 : runs w s4 (pop_index (loop_iter f d (set_exec s4 r)))).
      { apply (IH w s4 r (c + 1) n ir); [reflexivity|reflexivity|lia]. }
      assert (EQ : set_exec s4 r = incr (f (set_exec s r))).
      { unfold incr. rewrite (bh_index b f B). cbn [st_index set_exec]. rewrite I.
        unfold s4, s3, s2, s1.
        rewrite !(bh_comm b f B).
        reflexivity. }
      rewrite EQ in R5. cbn [loop_iter].
      eapply runs_trans; [apply runs_step; exact S1|].
      eapply runs_trans; [exact R2|].
      eapply runs_trans; [apply runs_step; exact S3|].
      eapply runs_trans; [apply runs_step; exact S4|exact R5].
  Qed.

  (* what is left behind: the EXEC stack below the loop, and the INDEX stack without the pair *)
  Lemma loop_iter_exec b f (B : behaved b f) d : forall s, st_exec (loop_iter f d s) = st_exec s.
  Proof.
    induction d as [|d IH]; intros s; cbn [loop_iter]; [reflexivity|].
    rewrite IH. unfold incr. destruct (st_index (f s)) as [|[c n] ir]; cbn [st_exec set_index]; apply (bh_exec b f B).
  Qed.
  Lemma loop_iter_index b f (B : behaved b f) d : forall s c n ir, st_index s = (c, n) :: ir ->
    st_index (loop_iter f d s) = (c + Z.of_nat d, n) :: ir.
  Proof.
    induction d as [|d IH]; intros s c n ir I; cbn [loop_iter].
    - rewrite I. f_equal. f_equal. lia.
    - rewrite (IH _ (c + 1) n ir).
      + f_equal. f_equal. lia.
      + unfold incr. rewrite (bh_index b f B), I. reflexivity.
  Qed.

  Corollary exec_loop_leaves_nothing_behind b f (B : behaved b f) (d : nat) w s r c n ir :
    st_exec s = i_instr "EXEC.LOOP" :: b :: r -> st_index s = (c, n) :: ir -> n - c = Z.of_nat d ->
    exists s', runs w s s' /\ st_exec s' = r /\ st_index s' = ir.
  Proof.
    intros E I D. eexists. split; [eapply exec_loop_runs_n_times; eauto|].
    unfold pop_index. cbn [st_exec st_index set_index]. split.
    - rewrite (loop_iter_exec b f B). reflexivity.
    - rewrite (loop_iter_index b f B d _ c n ir) by exact I. reflexivity.
  Qed.

  (* INDEX.CURRENT as a body: it pushes the current index; the loop therefore pushes 0, 1, ..., n-1 *)
  Definition push_current (s : state) : state :=
    match st_index s with (c, _) :: _ => push_int s (wrap32 c) | [] => s end.
  Lemma index_current_behaved : behaved (i_instr "INDEX.CURRENT") push_current.
  Proof.
    constructor.
    - intros w s r E. apply runs_step. eapply step_instr; [exact E|reflexivity|].
      unfold index_current, push_current. cbn [st_index set_exec].
      destruct (st_index s) as [|[c n] ir]; reflexivity.
    - intros s. unfold push_current. destruct (st_index s) as [|[c n] ir] eqn:E; reflexivity.
    - intros s. unfold push_current. destruct (st_index s) as [|[c n] ir] eqn:E; cbn [st_index push_int set_int]; now rewrite ?E.
    - intros s e. unfold push_current. cbn [st_index set_exec]. destruct (st_index s) as [|[c n] ir]; reflexivity.
  Qed.

  Fixpoint count_down (d : nat) (c : Z) : list Z :=   (* c+d-1, ..., c+1, c *)
    match d with O => [] | S d' => (count_down d' (c + 1) ++ [c])%list end.
  Lemma loop_pushes_indices d : forall s c n ir, st_index s = (c, n) :: ir -> 0 <= c -> c + Z.of_nat d <= max32 ->
    st_int (loop_iter push_current d s) = (count_down d c ++ st_int s)%list.
  Proof.
    induction d as [|d IH]; intros s c n ir I C M; cbn [loop_iter count_down]; [reflexivity|].
    assert (I1 : st_index (incr (push_current s)) = (c + 1, n) :: ir).
    { unfold incr, push_current. rewrite I. cbn [st_index push_int set_int]. rewrite I. reflexivity. }
    rewrite (IH _ (c + 1) n ir I1) by lia.
    unfold incr, push_current. rewrite I. cbn [st_index st_int push_int set_int set_index]. rewrite I.
    cbn [st_int set_index set_int]. rewrite wrap32_id by (unfold in_i32, min32, max32 in *; lia).
    now rewrite <- app_assoc.
  Qed.

  (* ---- INTVECTOR.LOOP: the body once per element, in element order, that element on INTEGER ---- *)
  Definition loop_vec (f : state -> state) (v : list Z) (s : state) : state :=
    fold_left (fun s x => f (push_int s x)) v s.

  Lemma lookup_ivec_loop : lookup reg (s2l "INTVECTOR.LOOP") = Some (pure ivec_loop).
  Proof. reflexivity. Qed.

  Lemma step_lit w s v r : st_exec s = ILit v :: r -> step p reg w s = Ok (false, w, push_lit (set_exec s r) v).
  Proof. intros E. unfold step. now rewrite E. Qed.

  Theorem intvector_loop_runs_per_element b f : behaved b f ->
    forall (v : list Z) w s r vr,
      st_exec s = i_instr "INTVECTOR.LOOP" :: b :: r -> st_ivec s = v :: vr ->
      runs w s (loop_vec f v (set_ivec (set_exec s r) vr)).
  Proof.
    intros B. induction v as [|x rest IH]; intros w s r vr E V.
    - apply runs_step. eapply step_instr; [exact E|exact lookup_ivec_loop|].
      unfold ivec_loop. cbn [st_ivec st_exec set_exec set_ivec]. rewrite V. reflexivity.
    - set (LP := IList [ILit (LIntVec rest); i_instr "INTVECTOR.LOOP"; b]).
      set (S0 := push_int (set_ivec s vr) x).
      set (s1 := set_exec S0 (b :: LP :: r)).
      assert (S1 : step p reg w s = Ok (false, w, s1)).
      { eapply step_instr; [exact E|exact lookup_ivec_loop|].
        unfold ivec_loop. cbn [st_ivec st_exec set_exec set_ivec]. rewrite V. reflexivity. }
      pose proof (bh_run b f B w s1 (LP :: r) eq_refl) as R2.
      rewrite (bh_comm b f B) in R2.
      change (f s1) with (f (set_exec S0 (b :: LP :: r))) in R2. rewrite (bh_comm b f B) in R2.
      set (s2 := set_exec (set_exec (f S0) (b :: LP :: r)) (LP :: r)) in *.
      set (s3 := set_exec s2 ([ILit (LIntVec rest); i_instr "INTVECTOR.LOOP"; b] ++ r)).
      assert (S3 : step p reg w s2 = Ok (false, w, s3)) by (apply step_list; reflexivity).
      set (s4 := push_lit (set_exec s3 (i_instr "INTVECTOR.LOOP" :: b :: r)) (LIntVec rest)).
      assert (S4 : step p reg w s3 = Ok (false, w, s4)) by (apply step_lit; reflexivity).
      assert (R5 : runs w s4 (loop_vec f rest (set_ivec (set_exec s4 r) (st_ivec (f S0))))).
      { apply IH; reflexivity. }
      assert (EQ : set_ivec (set_exec s4 r) (st_ivec (f S0)) = f (push_int (set_ivec (set_exec s r) vr) x)).
      { change (push_int (set_ivec (set_exec s r) vr) x) with (set_exec S0 r).
        rewrite (bh_comm b f B). reflexivity. }
      rewrite EQ in R5. cbn [loop_vec fold_left].
      eapply runs_trans; [apply runs_step; exact S1|].
      eapply runs_trans; [exact R2|].
      eapply runs_trans; [apply runs_step; exact S3|].
      eapply runs_trans; [apply runs_step; exact S4|exact R5].
  Qed.

  (* ---- loops nest: a whole counted loop is itself a well-behaved body ---- *)
  Definition counted_loop (n : Z) (b : item) : item :=
    IList [ILit (LInt n); i_instr "INDEX.DEFINE"; i_instr "EXEC.LOOP"; b].
  Definition counted_effect (f : state -> state) (n : Z) (s : state) : state :=
    pop_index (loop_iter f (Z.to_nat (Z.max 0 n)) (set_index s ((0, Z.max 0 n) :: st_index s))).

  Lemma incr_comm s e : incr (set_exec s e) = set_exec (incr s) e.
  Proof. unfold incr. cbn [st_index set_exec]. destruct (st_index s) as [|[c n] ir]; reflexivity. Qed.

  Lemma loop_iter_comm b f (B : behaved b f) d : forall s e,
    loop_iter f d (set_exec s e) = set_exec (loop_iter f d s) e.
  Proof.
    induction d as [|d IH]; intros s e; cbn [loop_iter]; [reflexivity|].
    rewrite (bh_comm b f B), incr_comm. apply IH.
  Qed.

  Lemma lookup_index_define : lookup reg (s2l "INDEX.DEFINE") = Some (pure index_define).
  Proof. reflexivity. Qed.

  Theorem counted_loop_behaved b f n : behaved b f -> behaved (counted_loop n b) (counted_effect f n).
  Proof.
    intros B. constructor.
    - intros w s r E.
      set (s1 := set_exec s ([ILit (LInt n); i_instr "INDEX.DEFINE"; i_instr "EXEC.LOOP"; b] ++ r)).
      assert (S1 : step p reg w s = Ok (false, w, s1)) by (apply step_list; exact E).
      set (s2 := push_lit (set_exec s1 (i_instr "INDEX.DEFINE" :: i_instr "EXEC.LOOP" :: b :: r)) (LInt n)).
      assert (S2 : step p reg w s1 = Ok (false, w, s2)) by (apply step_lit; reflexivity).
      set (s3 := set_index (set_exec s (i_instr "EXEC.LOOP" :: b :: r)) ((0, Z.max 0 n) :: st_index s)).
      assert (S3 : step p reg w s2 = Ok (false, w, s3)).
      { eapply step_instr; [reflexivity|exact lookup_index_define|]. reflexivity. }
      pose proof (exec_loop_runs_n_times b f B (Z.to_nat (Z.max 0 n)) w s3 r 0 (Z.max 0 n) (st_index s)
                    eq_refl eq_refl ltac:(lia)) as R4.
      assert (EQ : set_exec s3 r = set_index (set_exec s r) ((0, Z.max 0 n) :: st_index (set_exec s r))) by reflexivity.
      rewrite EQ in R4. unfold counted_effect.
      eapply runs_trans; [apply runs_step; exact S1|].
      eapply runs_trans; [apply runs_step; exact S2|].
      eapply runs_trans; [apply runs_step; exact S3|exact R4].
    - intros s. unfold counted_effect, pop_index. cbn [st_exec set_index].
      rewrite (loop_iter_exec b f B). reflexivity.
    - intros s. unfold counted_effect, pop_index. cbn [st_index set_index].
      rewrite (loop_iter_index b f B _ _ 0 (Z.max 0 n) (st_index s)) by reflexivity. reflexivity.
    - intros s e. unfold counted_effect.
      change (set_index (set_exec s e) ((0, Z.max 0 n) :: st_index (set_exec s e)))
        with (set_exec (set_index s ((0, Z.max 0 n) :: st_index s)) e).
      rewrite (loop_iter_comm b f B). unfold pop_index. reflexivity.
  Qed.
End Loop.

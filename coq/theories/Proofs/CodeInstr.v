(* C08 at instruction level: the CODE.* wrappers (index normalisation, operand order, what is
   popped) in terms of the depth-first point specification of Spec/TreeSpec.v. *)
From Coq Require Import ZArith String List Bool Lia ZifyBool.
From PushModel Require Import Base.Sx Base.Machine Base.ListOps Base.F32 Model.Item Model.GraphT Model.State
  Model.InstrBase Model.ICode Spec.TreeSpec Proofs.TreePoints Proofs.TreeInsert Proofs.TreeSearch Proofs.NameProofs.
Import ListNotations.
Open Scope Z_scope.

Lemma size_pos t : 1 <= size t.
Proof. rewrite size_is_length_points. destruct t; cbn; lia. Qed.

Section CodeInstr.
  Context {FO : FloatOps}.
  Variable p : profile.

  Lemma code_size_spec s t r : st_code s = t :: r ->
    code_size s = Ok (push_int s (wrap32 (Z.of_nat (length (points t))))).
  Proof. intros E. unfold code_size. rewrite E. now rewrite size_is_length_points. Qed.

  (* EXTRACT: any i32 index is normalised by rem_euclid of the number of points *)
  Lemma code_extract_normalises s idx ir t r :
    st_int s = idx :: ir -> st_code s = t :: r -> size t <= max32 ->
    code_extract p s = Ok (push_code (set_int s ir) (nth_point t (idx mod size t))).
  Proof.
    intros Ei Ec Hs. pose proof (size_pos t) as Hp.
    unfold code_extract. rewrite Ei. cbn [st_code set_int]. rewrite Ec.
    rewrite wrap32_id by (unfold in_i32, min32, max32 in *; lia).
    unfold rem_euclid32. replace (size t =? 0) with false by lia.
    replace ((idx =? min32) && (size t =? -1)) with false by lia. cbn [rbind].
    rewrite Z.abs_eq by lia.
    pose proof (Z.mod_pos_bound idx (size t) ltac:(lia)) as Hm.
    unfold i32_as_usize. replace (idx mod size t <? 0) with false by lia.
    destruct (traverse_spec p t (idx mod size t) ltac:(lia)) as [Hf _].
    rewrite Hf by lia. reflexivity.
  Qed.

  (* INSERT: 0 < i < size replaces exactly point i of the top item by the second item; any other
     index (negative, 0, beyond) leaves the top item unchanged (the index is NOT normalised) *)
  Lemma code_insert_spec s idx ir t x r :
    st_int s = idx :: ir -> st_code s = t :: x :: r -> 0 < idx < size t ->
    code_insert p s = Ok (set_code (set_int s ir) (replace_point t idx x :: x :: r)).
  Proof.
    intros Ei Ec H. unfold code_insert. rewrite Ei. cbn [st_code set_int]. rewrite Ec.
    unfold i32_as_usize. replace (idx <? 0) with false by lia.
    rewrite (insert_spec p t x idx H). reflexivity.
  Qed.

  Lemma code_insert_outside_noop s idx ir t x r :
    st_int s = idx :: ir -> st_code s = t :: x :: r -> (idx <= 0 \/ size t <= idx) -> size t < two64 - two32 -> min32 <= idx ->
    code_insert p s = Ok (set_code (set_int s ir) (t :: x :: r)).
  Proof.
    intros Ei Ec H Hs Hm. unfold code_insert. rewrite Ei. cbn [st_code set_int]. rewrite Ec.
    unfold i32_as_usize. destruct (idx <? 0) eqn:En.
    - rewrite insert_out_of_range_noop; [reflexivity|]. unfold two64, two32, min32 in *. lia.
    - destruct (Z.eq_dec idx 0) as [->|Hne].
      + rewrite insert_root_untouched. reflexivity.
      + rewrite insert_out_of_range_noop; [reflexivity|lia].
  Qed.

  (* POSITION: index of the first structurally equal point of the top item, -1 when absent *)
  Lemma code_position_spec s b a r : st_code s = b :: a :: r ->
    code_position s = Ok (push_int s (match first_index a b with Some k => wrap32 k | None => -1 end)).
  Proof. intros E. unfold code_position. rewrite E. now rewrite position_spec. Qed.

  Lemma code_container_spec s b a r : st_code s = b :: a :: r ->
    code_container s = Ok (push_code s (match container_of b a with COk c => c | CErr _ => IList [] end)).
  Proof. intros E. unfold code_container. rewrite E. now rewrite container_spec. Qed.

  (* SUBST: target (top), substitute (second), pattern (third) are popped; all and only the
     maximal structural matches are replaced; a target equal to the pattern becomes the substitute *)
  Lemma code_subst_spec s target sub pat r : st_code s = target :: sub :: pat :: r ->
    code_subst s = Ok (set_code s ((if equals target pat then sub else subst_all target pat sub) :: r)).
  Proof. intros E. unfold code_subst. rewrite E. rewrite subst_spec. reflexivity. Qed.

  (* DISCREPANCY is symmetric and zero for identical items *)
  Lemma str_eqb_sym a b : str_eqb a b = str_eqb b a.
  Proof.
    destruct (str_eqb a b) eqn:E.
    - apply str_eqb_eq in E. subst. symmetry. apply str_eqb_refl.
    - destruct (str_eqb b a) eqn:E2; [|reflexivity]. apply str_eqb_eq in E2. subst. now rewrite str_eqb_refl in E.
  Qed.
  Lemma item_streq_sym a b : item_streq a b = item_streq b a.
  Proof. unfold item_streq. apply str_eqb_sym. Qed.
  Lemma item_streq_refl a : item_streq a a = true.
  Proof. unfold item_streq. apply str_eqb_refl. Qed.

  Lemma mismatches_sym l1 : forall l2, mismatches l1 l2 = mismatches l2 l1.
  Proof.
    induction l1 as [|x r IH]; intros [|y r2]; cbn [mismatches]; try reflexivity.
    rewrite (item_streq_sym y x), IH. reflexivity.
  Qed.
  Lemma mismatches_refl l : mismatches l l = 0.
  Proof. induction l as [|x r IH]; cbn [mismatches]; [reflexivity|]. now rewrite item_streq_refl, IH. Qed.

  Lemma discrepancy_symmetric a b : discrepancy a b = discrepancy b a.
  Proof.
    unfold discrepancy. destruct a, b; try (rewrite item_streq_sym; reflexivity).
    rewrite mismatches_sym. f_equal. f_equal. lia.
  Qed.
  Lemma discrepancy_zero_on_equal a : discrepancy a a = 0.
  Proof.
    unfold discrepancy. destruct a; try (now rewrite item_streq_refl).
    rewrite mismatches_refl, Z.sub_diag. reflexivity.
  Qed.
End CodeInstr.

(* Lemmas about the GRAPH.* instruction model (Model/IGraph.v, Model/RegistryGraph.v):
   the graph stack only grows or has its top replaced by the result of an API
   call on it; consequences: snapshots are kept, [inv] is preserved; what the
   HISTORY instructions read; stale ids; the wrappers and the API. *)
From Coq Require Import ZArith String List Bool Lia ZifyBool.
From PushModel Require Import Base.Sx Base.Machine Base.ListOps Base.F32 Model.Item Model.GraphT Model.State
  Model.InstrBase Model.Registry Model.Interp Model.IGraph Model.RegistryGraph Model.RegistryAll
  Model.Buffer Spec.BufSpec Proofs.GraphFacts.
Import ListNotations.
Close Scope string_scope.
Open Scope Z_scope.

(* ---------------------------------------------------------------------- *)
(* the graph stack as a list, oldest first *)
Lemma zlen_app {A} (a b : list A) : zlen (a ++ b) = zlen a + zlen b.
Proof. unfold zlen. rewrite app_length. lia. Qed.

Lemma gs_get_newest l i :
  0 <= i -> gs_get l i = nth_error (rev l) (Z.to_nat i).
Proof.
  intros Hi. unfold gs_get, zlen.
  destruct (Z.ltb_spec i (Z.of_nat (length l))) as [H|H].
  - replace (0 <=? i) with true by lia. reflexivity.
  - rewrite andb_false_r. symmetry. apply nth_error_None. rewrite rev_length. lia.
Qed.

(* get(i) of the Stack-kind buffer specification (Spec/BufSpec.v, C17) *)
Lemma gs_get_bget l i : 0 <= i -> gs_get l i = bget Stack l i.
Proof.
  intros Hi. unfold gs_get, bget, blen, zlen.
  replace (0 <=? i) with true by lia. reflexivity.
Qed.

Lemma gs_get_neg l i : i < 0 -> gs_get l i = None.
Proof. intros H. unfold gs_get. replace (0 <=? i) with false by lia. reflexivity. Qed.

Lemma gs_get_top below g : gs_get (below ++ [g]) 0 = Some g.
Proof.
  rewrite gs_get_newest by lia. rewrite rev_app_distr. reflexivity.
Qed.

Lemma gs_get_second below a b : gs_get (below ++ [a; b]) 1 = Some a.
Proof.
  rewrite gs_get_newest by lia. rewrite rev_app_distr. reflexivity.
Qed.

Lemma gs_get_0_split l g : gs_get l 0 = Some g -> exists below, l = below ++ [g].
Proof.
  rewrite gs_get_newest by lia. cbn [Z.to_nat].
  destruct (rev l) as [|x r] eqn:E; cbn [nth_error]; [discriminate|].
  intros [= ->]. exists (rev r). rewrite <- (rev_involutive l), E. reflexivity.
Qed.

Lemma gs_get_0_nil : gs_get [] 0 = None.
Proof. reflexivity. Qed.

Lemma gs_set_top_app below g g' : gs_set_top (below ++ [g]) g' = below ++ [g'].
Proof.
  unfold gs_set_top. destruct (below ++ [g]) eqn:E.
  - destruct below; discriminate.
  - rewrite <- E. rewrite removelast_last. reflexivity.
Qed.

Lemma gs_set_top_same l g : gs_get l 0 = Some g -> gs_set_top l g = l.
Proof. intros H. destruct (gs_get_0_split _ _ H) as [b ->]. apply gs_set_top_app. Qed.

Lemma gs_push_spec l g :
  gs_push l g = if zlen l <? GRAPH_CAP then l ++ [g] else l.
Proof. reflexivity. Qed.

(* ---------------------------------------------------------------------- *)
(* what one GRAPH.* instruction can do to the graph stack *)
Inductive geffect : Type := ENone | EPush (x : graph) | ETop (g g' : graph).
Definition apply_eff (l : list graph) (e : geffect) : list graph :=
  match e with ENone => l | EPush x => gs_push l x | ETop _ g' => gs_set_top l g' end.

Inductive api_step (g : graph) : graph -> Prop :=
| AS_add_node id st : api_step g (g_add_node g id st)
| AS_set_state id st : api_step g (g_set_state g id st)
| AS_add_edge o d w : api_step g (g_add_edge g o d w)
| AS_set_weight o d w : api_step g (g_set_weight g o d w)
| AS_switch ids sw on off : api_step g (switch_loop g ids sw on off).

Definition eff_ok (l : list graph) (e : geffect) : Prop :=
  match e with
  | ENone => True
  | EPush x => x = g_new \/ gs_get l 0 = Some x
  | ETop g g' => gs_get l 0 = Some g /\ api_step g g'
  end.
Definition gstep (l l' : list graph) : Prop := exists e, eff_ok l e /\ l' = apply_eff l e.

Ltac split_matches H :=
  repeat match type of H with
         | context [match ?x with _ => _ end] =>
             match x with
             | context [match _ with _ => _ end] => fail 1
             | _ => destruct x eqn:?; try discriminate H
             end
         end.

Section Effects.
  Context {FO : FloatOps}.

  Lemma ginstr_effect i p w s w' s' :
    ginstr_sem i p w s = Ok (w', s') ->
    st_exec s' = st_exec s /\ gstep (st_graph s) (st_graph s').
  Proof.
    intros H. destruct i; cbn [ginstr_sem] in H; unfold pure, rbind in H.
    all: cbv beta iota zeta delta [graph_add graph_dup graph_node_add graph_node_get_state graph_node_history
      graph_node_set_state graph_node_neighbors graph_node_predecessors graph_node_successors graph_query
      graph_node_state_switch graph_nodes graph_nodes_history graph_stack_depth graph_print graph_print_diff
      graph_edge_add graph_edge_history graph_edge_history_gen graph_edge_get_weight graph_edge_set_weight
      g_add_node_w counter_fetch_add set_top push_int push_float push_name] in H.
    all: split_matches H; inversion H; subst; clear H; split; try reflexivity.
    all: cbn [st_graph set_graph set_int set_float set_name set_ivec set_bvec].
    all: try solve [exists ENone; split; [exact I|reflexivity]].
    all: try solve [eexists (EPush _); split; [|reflexivity]; cbn [eff_ok]; auto].
    all: try solve [eexists (ETop _ _); split; [|reflexivity]; cbn [eff_ok]; split; [eassumption|constructor]].
  Qed.
End Effects.

Section Total.
  Context {FO : FloatOps}.
  (* no GRAPH.* instruction panics or needs an oracle value *)
  Lemma ginstr_total i p w s : exists w' s', ginstr_sem i p w s = Ok (w', s').
  Proof.
    destruct i; cbn [ginstr_sem]; unfold pure, rbind.
    all: cbv beta iota zeta delta [graph_add graph_dup graph_node_add graph_node_get_state graph_node_history
      graph_node_set_state graph_node_neighbors graph_node_predecessors graph_node_successors graph_query
      graph_node_state_switch graph_nodes graph_nodes_history graph_stack_depth graph_print graph_print_diff
      graph_edge_add graph_edge_history graph_edge_history_gen graph_edge_get_weight graph_edge_set_weight
      g_add_node_w counter_fetch_add].
    all: repeat match goal with
                | |- context [match ?x with _ => _ end] =>
                    match x with
                    | context [match _ with _ => _ end] => fail 1
                    | _ => destruct x
                    end
                end; eauto.
  Qed.
End Total.

(* ---------------------------------------------------------------------- *)
(* consequences of [gstep] *)

(* everything below the top is kept: the stack still starts with [below] and holds at least one more graph *)
Definition keeps (below l : list graph) : Prop := exists ext, l = below ++ ext /\ ext <> [].

Lemma removelast_app_ne {A} (a b : list A) : b <> [] -> removelast (a ++ b) = a ++ removelast b.
Proof. intros H. now apply removelast_app. Qed.

Lemma gstep_keeps below l l' : keeps below l -> gstep l l' -> keeps below l'.
Proof.
  intros (ext & -> & NE) (e & OK & ->). destruct e as [|x|g g']; cbn [apply_eff].
  - exists ext. auto.
  - rewrite gs_push_spec. destruct (zlen (below ++ ext) <? GRAPH_CAP).
    + exists (ext ++ [x]). split; [now rewrite app_assoc|]. destruct ext; discriminate.
    + exists ext. auto.
  - unfold gs_set_top. destruct (below ++ ext) eqn:E.
    + destruct below; destruct ext; try discriminate. congruence.
    + rewrite <- E. rewrite removelast_app_ne by assumption.
      exists (removelast ext ++ [g']). split; [now rewrite app_assoc|]. destruct (removelast ext); discriminate.
Qed.

Lemma gstep_length l l' : gstep l l' -> (length l <= length l')%nat.
Proof.
  intros (e & OK & ->). destruct e as [|x|g g']; cbn [apply_eff]; [lia| |].
  - rewrite gs_push_spec. destruct (zlen l <? GRAPH_CAP); [rewrite app_length; cbn [length]|]; lia.
  - cbn [eff_ok] in OK. destruct OK as [T _]. destruct (gs_get_0_split _ _ T) as [b ->].
    rewrite gs_set_top_app, !app_length. cbn [length]. lia.
Qed.

(* capacity: the stack never exceeds 100 graphs *)
Lemma gstep_bounded l l' : zlen l <= GRAPH_CAP -> gstep l l' -> zlen l' <= GRAPH_CAP.
Proof.
  intros B (e & OK & ->). destruct e as [|x|g g']; cbn [apply_eff]; [lia| |].
  - rewrite gs_push_spec. destruct (Z.ltb_spec (zlen l) GRAPH_CAP); [rewrite zlen_app; unfold zlen at 2; cbn [length]|]; lia.
  - cbn [eff_ok] in OK. destruct OK as [T _]. destruct (gs_get_0_split _ _ T) as [b ->].
    rewrite gs_set_top_app. rewrite zlen_app in *. unfold zlen in *. cbn [length] in *. lia.
Qed.

Section Inv.
  Context {FO : FloatOps}.

  Lemma inv_switch_loop ids : forall g sw on off, inv g -> inv (switch_loop g ids sw on off).
  Proof.
    induction ids as [|id ri IH]; intros g sw on off I; cbn [switch_loop]; [assumption|].
    destruct sw as [|b rb]; [assumption|]. apply IH. now apply inv_set_state.
  Qed.

  Lemma api_step_inv g g' : inv g -> api_step g g' -> inv g'.
  Proof.
    intros I S. destruct S.
    - now apply inv_add_node.
    - now apply inv_set_state.
    - now apply inv_add_edge.
    - now apply inv_set_weight.
    - now apply inv_switch_loop.
  Qed.

  Lemma gstep_inv l l' : Forall inv l -> gstep l l' -> Forall inv l'.
  Proof.
    intros F (e & OK & ->). destruct e as [|x|g g']; cbn [apply_eff eff_ok] in *; [assumption| |].
    - rewrite gs_push_spec. destruct (zlen l <? GRAPH_CAP); [|assumption].
      apply Forall_app. split; [assumption|]. constructor; [|constructor].
      destruct OK as [->|T]; [apply inv_new|].
      destruct (gs_get_0_split _ _ T) as [b ->]. apply Forall_app in F as [_ F]. now inversion F.
    - destruct OK as [T S]. destruct (gs_get_0_split _ _ T) as [b ->]. rewrite gs_set_top_app.
      apply Forall_app in F as [Fb Fg]. apply Forall_app. split; [assumption|].
      constructor; [|constructor]. inversion Fg; subst. eapply api_step_inv; eassumption.
  Qed.
End Inv.

(* ---------------------------------------------------------------------- *)
(* programs of GRAPH.* instructions (and literals, which feed them their operands) run by the interpreter *)
Definition gitem (t : item) : Prop :=
  (exists i, t = IInstr (s2l (ginstr_name i))) \/ (exists v, t = ILit v).

Inductive gsteps : list graph -> list graph -> Prop :=
| gsteps_refl l : gsteps l l
| gsteps_step l l1 l2 : gstep l l1 -> gsteps l1 l2 -> gsteps l l2.

Lemma gsteps_keeps below l l' : gsteps l l' -> keeps below l -> keeps below l'.
Proof. induction 1; intros K; [assumption|]. apply IHgsteps. eapply gstep_keeps; eassumption. Qed.

Lemma gsteps_bounded l l' : gsteps l l' -> zlen l <= GRAPH_CAP -> zlen l' <= GRAPH_CAP.
Proof. induction 1; intros K; [assumption|]. apply IHgsteps. eapply gstep_bounded; eassumption. Qed.

Lemma gsteps_length l l' : gsteps l l' -> (length l <= length l')%nat.
Proof. induction 1; [lia|]. apply gstep_length in H. lia. Qed.

Section Programs.
  Context {FO : FloatOps}.

  Lemma gsteps_inv l l' : gsteps l l' -> Forall inv l -> Forall inv l'.
  Proof. induction 1; intros K; [assumption|]. apply IHgsteps. eapply gstep_inv; eassumption. Qed.

  (* every GRAPH.* name of the registry is bound to its model *)
  Lemma lookup_ginstr i : lookup full_registry (s2l (ginstr_name i)) = Some (ginstr_sem i).
  Proof. destruct i; reflexivity. Qed.

  Lemma step_gitem p w s t r :
    st_exec s = t :: r -> gitem t ->
    exists w1 s1, step p full_registry w s = Ok (false, w1, s1)
                  /\ st_exec s1 = r /\ gstep (st_graph s) (st_graph s1).
  Proof.
    intros E [[i ->]|[v ->]]; unfold step; rewrite E.
    - rewrite lookup_ginstr.
      destruct (ginstr_total i p w (set_exec s r)) as (w1 & s1 & R). rewrite R. cbn [rbind fst snd].
      destruct (ginstr_effect _ _ _ _ _ _ R) as [X G]. exists w1, s1. repeat split; assumption.
    - exists w, (push_lit (set_exec s r) v). repeat split.
      + destruct v; reflexivity.
      + exists ENone. split; [exact I|]. destruct v; reflexivity.
  Qed.

  Lemma steps_gprog p k : forall prog rest w s,
    st_exec s = prog ++ rest -> Forall gitem prog -> (k <= length prog)%nat ->
    exists w' s', steps p full_registry k w s = Ok (false, w', s')
                  /\ st_exec s' = skipn k prog ++ rest /\ gsteps (st_graph s) (st_graph s').
  Proof.
    induction k as [|k IH]; intros prog rest w s E F L.
    - exists w, s. repeat split; [assumption|constructor].
    - destruct prog as [|t prog']; [cbn [length] in L; lia|].
      inversion F as [|? ? Ft Fr]; subst. cbn [app] in E.
      destruct (step_gitem p w s t (prog' ++ rest) E Ft) as (w1 & s1 & S1 & E1 & G1).
      cbn [length] in L.
      destruct (IH prog' rest w1 s1 E1 Fr ltac:(lia)) as (w' & s' & S2 & E2 & G2).
      exists w', s'. cbn [steps]. rewrite S1. cbn [rbind]. rewrite S2. repeat split; [exact E2|].
      econstructor; eassumption.
  Qed.
End Programs.

Section Snapshot.
  Context {FO : FloatOps}.

  Lemma step_instr p w s i r :
    st_exec s = IInstr (s2l (ginstr_name i)) :: r ->
    step p full_registry w s = (let! x := ginstr_sem i p w (set_exec s r) in Ok (false, fst x, snd x)).
  Proof. intros E. unfold step. rewrite E, lookup_ginstr. reflexivity. Qed.

  Lemma keeps_full below g l :
    zlen (below ++ [g]) = GRAPH_CAP -> keeps below l -> (length (below ++ [g]) <= length l)%nat ->
    zlen l <= GRAPH_CAP -> exists g', l = below ++ [g'].
  Proof.
    intros Z (ext & -> & NE) L B. rewrite zlen_app in *. unfold zlen in *. rewrite app_length in *.
    cbn [length] in *. destruct ext as [|x [|y ext]]; [congruence| |cbn [length] in *; lia].
    now exists x.
  Qed.

  (* GRAPH.DUP followed by any program of GRAPH.* instructions and literals *)
  Lemma dup_is_snapshot p w s below g prog rest k fin w' s' :
    st_graph s = below ++ [g] ->
    zlen (st_graph s) <= GRAPH_CAP ->
    st_exec s = IInstr (s2l (ginstr_name XDup)) :: prog ++ rest ->
    Forall gitem prog -> (k <= length prog)%nat ->
    steps p full_registry (S k) w s = Ok (fin, w', s') ->
    fin = false
    /\ (zlen (st_graph s) < GRAPH_CAP -> exists ext, st_graph s' = below ++ g :: ext /\ ext <> [])
    /\ (zlen (st_graph s) = GRAPH_CAP -> exists g', st_graph s' = below ++ [g'])
    /\ zlen (st_graph s') <= GRAPH_CAP.
  Proof.
    intros G B E F L R. cbn [steps] in R. rewrite (step_instr p w s XDup _ E) in R.
    cbn [ginstr_sem] in R. unfold pure, graph_dup in R. cbn [st_graph set_exec rbind fst snd] in R.
    rewrite G, gs_get_top in R. cbn [rbind fst snd] in R.
    set (s1 := set_graph (set_exec s (prog ++ rest)) (gs_push (below ++ [g]) (g_clone g))) in R.
    destruct (steps_gprog p k prog rest w s1 eq_refl F L) as (w2 & s2 & S2 & _ & G2).
    rewrite S2 in R. inversion R; subst fin w' s'. clear R. split; [reflexivity|].
    subst s1. cbn [st_graph set_graph] in G2. rewrite G in *. rewrite gs_push_spec in G2. unfold g_clone in G2.
    destruct (Z.ltb_spec (zlen (below ++ [g])) GRAPH_CAP) as [C|C].
    - repeat split.
      + intros _. assert (K : keeps (below ++ [g]) (st_graph s2)).
        { eapply gsteps_keeps; [exact G2|]. exists [g]. split; [reflexivity|discriminate]. }
        destruct K as (ext & -> & NE). exists ext. split; [now rewrite <- app_assoc|assumption].
      + lia.
      + eapply gsteps_bounded; [exact G2|]. rewrite (zlen_app (below ++ [g])). unfold zlen at 2. cbn [length]. unfold GRAPH_CAP in *. lia.
    - repeat split.
      + lia.
      + intros Z. eapply keeps_full; [exact Z| | |].
        * eapply gsteps_keeps; [exact G2|]. exists [g]. split; [reflexivity|discriminate].
        * eapply gsteps_length; exact G2.
        * eapply gsteps_bounded; [exact G2|lia].
      + eapply gsteps_bounded; [exact G2|lia].
  Qed.

  (* any program of GRAPH.* instructions and literals: everything below the top graph is kept *)
  Lemma gprog_keeps_below p w s below g prog rest k fin w' s' :
    st_graph s = below ++ [g] ->
    st_exec s = prog ++ rest -> Forall gitem prog -> (k <= length prog)%nat ->
    steps p full_registry k w s = Ok (fin, w', s') ->
    exists ext, st_graph s' = below ++ ext /\ ext <> [].
  Proof.
    intros G E F L R. destruct (steps_gprog p k prog rest w s E F L) as (w2 & s2 & S2 & _ & G2).
    rewrite S2 in R. inversion R; subst. eapply gsteps_keeps; [exact G2|].
    exists [g]. split; [assumption|discriminate].
  Qed.

  Lemma gprog_inv p w s prog rest k fin w' s' :
    Forall inv (st_graph s) ->
    st_exec s = prog ++ rest -> Forall gitem prog -> (k <= length prog)%nat ->
    steps p full_registry k w s = Ok (fin, w', s') ->
    Forall inv (st_graph s').
  Proof.
    intros I E F L R. destruct (steps_gprog p k prog rest w s E F L) as (w2 & s2 & S2 & _ & G2).
    rewrite S2 in R. inversion R; subst. eapply gsteps_inv; eassumption.
  Qed.

  Lemma ginstr_inv i p w s w' s' :
    Forall inv (st_graph s) -> ginstr_sem i p w s = Ok (w', s') -> Forall inv (st_graph s').
  Proof. intros I R. eapply gstep_inv; [exact I|]. exact (proj2 (ginstr_effect _ _ _ _ _ _ R)). Qed.
End Snapshot.

(* ---------------------------------------------------------------------- *)
(* single instructions on explicit operands *)
Ltac open_state s :=
  destruct s;
  cbn [st_bool st_code st_exec st_float st_index st_int st_name st_bvec st_fvec st_ivec st_input st_output
       st_graph st_bind st_cfg st_quote st_send] in *; subst.
Ltac run_body :=
  cbv beta iota zeta delta [graph_add graph_dup graph_node_add graph_node_get_state graph_node_history
      graph_node_set_state graph_node_neighbors graph_node_predecessors graph_node_successors graph_query
      graph_node_state_switch graph_nodes graph_nodes_history graph_stack_depth graph_print graph_print_diff
      graph_edge_add graph_edge_history graph_edge_history_pinned graph_edge_history_gen graph_edge_get_weight
      graph_edge_set_weight g_add_node_w counter_fetch_add set_top push_int push_float push_name
      st_bool st_code st_exec st_float st_index st_int st_name st_bvec st_fvec st_ivec st_input st_output
      st_graph st_bind st_cfg st_quote st_send
      set_int set_float set_name set_ivec set_bvec set_graph].

Lemma i32_as_usize_nonneg i : 0 <= i -> i32_as_usize i = i.
Proof. intros H. unfold i32_as_usize. replace (i <? 0) with false by lia. reflexivity. Qed.

(* the k-th newest snapshot of a graph stack (k = 0: the top) *)
Definition snapshot_at (l : list graph) (k : Z) : option graph := nth_error (rev l) (Z.to_nat k).

Lemma snapshot_at_bget l k : 0 <= k -> snapshot_at l k = bget Stack l k.
Proof. intros H. rewrite <- gs_get_bget by assumption. symmetry. now apply gs_get_newest. Qed.

Section History.
  Context {FO : FloatOps}.

  Lemma history_negative s pos r :
    st_int s = pos :: r -> pos < 0 ->
    graph_node_history s = Ok (set_int s r)
    /\ graph_edge_history s = Ok (set_int s r)
    /\ graph_nodes_history s = Ok (set_int s r).
  Proof.
    intros E N. open_state s. run_body.
    replace (0 <=? pos) with false by lia. repeat split; reflexivity.
  Qed.

  Lemma node_history_spec s pos id r :
    st_int s = pos :: id :: r -> 0 <= pos ->
    graph_node_history s =
    Ok (set_int s (match snapshot_at (st_graph s) pos with
                   | Some g => if 0 <=? id
                               then match g_get_state g id with Some st => st :: r | None => r end
                               else r
                   | None => r
                   end)).
  Proof.
    intros E N. open_state s. run_body.
    replace (0 <=? pos) with true by lia. rewrite gs_get_newest by assumption. unfold snapshot_at.
    destruct (nth_error (rev st_graph) (Z.to_nat pos)) as [g|]; [|reflexivity].
    destruct (Z.leb_spec 0 id) as [I|I]; [|reflexivity].
    rewrite i32_as_usize_nonneg by assumption. destruct (g_get_state g id); reflexivity.
  Qed.

  Lemma edge_history_spec s pos d o r :
    st_int s = pos :: d :: o :: r -> 0 <= pos ->
    graph_edge_history s =
    Ok (match snapshot_at (st_graph s) pos with
        | Some g => match g_get_weight g (i32_as_usize o) (i32_as_usize d) with
                    | Some w => set_float (set_int s r) (w :: st_float s)
                    | None => set_int s r
                    end
        | None => set_int s (d :: o :: r)
        end).
  Proof.
    intros E N. open_state s. run_body.
    replace (0 <=? pos) with true by lia. rewrite gs_get_newest by assumption. unfold snapshot_at.
    destruct (nth_error (rev st_graph) (Z.to_nat pos)) as [g|]; [|reflexivity].
    destruct (g_get_weight g (i32_as_usize o) (i32_as_usize d)); reflexivity.
  Qed.

  (* the body as pinned (guard `pos > 0`): depth 0 reads nothing and leaves the ids *)
  Lemma edge_history_pinned_depth0 s d o r :
    st_int s = 0 :: d :: o :: r -> graph_edge_history_pinned s = Ok (set_int s (d :: o :: r)).
  Proof. intros E. open_state s. reflexivity. Qed.

  Lemma nodes_history_spec s pos r sts vr :
    st_int s = pos :: r -> st_ivec s = sts :: vr -> 0 <= pos ->
    graph_nodes_history s =
    Ok (match snapshot_at (st_graph s) pos with
        | Some g => set_ivec (set_int s r) (g_filter g sts :: vr)
        | None => set_int s r
        end).
  Proof.
    intros E V N. open_state s. run_body.
    replace (0 <=? pos) with true by lia. rewrite gs_get_newest by assumption. unfold snapshot_at.
    destruct (nth_error (rev st_graph) (Z.to_nat pos)) as [g|]; reflexivity.
  Qed.
End History.

(* ---------------------------------------------------------------------- *)
(* ids that are not nodes of the graph *)
Lemma zm_get_lt_none {V} (m : zmap V) k :
  zsorted m -> (forall x, In x (map fst m) -> k < x) -> zm_get k m = None.
Proof.
  intros _ L. apply zm_get_none. intros I. specialize (L _ I). lia.
Qed.

Lemma zm_insert_same {V} (m : zmap V) k v : zsorted m -> zm_get k m = Some v -> zm_insert k v m = m.
Proof.
  unfold zsorted. induction m as [|[k0 v0] r IH]; cbn [zm_get zm_insert map fst snd]; [discriminate|].
  intros S G. inversion S as [|? ? Sr Hd]; subst.
  destruct (Z.eqb_spec k0 k) as [->|NE].
  - inversion G; subst. replace (k <? k) with false by lia. replace (k =? k) with true by lia. reflexivity.
  - destruct (Z.ltb_spec k k0) as [LT|GE].
    + exfalso. assert (N : zm_get k r = None).
      { apply zm_get_none. intros I. rewrite Forall_forall in Hd. specialize (Hd _ I). lia. }
      congruence.
    + replace (k =? k0) with false by lia. f_equal. now apply IH.
Qed.

Lemma e_position_none o (es : list edge) :
  ~ In o (map fst es) -> e_position o es = None.
Proof.
  induction es as [|x r IH]; cbn [e_position map In]; [reflexivity|]. intros N.
  unfold e_origin. destruct (Z.eqb_spec (fst x) o) as [E|E]; [tauto|].
  rewrite IH; [reflexivity|tauto].
Qed.

Definition stale (g : graph) (id : Z) : Prop := g_get_state g id = None.

Lemma stale_mem g id : stale g id -> zm_mem id (g_nodes g) = false.
Proof. unfold stale, g_get_state, zm_mem. now intros ->. Qed.

Lemma stale_not_origin g d es o :
  inv g -> zm_get d (g_edges g) = Some es -> stale g o -> ~ In o (map fst es).
Proof.
  intros I G S IN. destruct (inv_lookup _ _ _ I G) as (_ & _ & F). cbn [snd] in F.
  apply in_map_iff in IN as (e & <- & IE). rewrite Forall_forall in F. specialize (F _ IE).
  rewrite (stale_mem _ _ S) in F. discriminate.
Qed.

Lemma stale_not_dest g d es : inv g -> zm_get d (g_edges g) = Some es -> stale g d -> False.
Proof.
  intros I G S. destruct (inv_lookup _ _ _ I G) as (M & _ & _). cbn [fst] in M.
  rewrite (stale_mem _ _ S) in M. discriminate.
Qed.

Lemma g_set_state_stale g id st : stale g id -> g_set_state g id st = g.
Proof. unfold stale, g_get_state, g_set_state. now intros ->. Qed.

Lemma g_add_edge_stale g o d w : stale g o \/ stale g d -> g_add_edge g o d w = g.
Proof.
  intros [S|S]; unfold g_add_edge; rewrite (stale_mem _ _ S); [reflexivity|now rewrite andb_false_r].
Qed.

Lemma g_set_weight_stale g o d w : inv g -> stale g o \/ stale g d -> g_set_weight g o d w = g.
Proof.
  intros I S. unfold g_set_weight. destruct (zm_get d (g_edges g)) as [es|] eqn:G; [|reflexivity].
  destruct S as [S|S]; [|exfalso; eapply stale_not_dest; eassumption].
  unfold e_set_first. rewrite (e_position_none o es) by (eapply stale_not_origin; eassumption).
  rewrite zm_insert_same; [now destruct g|apply I|assumption].
Qed.

Lemma g_get_weight_stale g o d : inv g -> stale g o \/ stale g d -> g_get_weight g o d = None.
Proof.
  intros I S. unfold g_get_weight. destruct (zm_get d (g_edges g)) as [es|] eqn:G; [|reflexivity].
  destruct S as [S|S]; [|exfalso; eapply stale_not_dest; eassumption].
  unfold e_get_first. now rewrite (e_position_none o es) by (eapply stale_not_origin; eassumption).
Qed.

Section Stale.
  Context {FO : FloatOps}.

  Lemma switch_loop_stale ids : forall g sw on off,
    Forall (fun id => stale g (i32_as_usize id)) ids -> switch_loop g ids sw on off = g.
  Proof.
    induction ids as [|id ri IH]; intros g sw on off F; cbn [switch_loop]; [reflexivity|].
    destruct sw as [|b rb]; [reflexivity|]. inversion F; subst.
    rewrite g_set_state_stale by assumption. now apply IH.
  Qed.

  Ltac top_is H := let b := fresh "below" in destruct (gs_get_0_split _ _ H) as [b ->].

  Lemma stale_set_state s g st id r :
    gs_get (st_graph s) 0 = Some g -> st_int s = st :: id :: r -> stale g (i32_as_usize id) ->
    graph_node_set_state s = Ok (set_int s r).
  Proof.
    intros T E S. open_state s. top_is T. run_body. rewrite gs_get_top.
    destruct (0 <? id); [|reflexivity]. rewrite g_set_state_stale by assumption.
    now rewrite gs_set_top_app.
  Qed.

  Lemma stale_edge_add s g w fr d o r :
    gs_get (st_graph s) 0 = Some g -> st_float s = w :: fr -> st_int s = d :: o :: r ->
    stale g (i32_as_usize o) \/ stale g (i32_as_usize d) ->
    graph_edge_add s = Ok (set_int (set_float s fr) r).
  Proof.
    intros T F E S. open_state s. top_is T. run_body. rewrite gs_get_top.
    rewrite g_add_edge_stale by assumption. now rewrite gs_set_top_app.
  Qed.

  Lemma stale_edge_set_weight s g w fr d o r :
    gs_get (st_graph s) 0 = Some g -> inv g -> st_float s = w :: fr -> st_int s = d :: o :: r ->
    stale g (i32_as_usize o) \/ stale g (i32_as_usize d) ->
    graph_edge_set_weight s = Ok (set_int (set_float s fr) r).
  Proof.
    intros T I F E S. open_state s. top_is T. run_body. rewrite gs_get_top.
    rewrite g_set_weight_stale by assumption. now rewrite gs_set_top_app.
  Qed.

  Lemma stale_state_switch s g ids vr sw br off on r :
    gs_get (st_graph s) 0 = Some g -> st_ivec s = ids :: vr -> st_bvec s = sw :: br -> st_int s = off :: on :: r ->
    Forall (fun id => stale g (i32_as_usize id)) ids ->
    graph_node_state_switch s = Ok (set_int (set_bvec (set_ivec s vr) br) r).
  Proof.
    intros T V B E S. open_state s. top_is T. run_body. rewrite gs_get_top.
    rewrite switch_loop_stale by assumption. now rewrite gs_set_top_app.
  Qed.

  Lemma stale_get_state s g id r :
    gs_get (st_graph s) 0 = Some g -> st_int s = id :: r -> stale g (i32_as_usize id) ->
    graph_node_get_state s = Ok (set_int s r).
  Proof.
    intros T E S. open_state s. top_is T. run_body. rewrite gs_get_top.
    destruct (0 <? id); [|reflexivity]. unfold stale in S. now rewrite S.
  Qed.

  Lemma stale_get_weight s g d o r :
    gs_get (st_graph s) 0 = Some g -> inv g -> st_int s = d :: o :: r ->
    stale g (i32_as_usize o) \/ stale g (i32_as_usize d) ->
    graph_edge_get_weight s = Ok (set_int s r).
  Proof.
    intros T I E S. open_state s. top_is T. run_body. rewrite gs_get_top.
    now rewrite g_get_weight_stale by assumption.
  Qed.
End Stale.

(* ---------------------------------------------------------------------- *)
(* the wrappers and the API: all operands present, top graph [g] *)
Section Wrappers.
  Context {FO : FloatOps}.
  Variables (s : state) (below : list graph) (g : graph).
  Hypothesis TOP : st_graph s = below ++ [g].

  Ltac start := open_state s; run_body; rewrite ?gs_get_top.

  Lemma w_add :
    graph_add s = Ok (set_graph s (if zlen (st_graph s) <? GRAPH_CAP then st_graph s ++ [g_new] else st_graph s)).
  Proof. reflexivity. Qed.

  Lemma w_dup :
    graph_dup s = Ok (set_graph s (if zlen (st_graph s) <? GRAPH_CAP then st_graph s ++ [g] else st_graph s)).
  Proof. start. reflexivity. Qed.

  Lemma w_stack_depth : graph_stack_depth s = Ok (set_int s (wrap32 (zlen (st_graph s)) :: st_int s)).
  Proof. reflexivity. Qed.

  Lemma w_node_add p w st r :
    st_int s = st :: r ->
    graph_node_add p w s =
    Ok ({| w_next_node := wrap64u (w_next_node w + 1); w_tape := w_tape w |},
        set_graph (set_int s (usize_as_i32 (w_next_node w) :: r)) (below ++ [g_add_node g (w_next_node w) st])).
  Proof. intros E. start. now rewrite gs_set_top_app. Qed.

  Lemma w_node_set_state st id r :
    st_int s = st :: id :: r -> 0 < id ->
    graph_node_set_state s = Ok (set_graph (set_int s r) (below ++ [g_set_state g id st])).
  Proof.
    intros E P. start. replace (0 <? id) with true by lia.
    rewrite i32_as_usize_nonneg by lia. now rewrite gs_set_top_app.
  Qed.

  Lemma w_node_get_state id r :
    st_int s = id :: r -> 0 < id ->
    graph_node_get_state s = Ok (set_int s (match g_get_state g id with Some st => st :: r | None => r end)).
  Proof.
    intros E P. start. replace (0 <? id) with true by lia.
    rewrite i32_as_usize_nonneg by lia. destruct (g_get_state g id); reflexivity.
  Qed.

  Lemma w_edge_add w fr d o r :
    st_float s = w :: fr -> st_int s = d :: o :: r ->
    graph_edge_add s =
    Ok (set_graph (set_int (set_float s fr) r) (below ++ [g_add_edge g (i32_as_usize o) (i32_as_usize d) w])).
  Proof. intros F E. start. now rewrite gs_set_top_app. Qed.

  Lemma w_edge_set_weight w fr d o r :
    st_float s = w :: fr -> st_int s = d :: o :: r ->
    graph_edge_set_weight s =
    Ok (set_graph (set_int (set_float s fr) r) (below ++ [g_set_weight g (i32_as_usize o) (i32_as_usize d) w])).
  Proof. intros F E. start. now rewrite gs_set_top_app. Qed.

  Lemma w_edge_get_weight d o r :
    st_int s = d :: o :: r ->
    graph_edge_get_weight s =
    Ok (match g_get_weight g (i32_as_usize o) (i32_as_usize d) with
        | Some w => set_float (set_int s r) (w :: st_float s)
        | None => set_int s r
        end).
  Proof. intros E. start. destruct (g_get_weight g (i32_as_usize o) (i32_as_usize d)); reflexivity. Qed.

  Lemma w_nodes sts vr :
    st_ivec s = sts :: vr -> graph_nodes s = Ok (set_ivec s (g_filter g sts :: vr)).
  Proof. intros E. start. reflexivity. Qed.

  Lemma w_query (q : graph -> Z -> list Z -> list Z) sts vr id r :
    st_ivec s = sts :: vr -> st_int s = id :: r -> 0 < id ->
    graph_query q s = Ok (set_ivec (set_int s r) (map usize_as_i32 (q g id sts) :: vr)).
  Proof.
    intros V E P. start. replace (0 <? id) with true by lia.
    rewrite i32_as_usize_nonneg by lia. reflexivity.
  Qed.

  Lemma w_state_switch ids vr sw br off on r :
    st_ivec s = ids :: vr -> st_bvec s = sw :: br -> st_int s = off :: on :: r ->
    graph_node_state_switch s =
    Ok (set_graph (set_int (set_bvec (set_ivec s vr) br) r) (below ++ [switch_loop g ids sw on off])).
  Proof. intros V B E. start. now rewrite gs_set_top_app. Qed.

  Lemma w_print : graph_print s = Ok (set_name s (graph_text g :: st_name s)).
  Proof. start. reflexivity. Qed.
End Wrappers.

Section Wrappers2.
  Context {FO : FloatOps}.
  (* the diff is taken from the second graph (old) to the top graph (new) *)
  Lemma w_print_diff s below old new :
    st_graph s = below ++ [old; new] ->
    graph_print_diff s = Ok (match g_diff old new with
                             | Some d => set_name s (diff_text d :: st_name s)
                             | None => s
                             end).
  Proof.
    intros E. open_state s. run_body.
    replace (below ++ [old; new]) with ((below ++ [old]) ++ [new]) at 1 by now rewrite <- app_assoc.
    rewrite gs_get_top, gs_get_second. destruct (g_diff old new); reflexivity.
  Qed.

  (* the STATESWITCH loop: positions 0 .. min(len ids, len switch) - 1, in order *)
  Lemma switch_loop_fold g ids sw on off :
    switch_loop g ids sw on off =
    fold_left (fun (a : graph) (x : Z * bool) => g_set_state a (i32_as_usize (fst x)) (if snd x then on else off))
              (combine ids sw) g.
  Proof.
    revert g sw. induction ids as [|id ri IH]; intros g sw; [reflexivity|].
    destruct sw as [|b rb]; [reflexivity|]. cbn [switch_loop combine fold_left fst snd]. apply IH.
  Qed.
End Wrappers2.

(* C15: a non-positive size operand allocates nothing — the model-side statement behind the
   "negative-sizes" stream (the regression of the repaired FLOATVECTOR.SINE loop). *)
From Coq Require Import ZArith String List Bool Lia ZifyBool.
From PushModel Require Import Base.Sx Base.Machine Base.ListOps Base.F32 Model.Item Model.GraphT Model.State
  Model.InstrBase Model.IVector Model.Topology Model.INeighbor Model.Registry Model.RandomGen Model.IRand Model.Cost
  Proofs.CostBase Proofs.CostGrowth.
Import ListNotations.
Close Scope string_scope.
Open Scope Z_scope.

Lemma weight_set_int_le s n r : st_int s = n :: r -> weight (set_int s r) = weight s - 1.
Proof. destruct_state s. cbn [st_int]. intros ->. unfold weight. proj_cbn. rewrite wsum_cons. unfold cnt. lia. Qed.
Lemma weight_set_float_tl s l r : st_float s = l ++ r -> weight (set_float s r) = weight s - zlen l.
Proof.
  destruct_state s. cbn [st_float]. intros ->. unfold weight. proj_cbn. rewrite wsum_app, !wsum_cnt. lia.
Qed.
Lemma weight_set_int_tl s l r : st_int s = l ++ r -> weight (set_int s r) = weight s - zlen l.
Proof.
  destruct_state s. cbn [st_int]. intros ->. unfold weight. proj_cbn. rewrite wsum_app, !wsum_cnt. lia.
Qed.

Section Negative.
  Context {FO : FloatOps}.

  (* T.ONES / T.ZEROS *)
  Lemma fill_nonpos {A} (get : state -> list (list A)) set x s n r s' :
    st_int s = n :: r -> n <= 0 -> vec_fill get set x s = Ok s' -> weight s' = weight s - 1.
  Proof.
    intros E Hn. unfold vec_fill. rewrite E. replace (0 <? n) with false by lia.
    intro Hq; inversion Hq; subst. now apply (weight_set_int_le s n r).
  Qed.

  (* FLOATVECTOR.SINE, repaired *)
  Lemma sine_negative s n r s' :
    st_int s = n :: r -> n < 0 -> fvec_sine s = Ok s' -> weight s' <= weight s.
  Proof.
    intros E Hn. unfold fvec_sine. pose proof (weight_nn s).
    destruct (st_float s) as [|a [|x [|phi fr]]] eqn:F; try (intro Hq; inversion Hq; subst; lia).
    assert (I1 : st_int (set_float s fr) = n :: r) by (destruct s; exact E). rewrite I1.
    replace (0 <=? n) with false by lia. intro Hq; inversion Hq; subst.
    rewrite (weight_set_int_le _ n r I1). rewrite (weight_set_float_tl s [a; x; phi] fr F).
    rewrite !zlen_cons', zlen_nil'. lia.
  Qed.

  (* the three vector RANDs *)
  Lemma int_vector_rand_negative p w s w' s' size hi lo r :
    st_int s = size :: hi :: lo :: r -> size < 0 -> int_vector_rand p w s = Ok (w', s') -> weight s' <= weight s.
  Proof.
    intros E Hn. unfold int_vector_rand. rewrite E. unfold random_int_vector.
    replace (size <? 0) with true by lia. cbn [orb rbind fst snd].
    intro Hq; inversion Hq; subst. rewrite (weight_set_int_tl s [size; hi; lo] r E). rewrite !zlen_cons', zlen_nil'. lia.
  Qed.
  Lemma bool_vector_rand_negative p w s w' s' size r :
    st_int s = size :: r -> size < 0 -> bool_vector_rand p w s = Ok (w', s') -> weight s' <= weight s.
  Proof.
    intros E Hn. unfold bool_vector_rand, bool_vector_rand_g. rewrite E. pose proof (weight_set_int_le s size r E) as W1.
    destruct (st_float (set_int s r)) as [|sp fr] eqn:F; [intro Hq; inversion Hq; subst; lia|].
    unfold random_bool_vector_g. replace (size <? 0) with true by lia. cbn [orb rbind fst snd].
    intro Hq; inversion Hq; subst. rewrite (weight_set_float_tl (set_int s r) [sp] fr F). rewrite zlen_cons', zlen_nil'. lia.
  Qed.
  Lemma float_vector_rand_negative p w s w' s' size r :
    st_int s = size :: r -> size < 0 -> float_vector_rand p w s = Ok (w', s') -> weight s' <= weight s.
  Proof.
    intros E Hn. unfold float_vector_rand, float_vector_rand_g. rewrite E. pose proof (weight_set_int_le s size r E) as W1.
    destruct (st_float (set_int s r)) as [|mean [|sd fr]] eqn:F; try (intro Hq; inversion Hq; subst; lia).
    unfold random_float_vector. replace (size <? 0) with true by lia. cbn [orb rbind fst snd].
    intro Hq; inversion Hq; subst. rewrite (weight_set_float_tl (set_int s r) [mean; sd] fr F).
    rewrite !zlen_cons', zlen_nil'. lia.
  Qed.

  (* LIST.NEIGHBOR*: size <= 0 gives ntotal = 0 and ndim = 0: find_neighbors answers None at once *)
  Lemma nbr_call_nonpos p t2 t1 t0 fv : t2 <= 0 -> nbr_call p t2 t1 t0 fv = Ok None.
  Proof.
    intro Hz. unfold nbr_call, nbr_size, nbr_dims, find_neighbors, nbr_guard.
    replace (Z.max t2 0) with 0 by lia. replace (Z.max (Z.min 0 t0) 0 <? 1) with true by lia.
    now rewrite orb_true_r.
  Qed.
  Lemma neighbor_ids_nonpos p s s' t2 t1 t0 r :
    st_int s = t2 :: t1 :: t0 :: r -> t2 <= 0 -> list_neighbor_ids p s = Ok s' -> weight s' <= weight s.
  Proof.
    intros E Hn. unfold list_neighbor_ids. rewrite E.
    pose proof (weight_set_int_tl s [t2; t1; t0] r E) as W1. rewrite !zlen_cons', zlen_nil' in W1.
    destruct (st_float (set_int s r)) as [|fv fr] eqn:F; [intro Hq; inversion Hq; subst; lia|].
    rewrite nbr_call_nonpos by exact Hn. cbn [rbind]. intro Hq; inversion Hq; subst.
    rewrite (weight_set_float_tl (set_int s r) [fv] fr F). rewrite zlen_cons', zlen_nil'. lia.
  Qed.
  Lemma neighbor_vals_nonpos {A} (f : item -> Z -> A) push p s s' t3 t2 t1 t0 r :
    st_int s = t3 :: t2 :: t1 :: t0 :: r -> t2 <= 0 -> list_neighbor_vals f push p s = Ok s' -> weight s' <= weight s.
  Proof.
    intros E Hn. unfold list_neighbor_vals. rewrite E.
    pose proof (weight_set_int_tl s [t3; t2; t1; t0] r E) as W1. rewrite !zlen_cons', zlen_nil' in W1.
    destruct (st_float (set_int s r)) as [|fv fr] eqn:F; [intro Hq; inversion Hq; subst; lia|].
    rewrite nbr_call_nonpos by exact Hn. cbn [rbind]. intro Hq; inversion Hq; subst.
    rewrite (weight_set_float_tl (set_int s r) [fv] fr F). rewrite zlen_cons', zlen_nil'. lia.
  Qed.
End Negative.

(* C15: weight facts for graph snapshots and the GRAPH stack.  No invariant on the key order of
   the association lists is assumed (an insertion is charged as a new entry even where the
   sorted-map invariant of C18 would make it a replacement): upper estimates. *)
From Coq Require Import ZArith String List Bool Lia ZifyBool.
From PushModel Require Import Base.Sx Base.Machine Base.ListOps Base.F32 Model.Item Model.GraphT Model.State
  Model.InstrBase Model.Registry Model.IGraph Model.Cost Proofs.CostBase Proofs.CostListIo.
Import ListNotations.
Close Scope string_scope.
Open Scope Z_scope.

Section ZM.
  Context {V : Type}.
  Variable f : Z * V -> Z.
  Hypothesis fnn : forall x, 0 <= f x.

  Lemma zm_insert_le k v (m : zmap V) : wsum f (zm_insert k v m) <= wsum f m + f (k, v).
  Proof.
    induction m as [|kv r IH]; cbn [zm_insert]; rewrite ?wsum_cons, ?wsum_nil; [lia|].
    pose proof (fnn kv). destruct (k <? fst kv); [rewrite !wsum_cons; lia|].
    destruct (k =? fst kv); rewrite !wsum_cons; lia.
  Qed.
  Lemma zm_get_le k v (m : zmap V) : zm_get k m = Some v -> exists k', f (k', v) <= wsum f m.
  Proof.
    induction m as [|kv r IH]; cbn [zm_get]; [discriminate|]. rewrite wsum_cons.
    pose proof (wsum_nonneg f fnn r). pose proof (fnn kv).
    destruct (fst kv =? k).
    - intro H1; inversion H1; subst. exists (fst kv). destruct kv; cbn [fst snd]. lia.
    - intro H1. destruct (IH H1) as (k' & L). exists k'. lia.
  Qed.
End ZM.

Lemma zlen_zm_insert {V} k v (m : zmap V) : zlen (zm_insert k v m) <= zlen m + 1.
Proof.
  pose proof (zm_insert_le (fun _ : Z * V => 1) ltac:(intro; lia) k v m) as H.
  change (fun _ : Z * V => 1) with (@cnt (Z * V)) in H. rewrite !wsum_cnt in H. exact H.
Qed.

Lemma edges_get_le d es (m : zmap (list edge)) : zm_get d m = Some es -> vw es <= wsum edgesw m.
Proof.
  intro H. destruct (zm_get_le edgesw edgesw_nn d es m H) as (k' & L). exact L.
Qed.
(* one entry's list + the number of entries *)
Lemma edges_get_plus_len d es (m : zmap (list edge)) : zm_get d m = Some es -> zlen es + zlen m <= wsum edgesw m.
Proof.
  induction m as [|kv r IH]; cbn [zm_get]; [discriminate|]. rewrite wsum_cons, zlen_cons'.
  unfold edgesw at 1, vw. pose proof (zlen_nn (snd kv)).
  destruct (fst kv =? d).
  - intro H1; inversion H1; subst.
    assert (zlen r <= wsum edgesw r).
    { clear. induction r as [|x r IH]; rewrite ?zlen_cons', ?zlen_nil', ?wsum_cons, ?wsum_nil; [lia|].
      unfold edgesw at 1, vw. pose proof (zlen_nn (snd x)). lia. }
    lia.
  - intro H1. specialize (IH H1). lia.
Qed.
Lemma zlen_le_edgesw (m : zmap (list edge)) : zlen m <= wsum edgesw m.
Proof.
  induction m as [|x r IH]; rewrite ?zlen_cons', ?zlen_nil', ?wsum_cons, ?wsum_nil; [lia|].
  unfold edgesw at 1, vw. pose proof (zlen_nn (snd x)). lia.
Qed.

(* ---- the Graph API ---- *)
Lemma gweight_add_node g id st : gweight (g_add_node g id st) <= gweight g + 1.
Proof. unfold gweight, g_add_node. cbn [g_nodes g_edges]. pose proof (zlen_zm_insert id st (g_nodes g)). lia. Qed.
Lemma gweight_set_state g id st : gweight (g_set_state g id st) <= gweight g + 1.
Proof.
  unfold g_set_state. destruct (zm_get id (g_nodes g)); [|lia].
  unfold gweight. cbn [g_nodes g_edges]. pose proof (zlen_zm_insert id st (g_nodes g)). lia.
Qed.
Lemma edges_insert_le d es (m : zmap (list edge)) : wsum edgesw (zm_insert d es m) <= wsum edgesw m + vw es.
Proof. apply (zm_insert_le edgesw edgesw_nn). Qed.
Lemma gweight_add_edge g o d w : gweight (g_add_edge g o d w) <= 2 * gweight g + 2.
Proof.
  unfold g_add_edge. pose proof (gweight_pos g). destruct (_ && _); [|lia].
  destruct (zm_get d (g_edges g)) as [es|] eqn:E.
  - destruct (e_contains o es); [lia|]. unfold gweight in *. cbn [g_nodes g_edges].
    pose proof (edges_insert_le d (es ++ [(o, w)]) (g_edges g)). pose proof (edges_get_le _ _ _ E).
    unfold vw in *. rewrite zlen_app', zlen_cons', zlen_nil' in *. pose proof (zlen_nn (g_nodes g)). unfold edge in *. lia.
  - unfold gweight in *. cbn [g_nodes g_edges].
    pose proof (edges_insert_le d [(o, w)] (g_edges g)). unfold vw in *. rewrite zlen_cons', zlen_nil' in *.
    pose proof (zlen_nn (g_nodes g)). pose proof (wsum_nonneg edgesw edgesw_nn (g_edges g)). unfold edge in *. lia.
Qed.
Lemma e_set_first_len o w l : zlen (e_set_first o w l) = zlen l.
Proof.
  unfold e_set_first. destruct (e_position o l); [|reflexivity].
  destruct (nth_error l n); [apply zlen_upd'|reflexivity].
Qed.
Lemma gweight_set_weight g o d w : gweight (g_set_weight g o d w) <= 2 * gweight g.
Proof.
  unfold g_set_weight. pose proof (gweight_pos g). destruct (zm_get d (g_edges g)) as [es|] eqn:E; [|lia].
  unfold gweight in *. cbn [g_nodes g_edges].
  pose proof (edges_insert_le d (e_set_first o w es) (g_edges g)). pose proof (edges_get_le _ _ _ E).
  unfold vw in *. rewrite e_set_first_len in *. pose proof (zlen_nn (g_nodes g)). unfold edge in *. lia.
Qed.
Lemma gweight_switch_loop ids : forall g sw on off, gweight (switch_loop g ids sw on off) <= gweight g + zlen ids.
Proof.
  induction ids as [|id r IH]; intros g sw on off; cbn [switch_loop]; rewrite ?zlen_cons', ?zlen_nil'; [lia|].
  pose proof (zlen_nn r). destruct sw as [|b rb]; [lia|].
  specialize (IH (g_set_state g (i32_as_usize id) (if b then on else off)) rb on off).
  pose proof (gweight_set_state g (i32_as_usize id) (if b then on else off)). lia.
Qed.

(* ---- queries: at most one id per incoming edge / per edge list ---- *)
Lemma zlen_flat_map_le1 {A B} (h : A -> list B) l : (forall x, zlen (h x) <= 1) -> zlen (flat_map h l) <= zlen l.
Proof.
  intro H1. induction l as [|x r IH]; cbn [flat_map]; [unfold zlen; cbn [length]; lia|].
  rewrite zlen_app', zlen_cons'. specialize (H1 x). lia.
Qed.
Lemma g_preds_len g id sts es : g_incoming g id = Some es -> zlen (g_preds g id sts) <= zlen es.
Proof.
  intro E. unfold g_preds. rewrite E. apply zlen_flat_map_le1. intro e.
  destruct (g_get_state g (e_origin e)); [destruct (state_sel sts z)|]; rewrite ?zlen_cons', ?zlen_nil'; lia.
Qed.
Lemma g_preds_none g id sts : g_incoming g id = None -> g_preds g id sts = [].
Proof. intro E. unfold g_preds. now rewrite E. Qed.
Lemma g_succs_len g id sts : zlen (g_succs g id sts) <= zlen (g_edges g).
Proof.
  unfold g_succs. apply zlen_flat_map_le1. intro kv.
  destruct (e_contains id (snd kv)); [|rewrite zlen_nil'; lia].
  destruct (g_node g (fst kv)); [destruct (state_sel sts z)|]; rewrite ?zlen_cons', ?zlen_nil'; lia.
Qed.
Lemma g_neighbours_le g id sts : zlen (g_neighbours g id sts) <= gweight g.
Proof.
  unfold g_neighbours. rewrite zlen_app'. pose proof (g_succs_len g id sts). unfold gweight.
  pose proof (zlen_nn (g_nodes g)).
  destruct (g_incoming g id) as [es|] eqn:E.
  - pose proof (g_preds_len g id sts es E). unfold g_incoming in E. pose proof (edges_get_plus_len _ _ _ E). lia.
  - rewrite (g_preds_none g id sts E), zlen_nil'. pose proof (zlen_le_edgesw (g_edges g)). lia.
Qed.
Lemma g_preds_le g id sts : zlen (g_preds g id sts) <= gweight g.
Proof.
  pose proof (g_neighbours_le g id sts) as H. unfold g_neighbours in H. rewrite zlen_app' in H.
  pose proof (zlen_nn (g_succs g id sts)). lia.
Qed.
Lemma g_succs_le g id sts : zlen (g_succs g id sts) <= gweight g.
Proof.
  pose proof (g_neighbours_le g id sts) as H. unfold g_neighbours in H. rewrite zlen_app' in H.
  pose proof (zlen_nn (g_preds g id sts)). lia.
Qed.

(* ---- the GRAPH stack ---- *)
Lemma gs_get_le l i g : gs_get l i = Some g -> gweight g <= wsum gweight l.
Proof.
  unfold gs_get. destruct (_ && _); [|discriminate]. intro H.
  rewrite <- (wsum_rev gweight l). eapply wsum_nth_le; [apply gweight_nn|exact H].
Qed.
Lemma gs_set_top_weight l g g' :
  gs_get l 0 = Some g -> wsum gweight (gs_set_top l g') = wsum gweight l - gweight g + gweight g'.
Proof.
  unfold gs_get. destruct (_ && _); [|discriminate]. cbn [Z.to_nat].
  destruct l as [|a r] using rev_ind; [discriminate|].
  rewrite rev_app_distr. cbn [rev app nth_error]. intro H; inversion H; subst.
  unfold gs_set_top. destruct (r ++ [g]) eqn:E; [destruct r; discriminate|]. rewrite <- E.
  rewrite removelast_last, !wsum_app, !wsum_cons, !wsum_nil. lia.
Qed.

(* C15: lengths of the vectors the vector instructions produce. *)
From Coq Require Import ZArith String List Bool Lia ZifyBool Permutation.
From PushModel Require Import Base.Sx Base.Machine Base.ListOps Base.F32 Model.Item Model.GraphT Model.State
  Model.InstrBase Model.IVector Model.Cost Proofs.CostBase Proofs.VecProofs.
Import ListNotations.
Open Scope Z_scope.

Section Len.
  Context {A : Type}.

  Lemma ov_loop_len (op : A -> A -> option A) off size top : forall i acc inv,
    zlen (fst (ov_loop op off size top i acc inv)) = zlen acc.
  Proof.
    induction top as [|t r IH]; intros i acc inv; cbn [ov_loop]; [reflexivity|].
    destruct (offset_index i off size) as [j|]; [|apply IH].
    destruct (nth_error acc (Z.to_nat j)) as [x|]; [|apply IH].
    destruct (op x t); rewrite IH; [apply zlen_upd'|reflexivity].
  Qed.
  Lemma overlay_run_len (op : A -> A -> option A) second top off v :
    overlay_run op second top off = Some v -> zlen v = zlen second.
  Proof.
    unfold overlay_run. pose proof (ov_loop_len op off (zlen second) top 0 second false) as L.
    destruct (ov_loop _ _ _ _ _ _ _) as [v' inv]. cbn [fst] in L. destruct inv; [discriminate|].
    intro H; inversion H; subst. exact L.
  Qed.
  Lemma vset_len (v : list A) idx x v' : vset v idx x = Ok v' -> zlen v' = zlen v.
  Proof.
    unfold vset, vupd. destruct (0 <? zlen v); [|intro H; inversion H; reflexivity].
    destruct (_ && _); [|discriminate]. intro H; inversion H; subst. apply zlen_upd'.
  Qed.
  Lemma rotate_in_len (v : list A) x : zlen (rotate_in v x) = zlen v.
  Proof. destruct v as [|a r]; cbn [rotate_in]; rewrite ?zlen_app', ?zlen_cons', ?zlen_nil'; lia. Qed.
  Lemma stable_sort_len (le : A -> A -> bool) v : zlen (stable_sort le v) = zlen v.
  Proof. unfold zlen. now rewrite <- (Permutation_length (stable_sort_perm le v)). Qed.
End Len.

Lemma not_loop_len off size k : forall i acc, zlen (not_loop off size k i acc) = zlen acc.
Proof.
  induction k as [|k IH]; intros i acc; cbn [not_loop]; [reflexivity|].
  destruct (offset_index i off size) as [j|]; [|apply IH].
  destruct (nth_error acc (Z.to_nat j)); rewrite IH; [apply zlen_upd'|reflexivity].
Qed.
Lemma bool_index_len v : forall i, zlen (bool_index v i) <= zlen v.
Proof.
  induction v as [|b r IH]; intro i; cbn [bool_index]; [unfold zlen; cbn [length]; lia|].
  specialize (IH (i + 1)). destruct b; rewrite ?zlen_cons'; lia.
Qed.
#[export] Hint Rewrite @rotate_in_len @stable_sort_len not_loop_len : wdb.

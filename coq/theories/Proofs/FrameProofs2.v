(* C10 (frame part, all families): every registered instruction changes only the fields in
   its documented footprint (Spec/Footprint.v).  One tactic per family, in the style of
   FrameProofs.frame_tac; a missing or wrong table line is a failed Qed. *)
From Coq Require Import ZArith String List Bool Lia.
From PushModel Require Import Base.Sx Base.Machine Base.ListOps Base.F32 Model.Item Model.GraphT Model.State
  Model.InstrBase Model.IScalar Model.ICode Model.Registry Model.Interp
  Model.IVector Model.RegistryVec Model.IList Model.IIo Model.RegistryListIo Model.IGraph Model.RegistryGraph
  Model.INeighbor Model.RegistryNbr Model.RandomGen Model.IRand Model.RegistryRand Model.RegistryAll Spec.Footprint Proofs.Frame Proofs.FrameProofs.
Import ListNotations.
Open Scope string_scope.

(* [split_matches] refuses a scrutinee that itself contains a match; the element operation
   of FLOATVECTOR./ (an `if` under a binder) is such a case: split on the loop result directly *)
Ltac split_matches2 H :=
  repeat first
    [ progress split_matches H
    | match type of H with
      | context [match overlay_run ?a ?b ?c ?d with _ => _ end] => destruct (overlay_run a b c d) eqn:?
      end ].
Ltac frame_finish H :=
  split_matches2 H;
  inversion H; subst; clear H;
  so_split; intros; try discriminate; reflexivity.

(* ---------------- vectors ---------------- *)
Ltac unfold_vec H :=
  cbv beta iota zeta delta [
    g_dup g_pop g_swap g_rot g_flush g_depth g_yank g_shove g_yankdup g_define
    vec_get vec_set vec_overlay vec_equal vec_length vec_fill vec_empty vec_map_top vec_rotate vec_append
    bvec_id bvec_get bvec_set bvec_and bvec_or bvec_not bvec_equal bvec_length bvec_ones bvec_zeros bvec_rotate
    bvec_sort_asc bvec_sort_desc bvec_count
    ivec_id ivec_append ivec_bool_index ivec_get ivec_set ivec_arith ivec_add ivec_sub ivec_contains ivec_empty
    ivec_equal ivec_from_int ivec_length ivec_loop ivec_mean ivec_sum ivec_ones ivec_zeros ivec_remove ivec_rotate
    ivec_set_insert ivec_sort_asc ivec_sort_desc
    fvec_id fvec_append fvec_get fvec_set fvec_arith fvec_add fvec_sub fvec_mul fvec_div fvec_mul_scalar fvec_empty
    fvec_equal fvec_length fvec_mean fvec_sum fvec_ones fvec_zeros fvec_rotate fvec_sine fvec_sort_asc fvec_sort_desc
    push_int push_bool push_float push_code push_exec push_name rbind pure purep fst snd] in H.
Ltac frame_tac_vec :=
  let p := fresh "p" in let w := fresh "w" in let s := fresh "s" in
  let w' := fresh "w'" in let s' := fresh "s'" in let H := fresh "H" in
  intros p w s w' s' H; unfold_vec H; frame_finish H.

Ltac unfold_listio H :=
  cbv beta iota zeta delta [
    list_remove list_get list_val list_bval list_ival list_fval
    input_available input_get input_next input_read input_stack_depth output_flush output_stack_depth output_write
    push_int push_bool push_float push_code push_exec push_name rbind pure purep fst snd] in H.
Ltac unfold_graph H :=
  cbv beta iota zeta delta [
    graph_add graph_dup graph_node_add graph_node_state_switch graph_nodes graph_nodes_history
    graph_node_get_state graph_node_history graph_print graph_print_diff graph_stack_depth graph_node_set_state
    graph_edge_add graph_query graph_node_neighbors graph_node_predecessors graph_node_successors
    graph_edge_get_weight graph_edge_history_gen graph_edge_history graph_edge_set_weight set_top
    push_int push_bool push_float push_code push_exec push_name rbind pure purep fst snd] in H.

Ltac unfold_nbr H :=
  cbv beta iota zeta delta [
    list_neighbor_ids list_neighbor_vals list_neighbor_bvals list_neighbor_ivals list_neighbor_fvals
    push_bvec push_ivec push_fvec
    push_int push_bool push_float push_code push_exec push_name rbind pure purep fst snd] in H.
(* [fst] / [snd] of a drawn (value, tape) pair stay folded: they are scrutinees *)
Ltac unfold_rand H :=
  cbv beta iota zeta delta [
    boolean_rand integer_rand float_rand_g float_rand code_rand name_rand name_rand_bound
    bool_vector_rand_g bool_vector_rand int_vector_rand float_vector_rand_g float_vector_rand
    push_int push_bool push_float push_code push_exec push_name rbind pure purep] in H.

(* evaluates the `filter` of vec_stack_family (string comparisons on literals only) *)
Ltac open_vec_table :=
  cbv beta iota delta [vec_stack_family stack_family filter negb fst String.eqb Ascii.eqb Bool.eqb append app].

(* ---------------- LIST ---------------- *)
(* load_items pops designated stacks only *)
Definition keeps_undesignated (s s' : state) : Prop :=
  st_index s' = st_index s /\ st_input s' = st_input s /\ st_output s' = st_output s /\
  st_graph s' = st_graph s /\ st_bind s' = st_bind s /\ st_cfg s' = st_cfg s /\
  st_quote s' = st_quote s /\ st_send s' = st_send s.

Lemma take_id_keeps sid s x s1 : take_id sid s = Some (x, s1) -> keeps_undesignated s s1.
Proof.
  unfold take_id, keeps_undesignated. intros H.
  repeat match type of H with
         | (if ?c then _ else _) = _ => destruct c
         | match ?l with _ => _ end = _ => destruct l; try discriminate H
         end;
  try discriminate H; inversion H; subst; repeat split; reflexivity.
Qed.

Lemma load_ids_keeps ids : forall s, keeps_undesignated s (snd (load_ids ids s)).
Proof.
  induction ids as [|sid r IH]; intros s; cbn [load_ids].
  - unfold keeps_undesignated. cbn. repeat split.
  - destruct (take_id sid s) as [[x s1]|] eqn:E; [|apply IH].
    pose proof (take_id_keeps _ _ _ _ E) as K1. specialize (IH s1).
    destruct (load_ids r s1) as [xs s2]. cbn [snd] in *.
    unfold keeps_undesignated in *.
    repeat match goal with H : _ /\ _ |- _ => destruct H end.
    repeat split; congruence.
Qed.

Lemma load_items_keeps s items s1 : load_items s = Some (items, s1) -> keeps_undesignated s s1.
Proof.
  unfold load_items. destruct (st_ivec s) as [|ids r] eqn:E; [discriminate|].
  intros H. inversion H. pose proof (load_ids_keeps ids (set_ivec s r)) as K.
  rewrite H1 in K. cbn [snd] in K. exact K.
Qed.

Lemma keeps_frame s s' : keeps_undesignated s s' -> same_outside (W designated) s s'.
Proof.
  unfold keeps_undesignated. intros K. repeat match goal with H : _ /\ _ |- _ => destruct H end.
  so_split; intros; try discriminate; assumption.
Qed.

Section Families.
  Context {FO : FloatOps}.

  Lemma list_add_framed : frame_ok (W designated) (pure list_add).
  Proof.
    intros p w s w' s' H. unfold pure, list_add, rbind in H.
    destruct (load_items s) as [[items s1]|] eqn:E; inversion H; subst; [|apply same_outside_refl].
    apply load_items_keeps in E. apply keeps_frame.
    unfold keeps_undesignated in *. exact E.
  Qed.

  Lemma list_set_framed : frame_ok (W designated) (pure list_set).
  Proof.
    intros p w s w' s' H. unfold pure, list_set, rbind in H.
    destruct (st_int s) as [|idx r] eqn:Ei; [inversion H; apply same_outside_refl|].
    destruct (load_items (set_int s r)) as [[items s2]|] eqn:E; inversion H; subst.
    - apply load_items_keeps in E. apply keeps_frame.
      unfold keeps_undesignated in *. exact E.
    - so_split; intros; try discriminate; reflexivity.
  Qed.

  Ltac frame_tac_list :=
    let p := fresh "p" in let w := fresh "w" in let s := fresh "s" in
    let w' := fresh "w'" in let s' := fresh "s'" in let H := fresh "H" in
    intros p w s w' s' H; unfold_listio H; frame_finish H.

  Ltac frame_tac_graph :=
    let p := fresh "p" in let w := fresh "w" in let s := fresh "s" in
    let w' := fresh "w'" in let s' := fresh "s'" in let H := fresh "H" in
    intros p w s w' s' H; unfold_graph H; frame_finish H.

  Ltac table_tac tac :=
    repeat (apply Forall_cons; [eexists; split; [reflexivity|]; cbn [snd]; tac|]);
    apply Forall_nil.

  Lemma bvec_framed : table_framed tbl_bvec fp_bvec.
  Proof. unfold table_framed, tbl_bvec. open_vec_table. Time table_tac frame_tac_vec. Time Qed.

  Lemma ivec_framed : table_framed tbl_ivec fp_ivec.
  Proof. unfold table_framed, tbl_ivec. open_vec_table. Time table_tac frame_tac_vec. Time Qed.

  Lemma fvec_framed : table_framed tbl_fvec fp_fvec.
  Proof. unfold table_framed, tbl_fvec. open_vec_table. Time table_tac frame_tac_vec. Time Qed.

  Lemma list_framed : table_framed tbl_list fp_list.
  Proof.
    unfold table_framed, tbl_list.
    Time table_tac ltac:(first [exact list_add_framed | exact list_set_framed | frame_tac_list]).
  Time Qed.

  Lemma io_framed : table_framed tbl_io fp_io.
  Proof. unfold table_framed, tbl_io. Time table_tac frame_tac_list. Time Qed.

  Lemma graph_framed : table_framed tbl_graph fp_graph.
  Proof.
    unfold table_framed, tbl_graph, all_ginstr. cbn [map ginstr_name ginstr_sem].
    Time table_tac frame_tac_graph.
  Time Qed.

  (* ---------------- concatenation ---------------- *)
  Definition fresh_b (fp : list (string * mask)) (names : list string) : bool :=
    forallb (fun n => match fp_lookup fp n with None => true | Some _ => false end) names.

  Lemma fp_lookup_app_l fp1 fp2 n m : fp_lookup fp1 n = Some m -> fp_lookup (fp1 ++ fp2) n = Some m.
  Proof.
    induction fp1 as [|[k v] r IH]; cbn [fp_lookup app]; [discriminate|].
    destruct (String.eqb n k); auto.
  Qed.
  Lemma fp_lookup_app_r fp1 fp2 n : fp_lookup fp1 n = None -> fp_lookup (fp1 ++ fp2) n = fp_lookup fp2 n.
  Proof.
    induction fp1 as [|[k v] r IH]; cbn [fp_lookup app]; [reflexivity|].
    destruct (String.eqb n k); [discriminate|auto].
  Qed.

  Lemma table_framed_app t1 t2 fp1 fp2 :
    table_framed t1 fp1 -> table_framed t2 fp2 -> fresh_b fp1 (map fst t2) = true ->
    table_framed (t1 ++ t2) (fp1 ++ fp2).
  Proof.
    unfold table_framed. intros H1 H2 Hf. apply Forall_app. split.
    - eapply Forall_impl; [|exact H1]. intros e (m & L & F). exists m. split; [now apply fp_lookup_app_l|exact F].
    - unfold fresh_b in Hf. rewrite forallb_forall in Hf.
      rewrite Forall_forall in *. intros e Hin. destruct (H2 e Hin) as (m & L & F).
      exists m. split; [|exact F].
      rewrite fp_lookup_app_r; [exact L|].
      specialize (Hf (fst e) (in_map fst _ _ Hin)). destruct (fp_lookup fp1 (fst e)); [discriminate|reflexivity].
  Qed.

  (* the three vector families together *)
  Lemma vec_framed : table_framed (tbl_bvec ++ tbl_ivec ++ tbl_fvec) fp_vec.
  Proof.
    unfold fp_vec.
    apply (table_framed_app _ _ _ _ bvec_framed); [|vm_compute; reflexivity].
    apply (table_framed_app _ _ _ _ ivec_framed); [|vm_compute; reflexivity].
    exact fvec_framed.
  Qed.

  Ltac frame_tac_nbr :=
    let p := fresh "p" in let w := fresh "w" in let s := fresh "s" in
    let w' := fresh "w'" in let s' := fresh "s'" in let H := fresh "H" in
    intros p w s w' s' H; unfold_nbr H; frame_finish H.
  Ltac frame_tac_rand :=
    let p := fresh "p" in let w := fresh "w" in let s := fresh "s" in
    let w' := fresh "w'" in let s' := fresh "s'" in let H := fresh "H" in
    intros p w s w' s' H; unfold_rand H; frame_finish H.

  Lemma nbr_framed : table_framed tbl_nbr fp_nbr.
  Proof. unfold table_framed, tbl_nbr. Time table_tac frame_tac_nbr. Time Qed.

  Lemma rand_framed instrs : table_framed (tbl_rand instrs) fp_rand.
  Proof. unfold table_framed, tbl_rand. Time table_tac frame_tac_rand. Time Qed.

  (* the whole registry: one [table_framed_app] per family *)
  Lemma base_framed : table_framed base_table fp_base.
  Proof.
    unfold base_table, fp_base.
    apply (table_framed_app _ _ _ _ core_framed); [|vm_compute; reflexivity].
    apply (table_framed_app _ _ _ _ bvec_framed); [|vm_compute; reflexivity].
    apply (table_framed_app _ _ _ _ ivec_framed); [|vm_compute; reflexivity].
    apply (table_framed_app _ _ _ _ fvec_framed); [|vm_compute; reflexivity].
    apply (table_framed_app _ _ _ _ list_framed); [|vm_compute; reflexivity].
    apply (table_framed_app _ _ _ _ io_framed); [|vm_compute; reflexivity].
    apply (table_framed_app _ _ _ _ graph_framed); [|vm_compute; reflexivity].
    exact nbr_framed.
  Qed.
  Theorem all_framed : table_framed full_table fp_all.
  Proof.
    unfold full_table, fp_all.
    apply (table_framed_app _ _ _ _ base_framed (rand_framed _)).
    rewrite tbl_rand_names. vm_compute. reflexivity.
  Qed.
End Families.

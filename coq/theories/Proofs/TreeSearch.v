(* C08: Item::contains (CODE.POSITION), Item::container, Item::substitute. *)
From Coq Require Import ZArith List Bool Lia ZifyBool.
From PushModel Require Import Base.Sx Base.Machine Base.ListOps Base.F32 Model.Item Spec.TreeSpec
  Proofs.TreePoints Proofs.TreeInsert.
Import ListNotations.
Open Scope Z_scope.

(* ---- find_index ---- *)
Section FindIndex.
  Context {A : Type} (f : A -> bool) (d : A).

  Lemma find_index_app a b :
    find_index f (a ++ b) =
    match find_index f a with
    | Some k => Some k
    | None => option_map (fun k => Z.of_nat (length a) + k) (find_index f b)
    end.
  Proof.
    induction a as [|x r IH].
    - cbn [app find_index length]. destruct (find_index f b); reflexivity.
    - rewrite <- app_comm_cons. cbn [find_index]. destruct (f x); [reflexivity|].
      rewrite IH. destruct (find_index f r); [reflexivity|].
      destruct (find_index f b); cbn [option_map length]; [f_equal; lia|reflexivity].
  Qed.

  Lemma find_index_some l k : find_index f l = Some k ->
    0 <= k < Z.of_nat (length l) /\ f (nth (Z.to_nat k) l d) = true /\
    forall j, 0 <= j < k -> f (nth (Z.to_nat j) l d) = false.
  Proof.
    revert k. induction l as [|x r IH]; intros k H; [discriminate|].
    cbn [find_index] in H. destruct (f x) eqn:E.
    - injection H as <-. cbn [length]. repeat split; try lia. exact E.
    - destruct (find_index f r) as [k'|]; [|discriminate]. injection H as <-.
      destruct (IH k' eq_refl) as [B [V M]]. cbn [length]. repeat split; try lia.
      + replace (Z.to_nat (Z.succ k')) with (S (Z.to_nat k')) by lia. exact V.
      + intros j Hj. destruct (Z.eq_dec j 0) as [->|NZ]; [exact E|].
        replace (Z.to_nat j) with (S (Z.to_nat (j - 1))) by lia. cbn [nth]. apply M. lia.
  Qed.

  Lemma find_index_none l : find_index f l = None <-> forall q, In q l -> f q = false.
  Proof.
    induction l as [|x r IH]; cbn [find_index].
    - split; [intros _ q []|reflexivity].
    - destruct (f x) eqn:E.
      + split; [discriminate|]. intro H. rewrite (H x (or_introl eq_refl)) in E. discriminate.
      + destruct (find_index f r) eqn:F; cbn [option_map].
        * split; [discriminate|]. intro H.
          assert (N : Some z = None) by (apply IH; intros q Hq; apply H; right; exact Hq).
          discriminate N.
        * split; [|reflexivity]. intros _ q [<-|Hq]; [exact E|]. apply IH; [reflexivity|exact Hq].
  Qed.
End FindIndex.

Section Search.
  Context {FO : FloatOps}.

  (* ---- equals: equal trees have the same number of points ---- *)
  Lemma equals_list_unfold la lb : equals (IList la) (IList lb) = equals_list la lb.
  Proof. reflexivity. Qed.
  Lemma equals_list_cons x ra lb :
    equals_list (x :: ra) lb = match lb with [] => false | y :: rb => equals x y && equals_list ra rb end.
  Proof. destruct lb; reflexivity. Qed.

  Lemma equals_size a : forall b, equals a b = true -> size a = size b.
  Proof.
    induction a as [la IH|n|v|n] using item_ind'; intros [lb|m|w|m] H;
      try discriminate; try reflexivity.
    rewrite equals_list_unfold in H. rewrite !size_list. f_equal.
    revert lb H. induction IH as [|x ra Hx _ IHr]; intros lb H.
    - destruct lb; [reflexivity|discriminate].
    - rewrite equals_list_cons in H. destruct lb as [|y rb]; [discriminate|].
      apply andb_prop in H as [H1 H2]. rewrite !sizes_cons, (Hx y H1), (IHr rb H2). reflexivity.
  Qed.

  (* ---- first_index, recursively ---- *)
  Definition fi_list (pat : item) (l : list item) : option Z :=
    find_index (fun q => equals q pat) (points_list l).

  Lemma first_index_unfold pat t :
    first_index pat t =
    if equals t pat then Some 0
    else option_map Z.succ (match t with IList l => fi_list pat l | _ => None end).
  Proof.
    unfold first_index, fi_list. rewrite points_unfold. cbn [find_index].
    destruct t; reflexivity.
  Qed.

  Lemma fi_list_cons pat c r :
    fi_list pat (c :: r) =
    match first_index pat c with
    | Some k => Some k
    | None => option_map (fun k => size c + k) (fi_list pat r)
    end.
  Proof.
    unfold fi_list, first_index. rewrite points_list_cons, find_index_app.
    pose proof (psize_size c) as L. unfold psize in L. rewrite L. reflexivity.
  Qed.

  Lemma first_index_range pat t k : first_index pat t = Some k ->
    0 <= k < size t /\ equals (nth_point t k) pat = true /\
    forall j, 0 <= j < k -> equals (nth_point t j) pat = false.
  Proof.
    intro H. unfold first_index in H.
    apply (find_index_some _ dflt) in H. pose proof (psize_size t) as L. unfold psize in L.
    rewrite L in H. exact H.
  Qed.
  Lemma fi_list_range pat l k : fi_list pat l = Some k -> 0 <= k < sizes l.
  Proof.
    intro H. apply (find_index_some _ dflt) in H. rewrite length_points_list in H. tauto.
  Qed.

  Lemma first_index_none pat t :
    first_index pat t = None <-> forall q, In q (points t) -> equals q pat = false.
  Proof. apply find_index_none. Qed.

  (* ---- Item::contains ---- *)
  Definition contains_list (pinned : bool) (pat : item) : list item -> Z -> option Z :=
    fix go (l : list item) (d : Z) {struct l} : option Z :=
      match l with
      | [] => None
      | c :: r =>
          let d1 := d + 1 in
          match contains_g pinned c pat d1 with
          | Some k => Some k
          | None => go r (if pinned then d1 else d1 + (size c - 1))
          end
      end.
  Lemma contains_g_unfold pinned t pat d :
    contains_g pinned t pat d =
    if equals t pat then Some d
    else match t with IList l => contains_list pinned pat l d | _ => None end.
  Proof. destruct t; reflexivity. Qed.
  Lemma contains_list_cons pinned pat c r d :
    contains_list pinned pat (c :: r) d =
    match contains_g pinned c pat (d + 1) with
    | Some k => Some k
    | None => contains_list pinned pat r (if pinned then d + 1 else d + 1 + (size c - 1))
    end.
  Proof. reflexivity. Qed.

  Definition contains_ok (pat t : item) : Prop :=
    forall d, contains t pat d = option_map (fun k => d + k) (first_index pat t).

  Lemma contains_list_spec pat l : Forall (contains_ok pat) l ->
    forall d, contains_list false pat l d = option_map (fun k => d + 1 + k) (fi_list pat l).
  Proof.
    induction 1 as [|c r Hc _ IH]; intro d; [reflexivity|].
    rewrite contains_list_cons, fi_list_cons. unfold contains_ok, contains in Hc. rewrite Hc.
    destruct (first_index pat c) as [k|]; cbn [option_map]; [f_equal; lia|].
    rewrite IH. destruct (fi_list pat r); cbn [option_map]; [f_equal; lia|reflexivity].
  Qed.

  Theorem contains_spec pat t : contains_ok pat t.
  Proof.
    induction t as [l IH|n|v|n] using item_ind'; intro d; unfold contains;
      rewrite contains_g_unfold, first_index_unfold;
      (destruct (equals _ pat); cbn [option_map]; [f_equal; lia|]); try reflexivity.
    rewrite (contains_list_spec pat l IH).
    destruct (fi_list pat l); cbn [option_map]; [f_equal; lia|reflexivity].
  Qed.

  Theorem position_spec t pat : contains t pat 0 = first_index pat t.
  Proof.
    rewrite contains_spec. destruct (first_index pat t); cbn [option_map]; [f_equal|reflexivity].
  Qed.

  Theorem position_extract p t pat k : contains t pat 0 = Some k ->
    0 <= k < size t /\
    traverse p t k = Ok (Found (nth_point t k)) /\
    equals (nth_point t k) pat = true /\
    (forall j, 0 <= j < k -> equals (nth_point t j) pat = false).
  Proof.
    rewrite position_spec. intro H. apply first_index_range in H as [B [V M]].
    repeat split; try lia; try assumption.
    apply (traverse_spec p t k); lia.
  Qed.

  Theorem position_none_iff_absent t pat :
    contains t pat 0 = None <-> (forall q, In q (points t) -> equals q pat = false).
  Proof. rewrite position_spec. apply first_index_none. Qed.

  (* ---- parent_point really is the parent ---- *)
  Lemma parent_in_list_cons self c r j :
    parent_in_list self (c :: r) j =
    if j =? 0 then Some self
    else if j <? size c then parent_point c j
    else parent_in_list self r (j - size c).
  Proof. rewrite <- psize_size. reflexivity. Qed.
  Lemma parent_point_unfold t k :
    parent_point t k =
    match t with
    | IList l => if k <=? 0 then None else parent_in_list t l (k - 1)
    | _ => None
    end.
  Proof. destruct t; reflexivity. Qed.

  (* point j is a list and point k is the root of one of its direct children *)
  Definition child_at (t : item) (j k : Z) : Prop :=
    exists pre post, nth_point t j = IList (pre ++ nth_point t k :: post) /\ k = j + 1 + sizes pre.

  Definition parent_ok (t : item) : Prop :=
    forall k, 0 < k < size t ->
      exists j, 0 <= j < k /\ parent_point t k = Some (nth_point t j) /\ child_at t j k.

  Lemma parent_in_list_spec l : Forall parent_ok l ->
    forall self j, 0 <= j < sizes l ->
      (parent_in_list self l j = Some self /\
       exists pre post, l = pre ++ nthl l j :: post /\ j = sizes pre)
      \/
      (exists j0, 0 <= j0 < j /\ parent_in_list self l j = Some (nthl l j0) /\
         exists pre post, nthl l j0 = IList (pre ++ nthl l j :: post) /\ j = j0 + 1 + sizes pre).
  Proof.
    induction 1 as [|c r Hc _ IH]; intros self j Hj.
    - rewrite sizes_nil in Hj. lia.
    - rewrite sizes_cons in Hj. rewrite parent_in_list_cons.
      pose proof (size_pos c). pose proof (sizes_nonneg r).
      destruct (j =? 0) eqn:E0.
      + left. split; [reflexivity|]. exists [], r. replace j with 0 by lia.
        rewrite nthl_cons by lia. replace (0 <? size c) with true by lia.
        rewrite nth_point_0. split; reflexivity.
      + destruct (j <? size c) eqn:E1.
        * right. destruct (Hc j ltac:(lia)) as [j0 [B [P [pre [post [C K]]]]]].
          exists j0. split; [lia|]. rewrite !nthl_cons by lia.
          replace (j0 <? size c) with true by lia. rewrite E1.
          split; [exact P|]. exists pre, post. split; assumption.
        * destruct (IH self (j - size c) ltac:(lia)) as [[P [pre [post [C K]]]]|[j0 [B [P [pre [post [C K]]]]]]].
          -- left. split; [exact P|]. exists (c :: pre), post.
             rewrite nthl_cons, E1 by lia. rewrite sizes_cons.
             split; [rewrite <- app_comm_cons; f_equal; exact C|lia].
          -- right. exists (j0 + size c). split; [lia|].
             rewrite !nthl_cons by lia. rewrite E1.
             replace (j0 + size c <? size c) with false by lia.
             replace (j0 + size c - size c) with j0 by lia.
             split; [exact P|]. exists pre, post. split; [exact C|lia].
  Qed.

  Theorem parent_point_spec t : parent_ok t.
  Proof.
    induction t as [l IH|n|v|n] using item_ind'; intros k Hk; try (cbn [size] in Hk; lia).
    rewrite size_list in Hk. rewrite parent_point_unfold.
    replace (k <=? 0) with false by lia.
    destruct (parent_in_list_spec l IH (IList l) (k - 1) ltac:(lia))
      as [[P [pre [post [C K]]]]|[j0 [B [P [pre [post [C K]]]]]]].
    - exists 0. split; [lia|]. rewrite nth_point_0. split; [exact P|].
      exists pre, post. rewrite nth_point_0, (nth_point_unfold (IList l) k) by lia.
      replace (k =? 0) with false by lia. split; [f_equal; exact C|lia].
    - exists (j0 + 1). split; [lia|].
      unfold child_at. rewrite !nth_point_unfold by lia.
      replace (j0 + 1 =? 0) with false by lia. replace (k =? 0) with false by lia.
      replace (j0 + 1 - 1) with j0 by lia.
      split; [exact P|]. exists pre, post. split; [exact C|lia].
  Qed.

  (* ---- Item::container ---- *)
  Definition container_list (self pat : item) : list item -> cont_r :=
    fix go (l : list item) {struct l} : cont_r :=
      match l with
      | [] => CErr false
      | c :: r => match container c pat with
                  | COk y => COk y
                  | CErr true => COk self
                  | CErr false => go r
                  end
      end.
  Lemma container_unfold t pat :
    container t pat =
    if equals t pat then CErr true
    else match t with IList l => container_list t pat l | _ => CErr false end.
  Proof. destruct t; reflexivity. Qed.
  Lemma container_list_cons self pat c r :
    container_list self pat (c :: r) =
    match container c pat with
    | COk y => COk y
    | CErr true => COk self
    | CErr false => container_list self pat r
    end.
  Proof. reflexivity. Qed.

  Definition container_ok (pat t : item) : Prop := container t pat = container_of t pat.

  Lemma container_list_spec pat l : Forall (container_ok pat) l ->
    forall self, container_list self pat l =
      match fi_list pat l with
      | None => CErr false
      | Some j => match parent_in_list self l j with Some c => COk c | None => CErr false end
      end.
  Proof.
    induction 1 as [|c r Hc _ IH]; intro self; [reflexivity|].
    rewrite container_list_cons, fi_list_cons. unfold container_ok in Hc. rewrite Hc.
    unfold container_of. pose proof (size_pos c).
    destruct (first_index pat c) as [k|] eqn:F.
    - apply first_index_range in F as [B _]. rewrite parent_in_list_cons.
      destruct (k =? 0) eqn:E0; [reflexivity|].
      replace (k <? size c) with true by lia.
      destruct (parent_point_spec c k ltac:(lia)) as [j [_ [P _]]]. rewrite P. reflexivity.
    - rewrite IH. destruct (fi_list pat r) as [j|] eqn:G; cbn [option_map]; [|reflexivity].
      apply fi_list_range in G. rewrite parent_in_list_cons.
      replace (size c + j =? 0) with false by lia.
      replace (size c + j <? size c) with false by lia.
      replace (size c + j - size c) with j by lia. reflexivity.
  Qed.

  Theorem container_spec t pat : container t pat = container_of t pat.
  Proof.
    change (container_ok pat t).
    induction t as [l IH|n|v|n] using item_ind'; unfold container_ok, container_of;
      rewrite container_unfold, first_index_unfold;
      (destruct (equals _ pat); [reflexivity|]); try reflexivity.
    rewrite (container_list_spec pat l IH).
    destruct (fi_list pat l) as [j|] eqn:G; cbn [option_map]; [|reflexivity].
    apply fi_list_range in G.
    replace (Z.succ j =? 0) with false by lia.
    rewrite parent_point_unfold. replace (Z.succ j <=? 0) with false by lia.
    replace (Z.succ j - 1) with j by lia. reflexivity.
  Qed.

  (* the three outcomes, spelled out *)
  Theorem container_ok_props t pat c : container t pat = COk c ->
    exists k j pre post,
      first_index pat t = Some k /\ parent_of_first pat t = Some c /\
      0 <= j < k /\ k < size t /\
      nth_point t j = c /\ In c (points t) /\
      c = IList (pre ++ nth_point t k :: post) /\ k = j + 1 + sizes pre /\
      equals (nth_point t k) pat = true.
  Proof.
    rewrite container_spec. unfold container_of, parent_of_first.
    destruct (first_index pat t) as [k|] eqn:F; [|discriminate].
    destruct (first_index_range _ _ _ F) as [B [V _]].
    destruct (k =? 0) eqn:E0; [discriminate|].
    destruct (parent_point_spec t k ltac:(lia)) as [j [Bj [P [pre [post [C K]]]]]].
    rewrite P. intro H. injection H as <-.
    exists k, j, pre, post. repeat split; try lia; try assumption; try reflexivity.
    apply nth_point_in. lia.
  Qed.

  Theorem container_err_true_iff t pat : container t pat = CErr true <-> equals t pat = true.
  Proof.
    rewrite container_unfold. destruct (equals t pat) eqn:E; [tauto|].
    split; [|discriminate]. intro H. exfalso.
    assert (C : container t pat = CErr true) by (rewrite container_unfold, E; exact H).
    rewrite container_spec in C. unfold container_of in C.
    rewrite first_index_unfold, E in C.
    destruct (match t with IList l => fi_list pat l | _ => None end) as [j|] eqn:G;
      cbn [option_map] in C; [|discriminate].
    assert (0 <= j) by (destruct t; try discriminate; apply fi_list_range in G; lia).
    replace (Z.succ j =? 0) with false in C by lia.
    destruct (parent_point t (Z.succ j)); discriminate.
  Qed.

  Theorem container_err_false_iff t pat :
    container t pat = CErr false <-> (forall q, In q (points t) -> equals q pat = false).
  Proof.
    rewrite <- first_index_none, container_spec. unfold container_of.
    destruct (first_index pat t) as [k|] eqn:F; [|tauto].
    split; [|discriminate].
    destruct (first_index_range _ _ _ F) as [B _].
    destruct (k =? 0) eqn:E0; [discriminate|].
    destruct (parent_point_spec t k ltac:(lia)) as [j [_ [P _]]]. rewrite P. discriminate.
  Qed.

  (* ---- Item::substitute ---- *)
  Definition substitute_list (pat sub : item) : list item -> list item :=
    fix go (l : list item) {struct l} : list item :=
      match l with
      | [] => []
      | c :: r => let '(c', m) := substitute c pat sub in (if m then sub else c') :: go r
      end.
  Lemma substitute_unfold t pat sub :
    substitute t pat sub =
    if equals t pat then (t, true)
    else match t with
         | IList l => (IList (substitute_list pat sub l), false)
         | _ => (t, false)
         end.
  Proof. destruct t; reflexivity. Qed.
  Lemma substitute_list_cons pat sub c r :
    substitute_list pat sub (c :: r) =
    (let '(c', m) := substitute c pat sub in (if m then sub else c') :: substitute_list pat sub r).
  Proof. reflexivity. Qed.
  Lemma subst_list_cons pat sub c r :
    subst_list pat sub (c :: r) =
    (if equals c pat then sub else subst_all c pat sub) :: subst_list pat sub r.
  Proof. reflexivity. Qed.
  Lemma subst_all_unfold t pat sub :
    subst_all t pat sub = match t with IList l => IList (subst_list pat sub l) | _ => t end.
  Proof. destruct t; reflexivity. Qed.

  (* a tree with no more points than the pattern has no match strictly below its root *)
  Lemma subst_all_small pat sub t : size t <= size pat -> subst_all t pat sub = t.
  Proof.
    induction t as [l IH|n|v|n] using item_ind'; intro H; try reflexivity.
    rewrite subst_all_unfold. f_equal. rewrite size_list in H.
    assert (S : sizes l < size pat) by lia. clear H.
    induction IH as [|c r Hc _ IHr]; [reflexivity|].
    rewrite sizes_cons in S. pose proof (size_pos c). pose proof (sizes_nonneg r).
    rewrite subst_list_cons.
    destruct (equals c pat) eqn:E; [apply equals_size in E; lia|].
    rewrite Hc, IHr by lia. reflexivity.
  Qed.

  Definition subst_ok (pat sub t : item) : Prop :=
    substitute t pat sub = (if equals t pat then t else subst_all t pat sub, equals t pat).

  Lemma substitute_list_spec pat sub l : Forall (subst_ok pat sub) l ->
    substitute_list pat sub l = subst_list pat sub l.
  Proof.
    induction 1 as [|c r Hc _ IH]; [reflexivity|].
    rewrite substitute_list_cons, subst_list_cons, Hc, IH.
    destruct (equals c pat); reflexivity.
  Qed.

  Lemma substitute_spec_raw pat sub t : subst_ok pat sub t.
  Proof.
    induction t as [l IH|n|v|n] using item_ind'; unfold subst_ok;
      rewrite substitute_unfold; (destruct (equals _ pat); [reflexivity|]); try reflexivity.
    rewrite (substitute_list_spec pat sub l IH), subst_all_unfold. reflexivity.
  Qed.

  Theorem subst_spec t pat sub :
    substitute t pat sub = (subst_all t pat sub, equals t pat).
  Proof.
    rewrite substitute_spec_raw. destruct (equals t pat) eqn:E; [|reflexivity].
    rewrite subst_all_small; [reflexivity|]. apply equals_size in E. lia.
  Qed.

  (* "only": a tree without a match below the root is left alone *)
  Lemma point_of_children_small l q : In q (points_list l) -> size q <= sizes l.
  Proof.
    induction l as [|c r IHl]; intro H; [destruct H|].
    rewrite points_list_cons in H. rewrite sizes_cons.
    pose proof (sizes_nonneg r). pose proof (size_pos c).
    apply in_app_or in H as [Hc|Hr].
    - destruct (in_points_nth c q Hc) as [j [Bj <-]].
      pose proof (subtree_fits c j Bj). lia.
    - specialize (IHl Hr). lia.
  Qed.

  Lemma subst_all_no_match pat sub t :
    (forall q, In q (points t) -> q = t \/ equals q pat = false) -> subst_all t pat sub = t.
  Proof.
    induction t as [l IH|n|v|n] using item_ind'; intro H; try reflexivity.
    rewrite subst_all_unfold. f_equal.
    assert (N : forall q, In q (points_list l) -> equals q pat = false).
    { intros q Hq. destruct (H q) as [E|E]; [rewrite points_unfold; right; exact Hq| |exact E].
      exfalso. pose proof (point_of_children_small l q Hq) as Small.
      rewrite E, size_list in Small. lia. }
    clear H. induction IH as [|c r Hc _ IHr]; [reflexivity|].
    rewrite subst_list_cons. rewrite points_list_cons in N.
    rewrite (N c) by (apply in_or_app; left; rewrite points_unfold; left; reflexivity).
    rewrite Hc, IHr; [reflexivity| |].
    - intros q Hq. apply N. apply in_or_app. right. exact Hq.
    - intros q Hq. right. apply N. apply in_or_app. left. exact Hq.
  Qed.
  (* ---- equals is reflexive on trees without float literals (a NaN literal
     is equal to nothing), so an item that is present is found ---- *)
  Lemma str_eqb_refl s : str_eqb s s = true.
  Proof. induction s as [|c r IH]; cbn [str_eqb]; [reflexivity|]. rewrite Z.eqb_refl, IH. reflexivity. Qed.
  Lemma list_eqb_refl {A} (e : A -> A -> bool) (l : list A) :
    (forall x, e x x = true) -> list_eqb e l l = true.
  Proof. intro H. induction l as [|c r IH]; cbn [list_eqb]; [reflexivity|]. rewrite H, IH. reflexivity. Qed.
  Lemma lit_equals_refl v : lit_float_free v = true -> lit_equals v v = true.
  Proof.
    destruct v as [b|z|c d|f|v|v|v]; cbn [lit_float_free lit_equals]; intro H.
    - apply Bool.eqb_reflx.
    - apply Z.eqb_refl.
    - rewrite !Z.eqb_refl. reflexivity.
    - discriminate.
    - apply list_eqb_refl. apply Bool.eqb_reflx.
    - apply list_eqb_refl. apply Z.eqb_refl.
    - destruct v; [reflexivity|discriminate].
  Qed.
  Lemma float_free_list_unfold l : float_free (IList l) = float_free_list l.
  Proof. reflexivity. Qed.

  Lemma equals_refl t : float_free t = true -> equals t t = true.
  Proof.
    induction t as [l IH|n|v|n] using item_ind'; intro H.
    - rewrite equals_list_unfold. rewrite float_free_list_unfold in H.
      induction IH as [|c r Hc _ IHr]; [reflexivity|].
      cbn [float_free_list] in H. apply andb_prop in H as [H1 H2].
      rewrite equals_list_cons, (Hc H1), (IHr H2). reflexivity.
    - apply str_eqb_refl.
    - apply lit_equals_refl. exact H.
    - apply str_eqb_refl.
  Qed.

  Theorem position_finds_present t pat :
    float_free pat = true -> In pat (points t) ->
    exists k, contains t pat 0 = Some k /\ 0 <= k < size t /\ equals (nth_point t k) pat = true.
  Proof.
    intros F I. destruct (contains t pat 0) as [k|] eqn:C.
    - exists k. destruct (position_extract Debug t pat k C) as [B [_ [V _]]]. repeat split; try lia; exact V.
    - exfalso. pose proof (proj1 (position_none_iff_absent t pat) C pat I) as N.
      rewrite (equals_refl pat F) in N. discriminate.
  Qed.
End Search.

(* ---- the parent is the SMALLEST enclosing list: no point strictly between
   the parent j and its child k encloses k ---- *)
Definition compose_ok (t : item) : Prop :=
  forall j m, 0 <= j < size t -> 0 <= m < size (nth_point t j) ->
    nth_point t (j + m) = nth_point (nth_point t j) m.

Lemma compose_list l : Forall compose_ok l ->
  forall k m, 0 <= k < sizes l -> 0 <= m < size (nthl l k) ->
    nthl l (k + m) = nth_point (nthl l k) m.
Proof.
  induction 1 as [|c r Hc _ IH]; intros k m Hk Hm.
  - rewrite sizes_nil in Hk. lia.
  - rewrite sizes_cons in Hk. pose proof (size_pos c). pose proof (sizes_nonneg r).
    rewrite (nthl_cons c r k) in * by lia. rewrite nthl_cons by lia.
    destruct (k <? size c) eqn:E.
    + pose proof (subtree_fits c k ltac:(lia)).
      replace (k + m <? size c) with true by lia. apply Hc; lia.
    + replace (k + m <? size c) with false by lia.
      replace (k + m - size c) with (k - size c + m) by lia. apply IH; lia.
Qed.

(* EXTRACT composes: point m of point j is point j + m *)
Theorem nth_point_compose t : compose_ok t.
Proof.
  induction t as [l IH|n|v|n] using item_ind'; intros j m Hj Hm.
  - destruct (j =? 0) eqn:E.
    + replace j with 0 by lia. rewrite nth_point_0. reflexivity.
    + rewrite size_list in Hj. rewrite (nth_point_unfold (IList l) j) in * by lia. rewrite E in *.
      rewrite nth_point_unfold by lia. replace (j + m =? 0) with false by lia.
      replace (j + m - 1) with (j - 1 + m) by lia. apply compose_list; [exact IH|lia|lia].
  - cbn [size] in Hj. replace j with 0 by lia. rewrite nth_point_0. reflexivity.
  - cbn [size] in Hj. replace j with 0 by lia. rewrite nth_point_0. reflexivity.
  - cbn [size] in Hj. replace j with 0 by lia. rewrite nth_point_0. reflexivity.
Qed.

Lemma points_list_app a b : points_list (a ++ b) = points_list a ++ points_list b.
Proof.
  induction a as [|c r IH]; [reflexivity|].
  rewrite <- app_comm_cons, !points_list_cons, IH, app_assoc. reflexivity.
Qed.
Lemma nthl_app_l a b i : 0 <= i < sizes a -> nthl (a ++ b) i = nthl a i.
Proof.
  intro H. unfold nthl. rewrite points_list_app. apply app_nth1.
  pose proof (length_points_list a). lia.
Qed.

Theorem parent_is_smallest t j k : 0 <= j < size t -> child_at t j k ->
  forall j', j < j' < k -> j' + size (nth_point t j') <= k.
Proof.
  intros Hj [pre [post [C K]]] j' Hj'.
  pose proof (sizes_nonneg pre) as Sp.
  assert (Sz : size (nth_point t j) = 1 + sizes pre + size (nth_point t k) + sizes post).
  { rewrite C, size_list, sizes_app, sizes_cons. lia. }
  pose proof (size_pos (nth_point t k)). pose proof (sizes_nonneg post).
  pose proof (nth_point_compose t j (j' - j) Hj ltac:(lia)) as Q.
  replace (j + (j' - j)) with j' in Q by lia.
  rewrite Q, C, nth_point_unfold by lia.
  replace (j' - j =? 0) with false by lia.
  rewrite nthl_app_l by lia.
  pose proof (fits_list pre ltac:(apply Forall_forall; intros; apply subtree_fits) (j' - j - 1) ltac:(lia)).
  lia.
Qed.

(* C01: the tactic that walks a registry table: one instruction = destruct
   the state record, split every match of the body, and show that each normal
   return is a wf state again. *)
From Coq Require Import ZArith String List Bool Lia ZifyBool.
From PushModel Require Import Base.Sx Base.Machine Base.ListOps Base.F32 Model.Item Model.GraphT Model.State
  Model.InstrBase Model.ICode Model.Registry Proofs.NoPanicBase Proofs.NoPanicItem.
Import ListNotations.
Open Scope Z_scope.

(* ---- the PushStack accessors ---- *)
Section Acc.
  Context {A : Type}.
  Variable P : A -> Prop.
  Lemma Forall_l_yank l i : Forall P l -> Forall P (l_yank l i).
  Proof.
    intros H. unfold l_yank. destruct ((0 <? i) && (i <? zlen l)); [|assumption].
    destruct (nth_error l (Z.to_nat i)) eqn:E; [|assumption].
    constructor; [eapply Forall_nth_error; eauto|now apply Forall_del].
  Qed.
  Lemma Forall_l_shove l i : Forall P l -> Forall P (l_shove l i).
  Proof.
    intros H. unfold l_shove. destruct ((0 <? i) && (i <? zlen l)); [|assumption].
    destruct H; [constructor|]. now apply Forall_ins.
  Qed.
  Lemma Forall_l_remove l i : Forall P l -> Forall P (l_remove l i).
  Proof. intros H. unfold l_remove. destruct (_ && _); [now apply Forall_del|assumption]. Qed.
  Lemma Forall_l_replace l i x : Forall P l -> P x -> Forall P (l_replace l i x).
  Proof. intros H Hx. unfold l_replace. destruct (_ && _); [now apply Forall_upd|assumption]. Qed.
  Lemma l_copy_P l i x : Forall P l -> l_copy l i = Some x -> P x.
  Proof. intros H. unfold l_copy. destruct (_ && _); [|discriminate]. now apply Forall_nth_error. Qed.
End Acc.

(* ---- bindings ---- *)
Lemma bind_get_wf b k t : Forall wf_bound b -> bind_get b k = Some t -> wf_item t.
Proof.
  induction 1 as [|[k' v] r Hx Hr IH]; cbn [bind_get]; [discriminate|].
  destruct (str_eqb k k'); [intros E; inversion E; subst; exact Hx|exact IH].
Qed.
Lemma bind_set_wf b k t : Forall wf_bound b -> wf_item t -> Forall wf_bound (bind_set b k t).
Proof.
  intros H Wt. induction H as [|[k' v] r Hx Hr IH]; cbn [bind_set]; [repeat constructor; exact Wt|].
  destruct (str_eqb k k'); constructor; auto.
Qed.

Lemma wf_item_list_intro l : Forall wf_item l -> wf_item (IList l).
Proof. apply wf_item_list. Qed.
Lemma wf_item_int_intro z : wf_z z -> wf_item (ILit (LInt z)).
Proof. apply wf_item_int. Qed.
Lemma wf_item_ivec_intro v : Forall wf_z v -> wf_item (ILit (LIntVec v)).
Proof. apply wf_item_ivec. Qed.
Lemma wf_item_list_elim l : wf_item (IList l) -> Forall wf_item l.
Proof. apply wf_item_list. Qed.
Lemma wf_item_int_elim z : wf_item (ILit (LInt z)) -> wf_z z.
Proof. apply wf_item_int. Qed.
Lemma wf_item_ivec_elim v : wf_item (ILit (LIntVec v)) -> Forall wf_z v.
Proof. apply wf_item_ivec. Qed.
Lemma wf_item_index_elim c d : wf_item (ILit (LIndex c d)) -> wf_idx (c, d).
Proof. apply wf_item_index. Qed.
Lemma wf_as_list t : wf_item t -> Forall wf_item (as_list t).
Proof. destruct t; cbn [as_list]; try (repeat constructor; assumption). apply wf_item_list. Qed.

Lemma wf_z_const z : in_i32 z = true -> wf_z z.
Proof. auto. Qed.
Lemma wf_idx_intro c d : in_usize c = true -> in_usize d = true -> wf_idx (c, d).
Proof. split; assumption. Qed.
Lemma in_usize_0 : in_usize 0 = true. Proof. reflexivity. Qed.
Lemma in_usize_max0 z : wf_z z -> in_usize (Z.max 0 z) = true.
Proof. rewrite wf_z_iff. unfold in_usize, two64, min32, max32. lia. Qed.
Lemma in_usize_succ c d : in_usize c = true -> in_usize d = true -> (c <? d) = true -> in_usize (c + 1) = true.
Proof. unfold in_usize, two64. lia. Qed.

Lemma wf_f_to_i32 {FO : FloatOps} x : fo_typed -> wf_z (f_to_i32 x).
Proof. intros H. apply H. Qed.

Create HintDb wf discriminated.
#[export] Hint Resolve wf_f_to_i32 : wf.
#[export] Hint Resolve wf_wrap32 wf_wadd32 wf_wsub32 wf_wmul32 wf_wdiv32 wf_wabs32 wf_len32 wf_usize_as_i32 wf_wrem32
  wf_item_instr wf_item_name wf_item_bool wf_item_float wf_item_bvec wf_item_fvec wf_item_nil
  wf_item_list_intro wf_item_int_intro wf_item_ivec_intro wf_as_list
  Forall_nil Forall_cons Forall_app_intro Forall_snoc Forall_rev Forall_tl Forall_skipn' Forall_firstn' Forall_removelast
  Forall_repeat Forall_filter Forall_l_yank Forall_l_shove Forall_l_remove Forall_l_replace Forall_upd Forall_del Forall_ins
  bind_set_wf wf_idx_intro in_usize_0 in_usize_max0 : wf.
Lemma wf_z_0 : wf_z 0. Proof. reflexivity. Qed.
Lemma wf_z_1 : wf_z 1. Proof. reflexivity. Qed.
Lemma wf_z_m1 : wf_z (-1). Proof. reflexivity. Qed.
Lemma wf_z_id1 : wf_z BOOL_ID. Proof. reflexivity. Qed.
Lemma wf_z_id2 : wf_z BVEC_ID. Proof. reflexivity. Qed.
Lemma wf_z_id3 : wf_z CODE_ID. Proof. reflexivity. Qed.
Lemma wf_z_id4 : wf_z EXEC_ID. Proof. reflexivity. Qed.
Lemma wf_z_id5 : wf_z FLOAT_ID. Proof. reflexivity. Qed.
Lemma wf_z_id6 : wf_z FVEC_ID. Proof. reflexivity. Qed.
Lemma wf_z_id7 : wf_z INDEX_ID. Proof. reflexivity. Qed.
Lemma wf_z_id8 : wf_z INPUT_ID. Proof. reflexivity. Qed.
Lemma wf_z_id9 : wf_z INT_ID. Proof. reflexivity. Qed.
Lemma wf_z_id10 : wf_z IVEC_ID. Proof. reflexivity. Qed.
Lemma wf_z_id11 : wf_z NAME_ID. Proof. reflexivity. Qed.
Lemma wf_z_id12 : wf_z OUTPUT_ID. Proof. reflexivity. Qed.
#[export] Hint Resolve wf_z_0 wf_z_1 wf_z_m1 wf_z_id1 wf_z_id2 wf_z_id3 wf_z_id4 wf_z_id5 wf_z_id6 wf_z_id7 wf_z_id8
  wf_z_id9 wf_z_id10 wf_z_id11 wf_z_id12 : wf.
#[export] Hint Extern 2 (wf_item ?x) =>
  match goal with H : l_copy _ _ = Some x |- _ => eapply l_copy_P; [|exact H] end : wf.
#[export] Hint Extern 2 (wf_z ?x) =>
  match goal with H : l_copy _ _ = Some x |- _ => eapply l_copy_P; [|exact H] end : wf.
#[export] Hint Extern 2 (Forall wf_z ?x) =>
  match goal with H : l_copy _ _ = Some x |- _ => eapply l_copy_P; [|exact H] end : wf.
#[export] Hint Extern 2 (wf_item ?x) =>
  match goal with H : bind_get _ _ = Some x |- _ => eapply bind_get_wf; [|exact H] end : wf.
#[export] Hint Extern 2 (wf_z (if _ then _ else _)) => (match goal with |- context [if ?c then _ else _] => destruct c end) : wf.
#[export] Hint Extern 2 (wf_item (if _ then _ else _)) => (match goal with |- context [if ?c then _ else _] => destruct c end) : wf.

Lemma substitute_wf' {FO : FloatOps} t pat sub t' b :
  substitute t pat sub = (t', b) -> wf_item sub -> wf_item t -> wf_item t'.
Proof. intros E Ws Wt. pose proof (substitute_wf t pat sub Ws Wt) as H. now rewrite E in H. Qed.
Lemma wf_discrepancy {FO : FloatOps} a b : wf_z (discrepancy a b).
Proof. unfold discrepancy. destruct a, b; try (destruct (item_streq _ _); reflexivity). apply wf_wrap32. Qed.
#[export] Hint Resolve wf_discrepancy : wf.
#[export] Hint Extern 2 (wf_item ?x) =>
  match goal with H : container _ _ = COk x |- _ => eapply container_wf; [|exact H] end : wf.
#[export] Hint Extern 2 (wf_item ?x) =>
  match goal with H : substitute _ _ _ = (x, _) |- _ => eapply substitute_wf'; [exact H| |] end : wf.

#[export] Hint Extern 2 (in_usize (_ + 1) = true) => (eapply in_usize_succ; eassumption) : wf.

(* eliminate wf facts about compound values in the context *)
Ltac wf_hyps :=
  repeat match goal with
         | H : Forall _ (_ :: _) |- _ => apply Forall_cons_iff in H; destruct H
         | H : wf_item (IList _) |- _ => apply wf_item_list_elim in H
         | H : wf_item (ILit (LInt _)) |- _ => apply wf_item_int_elim in H
         | H : wf_item (ILit (LIntVec _)) |- _ => apply wf_item_ivec_elim in H
         | H : wf_item (ILit (LIndex _ _)) |- _ => apply wf_item_index_elim in H
         | H : wf_idx (_, _) |- _ => destruct H; cbn [fst snd] in *
         | H : wf_bound (_, _) |- _ => unfold wf_bound in H; cbn [snd] in H
         | H : wf_msg (_, _) |- _ => unfold wf_msg in H; cbn [fst] in H
         end.

Ltac st_cbn :=
  cbn [st_bool st_code st_exec st_float st_index st_int st_name st_bvec st_fvec st_ivec st_input st_output
       st_graph st_bind st_cfg st_quote st_send].
Ltac st_cbn_all :=
  cbn [st_bool st_code st_exec st_float st_index st_int st_name st_bvec st_fvec st_ivec st_input st_output
       st_graph st_bind st_cfg st_quote st_send] in *.

(* split every match of the goal, innermost scrutinee first *)
Ltac split_goal_matches :=
  repeat first
    [ match goal with
      | |- context [match ?x with _ => _ end] =>
          lazymatch x with
          | context [match _ with _ => _ end] => fail
          | _ => first [is_var x; destruct x | destruct x eqn:?]
          end
      end
    | match goal with
      | |- context [match ?x with _ => _ end] => first [is_var x; destruct x | destruct x eqn:?]
      end ].

Create HintDb nopanic discriminated.
(* a leaf: the result is a wf state; a [Panic] leaf must be unreachable *)
Ltac wf_leaf :=
  cbv beta iota;
  lazymatch goal with
  | |- ok_state Panic => exfalso; solve [eauto with nopanic]
  | |- ok_ws Panic => exfalso; solve [eauto with nopanic]
  | |- _ => idtac
  end;
  unfold ok_state, ok_ws; cbv beta iota; cbn [snd]; try exact I;
  let FT := fresh "FT" in intros FT;
  wf_hyps; constructor; st_cbn;
  try assumption; auto 8 with wf.

(* [unf] unfolds the instruction bodies into matches over the record fields *)
Ltac safe_intro unf :=
  let p := fresh "p" in let w := fresh "w" in let s := fresh "s" in
  let W := fresh "W" in
  intros p w s W;
  lazymatch goal with
  | |- envelope _ -> _ => let E := fresh "E" in intro E; unfold envelope in E
  | |- _ => idtac
  end;
  lazymatch goal with
  | |- ok_ws (pure _ _ _ _) => apply ok_pure
  | |- ok_ws (purep _ _ _ _) => apply ok_purep
  | |- _ => idtac
  end;
  destruct s as [sbool scode sexec sfloat sindex sint sname sbvec sfvec sivec sinput soutput sgraph sbind scfg squote ssend];
  destruct W as [Wint Wivec Windex Wcode Wexec Wbind Winput Woutput Wgraphs Wcfg];
  st_cbn_all;
  unf.
Ltac safe_body unf := safe_intro unf; split_goal_matches; wf_leaf.

Create HintDb safe_special discriminated.
(* decide by computation whether the entry's name is one of [env_names] *)
Ltac entry_open :=
  unfold entry_safe; cbn [fst snd];
  match goal with
  | |- context [needs_env ?n] =>
      let b := eval vm_compute in (needs_env n) in
      change (needs_env n) with b; cbv iota
  end.
Ltac table_walk unf :=
  repeat (apply Forall_cons; [entry_open; first [solve [auto with safe_special] | solve [safe_body unf]]|]); try apply Forall_nil.

(* C15: arithmetic of [wsum] / [weight] and the tactics of the per-family growth proofs. *)
From Coq Require Import ZArith String List Bool Lia ZifyBool Permutation.
From PushModel Require Import Base.Sx Base.Machine Base.ListOps Base.F32 Model.Item Model.GraphT Model.State
  Model.InstrBase Model.Cost Proofs.StackOpsProofs.
Import ListNotations.
Open Scope Z_scope.

(* ------------------------------------------------------------------ *)
Section WSum.
  Context {A : Type}.
  Variable f : A -> Z.

  Lemma wsum_nil : wsum f [] = 0.
  Proof. reflexivity. Qed.
  Lemma wsum_cons x l : wsum f (x :: l) = f x + wsum f l.
  Proof. reflexivity. Qed.
  Lemma wsum_app a b : wsum f (a ++ b) = wsum f a + wsum f b.
  Proof. induction a as [|x r IH]; cbn [app]; rewrite ?wsum_cons, ?wsum_nil; lia. Qed.
  Lemma wsum_rev l : wsum f (rev l) = wsum f l.
  Proof. induction l as [|x r IH]; cbn [rev]; rewrite ?wsum_app, ?wsum_cons, ?wsum_nil; lia. Qed.
  Lemma wsum_perm a b : Permutation a b -> wsum f a = wsum f b.
  Proof. induction 1; rewrite ?wsum_cons; lia. Qed.

  Hypothesis fnn : forall x, 0 <= f x.
  Lemma wsum_nonneg l : 0 <= wsum f l.
  Proof. induction l as [|x r IH]; rewrite ?wsum_cons, ?wsum_nil; [lia|]. specialize (fnn x). lia. Qed.
  Lemma wsum_firstn_le k l : wsum f (firstn k l) <= wsum f l.
  Proof.
    rewrite <- (firstn_skipn k l) at 2. rewrite wsum_app. pose proof (wsum_nonneg (skipn k l)). lia.
  Qed.
  Lemma wsum_skipn_le k l : wsum f (skipn k l) <= wsum f l.
  Proof.
    rewrite <- (firstn_skipn k l) at 2. rewrite wsum_app. pose proof (wsum_nonneg (firstn k l)). lia.
  Qed.
  Lemma wsum_nth_le l k x : nth_error l k = Some x -> f x <= wsum f l.
  Proof.
    revert k; induction l as [|y r IH]; intros [|k] H; cbn [nth_error] in H; try discriminate.
    - inversion H; subst. rewrite wsum_cons. pose proof (wsum_nonneg r). lia.
    - rewrite wsum_cons. specialize (IH _ H). specialize (fnn y). lia.
  Qed.
  Lemma wsum_in_le l x : In x l -> f x <= wsum f l.
  Proof. intro H. apply In_nth_error in H as (k & H). eapply wsum_nth_le; eauto. Qed.
  Lemma wsum_filter_le (q : A -> bool) l : wsum f (filter q l) <= wsum f l.
  Proof.
    induction l as [|x r IH]; cbn [filter]; [lia|]. specialize (fnn x).
    destruct (q x); rewrite ?wsum_cons; lia.
  Qed.
  Lemma wsum_tl_le l : wsum f (tl l) <= wsum f l.
  Proof. destruct l as [|x r]; cbn [tl]; rewrite ?wsum_cons; [lia|]. specialize (fnn x). lia. Qed.
  Lemma wsum_removelast_le l : wsum f (removelast l) <= wsum f l.
  Proof.
    induction l as [|x r IH]; [cbn; lia|]. cbn [removelast]. destruct r as [|y r'].
    - rewrite wsum_cons, !wsum_nil. specialize (fnn x). lia.
    - rewrite !wsum_cons in *. lia.
  Qed.
End WSum.

Lemma wsum_del {A} (f : A -> Z) l k x : nth_error l k = Some x -> wsum f (del l k) = wsum f l - f x.
Proof. intro H. rewrite <- (wsum_perm f _ _ (del_perm l k x H)), wsum_cons. lia. Qed.
Lemma wsum_ins {A} (f : A -> Z) l k x : wsum f (ins l k x) = f x + wsum f l.
Proof. rewrite (wsum_perm f _ _ (ins_perm l k x)), wsum_cons. lia. Qed.
Lemma wsum_upd_le {A} (f : A -> Z) (fnn : forall x, 0 <= f x) l k x : wsum f (upd l k x) <= wsum f l + f x.
Proof.
  revert k; induction l as [|y r IH]; intros [|k]; cbn [upd]; rewrite ?wsum_cons, ?wsum_nil.
  - specialize (fnn x). lia.
  - specialize (fnn x). lia.
  - specialize (fnn y). lia.
  - specialize (IH k). lia.
Qed.
Lemma wsum_l_yank {A} (f : A -> Z) l i : wsum f (l_yank l i) = wsum f l.
Proof. apply wsum_perm, l_yank_perm. Qed.
Lemma wsum_l_shove {A} (f : A -> Z) l i : wsum f (l_shove l i) = wsum f l.
Proof. apply wsum_perm, l_shove_perm. Qed.
Lemma wsum_l_copy_le {A} (f : A -> Z) (fnn : forall x, 0 <= f x) l i x : l_copy l i = Some x -> f x <= wsum f l.
Proof. unfold l_copy. destruct (_ && _); [|discriminate]. apply wsum_nth_le, fnn. Qed.
Lemma wsum_l_remove_le {A} (f : A -> Z) (fnn : forall x, 0 <= f x) l i : wsum f (l_remove l i) <= wsum f l.
Proof.
  unfold l_remove. destruct (_ && _) eqn:E; [|lia].
  destruct (nth_error l (Z.to_nat i)) as [x|] eqn:N.
  - rewrite (wsum_del f _ _ _ N). specialize (fnn x). lia.
  - apply nth_error_None in N. rewrite del_beyond by exact N. lia.
Qed.
Lemma wsum_l_replace_le {A} (f : A -> Z) (fnn : forall x, 0 <= f x) l i x : wsum f (l_replace l i x) <= wsum f l + f x.
Proof. unfold l_replace. destruct (_ && _); [apply wsum_upd_le, fnn|]. specialize (fnn x). lia. Qed.

Lemma wsum_cnt {A} (l : list A) : wsum cnt l = zlen l.
Proof.
  unfold zlen. induction l as [|x r IH]; [reflexivity|]. rewrite wsum_cons, IH. unfold cnt. cbn [length]. lia.
Qed.
Lemma wsum_idxw l : wsum idxw l = 2 * zlen l.
Proof.
  unfold zlen. induction l as [|x r IH]; [reflexivity|]. rewrite wsum_cons, IH. unfold idxw. cbn [length]. lia.
Qed.
Lemma zlen_nn {A} (l : list A) : 0 <= zlen l.
Proof. unfold zlen. lia. Qed.
Lemma zlen_cons' {A} (x : A) l : zlen (x :: l) = 1 + zlen l.
Proof. unfold zlen. cbn [length]. lia. Qed.
Lemma zlen_nil' {A} : zlen (@nil A) = 0.
Proof. reflexivity. Qed.
Lemma zlen_app' {A} (a b : list A) : zlen (a ++ b) = zlen a + zlen b.
Proof. unfold zlen. rewrite app_length. lia. Qed.
Lemma zlen_rev' {A} (a : list A) : zlen (rev a) = zlen a.
Proof. unfold zlen. now rewrite rev_length. Qed.
Lemma zlen_map' {A B} (g : A -> B) (a : list A) : zlen (map g a) = zlen a.
Proof. unfold zlen. now rewrite map_length. Qed.
Lemma zlen_repeat' {A} (x : A) k : zlen (repeat x k) = Z.of_nat k.
Proof. unfold zlen. now rewrite repeat_length. Qed.
Lemma zlen_firstn_le {A} k (l : list A) : zlen (firstn k l) <= zlen l.
Proof. unfold zlen. rewrite firstn_length. lia. Qed.
Lemma zlen_firstn_skipn {A} k (l : list A) : zlen (firstn k l) + zlen (skipn k l) = zlen l.
Proof. rewrite <- zlen_app', firstn_skipn. reflexivity. Qed.
Lemma zlen_filter_le {A} (q : A -> bool) (l : list A) : zlen (filter q l) <= zlen l.
Proof. rewrite <- !wsum_cnt. apply wsum_filter_le. intro; unfold cnt; lia. Qed.
Lemma zlen_upd' {A} (l : list A) k x : zlen (upd l k x) = zlen l.
Proof. unfold zlen. now rewrite upd_length. Qed.
Lemma zlen_tl_le {A} (l : list A) : zlen (tl l) <= zlen l.
Proof. destruct l as [|x r]; cbn [tl]; rewrite ?zlen_cons'; [lia|]. pose proof (zlen_nn r). lia. Qed.

(* ------------------------------------------------------------------ *)
(* the weight functions are non-negative / positive *)
Lemma cnt_nn {A} (x : A) : 0 <= cnt x.
Proof. unfold cnt. lia. Qed.
Lemma idxw_nn x : 0 <= idxw x.
Proof. unfold idxw. lia. Qed.
Lemma vw_pos {A} (v : list A) : 1 <= vw v.
Proof. unfold vw. pose proof (zlen_nn v). lia. Qed.
Lemma vw_nn {A} (v : list A) : 0 <= vw v.
Proof. pose proof (vw_pos v). lia. Qed.
Lemma lit_cells_pos v : 1 <= lit_cells v.
Proof. destruct v; cbn [lit_cells]; try lia; apply vw_pos. Qed.
Lemma iweight_pos t : 1 <= iweight t.
Proof.
  induction t as [l IH|n|v|n] using item_ind'.
  - rewrite iweight_list. assert (0 <= wsum iweight l); [|lia].
    induction IH as [|x r Hx _ IHr]; rewrite ?wsum_cons, ?wsum_nil; lia.
  - apply vw_pos.
  - apply lit_cells_pos.
  - apply vw_pos.
Qed.
Lemma iweight_nn t : 0 <= iweight t.
Proof. pose proof (iweight_pos t). lia. Qed.
Lemma msgw_nn m : 0 <= msgw m.
Proof. unfold msgw. pose proof (zlen_nn (fst m)). pose proof (zlen_nn (snd m)). lia. Qed.
Lemma edgesw_nn kv : 0 <= edgesw kv.
Proof. apply vw_nn. Qed.
Lemma gweight_pos g : 1 <= gweight g.
Proof. unfold gweight. pose proof (zlen_nn (g_nodes g)). pose proof (wsum_nonneg edgesw edgesw_nn (g_edges g)). lia. Qed.
Lemma gweight_nn g : 0 <= gweight g.
Proof. pose proof (gweight_pos g). lia. Qed.
Lemma bindw_nn kv : 0 <= bindw kv.
Proof. unfold bindw. pose proof (zlen_nn (fst kv)). pose proof (iweight_nn (snd kv)). lia. Qed.

Lemma size_le_iweight t : size t <= iweight t.
Proof.
  induction t as [l IH|n|v|n] using item_ind'.
  - rewrite iweight_list, size_list. assert (sizes l <= wsum iweight l); [|lia].
    induction IH as [|x r Hx _ IHr]; [cbn; lia|]. unfold sizes in *. cbn [fold_right]. rewrite wsum_cons. lia.
  - cbn [size iweight]. apply vw_pos.
  - cbn [size iweight]. apply lit_cells_pos.
  - cbn [size iweight]. apply vw_pos.
Qed.

(* sum of squares <= square of the sum, for non-negative terms *)
Lemma wsum_sq_le {A} (f g : A -> Z) l :
  (forall x, 0 <= f x) -> (forall x, In x l -> g x <= f x * f x) -> wsum g l <= wsum f l * wsum f l.
Proof.
  intros fnn H. induction l as [|x r IH]; [cbn; lia|].
  rewrite !wsum_cons. pose proof (wsum_nonneg f fnn r). specialize (fnn x).
  assert (g x <= f x * f x) by (apply H; now left).
  assert (wsum g r <= wsum f r * wsum f r) by (apply IH; intros; apply H; now right).
  nia.
Qed.

Lemma nest_nn t : 0 <= nest t.
Proof.
  induction t as [l IH|n|v|n] using item_ind'; try (cbn [nest]; apply iweight_nn).
  rewrite nest_list. assert (0 <= wsum nest l).
  { induction IH as [|y r Hy _ IHr]; rewrite ?wsum_cons, ?wsum_nil; lia. }
  pose proof (iweight_nn (IList l)). lia.
Qed.
Lemma nest_ge_iweight t : iweight t <= nest t.
Proof.
  destruct t as [l| | |]; try (cbn [nest]; lia).
  rewrite nest_list. pose proof (wsum_nonneg nest nest_nn l). lia.
Qed.

(* the nested helpers are at most quadratic in the operand *)
Lemma nest_le_sq t : nest t <= iweight t * iweight t.
Proof.
  induction t as [l IH|n|v|n] using item_ind'.
  - rewrite nest_list, iweight_list.
    assert (wsum nest l <= wsum iweight l * wsum iweight l).
    { apply wsum_sq_le; [apply iweight_nn|]. intros x Hx. rewrite Forall_forall in IH. now apply IH. }
    pose proof (wsum_nonneg iweight iweight_nn l). nia.
  - cbn [nest]. pose proof (iweight_pos (IInstr n)). nia.
  - cbn [nest]. pose proof (iweight_pos (ILit v)). nia.
  - cbn [nest]. pose proof (iweight_pos (IName n)). nia.
Qed.

(* ------------------------------------------------------------------ *)
(* len32 never exceeds the real length *)
Lemma wrap32_le z : 0 <= z -> wrap32 z <= z.
Proof.
  intro H. unfold wrap32, two32.
  pose proof (Z.mod_le (z + 2147483648) 4294967296 ltac:(lia) ltac:(lia)). lia.
Qed.
Lemma len32_le {A} (l : list A) : len32 l <= zlen l.
Proof. unfold len32. apply wrap32_le, zlen_nn. Qed.
Lemma clamp_idx_le idx len : clamp_idx idx len <= Z.max (len - 1) 0.
Proof. unfold clamp_idx. lia. Qed.
Lemma clamp_idx_nn idx len : 0 <= clamp_idx idx len.
Proof. unfold clamp_idx. lia. Qed.

(* ------------------------------------------------------------------ *)
(* every component of the weight is non-negative *)
Lemma weight_parts_nn s :
  0 <= wsum cnt (st_bool s) /\ 0 <= wsum iweight (st_code s) /\ 0 <= wsum iweight (st_exec s) /\
  0 <= wsum cnt (st_float s) /\ 0 <= wsum idxw (st_index s) /\ 0 <= wsum cnt (st_int s) /\
  0 <= wsum vw (st_name s) /\ 0 <= wsum vw (st_bvec s) /\ 0 <= wsum vw (st_fvec s) /\ 0 <= wsum vw (st_ivec s) /\
  0 <= wsum msgw (st_input s) /\ 0 <= wsum msgw (st_output s) /\ 0 <= wsum gweight (st_graph s) /\
  0 <= wsum bindw (st_bind s).
Proof.
  repeat split; apply wsum_nonneg; intro;
    first [apply cnt_nn|apply iweight_nn|apply idxw_nn|apply vw_nn|apply msgw_nn|apply gweight_nn|apply bindw_nn].
Qed.
Lemma weight_nn s : 0 <= weight s.
Proof. pose proof (weight_parts_nn s). unfold weight. lia. Qed.

(* ------------------------------------------------------------------ *)
(* tactics *)

(* 0 <= wsum f l for every such term of the goal and of the hypotheses named below *)
Ltac nn_side := intro; first [apply cnt_nn|apply iweight_nn|apply idxw_nn|apply vw_nn|apply msgw_nn
                              |apply gweight_nn|apply bindw_nn|apply nest_nn|apply edgesw_nn].
Ltac pose_nn_term f l :=
  lazymatch goal with
  | _ : 0 <= wsum f l |- _ => fail
  | _ => pose proof (wsum_nonneg f ltac:(nn_side) l)
  end.
Ltac pose_nn :=
  repeat match goal with
         | |- context [wsum ?f ?l] => pose_nn_term f l
         | _ : context [wsum ?f ?l] |- _ => pose_nn_term f l
         end;
  repeat match goal with
         | |- context [iweight ?t] =>
             lazymatch goal with _ : 1 <= iweight t |- _ => fail | _ => pose proof (iweight_pos t) end
         | |- context [zlen ?l] =>
             lazymatch goal with _ : 0 <= zlen l |- _ => fail | _ => pose proof (zlen_nn l) end
         | |- context [gweight ?g] =>
             lazymatch goal with _ : 1 <= gweight g |- _ => fail | _ => pose proof (gweight_pos g) end
         end.

Lemma zlen_l_yank {A} (l : list A) i : zlen (l_yank l i) = zlen l.
Proof. rewrite <- !wsum_cnt. apply wsum_l_yank. Qed.
Lemma zlen_l_shove {A} (l : list A) i : zlen (l_shove l i) = zlen l.
Proof. rewrite <- !wsum_cnt. apply wsum_l_shove. Qed.

Create HintDb wdb.
#[export] Hint Rewrite @wsum_cons @wsum_nil @wsum_app @wsum_rev @wsum_l_yank @wsum_l_shove @wsum_ins
  iweight_list @zlen_cons' @zlen_nil' @zlen_app' @zlen_rev' @zlen_map' @zlen_repeat' @zlen_upd' @wsum_cnt @zlen_l_yank @zlen_l_shove : wdb.

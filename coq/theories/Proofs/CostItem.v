(* C15: what the tree helpers of item.rs can do to the weight of a code item. *)
From Coq Require Import ZArith String List Bool Lia ZifyBool.
From PushModel Require Import Base.Sx Base.Machine Base.ListOps Base.F32 Model.Item Model.GraphT Model.State
  Model.InstrBase Model.ICode Model.Cost Proofs.CostBase Proofs.TreePoints Proofs.TreeInsert Proofs.TreeSearch.
Import ListNotations.
Open Scope Z_scope.

(* ---- traverse: the point found is a subtree ---- *)
Lemma traverse_found_le p t : forall d y, traverse p t d = Ok (Found y) -> iweight y <= iweight t.
Proof.
  induction t as [l IH|n|v|n] using item_ind'; intros d y; rewrite traverse_unfold;
    (destruct (d =? 0); [intro Hq; inversion Hq; subst; lia|]); try discriminate.
  rewrite iweight_list. revert d.
  induction IH as [|c r Hc _ IHr]; intros d; [discriminate|].
  rewrite traverse_list_cons, wsum_cons.
  pose proof (wsum_nonneg iweight iweight_nn r). pose proof (iweight_nn c).
  destruct (usub p d 1) as [d1| |]; cbn [rbind]; try discriminate.
  destruct (traverse p c d1) as [[z|nd]| |] eqn:E; cbn [rbind]; try discriminate.
  - intro Hq; inversion Hq; subst. specialize (Hc _ _ E). lia.
  - intro Hq. specialize (IHr _ Hq). lia.
Qed.

(* ---- container: the list returned is a subtree ---- *)
Section WithFloat.
  Context {FO : FloatOps}.

  Lemma container_le pat t : forall c, container t pat = COk c -> iweight c <= iweight t.
  Proof.
    induction t as [l IH|n|v|n] using item_ind'; intro c; rewrite container_unfold;
      destruct (equals _ pat); try discriminate.
    assert (G : forall self, container_list self pat l = COk c -> c = self \/ iweight c <= wsum iweight l).
    { intro self. induction IH as [|x r Hx _ IHr]; [discriminate|].
      rewrite container_list_cons, wsum_cons.
      pose proof (wsum_nonneg iweight iweight_nn r). pose proof (iweight_nn x).
      destruct (container x pat) as [y|[|]] eqn:E.
      - intro Hq; inversion Hq; subst. right. specialize (Hx _ eq_refl). lia.
      - intro Hq; inversion Hq; subst. now left.
      - intro Hq. destruct (IHr Hq); [now left|right; lia]. }
    intro Hq. destruct (G _ Hq) as [->|L]; [lia|]. rewrite iweight_list. lia.
  Qed.
End WithFloat.

(* ---- insert: at most one copy of the new element is added ---- *)
Definition ins_bound (x t t' : item) (r : ins_r) : Prop :=
  match r with
  | IErr _ => iweight t' = iweight t
  | IOk true => iweight t' = iweight t
  | IOk false => iweight t' <= iweight t + iweight x
  end.

Lemma replace_child_le l i x : wsum iweight (replace_child l i x) <= wsum iweight l + iweight x.
Proof.
  unfold replace_child. destruct (_ && _); [apply wsum_upd_le, iweight_nn|]. pose proof (iweight_nn x). lia.
Qed.

Lemma insert_g_bound pinned p x t : forall d t' r, insert_g pinned p t x d = Ok (t', r) -> ins_bound x t t' r.
Proof.
  induction t as [l IH|n|v|n] using item_ind'; intros d t' r; rewrite insert_g_unfold;
    (destruct (d =? 0); [intro Hq; inversion Hq; subst; cbn [ins_bound]; reflexivity|]);
    try (intro Hq; inversion Hq; subst; cbn [ins_bound]; reflexivity).
  destruct (usub p d 1) as [ridx| |]; cbn [rbind]; try discriminate.
  assert (G : forall pre i d l' r',
             insert_list pinned p x ridx pre l i d = Ok (l', r') ->
             match r' with
             | IErr _ => wsum iweight l' = wsum iweight pre + wsum iweight l
             | IOk true => False
             | IOk false => wsum iweight l' <= wsum iweight pre + wsum iweight l + iweight x
             end).
  { induction IH as [|c rest Hc _ IHr]; intros pre i d0 l' r'.
    - cbn [insert_list]. intro Hq; inversion Hq; subst. rewrite wsum_rev, wsum_nil. lia.
    - rewrite insert_list_cons.
      destruct (usub p d0 1) as [d1| |]; cbn [rbind]; try discriminate.
      destruct (insert_g pinned p c x d1) as [[c' rc]| |] eqn:E; cbn [rbind fst snd]; try discriminate.
      specialize (Hc _ _ _ E). rewrite wsum_cons.
      destruct rc as [here|nd].
      + intro Hq; inversion Hq; subst. destruct here; cbn [ins_bound] in Hc.
        * pose proof (replace_child_le (rev pre ++ c' :: rest) (if pinned then ridx else i) x) as RC.
          rewrite wsum_app, wsum_rev, wsum_cons in RC. lia.
        * rewrite wsum_app, wsum_rev, wsum_cons. lia.
      + intro Hq. specialize (IHr _ _ _ _ _ Hq). cbn [ins_bound] in Hc. rewrite wsum_cons in IHr.
        destruct r' as [[|]|]; lia. }
  destruct (insert_list pinned p x ridx [] l 0 d) as [[l' r']| |] eqn:E; cbn [rbind fst snd]; try discriminate.
  intro Hq; inversion Hq; subst. specialize (G _ _ _ _ _ E). rewrite wsum_nil in G.
  unfold ins_bound. rewrite !iweight_list. destruct r as [[|]|]; lia.
Qed.

Lemma insert_le p t x d res : insert p t x d = Ok res -> iweight (fst res) <= iweight t + iweight x.
Proof.
  destruct res as [t' r]. intro Hq. apply insert_g_bound in Hq. cbn [fst].
  pose proof (iweight_nn x). unfold ins_bound in Hq. destruct r as [[|]|]; lia.
Qed.

(* ---- small helpers of the CODE instructions ---- *)
Lemma as_list_le t : wsum iweight (as_list t) <= iweight t.
Proof. destruct t; cbn [as_list]; rewrite ?iweight_list, ?wsum_cons, ?wsum_nil; lia. Qed.

Lemma bind_get_le b n t : bind_get b n = Some t -> iweight t <= wsum bindw b.
Proof.
  induction b as [|[k v] r IH]; cbn [bind_get]; [discriminate|].
  rewrite wsum_cons. pose proof (wsum_nonneg bindw bindw_nn r).
  assert (bindw (k, v) = 1 + zlen k + iweight v) by reflexivity. pose proof (zlen_nn k).
  destruct (str_eqb n k).
  - intro Hq; inversion Hq; subst. lia.
  - intro Hq. specialize (IH Hq). pose proof (iweight_nn v). lia.
Qed.
Lemma bind_set_le b k v : wsum bindw (bind_set b k v) <= wsum bindw b + bindw (k, v).
Proof.
  induction b as [|[k' v'] r IH]; cbn [bind_set]; rewrite ?wsum_cons, ?wsum_nil; [lia|].
  pose proof (bindw_nn (k', v')). destruct (str_eqb k k'); rewrite ?wsum_cons; lia.
Qed.

(* the weights of the instruction literals the control-flow instructions push *)
Lemma iweight_instr n : iweight (IInstr n) = 1 + zlen n.
Proof. reflexivity. Qed.
Lemma iweight_lit v : iweight (ILit v) = lit_cells v.
Proof. reflexivity. Qed.
Lemma iweight_name n : iweight (IName n) = vw n.
Proof. reflexivity. Qed.
Lemma iweight_instr' n : iweight (IInstr n) = vw n.
Proof. reflexivity. Qed.
#[export] Hint Rewrite iweight_lit iweight_name iweight_instr' : wdb.

(* C13: the random value generators, for every tape (= every outcome of the generator). *)
From Coq Require Import ZArith String List Bool Lia ZifyBool Arith.
From PushModel Require Import Base.Sx Base.Machine Base.ListOps Base.F32 Model.Item Model.GraphT Model.State
  Model.InstrBase Model.Registry Model.RandomGen Model.IRand Spec.RandSpec Proofs.RandCode.
Import ListNotations.
Open Scope Z_scope.
Open Scope list_scope.

Lemma draw_range_val t lo hi :
  lo < hi -> draw_range t lo hi = Ok (lo + fst (next t) mod (hi - lo), snd (next t)).
Proof. intros H. unfold draw_range. destruct (lo <? hi) eqn:E; [reflexivity|lia]. Qed.

Lemma set_tape_same w : set_tape w (w_tape w) = w.
Proof. destruct w; reflexivity. Qed.

(* ================= scalars ================= *)
Section Scalars.
  Context {FO : FloatOps}.

  Theorem int_rand_in_range p w s :
    let lo := cfg_min_rand_int (st_cfg s) in
    let hi := cfg_max_rand_int (st_cfg s) in
    exists w' s', integer_rand p w s = Ok (w', s') /\
      if lo <? hi then exists z, s' = push_int s z /\ lo <= z < hi
      else s' = s /\ w' = w.
  Proof.
    intros lo hi. unfold integer_rand, random_integer. fold lo hi.
    destruct (lo <? hi) eqn:E.
    - destruct (draw_range_ok (w_tape w) lo hi ltac:(lia)) as [z [Hz Hr]]. rewrite Hz. cbn [rbind fst snd].
      eexists _, _. split; [reflexivity|]. exists z. auto.
    - cbn [rbind fst snd]. eexists _, _. split; [reflexivity|]. split; [reflexivity|apply set_tape_same].
  Qed.

  Lemma draw_f32_range_ok t lo hi :
    flt lo hi && f_is_finite (fsub hi lo) = true ->
    exists x, draw_f32_range t lo hi = Ok (x, snd (next t)) /\ f_in_range lo hi x = true.
  Proof.
    intros H. unfold draw_f32_range. rewrite H. eexists. split; [reflexivity|].
    unfold f_in_range. destruct (fle lo (fst (next t)) && flt (fst (next t)) hi) eqn:E.
    - rewrite E. apply orb_true_r.
    - now rewrite Z.eqb_refl.
  Qed.

  (* thin: the interval is the contract of rand's gen_range, built into the oracle *)
  Theorem float_rand_in_range p w s :
    let lo := cfg_min_rand_float (st_cfg s) in
    let hi := cfg_max_rand_float (st_cfg s) in
    exists w' s', float_rand p w s = Ok (w', s') /\
      if flt lo hi && f_is_finite (fsub hi lo) then exists x, s' = push_float s x /\ f_in_range lo hi x = true
      else s' = s /\ w' = w.
  Proof.
    intros lo hi. unfold float_rand, float_rand_g, random_float. fold lo hi.
    destruct (flt lo hi && f_is_finite (fsub hi lo)) eqn:E.
    - destruct (draw_f32_range_ok (w_tape w) lo hi E) as [x [Hx Hr]]. rewrite Hx. cbn [rbind fst snd].
      eexists _, _. split; [reflexivity|]. exists x. auto.
    - cbn [rbind fst snd]. eexists _, _. split; [reflexivity|]. split; [reflexivity|apply set_tape_same].
  Qed.

  (* the pinned FLOAT.RAND panics when the width of the interval is not finite *)
  Lemma float_rand_pinned_panics p w s :
    flt (cfg_min_rand_float (st_cfg s)) (cfg_max_rand_float (st_cfg s)) = true ->
    f_is_finite (fsub (cfg_max_rand_float (st_cfg s)) (cfg_min_rand_float (st_cfg s))) = false ->
    float_rand_pinned p w s = Panic.
  Proof.
    intros H1 H2. unfold float_rand_pinned, float_rand_g, random_float_pinned, draw_f32_range.
    rewrite H1, H2. reflexivity.
  Qed.

  Theorem randbound_returns_bound_name p w s :
    st_bind s <> [] ->
    exists w' nm, name_rand_bound p w s = Ok (w', push_name s nm) /\ In nm (map fst (st_bind s)).
  Proof.
    intros Hb. unfold name_rand_bound.
    destruct (existing_ok (st_bind s) (w_tape w)) as [nm [t' [He Hn]]]. rewrite He. cbn [rbind fst snd].
    eexists _, nm. split; [reflexivity|]. destruct (st_bind s) as [|b bs]; [contradiction|].
    unfold mem_str in Hn. apply existsb_exists in Hn as [y [Hy He2]]. apply rs_eqb_eq in He2. now subst.
  Qed.
End Scalars.

(* ================= integer and float vectors ================= *)
Lemma draw_ints_ok : forall k t lo hi, lo < hi ->
  exists v t', draw_ints k t lo hi = Ok (v, t') /\ length v = k /\ all_in_range lo hi v = true.
Proof.
  induction k as [|k IH]; intros t lo hi H.
  - exists [], t. repeat split.
  - cbn [draw_ints]. destruct (draw_range_ok t lo hi H) as [z [Hz Hr]]. rewrite Hz. cbn [rbind fst snd].
    destruct (IH (snd (next t)) lo hi H) as [v [t' [Hv [Hl Ha]]]]. rewrite Hv. cbn [rbind fst snd].
    exists (z :: v), t'. split; [reflexivity|]. split; [cbn; lia|]. cbn [all_in_range forallb].
    fold (all_in_range lo hi v). rewrite Ha. lia.
Qed.
Lemma draw_floats_length : forall k t, length (fst (draw_floats k t)) = k.
Proof. induction k as [|k IH]; intros t; [reflexivity|]. cbn [draw_floats fst length]. now rewrite IH. Qed.

Section Vectors.
  Context {FO : FloatOps}.

  Theorem int_vec_length_range size lo hi t :
    iv_params_ok size lo hi = true ->
    exists v t', random_int_vector size lo hi t = Ok (Some v, t') /\ int_vec_ok size lo hi v = true.
  Proof.
    unfold iv_params_ok, random_int_vector. intros H. apply andb_true_iff in H as [H1 H2].
    destruct ((size <? 0) || (hi <=? lo)) eqn:E; [lia|].
    destruct (draw_ints_ok (Z.to_nat size) t lo hi ltac:(lia)) as [v [t' [Hv [Hl Ha]]]].
    rewrite Hv. cbn [rbind fst snd]. exists v, t'. split; [reflexivity|].
    unfold int_vec_ok, zlen. rewrite Ha, Hl. lia.
  Qed.

  Theorem float_vec_length size mean sd t :
    fv_params_ok size sd = true ->
    exists v t', random_float_vector size mean sd t = Ok (Some v, t') /\ float_vec_ok size v = true.
  Proof.
    unfold fv_params_ok, random_float_vector, normal_new_ok. intros H.
    apply andb_true_iff in H as [H H3]. apply andb_true_iff in H as [H1 H2].
    rewrite H2. apply negb_true_iff in H3. rewrite H3.
    destruct (size <? 0) eqn:E; [lia|]. cbn [orb negb].
    eexists _, _. split; [reflexivity|]. unfold float_vec_ok, zlen. rewrite draw_floats_length. lia.
  Qed.

  (* the pinned code: a NaN or infinite deviation reaches Normal::new(..).unwrap() *)
  Lemma float_vec_pinned_panics size mean sd t :
    0 <= size -> f_is_finite sd = false -> flt sd f_zero = false ->
    random_float_vector_pinned size mean sd t = Panic.
  Proof.
    intros H1 H2 H3. unfold random_float_vector_pinned, normal_new_ok. rewrite H2, H3.
    destruct (size <? 0) eqn:E; [lia|]. reflexivity.
  Qed.
End Vectors.

(* ================= boolean vector: the rejection loop ================= *)
Section Flip.
  Variable d : bool.

  (* one successful flip: a position below hi that held the default now holds the opposite *)
  Definition flipped (hi : Z) (v v' : list bool) : Prop :=
    exists i, Z.of_nat i < hi /\ nth_error v i = Some d /\ v' = upd v i (negb d).

  Lemma count_split v : count_eq d v + count_neq d v = zlen v.
  Proof.
    unfold zlen. induction v as [|b v IH]; [reflexivity|]. cbn [count_eq count_neq fold_right length].
    fold (count_eq d v) (count_neq d v). destruct (Bool.eqb b d); lia.
  Qed.
  Lemma count_eq_nonneg v : 0 <= count_eq d v.
  Proof. induction v as [|b v IH]; cbn [count_eq fold_right]; [lia|]. fold (count_eq d v). destruct (Bool.eqb b d); lia. Qed.
  Lemma count_neq_nonneg v : 0 <= count_neq d v.
  Proof. induction v as [|b v IH]; cbn [count_neq fold_right]; [lia|]. fold (count_neq d v). destruct (Bool.eqb b d); lia. Qed.

  Lemma eqb_negb_self : Bool.eqb (negb d) d = false.
  Proof. destruct d; reflexivity. Qed.

  Lemma upd_counts : forall v i, nth_error v i = Some d ->
    count_neq d (upd v i (negb d)) = count_neq d v + 1 /\ count_eq d (upd v i (negb d)) = count_eq d v - 1.
  Proof.
    induction v as [|b v IH]; intros [|i] H; cbn in H; try discriminate.
    - inversion H; subst b. cbn [upd count_neq count_eq fold_right]. fold (count_neq d v) (count_eq d v).
      rewrite eqb_negb_self, eqb_reflx. lia.
    - cbn [upd count_neq count_eq fold_right]. fold (count_neq d (upd v i (negb d))) (count_eq d (upd v i (negb d))).
      fold (count_neq d v) (count_eq d v). destruct (IH i H) as [H1 H2]. rewrite H1, H2. destruct (Bool.eqb b d); lia.
  Qed.
  Lemma upd_keeps : forall v i j, nth_error v i = Some d -> nth_error v j = Some (negb d) ->
    nth_error (upd v i (negb d)) j = Some (negb d).
  Proof.
    induction v as [|b v IH]; intros [|i] [|j] H1 H2; cbn in *; try discriminate; auto.
  Qed.
  Lemma upd_sets : forall v i, (i < length v)%nat -> nth_error (upd v i (negb d)) i = Some (negb d).
  Proof. induction v as [|b v IH]; intros [|i] H; cbn in *; try lia; auto. apply IH. lia. Qed.

  Lemma flipped_facts hi v v' : flipped hi v v' ->
    length v' = length v /\ count_neq d v' = count_neq d v + 1 /\ count_eq d v' = count_eq d v - 1 /\
    (forall j, nth_error v j = Some (negb d) -> nth_error v' j = Some (negb d)).
  Proof.
    intros [i [Hi [Hn ->]]]. split; [apply upd_length|]. destruct (upd_counts v i Hn) as [H1 H2].
    repeat split; auto. intros j Hj. now apply upd_keeps.
  Qed.

  (* whatever the loop returns was a proper flip, and it cannot panic on a non-empty range within the vector *)
  Lemma flip_loop_sound : forall fuel hi t v, 0 < hi <= zlen v ->
    exists r, flip_loop fuel hi d t v = Ok r /\
      match r with Some (v', _) => flipped hi v v' | None => True end.
  Proof.
    induction fuel as [|f IH]; intros hi t v Hh; [exists None; split; [reflexivity|exact I]|].
    cbn [flip_loop]. destruct (draw_range_ok t 0 hi ltac:(lia)) as [x [Hx Hr]]. rewrite Hx. cbn [rbind fst snd].
    destruct (nth_error v (Z.to_nat x)) as [b|] eqn:En.
    - destruct (Bool.eqb b d) eqn:Eb.
      + eexists. split; [reflexivity|]. exists (Z.to_nat x). apply eqb_prop in Eb. subst b.
        split; [lia|]. split; [exact En|reflexivity].
      + apply IH. exact Hh.
    - apply nth_error_None in En. unfold zlen in Hh. lia.
  Qed.

  (* C13_rejection_loop_finishes: the loop ends as soon as the tape offers a default position *)
  Lemma flip_loop_finishes : forall fuel hi t v, 0 < hi <= zlen v ->
    (exists k, (k < fuel)%nat /\ nth_error v (Z.to_nat (nth k t 0 mod hi)) = Some d) ->
    exists v' t', flip_loop fuel hi d t v = Ok (Some (v', t')) /\ flipped hi v v'.
  Proof.
    induction fuel as [|f IH]; intros hi t v Hh [k [Hk Hd]]; [lia|].
    cbn [flip_loop]. rewrite (draw_range_val t 0 hi) by lia. cbn [rbind fst snd].
    replace (0 + fst (next t) mod (hi - 0)) with (fst (next t) mod hi) by (rewrite Z.sub_0_r; lia).
    pose proof (Z.mod_pos_bound (fst (next t)) hi ltac:(lia)) as Hm.
    destruct (nth_error v (Z.to_nat (fst (next t) mod hi))) as [b|] eqn:En.
    - destruct (Bool.eqb b d) eqn:Eb.
      + eexists _, _. split; [reflexivity|]. exists (Z.to_nat (fst (next t) mod hi)).
        apply eqb_prop in Eb. subst b. split; [lia|]. split; [exact En|reflexivity].
      + apply IH; [exact Hh|]. destruct k as [|k].
        * exfalso. destruct t as [|y t]; cbn [nth next fst] in *; rewrite Hd in En; inversion En; subst b;
            rewrite eqb_reflx in Eb; discriminate.
        * exists k. split; [lia|]. destruct t as [|y t]; cbn [nth next snd] in *; [destruct k; exact Hd|exact Hd].
    - apply nth_error_None in En. unfold zlen in Hh. lia.
  Qed.

  Lemma flip_first_spec : forall hi v, (exists i, (i < hi)%nat /\ nth_error v i = Some d) ->
    flipped (Z.of_nat hi) v (flip_first hi d v).
  Proof.
    induction hi as [|h IH]; intros v [i [Hi Hn]]; [lia|].
    destruct v as [|b v]; [destruct i; discriminate|]. cbn [flip_first].
    destruct (Bool.eqb b d) eqn:Eb.
    - exists O. apply eqb_prop in Eb. subst b. split; [lia|]. split; reflexivity.
    - destruct i as [|i]; [cbn in Hn; inversion Hn; subst b; rewrite eqb_reflx in Eb; discriminate|].
      assert (Hi' : (i < h)%nat) by lia. cbn [nth_error] in Hn.
      destruct (IH v (ex_intro _ i (conj Hi' Hn))) as [j [Hj [Hnj Hu]]].
      exists (S j). split; [lia|]. split; [exact Hnj|]. cbn [upd]. now rewrite <- Hu.
  Qed.

  (* a default position exists while fewer bits are flipped than the vector is long *)
  Lemma default_exists : forall v, 1 <= count_eq d v -> exists i, (i < length v)%nat /\ nth_error v i = Some d.
  Proof.
    induction v as [|b v IH]; cbn [count_eq fold_right]; [lia|]. fold (count_eq d v). intros H.
    destruct (Bool.eqb b d) eqn:Eb.
    - exists O. apply eqb_prop in Eb. subst b. split; [cbn; lia|reflexivity].
    - destruct (IH ltac:(lia)) as [i [Hi Hn]]. exists (S i). split; [cbn; lia|exact Hn].
  Qed.

  Lemma flip_one_ok t v : 1 <= count_eq d v ->
    exists v' t', flip_one (zlen v) d t v = Ok (v', t') /\ flipped (zlen v) v v'.
  Proof.
    intros Hc. destruct (default_exists v Hc) as [i [Hi Hn]].
    assert (Hh : 0 < zlen v <= zlen v) by (unfold zlen; lia).
    unfold flip_one. destruct (flip_loop_sound (S (length t)) (zlen v) t v Hh) as [r [Hr Hs]].
    rewrite Hr. cbn [rbind]. destruct r as [[v' t']|].
    - exists v', t'. split; [reflexivity|exact Hs].
    - eexists _, _. split; [reflexivity|]. unfold zlen. rewrite Nat2Z.id.
      apply flip_first_spec. eauto.
  Qed.

  Lemma flip_n_ok : forall k t v, Z.of_nat k <= count_eq d v ->
    exists v' t', flip_n k (zlen v) d t v = Ok (v', t') /\ length v' = length v /\
      count_neq d v' = count_neq d v + Z.of_nat k /\
      (forall j, nth_error v j = Some (negb d) -> nth_error v' j = Some (negb d)).
  Proof.
    induction k as [|k IH]; intros t v Hk.
    - exists v, t. split; [reflexivity|]. split; [reflexivity|]. split; [lia|auto].
    - cbn [flip_n]. destruct (flip_one_ok t v ltac:(lia)) as [v1 [t1 [H1 Hf]]]. rewrite H1. cbn [rbind fst snd].
      destruct (flipped_facts _ _ _ Hf) as [Hl [Hn [He Hkeep]]].
      assert (Hz : zlen v = zlen v1) by (unfold zlen; now rewrite Hl). rewrite Hz.
      destruct (IH t1 v1 ltac:(lia)) as [v' [t' [H2 [Hl2 [Hn2 Hkeep2]]]]].
      exists v', t'. split; [exact H2|]. split; [congruence|]. split; [lia|]. auto.
  Qed.
End Flip.

Lemma count_repeat d n : count_eq d (repeat d n) = Z.of_nat n /\ count_neq d (repeat d n) = 0.
Proof.
  induction n as [|n [IH1 IH2]]; [split; reflexivity|]. cbn [repeat count_eq count_neq fold_right].
  fold (count_eq d (repeat d n)) (count_neq d (repeat d n)). rewrite eqb_reflx. lia.
Qed.

Section BoolVec.
  Context {FO : FloatOps}.

  (* 0 <= nbits <= size (< i32::MAX): the share of non-default bits is at most 1/2.  True for
     IEEE binary32; FloatOps is a class of operations WITHOUT laws, so it is a hypothesis here;
     the checker evaluates it with the executable instance on every observed case. *)
  Definition nbits_sane (size : Z) (sp : f32) : bool :=
    (0 <=? nbits size sp) && (nbits size sp <=? size) && (nbits size sp <? max32).

  Lemma bv_guard size sp :
    ((size <? 0) || (negb false && f_is_nan sp) || flt sp f_zero || fgt sp f_one) = negb (bv_params_ok size sp).
  Proof.
    unfold bv_params_ok. destruct (f_is_nan sp), (flt sp f_zero), (fgt sp f_one), (size <? 0) eqn:E1, (0 <=? size) eqn:E2;
      try reflexivity; lia.
  Qed.

  Theorem bool_vec_ok_thm p size sp t :
    bv_params_ok size sp = true -> nbits_sane size sp = true ->
    exists v t', random_bool_vector p size sp t = Ok (Some v, t') /\ bool_vec_ok size sp v = true /\
      (forall j, (j < Z.to_nat size)%nat -> nth_error v j <> None).
  Proof.
    intros Hp Hs. unfold random_bool_vector, random_bool_vector_g. rewrite bv_guard, Hp. cbn [negb].
    unfold nbits_sane in Hs. set (n := nbits size sp) in *. set (d := bv_default sp).
    assert (Hsz : 0 <= size) by (unfold bv_params_ok in Hp; lia).
    unfold add32, chk32, in_i32. unfold min32, max32 in *.
    destruct ((-2147483648 <=? n + 1) && (n + 1 <=? 2147483647)) eqn:E; [|lia]. cbn [rbind].
    replace (n + 1 - 1) with n by lia.
    set (v0 := repeat d (Z.to_nat size)).
    assert (Hz : zlen v0 = size) by (unfold zlen, v0; rewrite repeat_length; lia).
    destruct (count_repeat d (Z.to_nat size)) as [Hc1 Hc2]. fold v0 in Hc1, Hc2.
    destruct (flip_n_ok d (Z.to_nat n) t v0 ltac:(lia)) as [v [t' [Hf [Hl [Hn _]]]]].
    rewrite Hz in Hf. rewrite Hf. cbn [rbind fst snd]. exists v, t'. split; [reflexivity|]. split.
    - unfold bool_vec_ok, zlen. rewrite Hl. unfold zlen in Hz. fold d n. lia.
    - intros j Hj Hnone. apply nth_error_None in Hnone. unfold zlen in Hz. lia.
  Qed.

  (* every position can become non-default: the outcome "first draw = pos" does it *)
  Theorem bool_vec_every_position_reachable p size sp pos :
    bv_params_ok size sp = true -> nbits_sane size sp = true -> 1 <= nbits size sp -> 0 <= pos < size ->
    exists t v t', random_bool_vector p size sp t = Ok (Some v, t') /\
      nth_error v (Z.to_nat pos) = Some (negb (bv_default sp)).
  Proof.
    intros Hp Hs H1 Hpos. exists [pos].
    unfold random_bool_vector, random_bool_vector_g. rewrite bv_guard, Hp. cbn [negb].
    unfold nbits_sane in Hs. set (n := nbits size sp) in *. set (d := bv_default sp).
    unfold add32, chk32, in_i32. unfold min32, max32 in *.
    destruct ((-2147483648 <=? n + 1) && (n + 1 <=? 2147483647)) eqn:E; [|lia]. cbn [rbind].
    replace (n + 1 - 1) with n by lia.
    set (v0 := repeat d (Z.to_nat size)).
    assert (Hz : zlen v0 = size) by (unfold zlen, v0; rewrite repeat_length; lia).
    destruct (count_repeat d (Z.to_nat size)) as [Hc1 Hc2]. fold v0 in Hc1, Hc2.
    destruct (Z.to_nat n) as [|k] eqn:Ek; [lia|]. cbn [flip_n].
    assert (Hn0 : nth_error v0 (Z.to_nat pos) = Some d).
    { unfold v0. rewrite nth_error_repeat; [reflexivity|lia]. }
    assert (H1st : flip_one size d [pos] v0 = Ok (upd v0 (Z.to_nat pos) (negb d), [])).
    { unfold flip_one. cbn [length flip_loop]. rewrite (draw_range_hit 0 size pos) by lia.
      cbn [rbind fst snd]. rewrite Hn0, eqb_reflx. reflexivity. }
    rewrite H1st. cbn [rbind fst snd].
    set (v1 := upd v0 (Z.to_nat pos) (negb d)).
    assert (Hl1 : length v1 = length v0) by apply upd_length.
    assert (Hz1 : zlen v1 = size) by (unfold zlen in *; lia).
    destruct (upd_counts d v0 _ Hn0) as [_ Hce]. fold v1 in Hce.
    destruct (flip_n_ok d k [] v1 ltac:(lia)) as [v [t' [Hf [_ [_ Hkeep]]]]].
    rewrite Hz1 in Hf. rewrite Hf. cbn [rbind fst snd]. exists v, t'. split; [reflexivity|]. apply Hkeep.
    apply upd_sets. unfold zlen in Hz. lia.
  Qed.

  (* the pinned index range 0..size-1: with two positions the loop can only ever offer position 0 *)
  Lemma bool_vec_pinned_last_never t v' t' :
    flip_n 1 (2 - 1) false t [false; false] = Ok (v', t') -> v' = [true; false].
  Proof.
    cbn [flip_n]. unfold flip_one. cbn [flip_loop]. rewrite (draw_range_val t 0 (2 - 1)) by lia.
    cbn [rbind fst snd]. replace (0 + fst (next t) mod (2 - 1 - 0)) with 0 by (rewrite Z.mod_1_r; lia).
    cbn. intros H. now inversion H.
  Qed.
End BoolVec.

(* ================= invalid parameters ================= *)
Section Invalid.
  Context {FO : FloatOps}.

  Theorem invalid_params_none p w s :
    (forall size ir sp fr, st_int s = size :: ir -> st_float s = sp :: fr -> bv_params_ok size sp = false ->
        bool_vector_rand p w s = Ok (w, set_float (set_int s ir) fr)) /\
    (forall size hi lo ir, st_int s = size :: hi :: lo :: ir -> iv_params_ok size lo hi = false ->
        int_vector_rand p w s = Ok (w, set_int s ir)) /\
    (forall size ir mean sd fr, st_int s = size :: ir -> st_float s = mean :: sd :: fr -> fv_params_ok size sd = false ->
        float_vector_rand p w s = Ok (w, set_float (set_int s ir) fr)).
  Proof.
    split; [|split].
    - intros size ir sp fr Hi Hf Hp. unfold bool_vector_rand, bool_vector_rand_g. rewrite Hi.
      change (st_float (set_int s ir)) with (st_float s). rewrite Hf.
      unfold random_bool_vector_g. rewrite bv_guard, Hp. cbn [negb rbind fst snd]. now rewrite set_tape_same.
    - intros size hi lo ir Hi Hp. unfold int_vector_rand. rewrite Hi. unfold random_int_vector.
      unfold iv_params_ok in Hp. destruct ((size <? 0) || (hi <=? lo)) eqn:E; [|lia].
      cbn [rbind fst snd]. now rewrite set_tape_same.
    - intros size ir mean sd fr Hi Hf Hp. unfold float_vector_rand, float_vector_rand_g. rewrite Hi.
      change (st_float (set_int s ir)) with (st_float s). rewrite Hf.
      unfold random_float_vector. unfold fv_params_ok in Hp.
      destruct ((size <? 0) || negb (f_is_finite sd) || flt sd f_zero) eqn:E.
      + cbn [rbind fst snd]. now rewrite set_tape_same.
      + destruct (f_is_finite sd), (flt sd f_zero); cbn in *; try discriminate; lia.
  Qed.
End Invalid.

(* ================= the three vector instructions with valid operands ================= *)
Section Instr.
  Context {FO : FloatOps}.

  Lemma bool_vector_rand_ok p w s size ir sp fr :
    st_int s = size :: ir -> st_float s = sp :: fr ->
    bv_params_ok size sp = true -> nbits_sane size sp = true ->
    let s2 := set_float (set_int s ir) fr in
    exists w' v, bool_vector_rand p w s = Ok (w', set_bvec s2 (v :: st_bvec s)) /\
      zlen v = size /\ count_neq (bv_default sp) v = nbits size sp.
  Proof.
    intros Hi Hf Hp Hs s2. unfold bool_vector_rand, bool_vector_rand_g. rewrite Hi.
    change (st_float (set_int s ir)) with (st_float s). rewrite Hf.
    destruct (bool_vec_ok_thm p size sp (w_tape w) Hp Hs) as [v [t' [Hv [Hok _]]]].
    unfold random_bool_vector in Hv. rewrite Hv. cbn [rbind fst snd].
    eexists _, v. split; [reflexivity|]. unfold bool_vec_ok in Hok. lia.
  Qed.

  Lemma int_vector_rand_ok p w s size hi lo ir :
    st_int s = size :: hi :: lo :: ir -> iv_params_ok size lo hi = true ->
    exists w' v, int_vector_rand p w s = Ok (w', set_ivec (set_int s ir) (v :: st_ivec s)) /\
      zlen v = size /\ Forall (fun z => lo <= z < hi) v.
  Proof.
    intros Hi Hp. unfold int_vector_rand. rewrite Hi.
    destruct (int_vec_length_range size lo hi (w_tape w) Hp) as [v [t' [Hv Hok]]].
    rewrite Hv. cbn [rbind fst snd]. eexists _, v. split; [reflexivity|].
    unfold int_vec_ok in Hok. apply andb_true_iff in Hok as [H1 H2]. split; [lia|].
    unfold all_in_range in H2. rewrite forallb_forall in H2. apply Forall_forall. intros z Hz.
    specialize (H2 z Hz). lia.
  Qed.

  Lemma float_vector_rand_ok p w s size ir mean sd fr :
    st_int s = size :: ir -> st_float s = mean :: sd :: fr -> fv_params_ok size sd = true ->
    let s2 := set_float (set_int s ir) fr in
    exists w' v, float_vector_rand p w s = Ok (w', set_fvec s2 (v :: st_fvec s)) /\ zlen v = size.
  Proof.
    intros Hi Hf Hp s2. unfold float_vector_rand, float_vector_rand_g. rewrite Hi.
    change (st_float (set_int s ir)) with (st_float s). rewrite Hf.
    destruct (float_vec_length size mean sd (w_tape w) Hp) as [v [t' [Hv Hok]]].
    rewrite Hv. cbn [rbind fst snd]. eexists _, v. split; [reflexivity|]. unfold float_vec_ok in Hok. lia.
  Qed.

  Lemma bool_vector_rand_reachable p s size ir sp fr pos nn :
    st_int s = size :: ir -> st_float s = sp :: fr ->
    bv_params_ok size sp = true -> nbits_sane size sp = true -> 1 <= nbits size sp -> 0 <= pos < size ->
    let s2 := set_float (set_int s ir) fr in
    exists t w' v, bool_vector_rand p {| w_next_node := nn; w_tape := t |} s = Ok (w', set_bvec s2 (v :: st_bvec s)) /\
      nth_error v (Z.to_nat pos) = Some (negb (bv_default sp)).
  Proof.
    intros Hi Hf Hp Hs H1 Hpos s2.
    destruct (bool_vec_every_position_reachable p size sp pos Hp Hs H1 Hpos) as [t [v [t' [Hv Hn]]]].
    exists t. unfold bool_vector_rand, bool_vector_rand_g. rewrite Hi.
    change (st_float (set_int s ir)) with (st_float s). rewrite Hf. cbn [w_tape].
    unfold random_bool_vector in Hv. rewrite Hv. cbn [rbind fst snd]. eexists _, v. split; [reflexivity|exact Hn].
  Qed.
End Instr.

(* C16: the Vec-backed stack refines the plain top-first sequence. *)
From Coq Require Import ZArith List Bool Lia Arith ZifyBool.
From PushModel Require Import Base.Sx Base.Machine Base.ListOps Model.Stack Spec.SeqSpec Model.StackMachine.
Import ListNotations.
Open Scope Z_scope.

Section Refine.
  Context {A : Type}.
  Variable eqA : A -> A -> bool.
  Variable streq : A -> A -> bool.

  Definition abs (v : vec A) : list A := rev v.

  Lemma len_abs (v : vec A) : len (abs v) = vlen v.
  Proof. unfold len, abs, vlen. now rewrite rev_length. Qed.

  Lemma vlen_bound (v : vec A) : 0 <= vlen v.
  Proof. unfold vlen. lia. Qed.

  Lemma uadd_ok p a b : 0 <= a -> 0 <= b -> a + b < two64 -> uadd p a b = Ok (a + b).
  Proof. intros. unfold uadd. destruct (a + b <? two64) eqn:E; [reflexivity|lia]. Qed.
  Lemma usub_ok p a b : b <= a -> usub p a b = Ok (a - b).
  Proof. intros. unfold usub. destruct (b <=? a) eqn:E; [reflexivity|lia]. Qed.

  Lemma slot_ok p (v : vec A) i : 0 <= i < vlen v -> vlen v < two64 ->
    slot p v i = Ok (vlen v - (i + 1)).
  Proof.
    intros H B. unfold slot. rewrite uadd_ok by lia. cbn [rbind]. now rewrite usub_ok by lia.
  Qed.

  Lemma vidx_ok (v : vec A) k : 0 <= k < vlen v ->
    exists x, nth_error v (Z.to_nat k) = Some x /\ vidx v k = Ok x.
  Proof.
    intros H. unfold vidx.
    destruct (nth_error v (Z.to_nat k)) as [x|] eqn:E.
    - exists x. split; [reflexivity|].
      destruct ((0 <=? k) && (k <? vlen v)) eqn:B; [reflexivity|lia].
    - apply nth_error_None in E. unfold vlen in H. lia.
  Qed.

  Lemma slot_nat (v : vec A) i : 0 <= i < vlen v ->
    Z.to_nat (vlen v - (i + 1)) = (length v - S (Z.to_nat i))%nat.
  Proof. unfold vlen. lia. Qed.

  Lemma pos_lt (v : vec A) i : 0 <= i < vlen v -> (pos i < length v)%nat.
  Proof. unfold vlen, pos. lia. Qed.

  (* reading stack position i *)
  Lemma read_at p (v : vec A) i : 0 <= i < vlen v -> vlen v < two64 ->
    exists x, nth_error (abs v) (pos i) = Some x /\
              (let! k := slot p v i in vidx v k) = Ok x.
  Proof.
    intros H B. rewrite slot_ok by assumption. cbn [rbind].
    destruct (vidx_ok v (vlen v - (i + 1)) ltac:(lia)) as (x & E & V).
    exists x. split; [|exact V].
    unfold abs. rewrite nth_error_rev by (now apply pos_lt).
    rewrite slot_nat in E by assumption. exact E.
  Qed.

  Lemma abs_nth_none (v : vec A) i : vlen v <= i -> nth_error (abs v) (pos i) = None.
  Proof. intros. apply nth_error_None. unfold abs. rewrite rev_length. unfold vlen, pos in *. lia. Qed.

  Definition sim (p : profile) (v : vec A) (o : op A) : Prop :=
    exists v', impl_step eqA streq p v o = Ok (v', snd (spec_step eqA streq (abs v) o))
               /\ abs v' = fst (spec_step eqA streq (abs v) o).

  Ltac finish := eexists; split; [reflexivity|]; try reflexivity.

  Lemma sim_size p v : sim p v OSize.
  Proof. unfold sim. cbn. rewrite len_abs. finish. Qed.

  Lemma sim_tolist p v : sim p v OToList.
  Proof. unfold sim. cbn. finish. Qed.

  Lemma sim_lasteq p v a : sim p v (OLastEq a).
  Proof. unfold sim. cbn. unfold s_last_eq, abs. finish. Qed.

  Lemma sim_equalat p v i a : 0 <= i -> vlen v < two64 -> sim p v (OEqualAt i a).
  Proof.
    intros H B. pose proof (vlen_bound v) as VB. unfold sim. cbn [impl_step spec_step fst snd]. unfold s_equal_at.
    destruct (vlen v <=? i) eqn:E.
    - cbn [rbind]. rewrite abs_nth_none by lia. finish.
    - destruct (read_at p v i ltac:(lia) B) as (x & N & R).
      rewrite N.
      destruct (slot p v i) as [k| |fn0 a0]; cbn [rbind] in *; try discriminate.
      rewrite R. cbn [rbind]. finish.
  Qed.

  Lemma sim_bottom p v : sim p v OBottom.
  Proof.
    unfold sim. cbn [impl_step spec_step fst snd]. unfold s_bottom, abs.
    rewrite rev_involutive. destruct v as [|x r]; cbn; finish.
  Qed.

  Lemma sim_flush p v : sim p v OFlush.
  Proof. unfold sim. cbn. finish. Qed.

  Lemma inb_abs v i : inb i (abs v) = (0 <=? i) && (i <? vlen v).
  Proof. unfold inb. now rewrite len_abs. Qed.

  Lemma sim_replace p v i a : 0 <= i < two64 -> vlen v < two64 -> sim p v (OReplace i a).
  Proof.
    intros H B. pose proof (vlen_bound v) as VB. unfold sim. cbn [impl_step spec_step]. unfold s_replace. rewrite inb_abs, len_abs.
    destruct (i <? vlen v) eqn:E.
    - replace (0 <=? i) with true by (symmetry; apply Z.leb_le; lia). cbn [andb].
      rewrite slot_ok by lia. cbn [rbind].
      destruct (vidx_ok v (vlen v - (i + 1)) ltac:(lia)) as (x & _ & V). rewrite V. cbn [rbind fst snd].
      eexists; split; [reflexivity|].
      unfold abs. rewrite slot_nat by lia. apply upd_rev. apply pos_lt; lia.
    - rewrite andb_false_r. cbn [rbind fst snd]. change 18446744073709551615 with (two64 - 1). finish.
  Qed.

  Lemma sim_remove p v i : 0 <= i < two64 -> vlen v < two64 -> sim p v (ORemove i).
  Proof.
    intros H B. pose proof (vlen_bound v) as VB. unfold sim. cbn [impl_step spec_step fst snd]. unfold s_remove.
    destruct (i <? vlen v) eqn:E.
    - rewrite slot_ok by lia. cbn [rbind]. unfold vremove.
      destruct (vidx_ok v (vlen v - (i + 1)) ltac:(lia)) as (x & _ & V). rewrite V. cbn [rbind fst snd].
      eexists; split; [reflexivity|].
      unfold abs. rewrite slot_nat by lia. apply del_rev. apply pos_lt; lia.
    - cbn [rbind]. eexists; split; [reflexivity|].
      symmetry. apply del_beyond. unfold abs. rewrite rev_length. unfold vlen, pos in *. lia.
  Qed.

  Lemma sim_reverse p v : sim p v OReverse.
  Proof. unfold sim. cbn. finish. Qed.

  Lemma sim_get p v i : 0 <= i -> vlen v < two64 -> sim p v (OGet i).
  Proof.
    intros H B. pose proof (vlen_bound v) as VB. unfold sim. cbn [impl_step spec_step fst snd]. unfold s_get.
    destruct (i <? vlen v) eqn:E.
    - destruct (read_at p v i ltac:(lia) B) as (x & N & R). rewrite N.
      destruct (slot p v i) as [k| |fn0 a0]; cbn [rbind] in *; try discriminate.
      rewrite R. cbn [rbind]. finish.
    - cbn [rbind]. rewrite abs_nth_none by lia. finish.
  Qed.

  Lemma sim_push p v a : sim p v (OPush a).
  Proof. unfold sim. cbn [impl_step spec_step fst snd]. unfold s_push, abs. eexists; split; [reflexivity|]. now rewrite rev_app_distr. Qed.

  Lemma sim_pushfront p v a : sim p v (OPushFront a).
  Proof. unfold sim. cbn. unfold s_push_front, abs. finish. Qed.

  Lemma sim_yank p v i : 0 <= i < two64 -> vlen v < two64 -> sim p v (OYank i).
  Proof.
    intros H B. pose proof (vlen_bound v) as VB. unfold sim. cbn [impl_step spec_step fst snd]. unfold s_yank.
    destruct ((0 <? i) && (i <? vlen v)) eqn:E.
    - destruct (read_at p v i ltac:(lia) B) as (x & N & R). rewrite N.
      rewrite slot_ok in * by lia. cbn [rbind] in *. unfold vremove. rewrite R. cbn [rbind fst snd].
      eexists; split; [reflexivity|].
      unfold abs. rewrite rev_app_distr. cbn [rev app]. f_equal.
      rewrite slot_nat by lia. apply del_rev. apply pos_lt; lia.
    - cbn [rbind]. eexists; split; [reflexivity|].
      destruct (i <? vlen v) eqn:E2.
      + assert (i = 0) by lia. subst i. cbn [pos Z.to_nat].
        destruct (abs v); reflexivity.
      + now rewrite abs_nth_none by lia.
  Qed.

  Lemma s_pop_abs (v : vec A) :
    s_pop v = match abs v with [] => (None, v) | x :: r => (Some x, rev r) end.
  Proof. reflexivity. Qed.

  Lemma sim_shove p v i : 0 <= i < two64 -> vlen v < two64 -> sim p v (OShove i).
  Proof.
    intros H B. pose proof (vlen_bound v) as VB. unfold sim. cbn [impl_step spec_step fst snd]. unfold s_shove.
    rewrite len_abs. rewrite s_pop_abs.
    destruct ((0 <? i) && (i <? vlen v)) eqn:E.
    - destruct (abs v) as [|x r] eqn:Ev.
      + exfalso. apply (f_equal (@length A)) in Ev. unfold abs in Ev. rewrite rev_length in Ev.
        unfold vlen in E. cbn in Ev. lia.
      + assert (L : vlen (rev r) = vlen v - 1).
        { unfold vlen. rewrite rev_length. apply (f_equal (@length A)) in Ev.
          unfold abs in Ev. rewrite rev_length in Ev. cbn in Ev. lia. }
        rewrite usub_ok by lia. cbn [rbind]. unfold vinsert.
        replace ((0 <=? vlen (rev r) - i) && (vlen (rev r) - i <=? vlen (rev r))) with true by lia.
        cbn [rbind]. replace (i <? vlen v) with true by lia.
        eexists; split; [reflexivity|].
        unfold abs.
        replace (Z.to_nat (vlen (rev r) - i)) with (length (rev r) - pos i)%nat
          by (unfold vlen, pos in *; lia).
        rewrite ins_rev by (rewrite rev_length; unfold vlen, pos in *; rewrite rev_length in L; lia).
        now rewrite rev_involutive.
    - cbn [rbind]. eexists; split; [reflexivity|].
      destruct (abs v) as [|x r]; [reflexivity|].
      destruct (i <? vlen v) eqn:E2; [|reflexivity].
      assert (i = 0) by lia. subst i. reflexivity.
  Qed.

  Lemma sim_swap p v i j : 0 <= i < vlen v -> 0 <= j < vlen v -> sim p v (OSwap i j).
  Proof.
    intros Hi Hj. unfold sim. cbn [impl_step spec_step fst snd]. unfold s_swap, abs.
    rewrite rev_involutive.
    destruct (vidx_ok v i Hi) as (a & Na & Va). destruct (vidx_ok v j Hj) as (b & Nb & Vb).
    rewrite Va, Vb. cbn [rbind]. unfold pos. rewrite Na, Nb.
    eexists; split; [reflexivity|]. reflexivity.
  Qed.

  Lemma sim_popfront p v : sim p v OPopFront.
  Proof.
    unfold sim. cbn [impl_step spec_step]. unfold s_pop_front, abs. rewrite rev_involutive.
    destruct v as [|x r]; cbn [fst snd]; finish.
  Qed.

  Lemma sim_pop p v : sim p v OPop.
  Proof.
    unfold sim. cbn [impl_step spec_step]. rewrite s_pop_abs.
    destruct (abs v) as [|x r] eqn:E; cbn [fst snd]; finish.
    - exact E.
    - unfold abs. now rewrite rev_involutive.
  Qed.

  Lemma sim_popvec p v n : 0 <= n -> sim p v (OPopVec n).
  Proof.
    intros H. unfold sim. cbn [impl_step spec_step]. unfold s_pop_vec. rewrite len_abs.
    destruct (vlen v <? n) eqn:E.
    - replace (n <=? vlen v) with false by lia. cbn [rbind fst snd]. finish.
    - replace (n <=? vlen v) with true by lia. rewrite usub_ok by lia. cbn [rbind fst snd].
      eexists; split.
      + do 3 f_equal. unfold abs.
        replace (Z.to_nat (vlen v - n)) with (length v - pos n)%nat by (unfold vlen, pos in *; lia).
        rewrite <- rev_skipn. now rewrite rev_involutive.
      + unfold abs.
        replace (Z.to_nat (vlen v - n)) with (length v - pos n)%nat by (unfold vlen, pos in *; lia).
        apply rev_firstn.
  Qed.

  Lemma sim_copy p v i : 0 <= i -> vlen v < two64 -> sim p v (OCopy i).
  Proof.
    intros H B. pose proof (vlen_bound v) as VB. unfold sim. cbn [impl_step spec_step fst snd]. unfold s_copy.
    destruct (vlen v =? 0) eqn:E0.
    - cbn [rbind]. rewrite abs_nth_none by lia. finish.
    - pose proof (vlen_bound v). rewrite usub_ok by lia. cbn [rbind].
      destruct (vlen v - 1 <? i) eqn:E.
      + cbn [rbind]. rewrite abs_nth_none by lia. finish.
      + destruct (read_at p v i ltac:(lia) B) as (x & N & R). rewrite N.
        destruct (slot p v i) as [k| |fn0 a0]; cbn [rbind] in *; try discriminate.
        rewrite R. cbn [rbind]. finish.
  Qed.

  (* the copy loop reads the slice [len-n+i, len) *)
  Lemma copy_loop_ok p (v : vec A) n : 0 <= n <= vlen v -> vlen v < two64 ->
    forall cnt i, 0 <= i -> i + Z.of_nat cnt = n ->
    copy_loop p v n cnt i = Ok (firstn cnt (skipn (Z.to_nat (vlen v - n + i)) v)).
  Proof.
    intros H B. induction cnt as [|c IH]; intros i Hi Hc; cbn [copy_loop].
    - reflexivity.
    - rewrite usub_ok by lia. cbn [rbind]. rewrite uadd_ok by lia. cbn [rbind].
      destruct (vidx_ok v (vlen v - n + i) ltac:(lia)) as (x & N & V). rewrite V. cbn [rbind].
      rewrite IH by lia. cbn [rbind]. f_equal.
      replace (Z.to_nat (vlen v - n + (i + 1))) with (S (Z.to_nat (vlen v - n + i))) by lia.
      set (k := Z.to_nat (vlen v - n + i)) in *.
      clearbody k. clear -N. revert k N. induction v as [|y r IHv]; intros [|k] N; cbn in *; try discriminate.
      + now inversion N.
      + now apply IHv.
  Qed.

  Lemma sim_copyvec p v n : 0 <= n -> vlen v < two64 -> sim p v (OCopyVec n).
  Proof.
    intros H B. pose proof (vlen_bound v) as VB. unfold sim. cbn [impl_step spec_step]. unfold s_copy_vec. rewrite len_abs.
    destruct (vlen v <? n) eqn:E.
    - replace (n <=? vlen v) with false by lia. cbn [rbind fst snd]. finish.
    - replace (n <=? vlen v) with true by lia.
      rewrite (copy_loop_ok p v n) by lia. cbn [rbind fst snd].
      eexists; split; [|reflexivity]. do 3 f_equal.
      rewrite Z.add_0_r.
      replace (Z.to_nat (vlen v - n)) with (length v - pos n)%nat by (unfold vlen, pos in *; lia).
      unfold abs. rewrite <- rev_skipn. rewrite rev_involutive. f_equal.
      apply firstn_all2. rewrite skipn_length. unfold vlen, pos in *. lia.
  Qed.

  Lemma sim_pushvec p v l : sim p v (OPushVec l).
  Proof. unfold sim. cbn [impl_step spec_step fst snd]. unfold s_push_vec, abs. eexists; split; [reflexivity|]. now rewrite rev_app_distr. Qed.

  (* one simulation lemma per method, assembled *)
  Lemma sim_step p v o : vlen v < two64 -> op_wf (abs v) o -> sim p v o.
  Proof.
    intros B W. destruct o; cbn [op_wf] in W; change 18446744073709551615 with (two64 - 1) in W.
    - apply sim_size. - apply sim_tolist. - apply sim_lasteq.
    - apply sim_equalat; lia. - apply sim_bottom. - apply sim_flush.
    - apply sim_replace; lia. - apply sim_remove; lia. - apply sim_reverse.
    - apply sim_get; lia. - apply sim_push. - apply sim_pushfront.
    - apply sim_yank; lia. - apply sim_shove; lia.
    - rewrite len_abs in W. apply sim_swap; lia.
    - apply sim_popfront. - apply sim_pop. - apply sim_popvec; lia.
    - apply sim_copy; lia. - apply sim_copyvec; lia. - apply sim_pushvec.
  Qed.

  (* sizes stay below 2^64 along a history whose pushes are bounded: we state
     the refinement for histories whose spec states all stay below 2^64 items
     (a Vec cannot hold more) *)
  Fixpoint sizes_ok (t : list A) (ops : list (op A)) : Prop :=
    len t < two64 /\
    match ops with
    | [] => True
    | o :: r => sizes_ok (fst (spec_step eqA streq t o)) r
    end.

  Theorem stack_refines_seq_lemma : forall p ops v,
    ops_wf eqA streq (abs v) ops -> sizes_ok (abs v) ops ->
    exists v', impl_run eqA streq p v ops = Ok (v', snd (spec_run eqA streq (abs v) ops))
               /\ abs v' = fst (spec_run eqA streq (abs v) ops).
  Proof.
    intros p ops. induction ops as [|o r IH]; intros v W S.
    - cbn. eexists; split; reflexivity.
    - cbn [ops_wf] in W. destruct W as [Wo Wr].
      destruct S as [Sv Sr]. rewrite len_abs in Sv.
      destruct (sim_step p v o Sv Wo) as (v1 & E1 & A1).
      cbn [impl_run spec_run]. rewrite E1. cbn [rbind fst snd].
      rewrite <- A1 in Wr, Sr.
      destruct (IH v1 Wr Sr) as (v2 & E2 & A2).
      rewrite E2. cbn [rbind fst snd].
      destruct (spec_step eqA streq (abs v) o) as [t' u] eqn:Es. cbn [fst snd] in *.
      rewrite <- A1.
      destruct (spec_run eqA streq (abs v1) r) as [t'' us] eqn:Er. cbn [fst snd] in *.
      eexists; split; [reflexivity|exact A2].
  Qed.

  (* out-of-range positions are reported as absent and never fail *)
  Theorem out_of_range_absent_lemma : forall p (v : vec A) i a,
    vlen v <= i < two64 -> vlen v < two64 ->
    impl_step eqA streq p v (OGet i) = Ok (v, UOA None) /\
    impl_step eqA streq p v (OCopy i) = Ok (v, UOA None) /\
    impl_step eqA streq p v (OEqualAt i a) = Ok (v, UOB None) /\
    impl_step eqA streq p v (ORemove i) = Ok (v, UUnit) /\
    impl_step eqA streq p v (OYank i) = Ok (v, UUnit) /\
    impl_step eqA streq p v (OShove i) = Ok (v, UUnit) /\
    impl_step eqA streq p v (OReplace i a) = Ok (v, UOZ (Some (Z.min (two64 - 1) (i - vlen v + 1)))) /\
    (vlen v < i -> impl_step eqA streq p v (OPopVec i) = Ok (v, UOL None) /\
                   impl_step eqA streq p v (OCopyVec i) = Ok (v, UOL None)).
  Proof.
    intros p v i a H B. pose proof (vlen_bound v).
    cbn [impl_step]. unfold s_get, s_copy, s_equal_at, s_remove, s_yank, s_shove, s_replace,
      s_pop_vec, s_copy_vec.
    replace (i <? vlen v) with false by lia. replace (vlen v <=? i) with true by lia.
    rewrite andb_false_r. cbn [rbind fst snd].
    repeat split; try reflexivity.
    - destruct (vlen v =? 0) eqn:E; [reflexivity|].
      rewrite usub_ok by lia. cbn [rbind]. now replace (vlen v - 1 <? i) with true by lia.
    - now replace (vlen v <? i) with true by lia.
    - now replace (vlen v <? i) with true by lia.
  Qed.
End Refine.

From PushModel Require Import Suites.SStack.
Lemma ops_wf_b_sound : forall ops t, ops_wf_b t ops = true -> ops_wf Z.eqb Z.eqb t ops.
Proof.
  induction ops as [|o r IH]; intros t H; cbn [ops_wf_b ops_wf] in *; [exact I|].
  rewrite spec_step_c_eq in H.
  apply andb_prop in H as [H1 H2]. split; [|now apply IH].
  destruct o; cbn [op_wf]; try exact I; try lia.
Qed.

(* the element-generic wire suite (Suites/SStackGen.v; instance: PushStack<Item>) *)
From PushModel Require Import Suites.SStackGen.
Lemma ops_wf_bg_sound : forall (A : Type) (eqA streq : A -> A -> bool) (ops : list (op A)) (t : list A),
  ops_wf_bg eqA streq t ops = true -> ops_wf eqA streq t ops.
Proof.
  intros A eqA streq.
  induction ops as [|o r IH]; intros t H; cbn [ops_wf_bg ops_wf] in *; [exact I|].
  rewrite spec_step_c_eq in H.
  apply andb_prop in H as [H1 H2]. split; [|now apply IH].
  destruct o; cbn [op_wf]; try exact I; try lia.
Qed.

(* inside the quantifier the generic suite prints exactly the specification's run:
   the checker's verdict 1 on an observed result means "equal to the model's result" *)
Lemma suite_g_result_is_spec :
  forall (A : Type) (sx_el : A -> sx) (sx_listing : list A -> sx) (eqA streq : A -> A -> bool)
         (p : profile) (init : list A) (ops : list (op A)),
    ops_wf_bg eqA streq (rev init) ops = true -> sizes_ok eqA streq (rev init) ops ->
    run_g sx_el sx_listing eqA streq p init ops =
    SL [SZ 0; sx_run_g sx_el sx_listing (spec_run eqA streq (rev init) ops)].
Proof.
  intros A sx_el sx_listing eqA streq p init ops W S.
  apply ops_wf_bg_sound in W.
  destruct (stack_refines_seq_lemma eqA streq p ops init W S) as [v' [E R]].
  unfold abs in R, E. unfold run_g, s_from_vec. rewrite E. cbn [sx_res fst snd]. rewrite R.
  destruct (spec_run eqA streq (rev init) ops); reflexivity.
Qed.

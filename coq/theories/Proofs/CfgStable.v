(* No instruction writes the configuration: from the footprint theorem. *)
From Coq Require Import ZArith String List Bool Lia.
From PushModel Require Import Base.Sx Base.Machine Base.ListOps Base.F32 Model.Item Model.GraphT Model.State
  Model.InstrBase Model.Registry Model.Interp Spec.Footprint Proofs.Frame Proofs.FrameProofs.
Import ListNotations.

Definition reg_cfg_stable (reg : registry) : Prop :=
  forall n f, lookup reg n = Some f -> forall p w s w' s', f p w s = Ok (w', s') -> st_cfg s' = st_cfg s.

Definition fp_no_cfg (fp : list (string * mask)) : Prop := Forall (fun e => m_cfg (snd e) = false) fp.

Lemma fp_lookup_in fp n m : fp_lookup fp n = Some m -> In m (map snd fp).
Proof.
  induction fp as [|[k v] r IH]; cbn; [discriminate|].
  destruct (String.eqb n k); [intros H; inversion H; auto|auto].
Qed.

Lemma lookup_in (tbl : list (string * sem)) n f : lookup (mk_registry tbl) n = Some f -> In f (map snd tbl).
Proof.
  induction tbl as [|[k v] r IH]; [discriminate|].
  unfold mk_registry in *. cbn [map lookup fst snd].
  destruct (str_eqb _ _); [intros H; inversion H; now left|intros H; right; now apply IH].
Qed.

Lemma framed_cfg_stable tbl fp : table_framed tbl fp -> fp_no_cfg fp -> reg_cfg_stable (mk_registry tbl).
Proof.
  intros Hf Hc n f L p w s w' s' E.
  apply lookup_in in L. apply in_map_iff in L as ((k & f0) & <- & Hin).
  unfold table_framed in Hf. rewrite Forall_forall in Hf.
  destruct (Hf _ Hin) as (m & Lm & Fr). cbn [fst snd] in *.
  specialize (Fr p w s w' s' E).
  apply fp_lookup_in in Lm. apply in_map_iff in Lm as ((k2 & m2) & <- & Hin2).
  unfold fp_no_cfg in Hc. rewrite Forall_forall in Hc. specialize (Hc _ Hin2). cbn [snd] in *.
  unfold same_outside in Fr. tauto.
Qed.

Lemma step_cfg_stable p reg : reg_cfg_stable reg ->
  forall w s fin w1 s1, step p reg w s = Ok (fin, w1, s1) -> st_cfg s1 = st_cfg s.
Proof.
  intros R w s fin w1 s1 H. unfold step in H.
  destruct (st_exec s) as [|t r]; [inversion H; reflexivity|].
  destruct t.
  - inversion H; reflexivity.
  - destruct (lookup reg name) eqn:L; [|inversion H; reflexivity].
    destruct (s0 p w (set_exec s r)) as [[w2 s2]| |] eqn:E; cbn in H; inversion H; subst.
    now rewrite (R _ _ L _ _ _ _ _ E).
  - inversion H. destruct v; reflexivity.
  - destruct (st_quote _); [inversion H; reflexivity|].
    destruct (bind_get _ _); inversion H; reflexivity.
Qed.

Section Core.
  Context {FO : FloatOps}.
  Lemma core_cfg_stable : reg_cfg_stable (mk_registry tbl_core).
  Proof.
    apply (framed_cfg_stable _ fp_core core_framed).
    unfold fp_no_cfg, fp_core, fp_family. cbn [app]. repeat constructor.
  Qed.
End Core.

(* ---- the full registry ---- *)
From PushModel Require Import Model.RegistryAll Proofs.FrameProofs2.

Lemma fp_no_cfg_b fp : forallb (fun e : string * mask => negb (m_cfg (snd e))) fp = true -> fp_no_cfg fp.
Proof.
  intros H. unfold fp_no_cfg. rewrite Forall_forall. rewrite forallb_forall in H.
  intros e Hin. specialize (H e Hin). now destruct (m_cfg (snd e)).
Qed.

Section Full.
  Context {FO : FloatOps}.
  Lemma full_cfg_stable : reg_cfg_stable full_registry.
  Proof. apply (framed_cfg_stable _ fp_all all_framed). apply fp_no_cfg_b. vm_compute. reflexivity. Qed.
End Full.

(* C11 scalar law for the executable float instance, part 1: the text level.

   [txt neg n] is the text "{sign}{n / 1000}.{n mod 1000 : 3 digits}" that
   [fl_fmt 3] produces for a finite float whose exact value times 1000 rounds
   (half to even) to the integer [n]; [fl_parse (txt neg n)] is the decimal
   conversion [dec_to_f32 neg n (-3)].  Pure list / Z reasoning; Flocq only
   enters through the definitions of Base/F32Flocq.v. *)
From Coq Require Import ZArith List Bool Lia ZifyBool.
From PushModel Require Import Base.Sx Base.F32 Base.F32Flocq.
Import ListNotations.
Open Scope Z_scope.

Definition txt (neg : bool) (n : Z) : list Z :=
  (if neg then [45] else []) ++ dec_digits (n / 1000) ++ 46 :: pad_to 3 (dec_digits (n mod 1000)).

Definition dstep (a c : Z) : Z := a * 10 + (c - 48).
Definition all_digits (l : list Z) : Prop := Forall (fun c => is_digit c = true) l.

Lemma take_digits_all : forall l rest acc cnt,
  all_digits l ->
  take_digits (l ++ rest) acc cnt = take_digits rest (fold_left dstep l acc) (cnt + Z.of_nat (length l)).
Proof.
  induction l as [|c l IH]; intros rest acc cnt H.
  - cbn [app fold_left length]. f_equal. cbn. lia.
  - inversion H as [|? ? Hc Hl]; subst.
    cbn [app take_digits fold_left]. rewrite Hc. rewrite IH by exact Hl.
    unfold dstep at 2. f_equal. cbn [length]. lia.
Qed.

(* value of a little-endian digit list *)
Fixpoint val_le (l : list Z) : Z :=
  match l with [] => 0 | c :: r => val_le r * 10 + (c - 48) end.

Lemma fold_left_rev_val : forall l acc,
  fold_left dstep (rev l) acc = acc * 10 ^ Z.of_nat (length l) + val_le l.
Proof.
  induction l as [|c l IH]; intros acc.
  - cbn [rev fold_left length val_le]. change (Z.of_nat 0) with 0. rewrite Z.pow_0_r. lia.
  - cbn [rev val_le]. rewrite fold_left_app. cbn [fold_left]. rewrite IH. unfold dstep.
    replace (Z.of_nat (length (c :: l))) with (Z.succ (Z.of_nat (length l))) by (cbn [length]; lia).
    rewrite Z.pow_succ_r by lia. ring.
Qed.

Lemma digits_rev_digits : forall fuel n, 0 <= n -> all_digits (digits_rev fuel n).
Proof.
  induction fuel as [|f IH]; intros n Hn; cbn [digits_rev].
  - constructor.
  - destruct (n <? 10) eqn:E.
    + constructor; [|constructor]. unfold is_digit. lia.
    + constructor.
      * unfold is_digit. pose proof (Z.mod_pos_bound n 10). lia.
      * apply IH. apply Z.div_pos; lia.
Qed.

Lemma digits_rev_val : forall fuel n, 0 <= n < 2 ^ Z.of_nat fuel -> val_le (digits_rev fuel n) = n.
Proof.
  induction fuel as [|f IH]; intros n Hn.
  - change (Z.of_nat 0) with 0 in Hn. rewrite Z.pow_0_r in Hn.
    assert (n = 0) by lia. subst. reflexivity.
  - cbn [digits_rev]. destruct (n <? 10) eqn:E.
    + cbn [val_le]. lia.
    + cbn [val_le]. rewrite IH.
      * pose proof (Z.div_mod n 10). lia.
      * replace (Z.of_nat (S f)) with (Z.succ (Z.of_nat f)) in Hn by lia.
        rewrite Z.pow_succ_r in Hn by lia.
        split. { apply Z.div_pos; lia. }
        apply Z.div_lt_upper_bound; lia.
Qed.

Lemma digits_rev_nonempty : forall fuel n, digits_rev (S fuel) n <> [].
Proof. intros. cbn [digits_rev]. destruct (n <? 10); discriminate. Qed.

Lemma dec_digits_fuel : forall n, 0 <= n -> n < 2 ^ Z.of_nat (S (Z.to_nat (Z.log2 (Z.max n 1)))).
Proof.
  intros n Hn.
  replace (Z.of_nat (S (Z.to_nat (Z.log2 (Z.max n 1))))) with (Z.succ (Z.log2 (Z.max n 1))).
  2:{ pose proof (Z.log2_nonneg (Z.max n 1)). lia. }
  pose proof (Z.log2_spec (Z.max n 1)). lia.
Qed.

Lemma dec_digits_all : forall n, 0 <= n -> all_digits (dec_digits n).
Proof.
  intros. unfold dec_digits, all_digits. apply Forall_rev. apply digits_rev_digits. exact H.
Qed.

Lemma dec_digits_nonempty : forall n, dec_digits n <> [].
Proof.
  intros n H. unfold dec_digits in H.
  apply (f_equal (@rev Z)) in H. rewrite rev_involutive in H. cbn [rev] in H.
  exact (digits_rev_nonempty _ _ H).
Qed.

Lemma dec_digits_fold : forall n acc, 0 <= n ->
  fold_left dstep (dec_digits n) acc = acc * 10 ^ Z.of_nat (length (dec_digits n)) + n.
Proof.
  intros n acc Hn. unfold dec_digits. rewrite fold_left_rev_val. rewrite rev_length.
  rewrite digits_rev_val. reflexivity.
  split; [exact Hn|]. apply dec_digits_fuel. exact Hn.
Qed.

(* the three fractional digits *)
Definition pad3_ok (fp : Z) : bool :=
  zlist_eqb (pad_to 3 (dec_digits fp)) [48 + fp / 100; 48 + (fp / 10) mod 10; 48 + fp mod 10].

Lemma zlist_eqb_eq : forall a b, zlist_eqb a b = true -> a = b.
Proof.
  induction a as [|x a IH]; destruct b as [|y b]; cbn [zlist_eqb]; intros H; try discriminate; try reflexivity.
  apply andb_true_iff in H. destruct H as [H1 H2]. f_equal. lia. apply IH. exact H2.
Qed.

Lemma pad3_table : forallb pad3_ok (map Z.of_nat (seq 0 1000)) = true.
Proof. vm_compute. reflexivity. Qed.

Lemma pad3_spec : forall fp, 0 <= fp < 1000 ->
  pad_to 3 (dec_digits fp) = [48 + fp / 100; 48 + (fp / 10) mod 10; 48 + fp mod 10].
Proof.
  intros fp H. apply zlist_eqb_eq.
  pose proof pad3_table as T. rewrite forallb_forall in T. apply T.
  apply in_map_iff. exists (Z.to_nat fp). split. lia. apply in_seq. lia.
Qed.

Lemma take_digits_pad3 : forall fp ip, 0 <= fp < 1000 ->
  take_digits (pad_to 3 (dec_digits fp)) ip 0 = (ip * 1000 + fp, 3, []).
Proof.
  intros fp ip H. rewrite (pad3_spec fp H).
  assert (H1 : 0 <= fp / 100 <= 9).
  { split. apply Z.div_pos; lia. apply Z.lt_succ_r. apply Z.div_lt_upper_bound; lia. }
  assert (H2 : 0 <= (fp / 10) mod 10 <= 9) by (pose proof (Z.mod_pos_bound (fp / 10) 10); lia).
  assert (H3 : 0 <= fp mod 10 <= 9) by (pose proof (Z.mod_pos_bound fp 10); lia).
  cbn [take_digits].
  replace (is_digit (48 + fp / 100)) with true by (unfold is_digit; lia).
  replace (is_digit (48 + (fp / 10) mod 10)) with true by (unfold is_digit; lia).
  replace (is_digit (48 + fp mod 10)) with true by (unfold is_digit; lia).
  f_equal. f_equal.
  pose proof (Z.div_mod fp 10). pose proof (Z.div_mod (fp / 10) 10).
  replace (fp / 10 / 10) with (fp / 100) in * by (rewrite Z.div_div by lia; reflexivity).
  lia.
Qed.

(* ---- the parser on a sign-less body ---- *)
Definition parse_body (neg : bool) (body : list Z) : option Z :=
  match body with
  | [] => None
  | _ =>
    let lw := map lower body in
    if zlist_eqb lw [105; 110; 102] || zlist_eqb lw [105; 110; 102; 105; 110; 105; 116; 121] then Some (inf_bits neg)
    else if zlist_eqb lw [110; 97; 110] then Some nan_bits
    else
      let '(ip, ic, r1) := take_digits body 0 0 in
      let '(fp, fc, r2) := match r1 with
                           | 46 :: r => take_digits r ip 0
                           | _ => (ip, 0, r1)
                           end in
      if (ic + fc) =? 0 then None
      else
        match r2 with
        | [] => Some (dec_to_f32 neg fp (- fc))
        | c :: r3 =>
            if (c =? 101) || (c =? 69) then
              let '(eneg, r4) := match r3 with
                                 | 45 :: r => (true, r)
                                 | 43 :: r => (false, r)
                                 | _ => (false, r3)
                                 end in
              let '(ev, ec, r5) := take_digits r4 0 0 in
              match r5 with
              | [] => if ec =? 0 then None
                      else
                        let ev := Z.min ev 100000 in
                        Some (dec_to_f32 neg fp ((if eneg then - ev else ev) - fc))
              | _ => None
              end
            else None
        end
  end.

Lemma fl_parse_minus : forall r, fl_parse (45 :: r) = parse_body true r.
Proof. reflexivity. Qed.

Lemma digit_cases : forall c, is_digit c = true ->
  c = 48 \/ c = 49 \/ c = 50 \/ c = 51 \/ c = 52 \/ c = 53 \/ c = 54 \/ c = 55 \/ c = 56 \/ c = 57.
Proof. unfold is_digit. intros. lia. Qed.

Lemma fl_parse_digit : forall c r, is_digit c = true -> fl_parse (c :: r) = parse_body false (c :: r).
Proof.
  intros c r H. destruct (digit_cases c H) as [E|[E|[E|[E|[E|[E|[E|[E|[E|E]]]]]]]]]; subst c; reflexivity.
Qed.

Lemma parse_body_num : forall neg ip fp, 0 <= ip -> 0 <= fp < 1000 ->
  parse_body neg (dec_digits ip ++ 46 :: pad_to 3 (dec_digits fp)) = Some (dec_to_f32 neg (ip * 1000 + fp) (-3)).
Proof.
  intros neg ip fp Hip Hfp.
  pose proof (dec_digits_all ip Hip) as Hall.
  pose proof (dec_digits_fold ip 0 Hip) as Hfold.
  pose proof (dec_digits_nonempty ip) as Hne.
  destruct (dec_digits ip) as [|c tl] eqn:E; [congruence|].
  assert (Hc : is_digit c = true) by (inversion Hall; assumption).
  unfold parse_body. cbn [app].
  cbn [map zlist_eqb].
  assert (Hl : lower c = c) by (unfold lower, is_digit in *; destruct ((65 <=? c) && (c <=? 90)) eqn:X; lia).
  rewrite Hl.
  replace (c =? 105) with false by (unfold is_digit in Hc; lia).
  replace (c =? 110) with false by (unfold is_digit in Hc; lia).
  cbn [andb orb].
  change (c :: tl ++ 46 :: pad_to 3 (dec_digits fp)) with ((c :: tl) ++ 46 :: pad_to 3 (dec_digits fp)).
  rewrite take_digits_all by exact Hall.
  rewrite Hfold.
  cbn [take_digits]. change (is_digit 46) with false. cbv iota.
  rewrite take_digits_pad3 by exact Hfp.
  replace (0 + Z.of_nat (length (c :: tl)) + 3 =? 0) with false by (cbn [length]; lia).
  rewrite Z.mul_0_l, Z.add_0_l. reflexivity.
Qed.

Theorem parse_txt : forall neg n, 0 <= n -> fl_parse (txt neg n) = Some (dec_to_f32 neg n (-3)).
Proof.
  intros neg n Hn. unfold txt.
  assert (Hip : 0 <= n / 1000) by (apply Z.div_pos; lia).
  assert (Hfp : 0 <= n mod 1000 < 1000) by (apply Z.mod_pos_bound; lia).
  assert (En : n / 1000 * 1000 + n mod 1000 = n) by (pose proof (Z.div_mod n 1000); lia).
  destruct neg; cbn [app].
  - rewrite fl_parse_minus. rewrite parse_body_num by assumption. rewrite En. reflexivity.
  - pose proof (dec_digits_all _ Hip) as Hall. pose proof (dec_digits_nonempty (n / 1000)) as Hne.
    pose proof (parse_body_num false _ _ Hip Hfp) as P.
    destruct (dec_digits (n / 1000)) as [|c tl] eqn:E; [congruence|].
    cbn [app] in *. rewrite fl_parse_digit by (inversion Hall; assumption).
    rewrite P, En. reflexivity.
Qed.

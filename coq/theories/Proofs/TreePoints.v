(* C08: points, sizes and Item::traverse. *)
From Coq Require Import ZArith List Bool Lia ZifyBool.
From PushModel Require Import Base.Sx Base.Machine Base.ListOps Base.F32 Model.Item Spec.TreeSpec.
Import ListNotations.
Open Scope Z_scope.

(* ---- unfolding equations ---- *)
Lemma points_list_cons c r : points_list (c :: r) = points c ++ points_list r.
Proof. reflexivity. Qed.
Lemma points_unfold t :
  points t = t :: match t with IList l => points_list l | _ => [] end.
Proof. destruct t; reflexivity. Qed.
Lemma sizes_cons c r : sizes (c :: r) = size c + sizes r.
Proof. reflexivity. Qed.
Lemma sizes_nil : sizes [] = 0.
Proof. reflexivity. Qed.
Lemma sizes_app a b : sizes (a ++ b) = sizes a + sizes b.
Proof. induction a as [|c r IH]; [reflexivity|]. rewrite <- app_comm_cons, !sizes_cons, IH. lia. Qed.

Lemma usub_ok p a b : b <= a -> usub p a b = Ok (a - b).
Proof. intro H. unfold usub. destruct (b <=? a) eqn:E; [reflexivity|lia]. Qed.

(* ---- sizes ---- *)
Lemma size_pos t : 0 < size t.
Proof.
  induction t as [l IH|n|v|n] using item_ind'; try (cbn [size]; lia).
  rewrite size_list.
  assert (0 <= sizes l).
  { induction IH as [|c r Hc _ IHr]; [rewrite sizes_nil; lia|rewrite sizes_cons; lia]. }
  lia.
Qed.
Lemma sizes_nonneg l : 0 <= sizes l.
Proof.
  induction l as [|c r IH]; [rewrite sizes_nil; lia|].
  rewrite sizes_cons. pose proof (size_pos c). lia.
Qed.

Lemma psize_size t : psize t = size t.
Proof.
  unfold psize.
  induction t as [l IH|n|v|n] using item_ind'; try reflexivity.
  rewrite points_unfold, size_list. cbn [length].
  assert (Z.of_nat (length (points_list l)) = sizes l).
  { induction IH as [|c r Hc _ IHr]; [reflexivity|].
    rewrite points_list_cons, app_length, sizes_cons. lia. }
  lia.
Qed.
Lemma length_points t : length (points t) = Z.to_nat (size t).
Proof. pose proof (psize_size t). unfold psize in *. lia. Qed.
Lemma length_points_list l : Z.of_nat (length (points_list l)) = sizes l.
Proof.
  induction l as [|c r IH]; [reflexivity|].
  rewrite points_list_cons, app_length, sizes_cons.
  pose proof (psize_size c). unfold psize in *. lia.
Qed.

Theorem size_is_length_points t : size t = Z.of_nat (length (points t)).
Proof. symmetry. apply psize_size. Qed.

(* ---- nth_point, recursively ---- *)
Definition nthl (l : list item) (k : Z) : item := nth (Z.to_nat k) (points_list l) dflt.

Lemma nthl_nil k : nthl [] k = dflt.
Proof. unfold nthl. cbn [points_list]. destruct (Z.to_nat k); reflexivity. Qed.

Lemma nthl_cons c r k : 0 <= k ->
  nthl (c :: r) k = if k <? size c then nth_point c k else nthl r (k - size c).
Proof.
  intro Hk. unfold nthl, nth_point. rewrite points_list_cons.
  pose proof (length_points c) as L. pose proof (size_pos c).
  destruct (k <? size c) eqn:E.
  - apply app_nth1. lia.
  - rewrite app_nth2 by lia. f_equal. lia.
Qed.

Lemma nth_point_unfold t k : 0 <= k ->
  nth_point t k = if k =? 0 then t
                  else match t with IList l => nthl l (k - 1) | _ => dflt end.
Proof.
  intro Hk. unfold nth_point. rewrite points_unfold.
  destruct (k =? 0) eqn:E.
  - replace k with 0 by lia. reflexivity.
  - replace (Z.to_nat k) with (S (Z.to_nat (k - 1))) by lia. cbn [nth].
    destruct t; try (destruct (Z.to_nat (k - 1)); reflexivity). reflexivity.
Qed.
Lemma nth_point_0 t : nth_point t 0 = t.
Proof. rewrite nth_point_unfold by lia. reflexivity. Qed.

Lemma nth_point_in t k : 0 <= k < size t -> In (nth_point t k) (points t).
Proof. intro H. unfold nth_point. apply nth_In. rewrite length_points. lia. Qed.

Lemma in_points_nth t q : In q (points t) -> exists k, 0 <= k < size t /\ nth_point t k = q.
Proof.
  intro H. destruct (In_nth _ _ dflt H) as [n [Hn E]].
  exists (Z.of_nat n). rewrite length_points in Hn. split; [lia|].
  unfold nth_point. rewrite Nat2Z.id. exact E.
Qed.

(* ---- Item::traverse ---- *)
Lemma traverse_list_cons p c r d :
  traverse_list p (c :: r) d =
  let! d1 := usub p d 1 in
  let! nx := traverse p c d1 in
  match nx with Found y => Ok (Found y) | Rem nd => traverse_list p r nd end.
Proof. reflexivity. Qed.

Definition traverse_ok (p : profile) (t : item) : Prop :=
  forall d, 0 <= d ->
    (d < size t -> traverse p t d = Ok (Found (nth_point t d))) /\
    (size t <= d -> traverse p t d = Ok (Rem (d - size t + 1))).

Lemma traverse_list_spec p l : Forall (traverse_ok p) l ->
  forall d, 1 <= d ->
    (d - 1 < sizes l -> traverse_list p l d = Ok (Found (nthl l (d - 1)))) /\
    (sizes l <= d - 1 -> traverse_list p l d = Ok (Rem (d - sizes l))).
Proof.
  induction 1 as [|c r Hc _ IH]; intros d Hd.
  - rewrite sizes_nil. split; [lia|]. intros _. cbn [traverse_list]. f_equal. f_equal. lia.
  - rewrite traverse_list_cons, usub_ok by lia. cbn [rbind].
    rewrite sizes_cons, nthl_cons by lia.
    pose proof (size_pos c) as Sc. pose proof (sizes_nonneg r) as Sr.
    destruct (Hc (d - 1) ltac:(lia)) as [H1 H2].
    destruct (d - 1 <? size c) eqn:E.
    + rewrite H1 by lia. cbn [rbind]. split; [reflexivity|lia].
    + rewrite H2 by lia. cbn [rbind].
      destruct (IH (d - 1 - size c + 1) ltac:(lia)) as [I1 I2].
      split; intro.
      * rewrite I1 by lia. do 3 f_equal. lia.
      * rewrite I2 by lia. do 2 f_equal. lia.
Qed.

Theorem traverse_spec p t : traverse_ok p t.
Proof.
  induction t as [l IH|n|v|n] using item_ind'; intros d Hd;
    rewrite traverse_unfold, nth_point_unfold by lia.
  - pose proof (sizes_nonneg l). rewrite size_list.
    destruct (d =? 0) eqn:E; [split; [reflexivity|lia]|].
    destruct (traverse_list_spec p l IH d ltac:(lia)) as [H1 H2].
    split; intro.
    + apply H1. lia.
    + rewrite H2 by lia. do 2 f_equal. lia.
  - cbn [size]. destruct (d =? 0) eqn:E; split; try reflexivity; try lia. intros _. do 2 f_equal. lia.
  - cbn [size]. destruct (d =? 0) eqn:E; split; try reflexivity; try lia. intros _. do 2 f_equal. lia.
  - cbn [size]. destruct (d =? 0) eqn:E; split; try reflexivity; try lia. intros _. do 2 f_equal. lia.
Qed.

(* never the Panic of a usize underflow, in either build profile *)
Theorem traverse_no_underflow p t d : 0 <= d -> traverse p t d <> Panic.
Proof.
  intros Hd E. destruct (traverse_spec p t d Hd) as [H1 H2].
  destruct (Z.lt_ge_cases d (size t)); [rewrite H1 in E by lia|rewrite H2 in E by lia]; discriminate.
Qed.

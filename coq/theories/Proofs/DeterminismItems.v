(* C14: the item operations return (rearrangements of) sub-items of their inputs:
   no operation of Item builds an instruction item or an identifier that was not
   in its inputs.  Stated over [iok qi qn t] := "nothing selected by qi / qn occurs in t". *)
From Coq Require Import ZArith String List Bool Lia ZifyBool.
From PushModel Require Import Base.Sx Base.Machine Base.ListOps Base.F32 Model.Item Model.GraphT Model.State
  Model.InstrBase Spec.DetSpec Proofs.TreeInsert Proofs.TreeSearch.
Import ListNotations.
Open Scope Z_scope.

Section Items.
  Variables qi qn : str -> bool.

  Definition iok (t : item) : Prop := occurs qi qn t = false.
  Definition lok (l : list item) : Prop := Forall iok l.

  Lemma occurs_list_unfold l : occurs qi qn (IList l) = occurs_list qi qn l.
  Proof. cbn [occurs]. unfold occurs_list. induction l as [|x r IH]; cbn [existsb]; [reflexivity|now rewrite IH]. Qed.

  Lemma occurs_list_false l : occurs_list qi qn l = false <-> lok l.
  Proof.
    unfold occurs_list, lok. induction l as [|x r IH]; cbn [existsb].
    - split; [constructor|reflexivity].
    - rewrite orb_false_iff, IH. split.
      + intros [A B]. now constructor.
      + intros H. inversion H; subst. now split.
  Qed.

  Lemma iok_list l : iok (IList l) <-> lok l.
  Proof. unfold iok. rewrite occurs_list_unfold. apply occurs_list_false. Qed.
  Lemma iok_list_of l : lok l -> iok (IList l).
  Proof. apply iok_list. Qed.
  Lemma iok_list_to l : iok (IList l) -> lok l.
  Proof. apply iok_list. Qed.
  Lemma iok_lit v : iok (ILit v).
  Proof. reflexivity. Qed.
  Lemma iok_instr n : qi n = false -> iok (IInstr n).
  Proof. intros H. exact H. Qed.
  Lemma iok_name n : qn n = false -> iok (IName n).
  Proof. intros H. exact H. Qed.
  Lemma iok_name_inv n : iok (IName n) -> qn n = false.
  Proof. intros H. exact H. Qed.
  Lemma iok_nil : iok (IList []).
  Proof. reflexivity. Qed.

  (* ---- list surgery keeps a Forall ---- *)
  Section ForallOps.
    Context {A : Type} (P : A -> Prop).
    Lemma Forall_upd l : forall k x, Forall P l -> P x -> Forall P (upd l k x).
    Proof.
      induction l as [|y r IH]; intros [|k] x H Hx; cbn [upd]; try assumption; inversion H; subst; constructor; auto.
    Qed.
    Lemma Forall_del l : forall k, Forall P l -> Forall P (del l k).
    Proof.
      induction l as [|y r IH]; intros [|k] H; cbn [del]; try assumption; inversion H; subst; try assumption.
      constructor; auto.
    Qed.
    Lemma Forall_ins : forall k l x, Forall P l -> P x -> Forall P (ins l k x).
    Proof.
      induction k as [|k IH]; intros [|y r] x H Hx; cbn [ins]; try (constructor; assumption).
      inversion H; subst. constructor; auto.
    Qed.
    Lemma Forall_nth_error l : forall k x, Forall P l -> nth_error l k = Some x -> P x.
    Proof.
      induction l as [|y r IH]; intros [|k] x H E; cbn in E; try discriminate; inversion H; subst.
      - now inversion E; subst.
      - eauto.
    Qed.
    Lemma Forall_l_yank l i : Forall P l -> Forall P (l_yank l i).
    Proof.
      intros H. unfold l_yank. destruct (_ && _); [|assumption].
      destruct (nth_error l (Z.to_nat i)) eqn:E; [|assumption].
      constructor; [eapply Forall_nth_error; eauto|now apply Forall_del].
    Qed.
    Lemma Forall_l_shove l i : Forall P l -> Forall P (l_shove l i).
    Proof.
      intros H. unfold l_shove. destruct (_ && _); [|assumption].
      destruct l as [|x r]; [assumption|]. inversion H; subst. now apply Forall_ins.
    Qed.
    Lemma Forall_l_copy l i x : Forall P l -> l_copy l i = Some x -> P x.
    Proof.
      unfold l_copy. intros H E. destruct (_ && _); [|discriminate]. eapply Forall_nth_error; eauto.
    Qed.
    Lemma Forall_l_remove l i : Forall P l -> Forall P (l_remove l i).
    Proof. intros H. unfold l_remove. destruct (_ && _); [now apply Forall_del|assumption]. Qed.
    Lemma Forall_l_replace l i x : Forall P l -> P x -> Forall P (l_replace l i x).
    Proof. intros H Hx. unfold l_replace. destruct (_ && _); [now apply Forall_upd|assumption]. Qed.
    Lemma Forall_tl l : Forall P l -> Forall P (tl l).
    Proof. intros H. destruct l; [assumption|now inversion H]. Qed.
    Lemma Forall_skipn l : forall k, Forall P l -> Forall P (skipn k l).
    Proof. induction l as [|y r IH]; intros [|k] H; cbn [skipn]; try assumption. inversion H; subst. auto. Qed.
    Lemma Forall_firstn l : forall k, Forall P l -> Forall P (firstn k l).
    Proof.
      induction l as [|y r IH]; intros [|k] H; cbn [firstn]; try constructor; inversion H; subst; auto.
    Qed.
  End ForallOps.

  Lemma lok_replace_child l i x : lok l -> iok x -> lok (replace_child l i x).
  Proof. intros H Hx. unfold replace_child. destruct (_ && _); [now apply Forall_upd|assumption]. Qed.

  (* ---- bindings ---- *)
  Definition bok (b : list (str * item)) : Prop := lok (map snd b).
  Lemma bok_get b n t : bok b -> bind_get b n = Some t -> iok t.
  Proof.
    unfold bok, lok. induction b as [|[k v] r IH]; cbn [bind_get map snd]; [discriminate|].
    intros H E. inversion H; subst. destruct (str_eqb n k); [now inversion E; subst|auto].
  Qed.
  Lemma bok_set b n t : bok b -> iok t -> bok (bind_set b n t).
  Proof.
    unfold bok, lok. induction b as [|[k v] r IH]; cbn [bind_set map snd]; intros H Ht.
    - now constructor.
    - inversion H; subst. destruct (str_eqb n k); cbn [map snd]; constructor; auto.
  Qed.

  (* ---- Item::traverse ---- *)
  Lemma traverse_ok p t : forall d y, iok t -> traverse p t d = Ok (Found y) -> iok y.
  Proof.
    induction t as [l IH|n|v|n] using item_ind'; intros d y Ht E; rewrite traverse_unfold in E;
      destruct (d =? 0); try (inversion E; subst; assumption); try discriminate.
    apply iok_list_to in Ht. revert d E.
    induction l as [|c r IHl]; intros d E; cbn [traverse_list] in E; [discriminate|].
    inversion IH; subst. inversion Ht; subst.
    destruct (usub p d 1) as [d1| |]; cbn [rbind] in E; try discriminate.
    destruct (traverse p c d1) as [[z|nd]| |] eqn:Ec; cbn [rbind] in E; try discriminate.
    - inversion E; subst. eauto.
    - eapply IHl; eauto.
  Qed.

  (* ---- Item::insert ---- *)
  Lemma insert_ok pinned p x (Hx : iok x) t : forall d r, iok t -> insert_g pinned p t x d = Ok r -> iok (fst r).
  Proof.
    induction t as [l IH|n|v|n] using item_ind'; intros d r Ht E; rewrite insert_g_unfold in E;
      destruct (d =? 0); try (inversion E; subst; assumption).
    apply iok_list_to in Ht.
    destruct (usub p d 1) as [ridx| |]; cbn [rbind] in E; try discriminate.
    destruct (insert_list pinned p x ridx [] l 0 d) as [r0| |] eqn:El; cbn [rbind] in E; try discriminate.
    inversion E; subst. cbn [fst]. apply iok_list_of.
    assert (G : forall l pre i d r0, Forall (fun t => forall d r, iok t -> insert_g pinned p t x d = Ok r -> iok (fst r)) l ->
                lok l -> lok pre -> insert_list pinned p x ridx pre l i d = Ok r0 -> lok (fst r0)).
    { clear -Hx. induction l as [|c rest IHl]; intros pre i d r0 IH Hl Hp E.
      - cbn [insert_list] in E. inversion E; subst. cbn [fst]. now apply Forall_rev.
      - rewrite insert_list_cons in E. inversion IH; subst. inversion Hl; subst.
        destruct (usub p d 1) as [d1| |]; cbn [rbind] in E; try discriminate.
        destruct (insert_g pinned p c x d1) as [nx| |] eqn:Ec; cbn [rbind] in E; try discriminate.
        assert (Hc : iok (fst nx)) by eauto.
        destruct (snd nx) as [here|nd].
        + inversion E; subst. cbn [fst].
          assert (L : lok (rev pre ++ fst nx :: rest)).
          { apply Forall_app; split; [now apply Forall_rev|now constructor]. }
          destruct here; [now apply lok_replace_child|exact L].
        + apply (IHl (fst nx :: pre) (i + 1) nd r0); [assumption|assumption|now constructor|exact E]. }
    apply (G l [] 0 d r0); [assumption|assumption|constructor|exact El].
  Qed.

  Section WithFloat.
    Context {FO : FloatOps}.

    (* ---- Item::substitute ---- *)
    Lemma substitute_ok pat sub (Hs : iok sub) t : iok t -> iok (fst (substitute t pat sub)).
    Proof.
      induction t as [l IH|n|v|n] using item_ind'; intros Ht; rewrite substitute_unfold;
        destruct (equals _ pat); cbn [fst]; try assumption.
      apply iok_list_to in Ht. apply iok_list_of.
      induction l as [|c r IHl]; [constructor|].
      rewrite substitute_list_cons. inversion IH; subst. inversion Ht; subst.
      destruct (substitute c pat sub) as [c' m] eqn:Ec.
      constructor; [|apply IHl; assumption].
      destruct m; [assumption|]. exact (H1 H3).
    Qed.

    Lemma substitute_ok_eq pat sub t x m : substitute t pat sub = (x, m) -> iok sub -> iok t -> iok x.
    Proof. intros E Hs Ht. replace x with (fst (substitute t pat sub)) by now rewrite E. now apply substitute_ok. Qed.

    (* ---- Item::container ---- *)
    Lemma container_item_ok pat t : forall y, iok t -> container t pat = COk y -> iok y.
    Proof.
      induction t as [l IH|n|v|n] using item_ind'; intros y Ht E; rewrite container_unfold in E;
        destruct (equals _ pat); try discriminate.
      pose proof Ht as Hself. apply iok_list_to in Ht.
      remember (IList l) as self eqn:Es. clear Es.
      induction l as [|c r IHl]; [discriminate|].
      rewrite container_list_cons in E. inversion IH; subst. inversion Ht; subst.
      destruct (container c pat) as [z|[|]] eqn:Ec.
      - inversion E; subst. eauto.
      - now inversion E; subst.
      - eauto.
    Qed.
  End WithFloat.
End Items.

(* ---- [occurs] is monotone in the selection and has witnesses ---- *)
Section Mono.
  Variables q1 q2 qn : str -> bool.
  Hypothesis Hq : forall m, q1 m = true -> q2 m = true.

  Lemma occurs_mono t : occurs q1 qn t = true -> occurs q2 qn t = true.
  Proof.
    induction t as [l IH|n|v|n] using item_ind'; try (cbn [occurs]; auto; fail).
    rewrite !occurs_list_unfold. unfold occurs_list. induction l as [|c r IHl]; cbn [existsb]; [auto|].
    inversion IH; subst. rewrite !orb_true_iff. intros [H|H]; [left|right]; auto.
  Qed.
  Lemma occurs_list_mono l : occurs_list q1 qn l = true -> occurs_list q2 qn l = true.
  Proof.
    unfold occurs_list. rewrite !existsb_exists. intros (x & Hx & H). exists x. split; [assumption|now apply occurs_mono].
  Qed.
  Lemma occurs_state_mono s : occurs_state q1 qn s = true -> occurs_state q2 qn s = true.
  Proof.
    unfold occurs_state. rewrite !orb_true_iff. intros [[[H|H]|H]|H]; auto using occurs_list_mono.
  Qed.
End Mono.

Section Witness.
  Variable q : str -> bool.
  Definition is_name (m : str) : str -> bool := fun k => str_eqb k m.

  Lemma occurs_witness t : occurs q nowhere t = true -> exists m, q m = true /\ occurs (is_name m) nowhere t = true.
  Proof.
    induction t as [l IH|n|v|n] using item_ind'; try (cbn [occurs nowhere]; discriminate).
    - rewrite occurs_list_unfold. unfold occurs_list. induction l as [|c r IHl]; cbn [existsb]; [discriminate|].
      inversion IH; subst. rewrite orb_true_iff. intros [H|H].
      + destruct (H1 H) as (m & Hm & Ho). exists m. split; [assumption|].
        rewrite occurs_list_unfold. unfold occurs_list. cbn [existsb]. now rewrite Ho.
      + destruct (IHl H2 H) as (m & Hm & Ho). exists m. split; [assumption|].
        rewrite occurs_list_unfold in *. unfold occurs_list in *. cbn [existsb]. rewrite Ho. apply orb_true_r.
    - cbn [occurs]. intros H. exists n. split; [assumption|]. unfold is_name.
      clear. induction n as [|x r IH]; cbn [str_eqb]; [reflexivity|]. now rewrite Z.eqb_refl, IH.
  Qed.
  Lemma occurs_list_witness l : occurs_list q nowhere l = true ->
    exists m, q m = true /\ occurs_list (is_name m) nowhere l = true.
  Proof.
    unfold occurs_list. rewrite existsb_exists. intros (x & Hx & H).
    destruct (occurs_witness _ H) as (m & Hm & Ho). exists m. split; [assumption|].
    apply existsb_exists. eauto.
  Qed.
  Lemma occurs_state_witness s : occurs_state q nowhere s = true ->
    exists m, q m = true /\ occurs_state (is_name m) nowhere s = true.
  Proof.
    unfold occurs_state. rewrite !orb_true_iff. intros [[[H|H]|H]|H].
    - destruct (occurs_list_witness _ H) as (m & Hm & Ho). exists m. rewrite Ho. auto.
    - destruct (occurs_list_witness _ H) as (m & Hm & Ho). exists m. rewrite Ho, orb_true_r. auto.
    - destruct (occurs_list_witness _ H) as (m & Hm & Ho). exists m. rewrite Ho, !orb_true_r. auto.
    - exfalso. clear -H. induction (st_name s); cbn in H; [discriminate|auto].
  Qed.
End Witness.

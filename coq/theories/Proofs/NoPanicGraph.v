(* C01: the GRAPH family.  [wf_graph g]: every node state is an i32. *)
From Coq Require Import ZArith String List Bool Lia ZifyBool.
From PushModel Require Import Base.Sx Base.Machine Base.ListOps Base.F32 Model.Item Model.GraphT Model.State
  Model.InstrBase Model.ICode Model.Registry Model.IGraph Model.RegistryGraph
  Proofs.GraphFacts Proofs.NoPanicBase Proofs.NoPanicItem Proofs.NoPanicTac Proofs.NoPanicListIo.
Import ListNotations.
Open Scope Z_scope.

Lemma wf_g_new : wf_graph g_new.
Proof. constructor. Qed.
Lemma wf_g_clone g : wf_graph g -> wf_graph (g_clone g).
Proof. auto. Qed.
Lemma wf_g_add_node g id st : wf_graph g -> wf_z st -> wf_graph (g_add_node g id st).
Proof. intros W H. unfold wf_graph, g_add_node. cbn [g_nodes]. apply forall_insert; assumption. Qed.
Lemma wf_g_set_state g id st : wf_graph g -> wf_z st -> wf_graph (g_set_state g id st).
Proof.
  intros W H. unfold g_set_state. destruct (zm_get id (g_nodes g)); [|assumption].
  unfold wf_graph. cbn [g_nodes]. apply forall_insert; assumption.
Qed.
Lemma wf_g_add_edge g o d w : wf_graph g -> wf_graph (g_add_edge g o d w).
Proof.
  intros W. unfold g_add_edge. destruct (_ && _); [|assumption].
  destruct (zm_get d (g_edges g)); [destruct (e_contains o l)|]; assumption.
Qed.
Lemma wf_g_set_weight g o d w : wf_graph g -> wf_graph (g_set_weight g o d w).
Proof. intros W. unfold g_set_weight. destruct (zm_get d (g_edges g)); assumption. Qed.
Lemma wf_g_get_state g id st : wf_graph g -> g_get_state g id = Some st -> wf_z st.
Proof.
  intros W E. apply zm_get_in in E. unfold wf_graph in W. rewrite Forall_forall in W. exact (W _ E).
Qed.
Lemma wf_switch_loop ids : forall g sw on off, wf_graph g -> wf_z on -> wf_z off -> wf_graph (switch_loop g ids sw on off).
Proof.
  induction ids as [|id r IH]; intros g sw on off W Hon Hoff; cbn [switch_loop]; [assumption|].
  destruct sw as [|b sw]; [assumption|]. apply IH; try assumption.
  apply wf_g_set_state; [assumption|destruct b; assumption].
Qed.
Lemma wf_g_filter g sts : Forall wf_z (g_filter g sts).
Proof. unfold g_filter. apply Forall_map. apply Forall_forall. intros. apply wf_usize_as_i32. Qed.
Lemma wf_map_usize l : Forall wf_z (map usize_as_i32 l).
Proof. apply Forall_map. apply Forall_forall. intros. apply wf_usize_as_i32. Qed.

Lemma gs_get_P {P : graph -> Prop} l i g : Forall P l -> gs_get l i = Some g -> P g.
Proof.
  intros F. unfold gs_get. destruct (_ && _); [|discriminate]. intros E.
  eapply Forall_nth_error; [|exact E]. now apply Forall_rev.
Qed.
Lemma Forall_gs_set_top {P : graph -> Prop} l g : Forall P l -> P g -> Forall P (gs_set_top l g).
Proof. intros F H. unfold gs_set_top. destruct l; [constructor|]. apply Forall_snoc; [|exact H]. now apply Forall_removelast. Qed.
Lemma Forall_gs_push {P : graph -> Prop} l g : Forall P l -> P g -> Forall P (gs_push l g).
Proof. intros. unfold gs_push. now apply Forall_bq_push. Qed.

#[export] Hint Resolve wf_g_new wf_g_clone wf_g_add_node wf_g_set_state wf_g_add_edge wf_g_set_weight wf_switch_loop
  wf_g_filter wf_map_usize Forall_gs_set_top Forall_gs_push : wf.
#[export] Hint Extern 2 (wf_graph ?g) =>
  match goal with H : gs_get _ _ = Some g |- _ => eapply gs_get_P; [|exact H] end : wf.
#[export] Hint Extern 2 (wf_z ?x) =>
  match goal with H : g_get_state _ _ = Some x |- _ => eapply wf_g_get_state; [|exact H] end : wf.

Ltac unf_graph :=
  cbv beta iota zeta delta [graph_add graph_dup graph_node_add graph_node_get_state graph_node_history
      graph_node_set_state graph_node_neighbors graph_node_predecessors graph_node_successors graph_query
      graph_node_state_switch graph_nodes graph_nodes_history graph_stack_depth graph_print graph_print_diff
      graph_edge_add graph_edge_history graph_edge_history_gen graph_edge_get_weight graph_edge_set_weight
      g_add_node_w counter_fetch_add set_top w_next_node w_tape];
  unf_state.

Section Graph.
  Context {FO : FloatOps}.
  Lemma graph_safe : table_safe tbl_graph.
  Proof.
    unfold table_safe, tbl_graph, all_ginstr. cbn [map ginstr_name ginstr_sem]. table_walk unf_graph.
  Qed.
End Graph.

(* C01: [wf_item] is closed under the tree functions of Item (sub-points,
   replacement, container, substitution, find) and the three CODE instructions
   whose bodies contain possible panics (EXTRACT, NTH, INSERT) are safe. *)
From Coq Require Import ZArith String List Bool Lia ZifyBool.
From PushModel Require Import Base.Sx Base.Machine Base.ListOps Base.F32 Model.Item Model.GraphT Model.State
  Model.InstrBase Spec.TreeSpec Spec.ListSpec Proofs.TreePoints Proofs.TreeInsert Proofs.TreeSearch
  Proofs.ListProofs Proofs.NoPanicBase.
Import ListNotations.
Open Scope Z_scope.

Lemma wf_item_list l : wf_item (IList l) <-> Forall wf_item l.
Proof. unfold wf_item. cbn [wf_itemb]. rewrite forallb_forall, Forall_forall. reflexivity. Qed.
Lemma wf_item_int z : wf_item (ILit (LInt z)) <-> wf_z z.
Proof. reflexivity. Qed.
Lemma wf_item_ivec v : wf_item (ILit (LIntVec v)) <-> Forall wf_z v.
Proof. unfold wf_item, wf_z. cbn [wf_itemb wf_litb]. rewrite forallb_forall, Forall_forall. reflexivity. Qed.
Lemma wf_item_index c d : wf_item (ILit (LIndex c d)) <-> wf_idx (c, d).
Proof. unfold wf_item, wf_idx. cbn [wf_itemb wf_litb fst snd]. rewrite andb_true_iff. reflexivity. Qed.
Lemma wf_item_instr n : wf_item (IInstr n). Proof. reflexivity. Qed.
Lemma wf_item_name n : wf_item (IName n). Proof. reflexivity. Qed.
Lemma wf_item_bool b : wf_item (ILit (LBool b)). Proof. reflexivity. Qed.
Lemma wf_item_float f : wf_item (ILit (LFloat f)). Proof. reflexivity. Qed.
Lemma wf_item_bvec v : wf_item (ILit (LBoolVec v)). Proof. reflexivity. Qed.
Lemma wf_item_fvec v : wf_item (ILit (LFloatVec v)). Proof. reflexivity. Qed.
Lemma wf_item_nil : wf_item (IList []). Proof. reflexivity. Qed.

(* every point of a wf tree is wf *)
Lemma points_wf t : wf_item t -> Forall wf_item (points t).
Proof.
  induction t as [l IH|n|v|n] using item_ind'; intros W; rewrite points_unfold; constructor; auto.
  apply wf_item_list in W. clear - IH W.
  induction IH as [|c r Hc _ IHr]; [constructor|].
  apply Forall_cons_iff in W as [Wc Wr]. rewrite points_list_cons. apply Forall_app; auto.
Qed.
Lemma point_wf t q : wf_item t -> In q (points t) -> wf_item q.
Proof. intros W. pose proof (points_wf t W) as H. rewrite Forall_forall in H. apply H. Qed.

Lemma traverse_found_wf p t d y : 0 <= d -> wf_item t -> traverse p t d = Ok (Found y) -> wf_item y.
Proof.
  intros Hd W E. destruct (traverse_spec p t d Hd) as [H1 H2].
  destruct (Z.lt_ge_cases d (size t)) as [L|G].
  - rewrite (H1 L) in E. inversion E; subst. eapply point_wf; eauto. apply nth_point_in. lia.
  - rewrite (H2 G) in E. discriminate.
Qed.

(* replacement *)
Lemma replace_point_wf x t : wf_item x -> forall i, wf_item t -> wf_item (replace_point t i x).
Proof.
  intros Wx. induction t as [l IH|n|v|n] using item_ind'; intros i W; rewrite replace_point_unfold;
    destruct (i =? 0); auto.
  apply wf_item_list. apply wf_item_list in W. generalize (i - 1). clear i.
  induction IH as [|c r Hc _ IHr]; intros k; [rewrite replace_in_list_nil; constructor|].
  apply Forall_cons_iff in W as [Wc Wr]. rewrite replace_in_list_cons.
  destruct (k <? size c); constructor; auto.
Qed.

Lemma insert_ok p t x i : 0 <= i -> exists t' r, insert p t x i = Ok (t', r) /\ (wf_item t -> wf_item x -> wf_item t').
Proof.
  intros Hi. destruct (Z.eq_dec i 0) as [->|N].
  - rewrite insert_root_untouched. eauto.
  - destruct (Z.lt_ge_cases i (size t)) as [L|G].
    + rewrite insert_spec by lia. do 2 eexists. split; [reflexivity|]. intros. now apply replace_point_wf.
    + rewrite insert_out_of_range_noop by lia. eauto.
Qed.

Section WithFloats.
  Context {FO : FloatOps}.

  Lemma container_wf t pat c : wf_item t -> container t pat = COk c -> wf_item c.
  Proof.
    intros W E. destruct (container_ok_props t pat c E) as (k & j & pre & post & _ & _ & _ & _ & _ & I & _).
    eapply point_wf; eauto.
  Qed.

  Lemma subst_all_wf pat sub t : wf_item sub -> wf_item t -> wf_item (subst_all t pat sub).
  Proof.
    intros Ws. induction t as [l IH|n|v|n] using item_ind'; intros W; rewrite subst_all_unfold; auto.
    apply wf_item_list. apply wf_item_list in W.
    induction IH as [|c r Hc _ IHr]; [constructor|].
    apply Forall_cons_iff in W as [Wc Wr]. rewrite subst_list_cons.
    constructor; auto. destruct (equals c pat); auto.
  Qed.
  Lemma substitute_wf t pat sub : wf_item sub -> wf_item t -> wf_item (fst (substitute t pat sub)).
  Proof. intros. rewrite subst_spec. cbn [fst]. now apply subst_all_wf. Qed.

  Lemma find_wf pat n t : wf_item t -> forall cnt y, fst (find t pat cnt n) = Some y -> wf_item y.
  Proof.
    induction t as [l IH|nm|v|nm] using item_ind'; intros W cnt y; rewrite find_unfold.
    2-4: destruct (shallow_eq pat _ && (cnt =? n)); cbn [fst]; intros E; inversion E; subst; assumption.
    destruct (shallow_eq pat (IList l) && (cnt =? n)); cbn [fst]; [intros E; inversion E; subst; assumption|].
    apply wf_item_list in W. generalize (if shallow_eq pat (IList l) then cnt + 1 else cnt). clear cnt.
    induction IH as [|c r Hc _ IHr]; intros k; cbn [find_list fst]; [discriminate|].
    apply Forall_cons_iff in W as [Wc Wr].
    destruct (find c pat k n) as [[z|] k'] eqn:F.
    - cbn [fst]. intros E; inversion E; subst. apply (Hc Wc k). now rewrite F.
    - apply IHr; assumption.
  Qed.
End WithFloats.

(* C10 (guards): an instruction whose guard on the operand VALUES fails (Spec/Footprint.v,
   gd_all) only pops, like one that lacks an operand. *)
From Coq Require Import ZArith String List Bool Lia ZifyBool.
From PushModel Require Import Base.Sx Base.Machine Base.ListOps Base.F32 Model.Item Model.GraphT Model.State
  Model.InstrBase Model.IScalar Model.ICode Model.Registry Model.Interp
  Model.IVector Model.RegistryVec Model.IList Model.IIo Model.RegistryListIo Model.IGraph Model.RegistryGraph
  Model.INeighbor Model.RegistryNbr Model.RandomGen Model.IRand Model.RegistryRand Model.RegistryAll Spec.Footprint Proofs.Frame Proofs.FrameProofs Proofs.FrameProofs2 Proofs.Unfired.
Import ListNotations.
Open Scope string_scope.

Definition guarded_ok (g : state -> bool) (f : sem) : Prop :=
  forall p w s w' s', g s = true -> f p w s = Ok (w', s') -> only_pops s s' /\ w' = w.

(* ---- FLOATVECTOR./ : a zero divisor over the second vector makes the element-wise loop give up ---- *)
Section ZeroOver.
  Context {FO : FloatOps}.
  Let dv := (fun x t : f32 => if feq t f_zero then None else Some (fdiv x t)).
  Open Scope Z_scope.

  Lemma ov_loop_inv_true off size top : forall i acc, snd (ov_loop dv off size top i acc true) = true.
  Proof.
    induction top as [|t r IH]; intros i acc; cbn [ov_loop]; [reflexivity|].
    destruct (offset_index i off size) as [j|]; [|apply IH].
    destruct (nth_error acc (Z.to_nat j)) as [x|]; [|apply IH].
    destruct (dv x t); apply IH.
  Qed.

  Lemma zero_over_loop off top : forall i acc inv,
    zero_over top i off (zlen acc) = true -> snd (ov_loop dv off (zlen acc) top i acc inv) = true.
  Proof.
    induction top as [|t r IH]; intros i acc inv Z0; cbn [zero_over] in Z0; [discriminate Z0|].
    cbn [ov_loop]. unfold offset_index.
    destruct ((0 <=? i + off) && (i + off <? zlen acc)) eqn:R.
    - assert (exists x, nth_error acc (Z.to_nat (i + off)) = Some x) as [x Ex].
      { destruct (nth_error acc (Z.to_nat (i + off))) as [x|] eqn:E; [now exists x|].
        apply nth_error_None in E. unfold zlen in R. lia. }
      rewrite Ex. unfold dv at 1. destruct (feq t f_zero) eqn:F.
      + apply ov_loop_inv_true.
      + cbn [andb orb] in Z0.
        assert (L : zlen (upd acc (Z.to_nat (i + off)) (fdiv x t)) = zlen acc) by (unfold zlen; now rewrite upd_length).
        rewrite <- L. apply IH. rewrite L. exact Z0.
    - apply IH. apply orb_prop in Z0 as [Z0|Z0]; [|exact Z0].
      exfalso. rewrite <- andb_assoc in Z0. apply andb_prop in Z0 as [_ Z0]. congruence.
  Qed.

  Lemma zero_over_run second top off :
    zero_over top 0 off (zlen second) = true -> overlay_run dv second top off = None.
  Proof.
    intros Z0. unfold overlay_run. pose proof (zero_over_loop off top 0 second false Z0) as S.
    destruct (ov_loop dv off (zlen second) top 0 second false) as [v inv]. cbn [snd] in S. now rewrite S.
  Qed.
End ZeroOver.

(* bring the guard hypothesis into the shape of the tests in the bodies *)
Ltac prep_guard G :=
  repeat match type of G with
         | negb _ = true => apply negb_true_iff in G
         | (_ || _) = true => apply orb_prop in G; destruct G as [G|G]
         | context [match ?x with _ => _ end] => destruct x eqn:?; try discriminate G
         end.
Ltac use_guard G H :=
  try rewrite G in H;
  repeat match goal with E : bind_get _ _ = _ |- _ => rewrite E in H; clear E end;
  try (rewrite (zero_over_run _ _ _ G) in H);
  cbv beta iota delta [negb orb andb] in H; cbn [fst snd] in H.

Ltac guard_body unf :=
  let p := fresh "p" in let w := fresh "w" in let s := fresh "s" in
  let w' := fresh "w'" in let s' := fresh "s'" in let G := fresh "G" in let H := fresh "H" in
  intros p w s w' s' G H;
  destruct s as [sb sc se sf sx si sn sbv sfv siv sin sout sg sbd scfg sq ss];
  cbv beta iota delta [top_int second_int top_float
    st_bool st_code st_exec st_float st_index st_int st_name st_bvec st_fvec st_ivec st_input st_output
    st_graph st_bind st_cfg st_quote st_send] in G;
  prep_guard G;
  unf H; unfold_state H; cbv beta iota delta [f_nonzero] in H;
  use_guard G H;
  unfired_finish H.

Ltac guard_tac unf :=
  let g := fresh "g" in let Hg := fresh "Hg" in
  intros g Hg;
  cbv beta iota delta [gd_lookup gd_all fst String.eqb Ascii.eqb Bool.eqb append] in Hg;
  first [ discriminate Hg | inversion Hg; subst g; clear Hg; guard_body unf ].

Section Guards.
  Context {FO : FloatOps}.

  Definition table_guarded (tbl : list (string * sem)) : Prop :=
    Forall (fun e => forall g, gd_lookup gd_all (fst e) = Some g -> guarded_ok g (snd e)) tbl.

  Ltac gtable_tac tac :=
    repeat (apply Forall_cons; [cbn [fst snd]; tac|]); apply Forall_nil.

  Ltac unfold_listio2 H :=
    cbv beta iota zeta delta [list_add list_set load_items] in H; unfold_listio H.

  Lemma core_guarded : table_guarded tbl_core.
  Proof.
    unfold table_guarded, tbl_core, tbl_boolean, tbl_integer, tbl_float, tbl_name, tbl_code, tbl_exec, tbl_index, stack_family.
    cbn [app].
    Time gtable_tac ltac:(guard_tac unfold_core).
  Time Qed.
  Lemma bvec_guarded : table_guarded tbl_bvec.
  Proof. unfold table_guarded, tbl_bvec. open_vec_table. Time gtable_tac ltac:(guard_tac unfold_vec). Time Qed.
  Lemma ivec_guarded : table_guarded tbl_ivec.
  Proof. unfold table_guarded, tbl_ivec. open_vec_table. Time gtable_tac ltac:(guard_tac unfold_vec). Time Qed.
  Lemma fvec_guarded : table_guarded tbl_fvec.
  Proof. unfold table_guarded, tbl_fvec. open_vec_table. Time gtable_tac ltac:(guard_tac unfold_vec). Time Qed.
  Lemma list_guarded : table_guarded tbl_list.
  Proof. unfold table_guarded, tbl_list. Time gtable_tac ltac:(guard_tac unfold_listio2). Time Qed.
  Lemma io_guarded : table_guarded tbl_io.
  Proof. unfold table_guarded, tbl_io. Time gtable_tac ltac:(guard_tac unfold_listio2). Time Qed.
  Lemma graph_guarded : table_guarded tbl_graph.
  Proof.
    unfold table_guarded, tbl_graph, all_ginstr. cbn [map ginstr_name ginstr_sem].
    Time gtable_tac ltac:(guard_tac unfold_graph).
  Time Qed.

  Lemma nbr_guarded : table_guarded tbl_nbr.
  Proof. unfold table_guarded, tbl_nbr. Time gtable_tac ltac:(guard_tac unfold_nbr). Time Qed.
  (* the vector generators refuse their parameters before any draw: the world comes back as it was *)
  Ltac unfold_rand2 H :=
    unfold_rand H;
    cbv beta iota zeta delta [random_bool_vector_g random_int_vector random_float_vector] in H.
  Lemma rand_guarded instrs : table_guarded (tbl_rand instrs).
  Proof. unfold table_guarded, tbl_rand. Time gtable_tac ltac:(guard_tac unfold_rand2). Time Qed.

  Lemma all_guarded : table_guarded full_table.
  Proof.
    unfold table_guarded, full_table, base_table.
    apply Forall_app; split; [|exact (rand_guarded _)].
    apply Forall_app; split; [exact core_guarded|].
    apply Forall_app; split; [exact bvec_guarded|].
    apply Forall_app; split; [exact ivec_guarded|].
    apply Forall_app; split; [exact fvec_guarded|].
    apply Forall_app; split; [exact list_guarded|].
    apply Forall_app; split; [exact io_guarded|].
    apply Forall_app; split; [exact graph_guarded|].
    exact nbr_guarded.
  Qed.

  Theorem guard_only_pops n f : In (n, f) full_table ->
    forall p w s w' s', guard_fails n s = true -> f p w s = Ok (w', s') -> only_pops s s' /\ w' = w.
  Proof.
    intros Hin p w s w' s' G E.
    pose proof all_guarded as AG. unfold table_guarded in AG. rewrite Forall_forall in AG.
    specialize (AG _ Hin). cbn [fst snd] in AG. unfold guard_fails in G.
    destruct (gd_lookup gd_all n) as [g|]; [|discriminate G].
    exact (AG g eq_refl p w s w' s' G E).
  Qed.

  (* the two halves together: an instruction that does not apply only pops *)
  Theorem unfired_all_only_pops n f : In (n, f) full_table ->
    forall p w s w' s', unfired n s = true -> f p w s = Ok (w', s') -> only_pops s s' /\ w' = w.
  Proof.
    intros Hin p w s w' s' U E. unfold unfired in U. apply orb_prop in U as [L|G].
    - exact (unfired_only_pops n f Hin p w s w' s' L E).
    - exact (guard_only_pops n f Hin p w s w' s' G E).
  Qed.
End Guards.

(* C11 scalar law for the executable float instance [flocq_ops tab]:
   a float printed with 3 decimals, parsed, and printed again gives the same
   text.  For every bit pattern (NaN, infinities, both zeros, subnormals).

   Shape of the argument for a finite non-zero x = +-a * 2^e printed as n/1000:
     e >= 0: n/1000 is x itself; the parser's conversion returns x.
     e <  0: the parser returns the float Y nearest to the sticky approximation
             of n/1000; [fmt3_int] (Proofs/Fmt3LawInt.v) shows Y prints as n
             again or is x. *)
From Coq Require Import ZArith List Bool Lia ZifyBool.
From Flocq Require Import IEEE754.BinarySingleNaN IEEE754.Binary IEEE754.Bits Core.
From PushModel Require Import Base.Sx Base.F32 Base.F32Flocq
  Proofs.Fmt3LawStr Proofs.Fmt3LawInt Proofs.Fmt3LawBits Proofs.Fmt3LawRound.
Import ListNotations.
Open Scope Z_scope.

Lemma nn_nonneg : forall a e, 0 < a -> 0 <= nn a e.
Proof.
  intros a e Ha. unfold nn. destruct (0 <=? e) eqn:C.
  - assert (0 < 2 ^ e) by (apply Z.pow_pos_nonneg; lia). nia.
  - apply rhe_bound; [lia|]. apply Z.pow_pos_nonneg; lia.
Qed.

Lemma dec_zero : forall s, fl_fmt 3 (dec_to_f32 s 0 (-3)) = txt s 0.
Proof. intros s. destruct s; vm_compute; reflexivity. Qed.

Lemma dec_to_f32_m3 : forall sg n, 0 < n ->
  dec_to_f32 sg n (-3) =
  b32_canon (norm32 (if sg then - (2 * (n * 2 ^ Z.max 0 (49 - Z.log2 n) / 1000) +
                                   (if (n * 2 ^ Z.max 0 (49 - Z.log2 n)) mod 1000 =? 0 then 0 else 1))
                     else 2 * (n * 2 ^ Z.max 0 (49 - Z.log2 n) / 1000) +
                          (if (n * 2 ^ Z.max 0 (49 - Z.log2 n)) mod 1000 =? 0 then 0 else 1))
                    (- Z.max 0 (49 - Z.log2 n) - 1) sg).
Proof.
  intros sg n Hn. unfold dec_to_f32.
  replace (n =? 0) with false by lia.
  change (Z.max (-400) (Z.min 400 (-3))) with (-3).
  change (0 <=? -3) with false. cbv iota.
  change (- -3) with 3. change (10 ^ 3) with 1000. change (Z.log2 1000) with 9.
  cbv zeta.
  replace (9 - Z.log2 n + 40) with (49 - Z.log2 n) by ring.
  reflexivity.
Qed.

Lemma roundtrip_finite : forall sg m e (Hb : SpecFloat.bounded 24 128 m e = true),
  fl_fmt 3 (dec_to_f32 sg (nn (Z.pos m) e) (-3)) = txt sg (nn (Z.pos m) e).
Proof.
  intros sg m e Hb.
  destruct (bounded_parts m e Hb) as [Ha [He1 He2]].
  pose proof (nn_nonneg (Z.pos m) e ltac:(lia)) as Hn0.
  destruct (Z.eq_dec (nn (Z.pos m) e) 0) as [Z0|NZ]; [rewrite Z0; apply dec_zero|].
  assert (Hpos : 0 < nn (Z.pos m) e) by lia.
  rewrite (dec_to_f32_m3 sg _ Hpos), fl_fmt3_canon.
  remember (nn (Z.pos m) e) as n eqn:En.
  remember (Z.max 0 (49 - Z.log2 n)) as s eqn:Es.
  remember (n * 2 ^ s / 1000) as q eqn:Eq.
  remember (if (n * 2 ^ s) mod 1000 =? 0 then 0 else 1) as st eqn:Est.
  destruct (scale_big n s Hpos Es) as [Hs0 _].
  assert (Hst : 0 <= st <= 1) by (subst st; destruct (_ =? 0); lia).
  pose proof (qprime_big n s q st Hpos Es Eq ltac:(lia)) as Hbig.
  assert (Hs49 : s <= 49) by (pose proof (Z.log2_nonneg n); lia).
  unfold nn in En. destruct (0 <=? e) eqn:Ce.
  - (* the value is an integer: printed exactly, parsed back exactly *)
    assert (P : 0 < 2 ^ e) by (apply Z.pow_pos_nonneg; lia).
    assert (Ens : n * 2 ^ s = Z.pos m * 2 ^ e * 2 ^ s * 1000) by (rewrite En; ring).
    assert (Eq' : q = Z.pos m * 2 ^ e * 2 ^ s) by (rewrite Eq, Ens; apply Z.div_mul; lia).
    assert (Est' : st = 0).
    { rewrite Est, Ens, Z.mod_mul by lia. reflexivity. }
    rewrite (norm32_exact sg m e Hb _ (- s - 1)).
    + cbn [fmt_b]. unfold nn. rewrite Ce, <- En. reflexivity.
    + lia.
    + rewrite Est', Eq'. replace (e - (- s - 1)) with (e + s + 1) by ring.
      rewrite !Z.pow_add_r by lia. change (2 ^ 1) with 2.
      destruct sg; cbn [SpecFloat.cond_Zopp]; [change (Z.neg m) with (- Z.pos m)|]; ring.
  - (* a fraction: the nearest float to the printed decimal prints the same *)
    assert (He : e < 0) by lia.
    destruct (es_bound (Z.pos m) e n s Ha He En Hpos Es) as [Hes Hn35].
    pose proof (qprime_small n s q st ltac:(lia) Hs0 Eq ltac:(lia)) as Hsmall.
    destruct (norm32_pos sg (2 * q + st) (- s - 1) 40 (s + 27)) as [my [ey [Hy [N [V Hey]]]]];
      [lia|exact Hbig|lia|lia|exact Hsmall|lia|].
    pose proof (rne_nearest_int (2 * q + st) (- s - 1) (Z.pos my) ey m e V Hb ltac:(lia) ltac:(lia)) as Near.
    replace (ey - (- s - 1)) with (ey + s + 1) in Near by ring.
    replace (e - (- s - 1)) with (e + s + 1) in Near by ring.
    destruct (fmt3_int (Z.pos m) e (Z.pos my) ey n s q st Ha He En Hpos Es Eq Est ltac:(lia) ltac:(lia) Near)
      as [Same|Same].
    + rewrite N. cbn [fmt_b]. rewrite Same. reflexivity.
    + rewrite N. rewrite (finite_eq sg my ey Hy m e Hb (- s - 1)).
      * cbn [fmt_b]. unfold nn. rewrite Ce, <- En. reflexivity.
      * lia.
      * lia.
      * replace (ey - (- s - 1)) with (ey + s + 1) by ring.
        replace (e - (- s - 1)) with (e + s + 1) by ring. exact Same.
Qed.

Lemma fmt_b_stable : forall f : binary32,
  exists y, fl_parse (fmt_b f) = Some y /\ fl_fmt 3 y = fmt_b f.
Proof.
  intros f. destruct f as [s|s|s pl Hpl|s m e Hb]; cbn [fmt_b].
  - exists (dec_to_f32 s 0 (-3)). split; [apply parse_txt; lia|apply dec_zero].
  - destruct s; eexists; (split; [vm_compute; reflexivity|vm_compute; reflexivity]).
  - eexists; (split; [vm_compute; reflexivity|vm_compute; reflexivity]).
  - destruct (bounded_parts m e Hb) as [Ha _].
    exists (dec_to_f32 s (nn (Z.pos m) e) (-3)). split.
    + apply parse_txt. apply nn_nonneg. lia.
    + apply roundtrip_finite. exact Hb.
Qed.

Theorem fmt3_stable : forall tab x, let FO := flocq_ops tab in
  exists y, fparse (ffmt 3 x) = Some y /\ ffmt 3 y = ffmt 3 x.
Proof.
  intros tab x FO. unfold FO. cbn [fparse ffmt flocq_ops].
  change (3 <? 0) with false. cbv iota.
  rewrite (fl_fmt3_b x). apply fmt_b_stable.
Qed.

(* the form used as a premise by C11 *)
Corollary fmt3_law : forall tab, let FO := flocq_ops tab in
  forall x y, fparse (ffmt 3 x) = Some y -> ffmt 3 y = ffmt 3 x.
Proof.
  intros tab FO x y H. destruct (fmt3_stable tab x) as [y' [P E]].
  fold FO in P, E. rewrite H in P. injection P as ->. exact E.
Qed.

(* C15: the instructions whose work is controlled by the magnitude of an operand, and the
   multiplying instructions: witnesses inside the model. *)
From Coq Require Import ZArith String List Bool Lia ZifyBool.
From PushModel Require Import Base.Sx Base.Machine Base.ListOps Base.F32 Model.Item Model.GraphT Model.State
  Model.InstrBase Model.IScalar Model.ICode Model.IVector Model.IGraph Model.Registry Model.RandomGen Model.IRand
  Model.Cost Proofs.CostBase Proofs.CostItem Proofs.CostVec.
Import ListNotations.
Close Scope string_scope.
Open Scope Z_scope.

(* a state holding nothing but INTEGERs / FLOATs *)
Definition int_state (l : list Z) : state := set_int empty_state l.
Definition sine_state (a x phi : f32) (n : Z) : state := set_float (int_state [n]) [a; x; phi].

Lemma weight_int_state l : weight (int_state l) = zlen l.
Proof.
  unfold weight, int_state.
  cbn [st_bool st_code st_exec st_float st_index st_int st_name st_bvec st_fvec st_ivec
       st_input st_output st_graph st_bind set_int empty_state].
  repeat rewrite wsum_nil. rewrite wsum_cnt. lia.
Qed.

Section Refute.
  Context {FO : FloatOps}.

  (* ---- T.ONES / T.ZEROS: vec![x; n] ---- *)
  Section Fill.
    Context {A : Type}.
    Variable get : state -> list (list A).
    Variable set : state -> list (list A) -> state.
    Variable x : A.
    Hypothesis get_set_int : forall s l, get (set_int s l) = get s.
    Hypothesis get_empty : get empty_state = [].
    Hypothesis weight_set : forall s v, weight (set s v) = weight s - wsum vw (get s) + wsum vw v.

    Lemma fill_grows n : 0 < n ->
      exists s', vec_fill get set x (int_state [n]) = Ok s' /\ weight (int_state [n]) = 1 /\ weight s' = 1 + n.
    Proof.
      intro Hn. unfold vec_fill, int_state. cbn [st_int set_int empty_state].
      replace (0 <? n) with true by lia. eexists. split; [reflexivity|]. split.
      - apply (weight_int_state [n]).
      - rewrite weight_set, !get_set_int, get_empty. change (set_int (set_int empty_state [n]) []) with (int_state []).
        rewrite weight_int_state, !wsum_cons, !wsum_nil. unfold vw. rewrite zlen_repeat'. change (zlen (@nil Z)) with 0. lia.
    Qed.
  End Fill.

  Ltac fill_side :=
    first [ intros s l; destruct s; reflexivity | reflexivity
          | intros s v; destruct s as [xb xc xe xf xix xi xn xbv xfv xiv xinp xoutp xg xbd xcfg xq xsd];
            unfold weight;
            cbn [st_bool st_code st_exec st_float st_index st_int st_name st_bvec st_fvec st_ivec st_input st_output
                 st_graph st_bind set_bvec set_ivec set_fvec]; lia ].

  Lemma bvec_fill_grows x n : 0 < n ->
    exists s', vec_fill st_bvec set_bvec x (int_state [n]) = Ok s' /\ weight (int_state [n]) = 1 /\ weight s' = 1 + n.
  Proof. apply fill_grows; fill_side. Qed.
  Lemma ivec_fill_grows x n : 0 < n ->
    exists s', vec_fill st_ivec set_ivec x (int_state [n]) = Ok s' /\ weight (int_state [n]) = 1 /\ weight s' = 1 + n.
  Proof. apply fill_grows; fill_side. Qed.
  Lemma fvec_fill_grows x n : 0 < n ->
    exists s', vec_fill st_fvec set_fvec x (int_state [n]) = Ok s' /\ weight (int_state [n]) = 1 /\ weight s' = 1 + n.
  Proof. apply fill_grows; fill_side. Qed.

  Lemma cost_fill n : 0 < n -> c_fill (int_state [n]) = 1 + n.
  Proof. intro H. unfold c_fill, top_int, int_state. cbn [st_int set_int]. lia. Qed.

  (* ---- FLOATVECTOR.SINE with a positive length ---- *)
  Lemma sine_loop_len a x phi k : forall i v, sine_loop a x phi k i = Ok v -> zlen v = Z.of_nat k.
  Proof.
    induction k as [|k IH]; intros i v; cbn [sine_loop].
    - intro H; inversion H; subst. reflexivity.
    - destruct (libm1 _ _) as [y| |]; cbn [rbind]; try discriminate.
      destruct (sine_loop a x phi k (i + 1)) as [r| |] eqn:E; cbn [rbind]; try discriminate.
      intro H; inversion H; subst. rewrite zlen_cons', (IH _ _ E). lia.
  Qed.
  Ltac wcalc :=
    unfold weight, sine_state, int_state;
    cbn [st_bool st_code st_exec st_float st_index st_int st_name st_bvec st_fvec st_ivec st_input st_output
         st_graph st_bind set_int set_float set_fvec set_ivec set_bvec set_code set_graph empty_state];
    repeat rewrite wsum_cons; repeat rewrite wsum_nil; unfold cnt, vw.

  Lemma sine_grows a x phi n s' : 0 <= n ->
    fvec_sine (sine_state a x phi n) = Ok s' ->
    weight (sine_state a x phi n) = 4 /\ weight s' = 1 + n /\ c_sine (sine_state a x phi n) = 1 + n.
  Proof.
    intros Hn H. unfold fvec_sine, sine_state, int_state in H.
    cbn [st_float st_int set_float set_int empty_state st_fvec] in H.
    replace (0 <=? n) with true in H by lia.
    destruct (sine_loop a x phi (Z.to_nat n) 0) as [v| |] eqn:E; cbn [rbind] in H; try discriminate.
    inversion H; subst. apply sine_loop_len in E.
    split; [wcalc; lia|]. split; [wcalc; lia|].
    unfold c_sine, sine_state, int_state. cbn [st_float st_int set_float set_int]. lia.
  Qed.
  (* the code of the pinned tree: a negative length is 2^64 - |n| iterations *)
  Lemma sine_pinned_negative a x phi : c_sine_pinned (sine_state a x phi (-1)) = two64.
  Proof. reflexivity. Qed.

  (* ---- INTVECTOR.RAND: with_capacity(size) + size draws (BOOLVECTOR / FLOATVECTOR.RAND alike) ---- *)
  Lemma draw_ints_len k : forall t lo hi r, draw_ints k t lo hi = Ok r -> zlen (fst r) = Z.of_nat k.
  Proof.
    induction k as [|k IH]; intros t lo hi r; cbn [draw_ints].
    - intro H; inversion H; subst. reflexivity.
    - destruct (draw_range t lo hi) as [d| |]; cbn [rbind]; try discriminate.
      destruct (draw_ints k (snd d) lo hi) as [rs| |] eqn:E; cbn [rbind]; try discriminate.
      intro H; inversion H; subst. cbn [fst]. rewrite zlen_cons', (IH _ _ _ _ E). lia.
  Qed.
  Lemma draw_ints_ok k : forall t lo hi, lo < hi -> exists r, draw_ints k t lo hi = Ok r.
  Proof.
    induction k as [|k IH]; intros t lo hi H; cbn [draw_ints]; [eauto|].
    unfold draw_range. replace (lo <? hi) with true by lia. cbn [rbind snd].
    destruct (IH (snd (next t)) lo hi H) as (rs & ->). cbn [rbind]. eauto.
  Qed.
  Lemma int_vector_rand_grows p w n : 0 <= n ->
    exists w' s', int_vector_rand p w (int_state [n; 1; 0]) = Ok (w', s') /\
                  weight (int_state [n; 1; 0]) = 3 /\ weight s' = 1 + n.
  Proof.
    intro Hn. unfold int_vector_rand, int_state. cbn [st_int set_int empty_state st_ivec].
    unfold random_int_vector. replace ((n <? 0) || (1 <=? 0)) with false by lia.
    destruct (draw_ints_ok (Z.to_nat n) (w_tape w) 0 1 ltac:(lia)) as (r & E). rewrite E. cbn [rbind fst snd].
    apply draw_ints_len in E. eexists _, _. split; [reflexivity|]. split; wcalc; lia.
  Qed.
  Lemma cost_rand_vec n l : 0 <= n -> c_rand_vec (int_state (n :: l)) = 1 + 2 * n.
  Proof. intro H. unfold c_rand_vec, top_int, int_state. cbn [st_int set_int]. lia. Qed.

  (* ---- LIST.NEIGHBOR*: ntotal x min(ndim, 64) work from the operands ---- *)
  Lemma cost_neighbor n : 1 <= n -> c_neighbor 0 (int_state [n; 0; 1]) = 2 + 2 * n.
  Proof.
    intro H. unfold c_neighbor, int_state. cbn [st_int set_int skipn].
    replace (Z.max n 0) with n by lia. replace (Z.max (Z.min n 1) 0) with 1 by lia. lia.
  Qed.

  (* ---- CODE.RAND as pinned: |i32::MIN| ---- *)
  Lemma code_rand_pinned_min : c_code_rand_pinned (int_state [min32]) = two64 - 2147483648.
  Proof. reflexivity. Qed.
  (* repaired: bounded by the configured limit *)
  Lemma code_rand_bounded s : c_code_rand s <= 1 + limits s.
  Proof. unfold c_code_rand, limits. destruct (st_int s); lia. Qed.

  (* ---- the multiplying instructions ---- *)
  (* CODE.SUBST: 40 occurrences of A in the target, each replaced by a 41-cell list *)
  Definition subst_state : state :=
    set_code empty_state [ IList (repeat (IName [65]) 40); IList (repeat (ILit (LInt 0)) 40); IName [65] ].
  Lemma subst_multiplies : exists s',
    code_subst subst_state = Ok s' /\ weight subst_state = 124 /\ weight s' = 1641 /\
    2 * weight subst_state + 64 < weight s'.
  Proof. eexists. split; [vm_compute; reflexivity|]. vm_compute. repeat split; reflexivity. Qed.

  (* GRAPH.NODES: 20 nodes in state 1 against a state vector of twenty 1s: 400 ids *)
  Definition nodes_graph : graph := mkGraph (map (fun k => (Z.of_nat k, 1)) (seq 1 20)) [].
  Definition nodes_state : state := set_ivec (set_graph empty_state [nodes_graph]) [repeat 1 20].
  Lemma nodes_multiplies : exists s',
    graph_nodes nodes_state = Ok s' /\ weight nodes_state = 42 /\ weight s' = 422 /\
    2 * weight nodes_state + 64 < weight s'.
  Proof. eexists. split; [vm_compute; reflexivity|]. vm_compute. repeat split; reflexivity. Qed.
End Refute.

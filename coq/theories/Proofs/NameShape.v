(* C12 / C11: a NEW name drawn by the random code generator is read back by the
   parser as that name.

   names::Generator::default() yields two or more runs of ASCII lower-case
   letters joined by '-' ("quiet-river").  Model/RandomGen.v treats a drawn
   name as an opaque non-empty string; here the lexical consequence of the
   actual shape is proved: a string that
     - starts with a lower-case ASCII letter,
     - consists of lower-case ASCII letters and '-' only,
     - contains at least one '-'
   ([name_shape]) is one whitespace-free token that is not a typed vector
   literal, not a parenthesis, not a registered instruction (every registered
   name starts with an upper-case letter), not an i32, not an f32 (for the
   executable float instance [flocq_ops tab], whose parser is the dec2flt
   grammar: optional sign, inf / infinity / nan in any case, or digits), and
   neither TRUE nor FALSE; so [classify] makes it the name it is and
   [rt_atom] / [printable] (Spec/ParseSpec.v) hold of it.

   The float part is about [fl_parse] of Base/F32Flocq.v, hence this file
   imports the Flocq instance (like Proofs/Fmt3Law*.v). *)
From Coq Require Import ZArith List Bool Lia ZifyBool.
From PushModel Require Import Base.Sx Base.Machine Base.F32 Base.F32Flocq Model.Item Model.State Model.Parser
  Model.Interp Model.RegistryAll Spec.ParseSpec
  Proofs.NameProofs Proofs.ParseLex Proofs.ParseTree Proofs.ParseRules Proofs.ParsePrint Proofs.Fmt3Law Suites.SParser.
Import ListNotations.
Open Scope Z_scope.

(* ---- the shape ---- *)
Definition is_lc (c : Z) : bool := (97 <=? c) && (c <=? 122).
Definition is_uc (c : Z) : bool := (65 <=? c) && (c <=? 90).
Definition lc_first (s : str) : bool := match s with c :: _ => is_lc c | [] => false end.
Definition uc_first (s : str) : bool := match s with c :: _ => is_uc c | [] => false end.
Definition name_char (c : Z) : bool := is_lc c || (c =? 45).
Definition name_shape (nm : str) : bool :=
  lc_first nm && forallb name_char nm && existsb (fun c => c =? 45) nm.

Lemma name_shape_inv nm : name_shape nm = true ->
  lc_first nm = true /\ forallb name_char nm = true /\ In 45 nm.
Proof.
  unfold name_shape. intro H. apply andb_true_iff in H. destruct H as [H H3].
  apply andb_true_iff in H. destruct H as [H1 H2].
  split; [exact H1|split; [exact H2|]].
  apply existsb_exists in H3. destruct H3 as [c [Hin Hc]].
  assert (E : c = 45) by lia. subst c. exact Hin.
Qed.

Lemma lc_first_cons s : lc_first s = true -> exists c r, s = c :: r /\ 97 <= c <= 122.
Proof.
  destruct s as [|c r]; cbn [lc_first]; [discriminate|].
  unfold is_lc. intro H. exists c, r. split; [reflexivity|lia].
Qed.

(* ---- the leading-sign match of parse_i32 / fl_parse ---- *)
Lemma sign_match_other {A} (c : Z) (x y z : A) :
  c <> 45 -> c <> 43 ->
  match c with
  | 45 => x
  | 43 => y
  | _ => z
  end = z.
Proof.
  intros H45 H43. destruct c as [|q|q]; try reflexivity.
  repeat (destruct q as [q|q|]; try reflexivity); congruence.
Qed.

Lemma dot_match_other {A} (c : Z) (x z : A) :
  c <> 46 -> match c with 46 => x | _ => z end = z.
Proof.
  intros H46. destruct c as [|q|q]; try reflexivity.
  repeat (destruct q as [q|q|]; try reflexivity); congruence.
Qed.

(* ---- not an integer ---- *)
Lemma parse_i32_lc s : lc_first s = true -> parse_i32 s = None.
Proof.
  intro H. destruct (lc_first_cons s H) as [c [r [-> Hc]]].
  unfold parse_i32.
  rewrite sign_match_other by lia.
  cbn [digits_val]. unfold is_dig.
  replace ((48 <=? c) && (c <=? 57)) with false by lia. reflexivity.
Qed.

(* ---- not a typed vector literal, not a parenthesis, not TRUE / FALSE ---- *)
Lemma starts_with_uc pre s : uc_first pre = true -> lc_first s = true -> starts_with pre s = false.
Proof.
  destruct pre as [|a pr]; cbn [uc_first]; [discriminate|]. intro Ha.
  intro H. destruct (lc_first_cons s H) as [c [r [-> Hc]]].
  cbn [starts_with]. unfold is_uc in Ha. replace (a =? c) with false by lia. reflexivity.
Qed.

Lemma vec_prefix_lc s : lc_first s = true -> vec_prefix s = None.
Proof.
  intro H. unfold vec_prefix.
  rewrite (starts_with_uc s_INT s), (starts_with_uc s_FLOAT s), (starts_with_uc s_BOOL s);
    auto; reflexivity.
Qed.

Lemma lc_first_neq s w : lc_first s = true -> lc_first w = false -> s <> w.
Proof. intros H1 H2 E. subst w. congruence. Qed.

Lemma plain_lc s : lc_first s = true -> plain s.
Proof.
  intro H. split; [exact (vec_prefix_lc s H)|].
  split; apply (lc_first_neq s _ H); reflexivity.
Qed.

(* ---- not a registered instruction ---- *)
Lemma is_instr_uc names s :
  forallb uc_first names = true -> lc_first s = true -> is_instr names s = false.
Proof.
  intros Hn H. destruct (lc_first_cons s H) as [c [r [-> Hc]]].
  unfold is_instr. induction names as [|n ns IH]; [reflexivity|].
  cbn [forallb] in Hn. apply andb_true_iff in Hn. destruct Hn as [Hn Hns].
  cbn [existsb]. rewrite (IH Hns), orb_false_r.
  destruct n as [|a n']; [reflexivity|]. cbn [uc_first] in Hn. unfold is_uc in Hn.
  cbn [str_eqb]. replace (c =? a) with false by lia. reflexivity.
Qed.

(* every registered instruction name starts with an upper-case ASCII letter
   (the names are literal strings: no float operation is evaluated) *)
Lemma reg_names_uc (tab : list (Z * Z * Z)) :
  forallb uc_first (@reg_names (flocq_ops tab)) = true.
Proof. vm_compute. reflexivity. Qed.
Lemma reg_names_uc_any (FO : FloatOps) : forallb uc_first (@reg_names FO) = true.
Proof. vm_compute. reflexivity. Qed.

(* ---- one whitespace-free token ---- *)
Lemma name_char_not_ws c : name_char c = true -> is_ws c = false.
Proof. unfold name_char, is_lc, is_ws. lia. Qed.

Lemma name_shape_good nm : name_shape nm = true -> good_tok nm.
Proof.
  intro H. destruct (name_shape_inv nm H) as [H1 [H2 _]].
  destruct (lc_first_cons nm H1) as [c [r [E _]]].
  split; [rewrite E; discriminate|].
  unfold ws_free. apply forallb_forall. intros x Hx.
  rewrite forallb_forall in H2. rewrite (name_char_not_ws x (H2 x Hx)). reflexivity.
Qed.

(* ---- not a float (the Flocq instance) ---- *)
Lemma zlist_eqb_eq a : forall b, zlist_eqb a b = true -> a = b.
Proof.
  induction a as [|x ra IH]; intros [|y rb]; cbn [zlist_eqb]; try discriminate; [reflexivity|].
  intro H. apply andb_true_iff in H. destruct H as [Hx Hr].
  apply Z.eqb_eq in Hx. subst y. f_equal. exact (IH rb Hr).
Qed.

Lemma zlist_eqb_no_dash s w : In 45 s -> ~ In 45 w -> zlist_eqb (map lower s) w = false.
Proof.
  intros Hs Hw. destruct (zlist_eqb (map lower s) w) eqn:E; [|reflexivity].
  apply zlist_eqb_eq in E. exfalso. apply Hw. rewrite <- E.
  change 45 with (lower 45). apply in_map. exact Hs.
Qed.

Lemma take_digits_lc s a k : lc_first s = true -> take_digits s a k = (a, k, s).
Proof.
  intro H. destruct (lc_first_cons s H) as [c [r [-> Hc]]].
  cbn [take_digits]. unfold is_digit. replace ((48 <=? c) && (c <=? 57)) with false by lia. reflexivity.
Qed.

Lemma fl_parse_name nm : lc_first nm = true -> In 45 nm -> fl_parse nm = None.
Proof.
  intros H Hd. destruct (lc_first_cons nm H) as [c [r [E Hc]]].
  unfold fl_parse. rewrite E at 1.
  rewrite sign_match_other by lia.
  rewrite !zlist_eqb_no_dash by (try exact Hd; cbn [In]; lia).
  cbn [orb]. rewrite (take_digits_lc nm 0 0 H).
  subst nm. rewrite dot_match_other by lia. reflexivity.
Qed.

Lemma fl_parse_shaped nm : name_shape nm = true -> fl_parse nm = None.
Proof.
  intro H. destruct (name_shape_inv nm H) as [H1 [_ H3]]. exact (fl_parse_name nm H1 H3).
Qed.

(* ---- the lexical rules make it a name: for any float implementation whose
   parser rejects it and any instruction set of upper-case-initial names ---- *)
Section Shaped.
  Context {FO : FloatOps}.
  Variable names : list str.
  Hypothesis Hnames : forallb uc_first names = true.

  Lemma classify_shaped nm : name_shape nm = true -> fparse nm = None ->
    classify names nm = CItem (IName nm).
  Proof.
    intros H Hf. destruct (name_shape_inv nm H) as [H1 _].
    apply classify_name.
    - exact (plain_lc nm H1).
    - exact (is_instr_uc names nm Hnames H1).
    - exact (parse_i32_lc nm H1).
    - exact Hf.
    - apply (lc_first_neq nm _ H1). reflexivity.
    - apply (lc_first_neq nm _ H1). reflexivity.
  Qed.

  Lemma rt_atom_shaped nm : name_shape nm = true -> fparse nm = None ->
    rt_atom names (IName nm) = true.
  Proof.
    intros H Hf.
    exact (printable_name names nm (name_shape_good nm H) (classify_shaped nm H Hf)).
  Qed.
End Shaped.

(* ---- atoms_all is monotone ---- *)
Lemma atoms_all_mono (P Q : item -> bool) :
  (forall a, P a = true -> Q a = true) -> forall t, atoms_all P t = true -> atoms_all Q t = true.
Proof.
  intros HPQ t. induction t as [l IH|n|v|n] using item_ind'; try (cbn [atoms_all]; apply HPQ).
  rewrite !atoms_all_list. intro H. rewrite forallb_forall in H. apply forallb_forall.
  intros x Hx. rewrite Forall_forall in IH. exact (IH x Hx (H x Hx)).
Qed.

(* an atom that is a name of the generator's shape *)
Definition shaped_name_atom (a : item) : bool :=
  match a with IName n => name_shape n | _ => false end.

(* ---- the executable float instance and the real instruction set ---- *)
Section Flocq.
  Variable tab : list (Z * Z * Z).
  Let FO : FloatOps := flocq_ops tab.
  Existing Instance FO.

  Lemma shaped_name_not_float nm : name_shape nm = true -> fparse nm = None.
  Proof. exact (fl_parse_shaped nm). Qed.

  Theorem shaped_name_rt_atom nm : name_shape nm = true -> rt_atom reg_names (IName nm) = true.
  Proof.
    intro H.
    exact (rt_atom_shaped reg_names (reg_names_uc tab) nm H (shaped_name_not_float nm H)).
  Qed.

  Theorem shaped_name_printable nm : name_shape nm = true -> printable reg_names (IName nm) = true.
  Proof. exact (shaped_name_rt_atom nm). Qed.

  Lemma shaped_or_rt a : shaped_name_atom a || rt_atom reg_names a = true -> rt_atom reg_names a = true.
  Proof.
    intro H. apply orb_true_iff in H. destruct H as [H|H]; [|exact H].
    destruct a as [l|n|v|n]; try discriminate. exact (shaped_name_rt_atom n H).
  Qed.

  (* tree level: every atom is a shaped name or printable => the tree is printable *)
  Theorem shaped_tree_printable t :
    atoms_all (fun a => shaped_name_atom a || rt_atom reg_names a) t = true -> printable reg_names t = true.
  Proof. apply atoms_all_mono. exact shaped_or_rt. Qed.

  (* the same with float literals among the other atoms *)
  Theorem shaped_tree_printable_f t :
    atoms_all (fun a => shaped_name_atom a || (rt_atom reg_names a || rt_float reg_names a)) t = true ->
    printable_f reg_names t = true.
  Proof.
    apply atoms_all_mono. intros a H. apply orb_true_iff in H. destruct H as [H|H]; [|exact H].
    apply orb_true_iff. left. apply shaped_or_rt. rewrite H. reflexivity.
  Qed.

  (* so such a program, printed and parsed onto an empty EXEC stack, is the program *)
  Theorem shaped_tree_roundtrip (p : profile) t s :
    atoms_all (fun a => shaped_name_atom a || rt_atom reg_names a) t = true ->
    str_fits (item_str t) -> st_exec s = [] ->
    parse_program p reg_names s (item_str t) = Ok (set_exec s [t]).
  Proof.
    intros H. exact (parse_print_tree reg_names p t s (shaped_tree_printable t H)).
  Qed.

  (* a whole stack of them (CODE.PRINT / to_string of EXEC or CODE) *)
  Theorem shaped_stack_roundtrip (p : profile) l s :
    forallb (atoms_all (fun a => shaped_name_atom a || rt_atom reg_names a)) l = true ->
    str_fits (items_str l) -> st_exec s = [] ->
    parse_program p reg_names s (items_str l) = Ok (set_exec s l).
  Proof.
    intros H. apply (code_print_roundtrip reg_names p l s).
    rewrite forallb_forall in H. apply forallb_forall. intros t Ht.
    exact (shaped_tree_printable t (H t Ht)).
  Qed.

  (* with float literals: print . parse . print = print (the scalar law is Proofs/Fmt3Law.v) *)
  Theorem shaped_tree_print_parse_print (p : profile) t s :
    atoms_all (fun a => shaped_name_atom a || (rt_atom reg_names a || rt_float reg_names a)) t = true ->
    str_fits (item_str t) -> st_exec s = [] ->
    exists t', parse_program p reg_names s (item_str t) = Ok (set_exec s [t']) /\ item_str t' = item_str t.
  Proof.
    intros H.
    exact (print_parse_print_tree reg_names p (fmt3_law tab) t s (shaped_tree_printable_f t H)).
  Qed.
End Flocq.

(* Histories: the graph machine refines the specification machine step by
   step; invariant along every history; frame property behind clone-as-snapshot. *)
From Coq Require Import ZArith List Bool Lia Sorted Permutation ZifyBool.
From PushModel Require Import Base.Sx Base.Machine Base.ListOps Base.F32 Model.Graph Spec.GraphSpec
  Model.GraphMachine Proofs.GraphFacts Proofs.GraphRefine Proofs.GraphDiff.
Import ListNotations.
Open Scope Z_scope.

(* outputs agree: node sets / id lists up to order, a diff by its emptiness *)
Definition out_equiv (a b : gout) : Prop :=
  match a, b with
  | UUnit, UUnit => True
  | UZ x, UZ y => x = y
  | UOZ x, UOZ y => x = y
  | UOF x, UOF y => x = y
  | UIds x, UIds y => Permutation x y
  | UDiff x, UDiff y => x = None <-> y = None
  | _, _ => False
  end.

(* what the property says about the shape of a graph *)
Definition graph_wf (g : graph) : Prop :=
  NoDup (map fst (g_nodes g))
  /\ NoDup (map fst (g_edges g))
  /\ (forall d es, In (d, es) (g_edges g) ->
        g_get_state g d <> None
        /\ NoDup (map e_origin es)
        /\ (forall e, In e es -> g_get_state g (e_origin e) <> None))
  /\ NoDup (map fst (g_edge_list g)).

Lemma inv_wf g : inv g -> graph_wf g.
Proof.
  intro I. pose proof I as (S1 & S2 & F). repeat split.
  - now apply zsorted_nodup.
  - now apply zsorted_nodup.
  - rewrite Forall_forall in F. destruct (F _ H) as (M & _). cbn [fst] in M.
    unfold g_get_state, zm_mem in *. destruct (zm_get d (g_nodes g)); [discriminate|discriminate].
  - rewrite Forall_forall in F. now destruct (F _ H) as (_ & N & _).
  - intros e He. rewrite Forall_forall in F. destruct (F _ H) as (_ & _ & K). cbn [snd] in K.
    rewrite Forall_forall in K. specialize (K _ He).
    unfold g_get_state, zm_mem, e_origin in *. destruct (zm_get (fst e) (g_nodes g)); [discriminate|discriminate].
  - now apply edge_list_nodup.
Qed.

Lemma nth_upd_eq {A} (l : list A) r x d : (r < length l)%nat -> nth r (upd l r x) d = x.
Proof. revert r. induction l as [|y t IH]; intros [|r] H; cbn [length upd nth] in *; try lia; auto. apply IH. lia. Qed.

Lemma nth_upd_ne {A} (l : list A) r r' x d : r <> r' -> nth r (upd l r' x) d = nth r l d.
Proof.
  revert r r'. induction l as [|y t IH]; intros [|r] [|r'] H; cbn [upd nth]; auto; try congruence.
Qed.

Section History.
  Context {FO : FloatOps}.

  Definition WR (w : world) (sw : sworld) : Prop :=
    w_next w = sw_next sw /\ Forall2 R (w_regs w) (sw_regs sw).

  Lemma F2_nth regs sregs r : Forall2 R regs sregs -> R (nth r regs g_new) (nth r sregs s_new).
  Proof.
    intro F. revert r. induction F; intros [|r]; cbn [nth]; auto using R_new.
  Qed.

  Lemma F2_upd regs sregs r g s :
    Forall2 R regs sregs -> R g s -> Forall2 R (upd regs r g) (upd sregs r s).
  Proof.
    intros F H. revert r. induction F; intros [|r]; cbn [upd]; constructor; auto.
  Qed.

  Lemma WR_reg w sw r : WR w sw -> R (greg w r) (sreg sw r).
  Proof. intros [_ F]. now apply F2_nth. Qed.

  Lemma WR_set w sw r g s : WR w sw -> R g s -> WR (gset w r g) (sset sw r s).
  Proof. intros [E F] H. split; cbn [gset sset w_next sw_next w_regs sw_regs]; auto. now apply F2_upd. Qed.

  Lemma WR_init next n : WR (w_init next n) (sw_init next n).
  Proof.
    split; cbn [w_init sw_init w_next sw_next w_regs sw_regs]; auto.
    induction n; cbn [repeat]; constructor; auto using R_new.
  Qed.

  Lemma step_refines w sw o :
    WR w sw ->
    WR (fst (g_step w o)) (fst (spec_step sw o)) /\ out_equiv (snd (g_step w o)) (snd (spec_step sw o)).
  Proof.
    intro H. pose proof H as [E F].
    destruct o; cbn [g_step spec_step fst snd out_equiv];
      try (split; [first [apply WR_set; auto | exact H]|]; auto).
    - apply R_new.
    - unfold g_clone. now apply WR_reg.
    - unfold g_add_node_w, counter_fetch_add. cbn [fst snd]. rewrite <- E. split; [|reflexivity].
      split; cbn [w_next sw_next w_regs sw_regs]; auto.
      apply F2_upd; auto. apply R_add_node. now apply WR_reg.
    - apply R_remove_node. now apply WR_reg.
    - apply R_add_edge. now apply WR_reg.
    - apply R_remove_edge. now apply WR_reg.
    - f_equal. now destruct (WR_reg w sw r H) as (_ & _ & HS & _).
    - apply R_set_state. now apply WR_reg.
    - f_equal. now destruct (WR_reg w sw r H) as (_ & _ & _ & HW).
    - apply R_set_weight. now apply WR_reg.
    - f_equal. apply R_node_count. now apply WR_reg.
    - f_equal. apply R_edge_count. now apply WR_reg.
    - unfold g_filter. apply Permutation_map. apply R_filter. now apply WR_reg.
    - pose proof (R_diff _ _ _ _ (WR_reg w sw a H) (WR_reg w sw b H)) as D.
      destruct (s_same (sreg sw a) (sreg sw b)); split; intro K; try discriminate.
      + reflexivity.
      + now apply D.
      + apply D in K. discriminate.
    - apply R_preds. now apply WR_reg.
    - apply R_succs. now apply WR_reg.
    - apply R_neighbours. now apply WR_reg.
  Qed.

  Lemma run_refines ops : forall w sw,
    WR w sw ->
    WR (fst (g_run w ops)) (fst (spec_run sw ops))
    /\ Forall2 out_equiv (snd (g_run w ops)) (snd (spec_run sw ops)).
  Proof.
    induction ops as [|o r IH]; intros w sw H; cbn [g_run spec_run fst snd].
    - split; auto.
    - destruct (step_refines w sw o H) as [H1 H2].
      destruct (IH _ _ H1) as [H3 H4]. split; auto.
  Qed.

  Lemma WR_inv w sw r : WR w sw -> inv (greg w r).
  Proof. intro H. now destruct (WR_reg w sw r H). Qed.

  Lemma reach_inv next n ops r : inv (greg (fst (g_run (w_init next n) ops)) r).
  Proof.
    destruct (run_refines ops _ _ (WR_init next n)) as [H _]. eapply WR_inv; eauto.
  Qed.

  Lemma history_inv next n ops : Forall graph_wf (w_regs (fst (g_run (w_init next n) ops))).
  Proof.
    destruct (run_refines ops _ _ (WR_init next n)) as [[_ H] _].
    induction H; constructor; auto. apply inv_wf. now destruct H.
  Qed.

  (* what the refinement gives for each register at the end of a history *)
  Definition graph_abs (g : graph) (s : sgraph) : Prop :=
    (forall k, g_get_state g k = s_get_state s k)
    /\ (forall o d, g_get_weight g o d = s_get_weight s o d)
    /\ g_node_size g = s_node_count s
    /\ g_edge_size g = s_edge_count s.

  Lemma R_abs g s : R g s -> graph_abs g s.
  Proof.
    intro H. pose proof H as (_ & _ & HS & HW). repeat split; auto.
    - now apply R_node_count.
    - now apply R_edge_count.
  Qed.

  Lemma history_refines next n ops :
    Forall2 out_equiv (snd (g_run (w_init next n) ops)) (snd (spec_run (sw_init next n) ops))
    /\ w_next (fst (g_run (w_init next n) ops)) = sw_next (fst (spec_run (sw_init next n) ops))
    /\ Forall2 graph_abs (w_regs (fst (g_run (w_init next n) ops))) (sw_regs (fst (spec_run (sw_init next n) ops))).
  Proof.
    destruct (run_refines ops _ _ (WR_init next n)) as [[E H] O]. repeat split; auto.
    induction H; constructor; auto using R_abs.
  Qed.

  (* frame: an operation that does not write register r leaves it alone *)
  Lemma step_frame w o r : writes o <> Some r -> greg (fst (g_step w o)) r = greg w r.
  Proof.
    intro H. destruct o; cbn [g_step fst writes] in *; auto;
      try (unfold greg, gset; cbn [w_regs]; apply nth_upd_ne; congruence).
  Qed.

  Lemma run_frame ops : forall w r,
    (forall o, In o ops -> writes o <> Some r) -> greg (fst (g_run w ops)) r = greg w r.
  Proof.
    induction ops as [|o t IH]; intros w r H; cbn [g_run fst]; auto.
    rewrite IH by (intros; apply H; now right). apply step_frame. apply H. now left.
  Qed.

  Lemma clone_snapshot w a b later :
    (b < length (w_regs w))%nat ->
    let w1 := fst (g_step w (GClone a b)) in
    ((forall o, In o later -> writes o <> Some b) -> greg (fst (g_run w1 later)) b = greg w a)
    /\ (a <> b -> (forall o, In o later -> writes o <> Some a) -> greg (fst (g_run w1 later)) a = greg w a).
  Proof.
    intros L w1. split.
    - intro H. rewrite run_frame by auto. unfold w1. cbn [g_step fst]. unfold greg at 1, gset. cbn [w_regs].
      now apply nth_upd_eq.
    - intros N H. rewrite run_frame by auto. unfold w1. apply step_frame. cbn [writes]. congruence.
  Qed.

  (* queries on a reachable graph *)
  Lemma reach_queries next n ops r id sts :
    let g := greg (fst (g_run (w_init next n) ops)) r in
    NoDup (g_preds g id sts)
    /\ (forall o, In o (g_preds g id sts) <-> (exists w, g_get_weight g o id = Some w) /\ g_sel g sts o = true)
    /\ NoDup (g_succs g id sts)
    /\ (forall d, In d (g_succs g id sts) <-> (exists w, g_get_weight g id d = Some w) /\ g_sel g sts d = true)
    /\ g_neighbours g id sts = g_preds g id sts ++ g_succs g id sts
    /\ (forall k, In k (g_filter_ids g sts) <-> exists st, g_get_state g k = Some st /\ state_sel sts st = true).
  Proof.
    intro g. pose proof (reach_inv next n ops r) as I. fold g in I.
    split; [now apply preds_nodup|]. split; [intro; apply preds_in|]. split; [now apply succs_nodup|].
    split; [intro; now apply succs_in|]. split; [reflexivity|].
    intro k. rewrite filter_ids_in. split; intros [st [H1 H2]]; exists st; split; auto.
    - apply zm_in_get; auto. now apply inv_nodes_nodup.
    - now apply zm_get_in.
  Qed.
End History.

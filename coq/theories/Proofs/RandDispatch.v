(* The nine RAND names dispatch to the bodies of Model/IRand.v: looking a name up in the complete
   registry yields the semantics the C12/C13 theorems speak about (CODE.RAND with the registry's
   own instruction names as its instruction list). *)
From Coq Require Import ZArith String List Bool.
From PushModel Require Import Base.Sx Base.Machine Base.F32 Model.Item Model.GraphT Model.State
  Model.InstrBase Model.Registry Model.Interp Model.RandomGen Model.IRand Model.RegistryRand Model.RegistryAll.
Import ListNotations.
Open Scope string_scope.

Section RandDispatch.
  Context {FO : FloatOps}.
  Lemma rand_names_dispatch :
    Forall (fun e => lookup full_registry (s2l (fst e)) = Some (snd e)) (tbl_rand full_names).
  Proof. repeat (apply Forall_cons; [reflexivity|]). apply Forall_nil. Qed.

  (* the instruction list CODE.RAND draws from is the list of registered names *)
  Lemma full_names_registry : full_names = map fst full_registry.
  Proof. reflexivity. Qed.
End RandDispatch.

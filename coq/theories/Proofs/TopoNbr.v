(* C20: find_neighbors.  Structural facts (ascending, valid, monotone in the
   radius) hold for every float interface; the geometric characterisation needs
   the integer-exactness facts of IEEE-754 binary32 bundled in [FloatIntExact]
   (explicit premises of the theorems, never axioms). *)
From Coq Require Import ZArith List Bool Lia ZifyBool Sorted.
From PushModel Require Import Base.Sx Base.Machine Base.F32 Spec.TopoSpec Model.Topology
  Proofs.TopoDigits Proofs.TopoEdge.
Import ListNotations.
Open Scope Z_scope.

(* Facts about binary32 on integers, with x, y, a, b, D, R integers (usize values converted with `as f32`):
   integers below 2^24 and their sums, differences and squares are computed
   exactly; sqrt is monotone and exact enough to compare with an integer. *)
Class FloatIntExact (FO : FloatOps) : Prop := {
  fie_zero : f_of_usize 0 = f_zero;
  fie_add : forall x y, 0 <= x -> 0 <= y -> x + y < two24 ->
      fadd (f_of_usize x) (f_of_usize y) = f_of_usize (x + y);
  (* debug build: libm's powf(d, 2.0) *)
  fie_sq_powf : forall a b, 0 <= a < two24 -> 0 <= b < two24 -> (a - b) * (a - b) < two24 ->
      libm2 FN_POWF (fsub (f_of_usize a) (f_of_usize b)) f_two = Ok (f_of_usize ((a - b) * (a - b)));
  (* release build: d * d *)
  fie_sq_mul : forall a b, 0 <= a < two24 -> 0 <= b < two24 -> (a - b) * (a - b) < two24 ->
      fmul (fsub (f_of_usize a) (f_of_usize b)) (fsub (f_of_usize a) (f_of_usize b))
      = f_of_usize ((a - b) * (a - b));
  fie_sqrt_zero : fsqrt f_zero = f_zero;
  fie_sqrt_mono : forall x y, 0 <= x -> x <= y -> y < two24 ->
      fle (fsqrt (f_of_usize x)) (fsqrt (f_of_usize y)) = true;
  (* sqrt D <= R  iff  D <= R^2, for an integer radius *)
  fie_sqrt_int : forall D R, 0 <= D < two24 -> 0 <= R < 4096 ->
      fle (fsqrt (f_of_usize D)) (f_of_usize R) = (D <=? R * R);
  fie_le_trans : forall a b c, fle a b = true -> fle b c = true -> fle a c = true;
  (* 0 <= r (so r is not NaN) means `r < 0.0` is false *)
  fie_nonneg_guard : forall r, fle f_zero r = true -> flt r f_zero = false;
}.

(* ---- integer squared distance ---- *)
Lemma sqdist_nonneg l1 l2 : 0 <= sqdist l1 l2.
Proof. revert l2. induction l1 as [|a r IH]; intros [|b r2]; cbn [sqdist]; try lia. specialize (IH r2). pose proof (Z.square_nonneg (a - b)). lia. Qed.

Lemma sqdist_sym l1 l2 : sqdist l1 l2 = sqdist l2 l1.
Proof. revert l2. induction l1 as [|a r IH]; intros [|b r2]; cbn [sqdist]; try lia. rewrite (IH r2). ring. Qed.

Lemma sqdist_refl l : sqdist l l = 0.
Proof. induction l as [|a r IH]; cbn [sqdist]; [reflexivity|]. rewrite IH. ring. Qed.

Lemma sqdist_bound e d l1 l2 : coord_ok e d l1 -> coord_ok e d l2 ->
  sqdist l1 l2 <= Z.of_nat d * ((e - 1) * (e - 1)).
Proof.
  intros [L1 F1] [L2 F2]. subst d. revert l2 L2 F2.
  induction F1 as [|a r Ha F1 IH]; intros [|b r2] L2 F2; cbn [sqdist length] in *; try discriminate; try lia.
  inversion F2 as [|? ? Hb F2']; subst.
  specialize (IH r2 ltac:(lia) F2').
  assert ((a - b) * (a - b) <= (e - 1) * (e - 1)) by nia.
  rewrite Nat2Z.inj_succ. nia.
Qed.

(* ---- ascending lists of indices ---- *)
Lemma map_as_i32_id l : Forall (fun j => 0 <= j < 2147483648) l -> map usize_as_i32 l = l.
Proof.
  induction 1 as [|x r Hx _ IH]; cbn [map]; [reflexivity|]. rewrite IH. f_equal.
  unfold usize_as_i32. apply wrap32_id. unfold in_i32, min32, max32. lia.
Qed.

Lemma SSorted_lt_NoDup l : StronglySorted Z.lt l -> NoDup l.
Proof.
  induction 1 as [|x r _ IH Hx]; constructor; [|assumption].
  intro Hin. rewrite Forall_forall in Hx. specialize (Hx x Hin). lia.
Qed.

Section Nbr.
  Context {FO : FloatOps}.

  (* the per-index test of the scan *)
  Definition keep_at (p : profile) (nedge ndim : Z) (dindex : list Z) (radius : f32) (i : Z) : res bool :=
    let! odi := decompose_index i nedge ndim in
    match odi with
    | None => Ok false
    | Some di =>
        let! od := euclidean_distance p dindex di in
        match od with
        | None => Ok false
        | Some dist => Ok (fle dist radius)
        end
    end.

  Lemma nbr_scan_S p e nd c r k i :
    nbr_scan p e nd c r (S k) i =
    (let! kp := keep_at p e nd c r i in
     let! rest := nbr_scan p e nd c r k (i + 1) in
     Ok (if kp then usize_as_i32 i :: rest else rest)).
  Proof.
    cbn [nbr_scan]. unfold keep_at.
    destruct (decompose_index i e nd) as [[di|]| |]; cbn [rbind]; reflexivity.
  Qed.

  (* ---- structure of any result: an ascending selection of s, s+1, ..., s+k-1 ---- *)
  Lemma nbr_scan_shape p e nd c r : forall k s l,
    nbr_scan p e nd c r k (Z.of_nat s) = Ok l ->
    exists l', l = map usize_as_i32 l' /\ StronglySorted Z.lt l' /\
               Forall (fun j => Z.of_nat s <= j < Z.of_nat s + Z.of_nat k) l'.
  Proof.
    induction k as [|k IH]; intros s l H.
    - cbn [nbr_scan] in H. injection H as <-. exists []. repeat split; constructor.
    - rewrite nbr_scan_S in H.
      destruct (keep_at p e nd c r (Z.of_nat s)) as [kp| |]; cbn [rbind] in H; try discriminate.
      replace (Z.of_nat s + 1) with (Z.of_nat (S s)) in H by lia.
      destruct (nbr_scan p e nd c r k (Z.of_nat (S s))) as [rest| |] eqn:E; cbn [rbind] in H; try discriminate.
      injection H as <-.
      destruct (IH (S s) rest E) as (r' & -> & Hs & Hr).
      assert (Hr' : Forall (fun j => Z.of_nat s <= j < Z.of_nat s + Z.of_nat (S k)) r').
      { eapply Forall_impl; [|exact Hr]. cbn beta. intros; lia. }
      destruct kp.
      + exists (Z.of_nat s :: r'). split; [reflexivity|]. split.
        * constructor; [assumption|]. eapply Forall_impl; [|exact Hr]. cbn beta. intros; lia.
        * constructor; [lia|assumption].
      + exists r'. repeat split; assumption.
  Qed.

  (* ---- monotone in the radius: only transitivity of <= is used ---- *)
  Lemma keep_at_mono p e nd c r1 r2 i b1 b2 :
    (forall a, fle a r1 = true -> fle a r2 = true) ->
    keep_at p e nd c r1 i = Ok b1 -> keep_at p e nd c r2 i = Ok b2 -> b1 = true -> b2 = true.
  Proof.
    intros T. unfold keep_at.
    destruct (decompose_index i e nd) as [[di|]| |]; cbn [rbind]; try discriminate.
    - destruct (euclidean_distance p c di) as [[dist|]| |]; cbn [rbind]; try discriminate.
      + intros H1 H2 ->. injection H1 as H1. injection H2 as <-. apply T. exact H1.
      + intros H1 _ ->. discriminate H1.
    - intros H1 _ ->. discriminate H1.
  Qed.

  Lemma nbr_scan_mono p e nd c r1 r2 :
    (forall a, fle a r1 = true -> fle a r2 = true) ->
    forall k i l1 l2,
      nbr_scan p e nd c r1 k i = Ok l1 -> nbr_scan p e nd c r2 k i = Ok l2 -> incl l1 l2.
  Proof.
    intros T. induction k as [|k IH]; intros i l1 l2 H1 H2.
    - cbn [nbr_scan] in H1, H2. injection H1 as <-. intros x [].
    - rewrite nbr_scan_S in H1, H2.
      destruct (keep_at p e nd c r1 i) as [b1| |] eqn:K1; cbn [rbind] in H1; try discriminate.
      destruct (keep_at p e nd c r2 i) as [b2| |] eqn:K2; cbn [rbind] in H2; try discriminate.
      destruct (nbr_scan p e nd c r1 k (i + 1)) as [t1| |] eqn:E1; cbn [rbind] in H1; try discriminate.
      destruct (nbr_scan p e nd c r2 k (i + 1)) as [t2| |] eqn:E2; cbn [rbind] in H2; try discriminate.
      injection H1 as <-. injection H2 as <-.
      specialize (IH (i + 1) t1 t2 E1 E2).
      pose proof (keep_at_mono p e nd c r1 r2 i b1 b2 T K1 K2) as M.
      destruct b1.
      + rewrite (M eq_refl). apply incl_cons; [left; reflexivity|apply incl_tl; exact IH].
      + destruct b2; [apply incl_tl|]; exact IH.
  Qed.

  (* a result Some l comes from a scan with the computed edge and the centre's coordinates *)
  Lemma find_neighbors_some_inv p ntotal ndim index r l :
    find_neighbors p ntotal ndim index r = Ok (Some l) ->
    exists c, decompose_index index (edge_length ntotal ndim) ndim = Ok (Some c) /\
              nbr_scan p (edge_length ntotal ndim) ndim c r (Z.to_nat ntotal) 0 = Ok l.
  Proof.
    unfold find_neighbors, find_neighbors_with.
    destruct (nbr_guard ntotal ndim index r); [discriminate|].
    destruct (decompose_index index (edge_length ntotal ndim) ndim) as [[c|]| |] eqn:D; cbn [rbind]; try discriminate.
    destruct (nbr_scan p (edge_length ntotal ndim) ndim c r (Z.to_nat ntotal) 0) as [l0| |] eqn:S; cbn [rbind]; try discriminate.
    intros H. injection H as <-. exists c. split; [reflexivity|exact S].
  Qed.

  Lemma nbr_valid_sorted_nodup_lemma p ntotal ndim index r l :
    ntotal <= 2147483648 ->
    find_neighbors p ntotal ndim index r = Ok (Some l) ->
    StronglySorted Z.lt l /\ NoDup l /\ Forall (fun j => 0 <= j < ntotal) l.
  Proof.
    intros Hn H. destruct (find_neighbors_some_inv _ _ _ _ _ _ H) as (c & _ & Hs).
    change 0 with (Z.of_nat 0) in Hs.
    destruct (nbr_scan_shape _ _ _ _ _ _ _ _ Hs) as (l' & -> & Hsort & Hr).
    assert (Hr' : Forall (fun j => 0 <= j < ntotal) l').
    { eapply Forall_impl; [|exact Hr]. cbn beta. intros a Ha. lia. }
    rewrite map_as_i32_id.
    - split; [assumption|]. split; [apply SSorted_lt_NoDup|]; assumption.
    - eapply Forall_impl; [|exact Hr']. cbn beta. intros; lia.
  Qed.

  Lemma nbr_monotone_radius_lemma p ntotal ndim index r1 r2 l1 l2 :
    (forall a b c, fle a b = true -> fle b c = true -> fle a c = true) ->
    fle r1 r2 = true ->
    find_neighbors p ntotal ndim index r1 = Ok (Some l1) ->
    find_neighbors p ntotal ndim index r2 = Ok (Some l2) ->
    incl l1 l2.
  Proof.
    intros T Hr H1 H2.
    destruct (find_neighbors_some_inv _ _ _ _ _ _ H1) as (c1 & D1 & S1).
    destruct (find_neighbors_some_inv _ _ _ _ _ _ H2) as (c2 & D2 & S2).
    rewrite D1 in D2. injection D2 as <-.
    eapply nbr_scan_mono; [|exact S1|exact S2].
    intros a Ha. exact (T a r1 r2 Ha Hr).
  Qed.

  (* ---- the geometric characterisation, under integer exactness ---- *)
  Context {FIE : FloatIntExact FO}.

  Lemma sq_term_exact p a b : 0 <= a < two24 -> 0 <= b < two24 -> (a - b) * (a - b) < two24 ->
    sq_term p (fsub (f_of_usize a) (f_of_usize b)) = Ok (f_of_usize ((a - b) * (a - b))).
  Proof.
    intros Ha Hb Hd. destruct p; cbn [sq_term].
    - apply fie_sq_powf; assumption.
    - rewrite fie_sq_mul by assumption. reflexivity.
  Qed.

  Lemma sqsum_exact p : forall l1 l2 A,
    length l1 = length l2 ->
    Forall (fun x => 0 <= x < two24) l1 -> Forall (fun x => 0 <= x < two24) l2 ->
    0 <= A -> A + sqdist l1 l2 < two24 ->
    sqsum p (f_of_usize A) l1 l2 = Ok (f_of_usize (A + sqdist l1 l2)).
  Proof.
    induction l1 as [|a r1 IH]; intros [|b r2] A HL F1 F2 HA HS; cbn [sqsum sqdist length] in *; try discriminate.
    - rewrite Z.add_0_r. reflexivity.
    - inversion F1 as [|? ? Ha F1']; inversion F2 as [|? ? Hb F2']; subst.
      pose proof (sqdist_nonneg r1 r2).
      pose proof (Z.square_nonneg (a - b)).
      rewrite sq_term_exact by lia. cbn [rbind].
      rewrite fie_add by lia.
      rewrite IH; try assumption; try lia.
      do 2 f_equal. lia.
  Qed.

  Lemma euclid_exact p l1 l2 :
    length l1 = length l2 ->
    Forall (fun x => 0 <= x < two24) l1 -> Forall (fun x => 0 <= x < two24) l2 ->
    sqdist l1 l2 < two24 ->
    euclidean_distance p l1 l2 = Ok (Some (fsqrt (f_of_usize (sqdist l1 l2)))).
  Proof.
    intros HL F1 F2 HS. unfold euclidean_distance.
    rewrite HL, Nat.eqb_refl. cbn [negb].
    rewrite <- fie_zero, sqsum_exact by (try assumption; lia).
    cbn [rbind]. reflexivity.
  Qed.

  Lemma nbr_scan_geo p e nd c r :
    (forall i, 0 <= i -> decompose_index i e nd = Ok (Some (digits e (Z.to_nat nd) i))) ->
    (forall i, euclidean_distance p c (digits e (Z.to_nat nd) i)
               = Ok (Some (fsqrt (f_of_usize (sqdist c (digits e (Z.to_nat nd) i)))))) ->
    forall k s,
      nbr_scan p e nd c r k (Z.of_nat s)
      = Ok (map usize_as_i32
              (filter (fun i => within (sqdist c (digits e (Z.to_nat nd) i)) r) (map Z.of_nat (seq s k)))).
  Proof.
    intros HD HE. induction k as [|k IH]; intros s.
    - reflexivity.
    - rewrite nbr_scan_S. unfold keep_at. rewrite HD by lia. cbn [rbind]. rewrite HE. cbn [rbind].
      replace (Z.of_nat s + 1) with (Z.of_nat (S s)) by lia. rewrite IH. cbn [rbind seq map filter].
      unfold within.
      destruct (fle (fsqrt (f_of_usize (sqdist c (digits e (Z.to_nat nd) (Z.of_nat s))))) r); reflexivity.
  Qed.

  (* size conditions: powers representable, squared distances exact *)
  Definition sizes_ok (ntotal ndim : Z) : Prop :=
    let e := iroot_ceil ntotal ndim in
    e ^ (ndim - 1) < two64 /\ ndim * ((e - 1) * (e - 1)) < two24.

  Lemma edge_small ndim e : 1 <= ndim -> 1 <= e -> ndim * ((e - 1) * (e - 1)) < two24 -> e <= 4096.
  Proof. unfold two24. intros. nia. Qed.

  Lemma nbr_is_geometric_set_lemma p ntotal ndim index r :
    1 <= ntotal <= 2147483648 -> 1 <= ndim -> 0 <= index < ntotal ->
    flt r f_zero = false -> sizes_ok ntotal ndim ->
    find_neighbors p ntotal ndim index r = Ok (Some (geo_nbrs ntotal ndim index r)).
  Proof.
    intros Hn Hd Hi Hr [Hp Hx].
    destruct (iroot_ceil_spec ntotal ndim ltac:(lia) Hd) as (He & _ & _).
    set (e := iroot_ceil ntotal ndim) in *.
    pose proof (edge_small ndim e Hd He Hx) as He'.
    unfold find_neighbors, nbr_guard. rewrite Hr.
    destruct (ndim <? 1) eqn:G1; [lia|]. destruct (ntotal <? 1) eqn:G2; [lia|].
    destruct (ntotal <? index) eqn:G3; [lia|]. cbn [orb].
    rewrite edge_length_is_iroot by (unfold two64; lia). fold e.
    unfold find_neighbors_with.
    rewrite decompose_index_digits by lia. cbn [rbind].
    change 0 with (Z.of_nat 0) at 1.
    rewrite nbr_scan_geo.
    - cbn [rbind]. unfold geo_nbrs, zseq. fold e. rewrite map_as_i32_id; [reflexivity|].
      rewrite Forall_forall. intros j Hj. apply filter_In in Hj as [Hj _].
      apply in_map_iff in Hj as (k & <- & Hk). apply in_seq in Hk. lia.
    - intros i Hi0. apply decompose_index_digits; lia.
    - intros i.
      pose proof (digits_coord_ok e (Z.to_nat ndim) index He) as C1.
      pose proof (digits_coord_ok e (Z.to_nat ndim) i He) as C2.
      pose proof (sqdist_bound _ _ _ _ C1 C2) as B. rewrite Z2Nat.id in B by lia.
      apply euclid_exact.
      + destruct C1 as [-> _], C2 as [-> _]. reflexivity.
      + eapply Forall_impl; [|exact (proj2 C1)]. cbn beta. unfold two24. intros; lia.
      + eapply Forall_impl; [|exact (proj2 C2)]. cbn beta. unfold two24. intros; lia.
      + lia.
  Qed.

  Lemma in_geo_nbrs ntotal ndim index r j :
    In j (geo_nbrs ntotal ndim index r) <->
    0 <= j < ntotal /\
    within (sqdist (digits (iroot_ceil ntotal ndim) (Z.to_nat ndim) index)
                   (digits (iroot_ceil ntotal ndim) (Z.to_nat ndim) j)) r = true.
  Proof.
    unfold geo_nbrs, zseq. rewrite filter_In, in_map_iff. split.
    - intros [(k & <- & Hk) Hw]. apply in_seq in Hk. split; [lia|exact Hw].
    - intros [Hj Hw]. split; [|exact Hw]. exists (Z.to_nat j). split; [lia|]. apply in_seq. lia.
  Qed.

  Lemma within_zero r : fle f_zero r = true -> within 0 r = true.
  Proof. intros H. unfold within. rewrite fie_zero, fie_sqrt_zero. exact H. Qed.

  Lemma nbr_contains_centre_lemma p ntotal ndim index r :
    1 <= ntotal <= 2147483648 -> 1 <= ndim -> 0 <= index < ntotal ->
    fle f_zero r = true -> sizes_ok ntotal ndim ->
    exists l, find_neighbors p ntotal ndim index r = Ok (Some l) /\ In index l.
  Proof.
    intros Hn Hd Hi Hr Hs. eexists. split.
    - apply nbr_is_geometric_set_lemma; try assumption. apply fie_nonneg_guard. exact Hr.
    - apply in_geo_nbrs. split; [lia|]. rewrite sqdist_refl. apply within_zero. exact Hr.
  Qed.

  Lemma nbr_symmetric_lemma p ntotal ndim i j r :
    1 <= ntotal <= 2147483648 -> 1 <= ndim -> 0 <= i < ntotal -> 0 <= j < ntotal ->
    flt r f_zero = false -> sizes_ok ntotal ndim ->
    exists li lj, find_neighbors p ntotal ndim i r = Ok (Some li) /\
                  find_neighbors p ntotal ndim j r = Ok (Some lj) /\
                  (In j li <-> In i lj).
  Proof.
    intros Hn Hd Hi Hj Hr Hs. do 2 eexists.
    split; [apply nbr_is_geometric_set_lemma; assumption|].
    split; [apply nbr_is_geometric_set_lemma; assumption|].
    rewrite !in_geo_nbrs, (sqdist_sym (digits _ _ i)). tauto.
  Qed.

  Lemma profile_independent_lemma ntotal ndim index r :
    1 <= ntotal <= 2147483648 -> 1 <= ndim -> 0 <= index < ntotal ->
    flt r f_zero = false -> sizes_ok ntotal ndim ->
    find_neighbors Debug ntotal ndim index r = find_neighbors Release ntotal ndim index r.
  Proof. intros. rewrite !nbr_is_geometric_set_lemma by assumption. reflexivity. Qed.

  (* points closer than a point inside the radius are inside too *)
  Lemma within_antitone_lemma D1 D2 r :
    0 <= D1 -> D1 <= D2 -> D2 < two24 -> within D2 r = true -> within D1 r = true.
  Proof.
    unfold within. intros H0 H1 H2 Hw.
    eapply fie_le_trans; [apply fie_sqrt_mono; eassumption|exact Hw].
  Qed.

  (* with an integer radius R the test is the integer one: D <= R^2 *)
  Lemma within_integer_radius_lemma D R :
    0 <= D < two24 -> 0 <= R < 4096 -> within D (f_of_usize R) = (D <=? R * R).
  Proof. intros. unfold within. apply fie_sqrt_int; assumption. Qed.
End Nbr.

(* more than 64 dimensions for more than one cell: no neighbourhood is computed (KnownClass 1) *)
Lemma known_large_ndim_lemma {FO : FloatOps} p ntotal ndim index r :
  2 <= ntotal < two64 -> 65 <= ndim -> find_neighbors p ntotal ndim index r = Ok None.
Proof.
  intros Hn Hd. unfold find_neighbors. destruct (nbr_guard ntotal ndim index r); [reflexivity|].
  unfold find_neighbors_with.
  rewrite edge_length_is_iroot by lia.
  destruct (iroot_ceil_spec ntotal ndim ltac:(lia) ltac:(lia)) as (He & Hup & _).
  assert (2 <= iroot_ceil ntotal ndim).
  { destruct (Z.eq_dec (iroot_ceil ntotal ndim) 1) as [E|]; [|lia].
    rewrite E, Z.pow_1_l in Hup by lia. lia. }
  unfold decompose_index. rewrite decompose_go_overflow; [reflexivity|assumption|lia|lia].
Qed.

(* The record of float facts is consistent: "floats" that are exact integers
   with a rounded-up integer square root satisfy every field. *)
Definition toy_ops : FloatOps := {|
  fadd := Z.add; fsub := Z.sub; fmul := Z.mul; fdiv := Z.div; frem := Z.rem;
  fcmp := fun a b => Some (a ?= b);
  f_of_i32 := fun z => z; f_to_i32 := fun z => z; f_of_usize := fun z => z; f_to_usize := fun z => z;
  fsqrt := Z.sqrt_up; fceil := fun z => z; fround := fun z => z; fabs := Z.abs; fneg := Z.opp;
  f_is_nan := fun _ => false; f_is_finite := fun _ => true;
  ffmt := fun _ _ => []; fparse := fun _ => None;
  flibm := fun _ key => let x := key / 4294967296 in Some (x * x);
|}.

Lemma toy_fle a b : @fle toy_ops a b = (a <=? b).
Proof. unfold fle. cbn [fcmp toy_ops]. destruct (Z.compare_spec a b); lia. Qed.

Lemma float_facts_consistent : FloatIntExact toy_ops.
Proof.
  constructor; intros; rewrite ?toy_fle; cbn [f_of_usize fadd fsub fmul fsqrt toy_ops] in *; try reflexivity.
  - unfold libm2, f_two. cbn [flibm toy_ops].
    rewrite Z.div_add_l by lia. change (1073741824 / 4294967296) with 0. rewrite Z.add_0_r. reflexivity.
  - apply Z.leb_le. apply Z.sqrt_up_le_mono. assumption.
  - destruct (Z.eq_dec D 0) as [->|].
    + change (Z.sqrt_up 0) with 0. lia.
    + pose proof (Z.sqrt_up_spec D ltac:(lia)) as S. pose proof (Z.sqrt_up_nonneg D) as N.
      set (q := Z.sqrt_up D) in *. unfold Z.pred in S. cbn zeta in S.
      destruct (q <=? R) eqn:E1; destruct (D <=? R * R) eqn:E2; try reflexivity.
      * apply Z.leb_le in E1. apply Z.leb_gt in E2. nia.
      * apply Z.leb_gt in E1. apply Z.leb_le in E2.
        assert (R * R <= (q - 1) * (q - 1)) by nia. replace (q + -1) with (q - 1) in S by lia. lia.
  - rewrite toy_fle in *. lia.
  - rewrite toy_fle in *. unfold flt. cbn [fcmp toy_ops]. unfold f_zero in *. destruct (Z.compare_spec r 0); lia.
Qed.

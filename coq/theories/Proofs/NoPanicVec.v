(* C01: the three vector families. *)
From Coq Require Import ZArith String List Bool Lia ZifyBool Permutation.
From PushModel Require Import Base.Sx Base.Machine Base.ListOps Base.F32 Model.Item Model.GraphT Model.State
  Model.InstrBase Model.ICode Model.Registry Model.IVector Model.RegistryVec
  Proofs.VecProofs Proofs.NoPanicBase Proofs.NoPanicItem Proofs.NoPanicTac.
Import ListNotations.
Open Scope Z_scope.

(* ---- element access never leaves the vector, whatever its length ---- *)
Section Access.
  Context {A : Type}.
  Variable P : A -> Prop.

  Lemma vclamp_range (v : list A) idx : 0 < zlen v -> 0 <= vclamp v idx < zlen v.
  Proof.
    intros H. unfold vclamp, len32. pose proof (wrap32_le (zlen v) ltac:(lia)). lia.
  Qed.
  Lemma vnth_in (v : list A) i : 0 <= i < zlen v -> exists x, vnth v i = Ok x /\ In x v.
  Proof.
    intros H. unfold vnth. replace ((0 <=? i) && (i <? zlen v)) with true by lia.
    destruct (nth_error v (Z.to_nat i)) eqn:E.
    - eexists; split; [reflexivity|]. eapply nth_error_In; eauto.
    - apply nth_error_None in E. unfold zlen in H. lia.
  Qed.
  Lemma vget_cases (v : list A) idx :
    vget v idx = Ok None \/ exists x, vget v idx = Ok (Some x) /\ In x v.
  Proof.
    unfold vget. destruct (0 <? zlen v) eqn:E; [|now left]. right.
    destruct (vnth_in v (vclamp v idx) (vclamp_range v idx ltac:(lia))) as (x & -> & I).
    cbn [rbind]. eauto.
  Qed.
  Lemma vget_not_panic (v : list A) idx : vget v idx = Panic -> False.
  Proof. destruct (vget_cases v idx) as [->|(x & -> & _)]; discriminate. Qed.
  Lemma vget_not_need (v : list A) idx fn a : vget v idx = Need fn a -> False.
  Proof. destruct (vget_cases v idx) as [->|(x & -> & _)]; discriminate. Qed.
  Lemma vget_P (v : list A) idx x : Forall P v -> vget v idx = Ok (Some x) -> P x.
  Proof.
    intros F E. destruct (vget_cases v idx) as [H|(y & H & I)]; rewrite H in E; inversion E; subst.
    rewrite Forall_forall in F. auto.
  Qed.
  Lemma vset_cases (v : list A) idx x : exists v', vset v idx x = Ok v' /\ (Forall P v -> P x -> Forall P v').
  Proof.
    unfold vset. destruct (0 <? zlen v) eqn:E; [|eauto].
    pose proof (vclamp_range v idx ltac:(lia)) as R. unfold vupd.
    replace ((0 <=? vclamp v idx) && (vclamp v idx <? zlen v)) with true by lia.
    eexists; split; [reflexivity|]. intros. now apply Forall_upd.
  Qed.
  Lemma vset_P (v : list A) idx x v' : Forall P v -> P x -> vset v idx x = Ok v' -> Forall P v'.
  Proof. intros F Hx E. destruct (vset_cases v idx x) as (v'' & H & I). rewrite H in E. inversion E; subst. auto. Qed.

  (* the element-wise loop keeps the accumulator inside P *)
  Lemma ov_loop_P (op : A -> A -> option A) :
    (forall x t y, op x t = Some y -> P y) ->
    forall top off size i acc inv, Forall P acc -> Forall P (fst (ov_loop op off size top i acc inv)).
  Proof.
    intros Hop. induction top as [|t r IH]; intros off size i acc inv F; cbn [ov_loop]; [exact F|].
    destruct (offset_index i off size); [|now apply IH].
    destruct (nth_error acc (Z.to_nat z)) eqn:N; [|now apply IH].
    destruct (op a t) eqn:O; [|now apply IH].
    apply IH. apply Forall_upd; eauto.
  Qed.
  Lemma overlay_run_P (op : A -> A -> option A) second top off v :
    (forall x t y, op x t = Some y -> P y) -> Forall P second -> overlay_run op second top off = Some v -> Forall P v.
  Proof.
    intros Hop F. unfold overlay_run.
    pose proof (ov_loop_P op Hop top off (zlen second) 0 second false F) as H.
    destruct (ov_loop op off (zlen second) top 0 second false) as [v' inv]. cbn [fst] in H.
    destruct inv; [discriminate|]. intros E; inversion E; subst; exact H.
  Qed.

  Lemma Forall_stable_sort (le : A -> A -> bool) l : Forall P l -> Forall P (stable_sort le l).
  Proof. apply Forall_perm. apply stable_sort_perm. Qed.
  Lemma Forall_rotate_in l x : Forall P l -> P x -> Forall P (rotate_in l x).
  Proof. intros F Hx. unfold rotate_in. destruct F; auto using Forall_snoc. Qed.
End Access.

Lemma vset_not_panic {A} (v : list A) idx x : vset v idx x = Panic -> False.
Proof. destruct (vset_cases (fun _ => True) v idx x) as (v' & -> & _); discriminate. Qed.

Lemma wf_bool_index v i : Forall wf_z (bool_index v i).
Proof. revert i. induction v as [|b r IH]; intros i; cbn [bool_index]; [constructor|]. destruct b; auto using wf_wrap32. Qed.
Lemma wf_wsum32 v : wf_z (wsum32 v).
Proof. rewrite wsum32_spec. apply wf_wrap32. Qed.

#[export] Hint Resolve wf_bool_index wf_wsum32 Forall_stable_sort Forall_rotate_in : wf.
#[export] Hint Extern 2 (wf_z ?x) =>
  match goal with H : vget _ _ = Ok (Some x) |- _ => eapply vget_P; [|exact H] end : wf.
#[export] Hint Extern 2 (Forall wf_z ?x) =>
  match goal with H : vset _ _ _ = Ok x |- _ => eapply vset_P; [| |exact H] end : wf.

#[export] Hint Extern 2 (Forall wf_z ?x) =>
  match goal with H : overlay_run _ _ _ _ = Some x |- _ =>
    eapply overlay_run_P; [| |exact H];
      [ let a := fresh in let b := fresh in let c := fresh in let Q := fresh in
        cbv beta; intros a b c Q; inversion Q; subst; auto with wf | ] end : wf.
#[export] Hint Resolve vget_not_panic vset_not_panic : nopanic.

Ltac unf_vec :=
  cbv beta iota zeta delta [
    g_dup g_pop g_swap g_rot g_flush g_depth g_yank g_shove g_yankdup g_define
    vec_get vec_set vec_overlay vec_equal vec_length vec_fill vec_empty vec_map_top vec_rotate vec_append
    bvec_id bvec_get bvec_set bvec_and bvec_or bvec_not bvec_equal bvec_length bvec_ones bvec_zeros bvec_rotate
    bvec_sort_asc bvec_sort_desc bvec_count
    ivec_id ivec_append ivec_bool_index ivec_get ivec_set ivec_arith ivec_add ivec_sub ivec_contains ivec_empty ivec_equal
    ivec_from_int ivec_length ivec_loop ivec_mean ivec_sum ivec_ones ivec_zeros ivec_remove ivec_rotate ivec_set_insert
    ivec_sort_asc ivec_sort_desc
    fvec_id fvec_append fvec_get fvec_set fvec_arith fvec_add fvec_sub fvec_mul fvec_div fvec_mul_scalar fvec_empty
    fvec_equal fvec_length fvec_mean fvec_sum fvec_ones fvec_zeros fvec_rotate fvec_sine fvec_sort_asc fvec_sort_desc
    lit_bvec lit_ivec lit_fvec
    push_int push_bool push_float push_code push_exec push_name rbind
    set_bool set_code set_exec set_float set_index set_int set_name set_bvec set_fvec set_ivec set_input set_output
    set_graph set_bind set_cfg set_quote set_send
    st_bool st_code st_exec st_float st_index st_int st_name st_bvec st_fvec st_ivec st_input st_output
    st_graph st_bind st_cfg st_quote st_send].

Lemma sine_loop_not_panic {FO : FloatOps} a x phi k i : sine_loop a x phi k i = Panic -> False.
Proof.
  revert i. induction k as [|k IH]; intros i; cbn [sine_loop]; [discriminate|].
  unfold libm1. destruct (flibm FN_SIN _); cbn [rbind]; [|discriminate].
  destruct (sine_loop a x phi k (i + 1)) eqn:E; cbn [rbind]; try discriminate. intros _. eapply IH; eauto.
Qed.
#[export] Hint Resolve sine_loop_not_panic : nopanic.

Section Vec.
  Context {FO : FloatOps}.

  Lemma table_safe_filter (f : string * sem -> bool) t : table_safe t -> table_safe (filter f t).
  Proof. apply Forall_filter. Qed.

  Lemma bvec_stack_safe : table_safe (stack_family "BOOLVECTOR" st_bvec set_bvec).
  Proof. unfold table_safe, stack_family. table_walk unf_vec. Qed.
  Lemma bvec_safe : table_safe tbl_bvec.
  Proof.
    unfold tbl_bvec, vec_stack_family. apply table_safe_app; [apply table_safe_filter, bvec_stack_safe|].
    unfold table_safe. table_walk unf_vec.
  Qed.

  Lemma ivec_stack_safe : table_safe (stack_family "INTVECTOR" st_ivec set_ivec).
  Proof. unfold table_safe, stack_family. table_walk unf_vec. Qed.
  Lemma ivec_safe : table_safe tbl_ivec.
  Proof.
    unfold tbl_ivec, vec_stack_family. apply table_safe_app; [apply table_safe_filter, ivec_stack_safe|].
    unfold table_safe. table_walk unf_vec.
  Qed.

  Lemma fvec_stack_safe : table_safe (stack_family "FLOATVECTOR" st_fvec set_fvec).
  Proof. unfold table_safe, stack_family. table_walk unf_vec. Qed.
  Lemma fvec_safe : table_safe tbl_fvec.
  Proof.
    unfold tbl_fvec, vec_stack_family. apply table_safe_app; [apply table_safe_filter, fvec_stack_safe|].
    unfold table_safe. table_walk unf_vec.
  Qed.
End Vec.

(* C14: determinism and isolation — the interpreter level.
   (1) the registry entries that are not world-reading ignore the world;
   (2) one step keeps "nothing selected occurs in the state" (names are closed);
   (3) hence runs from a state that mentions no world-reading instruction do not
       depend on the world, and runs that mention no CODE.INSERT (or hold only
       i32 integers there) do not depend on the build profile. *)
From Coq Require Import ZArith String List Bool Lia ZifyBool.
From PushModel Require Import Base.Sx Base.Machine Base.ListOps Base.F32 Model.Item Model.GraphT Model.State
  Model.InstrBase Model.IScalar Model.ICode Model.IVector Model.IList Model.IIo Model.IGraph
  Model.Topology Model.INeighbor Model.RandomGen Model.IRand
  Model.Registry Model.Interp Model.RegistryVec Model.RegistryListIo Model.RegistryGraph Model.RegistryNbr
  Model.RegistryRand Model.RegistryAll
  Spec.DetSpec Proofs.NameProofs Proofs.DeterminismItems Proofs.DeterminismInv Proofs.DeterminismWalk
  Proofs.DeterminismProfile.
Import ListNotations.
Open Scope Z_scope.
Open Scope string_scope.

(* ---------------------------------------------------------------------- *)
(* results compared up to a relation *)
Definition res_rel {A} (R : A -> A -> Prop) (r1 r2 : res A) : Prop :=
  match r1, r2 with
  | Ok a, Ok b => R a b
  | Panic, Panic => True
  | Need f x, Need g y => f = g /\ x = y
  | _, _ => False
  end.

(* the state (and completion flag) of an interpreter result, the world dropped *)
Definition drop_world {A} (r : res (A * world * state)) : res (A * state) :=
  rmap (fun x => (fst (fst x), snd x)) r.

Lemma res_rel_drop_world {A} (W : world -> world -> Prop) (r1 r2 : res (A * world * state)) :
  res_rel (fun a b => fst (fst a) = fst (fst b) /\ W (snd (fst a)) (snd (fst b)) /\ snd a = snd b) r1 r2 ->
  drop_world r1 = drop_world r2.
Proof.
  destruct r1 as [[[a w1] s1]| |], r2 as [[[b w2] s2]| |]; cbn; try tauto.
  - intros (-> & _ & ->). reflexivity.
  - intros [-> ->]. reflexivity.
Qed.

(* the entries whose result can depend on the build profile:
   CODE.INSERT        (usize subtraction in Item::insert; agrees for i32 operands, below)
   LIST.NEIGHBOR*     (powf(d, 2.0) vs d * d in Topology; agree under C20_profile_independent's condition)
   BOOLVECTOR.RAND    (`num_active_bits + 1` is a checked i32 addition) *)
Definition profile_exceptions : list string :=
  [ "CODE.INSERT"; "LIST.NEIGHBOR*IDS"; "LIST.NEIGHBOR*BVALS"; "LIST.NEIGHBOR*IVALS"; "LIST.NEIGHBOR*FVALS";
    "BOOLVECTOR.RAND" ].

(* ---------------------------------------------------------------------- *)
(* (1) pure entries ignore the world; which entries ignore the profile *)
Definition ignores_world (f : sem) : Prop :=
  forall p w1 w2 s,
    f p w2 s = rmap (fun r => (w2, snd r)) (f p w1 s) /\
    (forall w' s', f p w1 s = Ok (w', s') -> w' = w1).

Definition profile_blind (f : sem) : Prop := forall w s, f Debug w s = f Release w s.

Section Sems.
  Context {FO : FloatOps}.

  Lemma pure_ignores_world g : ignores_world (pure g).
  Proof.
    intros p w1 w2 s. unfold pure. destruct (g s) as [s0| |]; cbn [rbind rmap snd]; split; try reflexivity; try discriminate.
    intros w' s' H. now inversion H.
  Qed.
  Lemma purep_ignores_world g : ignores_world (purep g).
  Proof.
    intros p w1 w2 s. unfold purep. destruct (g p s) as [s0| |]; cbn [rbind rmap snd]; split; try reflexivity; try discriminate.
    intros w' s' H. now inversion H.
  Qed.

  Ltac world_entry :=
    cbn [fst snd];
    first [ intros _; apply pure_ignores_world
          | intros _; apply purep_ignores_world
          | let H := fresh in intros H; vm_compute in H; discriminate H ].

  Theorem pure_sems_ignore_world :
    Forall (fun e => world_reading (fst e) = false -> ignores_world (snd e)) full_table.
  Proof.
    unfold full_table, base_table, tbl_core, tbl_boolean, tbl_integer, tbl_float, tbl_name, tbl_code, tbl_exec, tbl_index,
      tbl_bvec, tbl_ivec, tbl_fvec, vec_stack_family, stack_family, tbl_list, tbl_io, tbl_graph, tbl_nbr, tbl_rand.
    cbn [map all_ginstr ginstr_name ginstr_sem].
    walk_with world_entry.
  Qed.

  Lemma purep_extract_blind : profile_blind (purep code_extract).
  Proof. intros w s. unfold purep. now rewrite (code_extract_profile Release). Qed.

  Ltac profile_entry :=
    cbn [fst snd];
    first [ intros _ w s; reflexivity
          | intros _; exact purep_extract_blind
          | let H := fresh in intros H; vm_compute in H; discriminate H ].

  (* every entry outside [profile_exceptions] is blind to the profile, on every state *)
  Theorem sems_profile_blind :
    Forall (fun e => lit_in profile_exceptions (fst e) = false -> profile_blind (snd e)) full_table.
  Proof.
    unfold full_table, base_table, tbl_core, tbl_boolean, tbl_integer, tbl_float, tbl_name, tbl_code, tbl_exec, tbl_index,
      tbl_bvec, tbl_ivec, tbl_fvec, vec_stack_family, stack_family, tbl_list, tbl_io, tbl_graph, tbl_nbr, tbl_rand.
    cbn [map all_ginstr ginstr_name ginstr_sem].
    walk_with profile_entry.
  Qed.

  (* CODE.INSERT is blind to it on the states whose index operand is an i32 *)
  Theorem insert_profile_blind w s : insert_operand_ok s ->
    purep code_insert Debug w s = purep code_insert Release w s.
  Proof. intros H. unfold purep. now rewrite (code_insert_profile Release s H). Qed.

  (* LIST.NEIGHBOR*: blind whenever the neighbourhood search itself is (C20_profile_independent) *)
  Definition nbr_operands_agree (vals : bool) (s : state) : Prop :=
    match (if vals then tl (st_int s) else st_int s), st_float s with
    | t2 :: t1 :: t0 :: _, fv :: _ => nbr_call Debug t2 t1 t0 fv = nbr_call Release t2 t1 t0 fv
    | _, _ => True
    end.
  Theorem neighbor_ids_profile_blind w s : nbr_operands_agree false s ->
    purep list_neighbor_ids Debug w s = purep list_neighbor_ids Release w s.
  Proof.
    unfold nbr_operands_agree, purep, list_neighbor_ids. cbn [tl].
    destruct (st_int s) as [|t2 [|t1 [|t0 r]]]; try reflexivity.
    replace (st_float (set_int s r)) with (st_float s) by (destruct s; reflexivity).
    destruct (st_float s) as [|fv fr]; [reflexivity|]. intros ->. reflexivity.
  Qed.
  Theorem neighbor_vals_profile_blind {A} (f : item -> Z -> A) push w s : nbr_operands_agree true s ->
    purep (list_neighbor_vals f push) Debug w s = purep (list_neighbor_vals f push) Release w s.
  Proof.
    unfold nbr_operands_agree, purep, list_neighbor_vals.
    destruct (st_int s) as [|t3 [|t2 [|t1 [|t0 r]]]]; try reflexivity. cbn [tl].
    replace (st_float (set_int s r)) with (st_float s) by (destruct s; reflexivity).
    destruct (st_float s) as [|fv fr]; [reflexivity|]. intros ->. reflexivity.
  Qed.
End Sems.

(* ---------------------------------------------------------------------- *)
(* registry lookup: the entry found carries the name looked up *)
Lemma lookup_in_named (tbl : list (string * sem)) n f :
  lookup (mk_registry tbl) n = Some f -> exists k, In (k, f) tbl /\ n = s2l k.
Proof.
  induction tbl as [|[k v] r IH]; [discriminate|].
  unfold mk_registry in *. cbn [map lookup fst snd].
  destruct (str_eqb n (s2l k)) eqn:E.
  - intros H; inversion H; subst. exists k. split; [now left|]. now apply str_eqb_eq.
  - intros H. destruct (IH H) as (k2 & Hk & Hn). exists k2. split; [now right|assumption].
Qed.

Lemma name_in_spec names n : name_in names n = true <-> exists m, In m names /\ n = s2l m.
Proof.
  unfold name_in. rewrite existsb_exists. split; intros (m & Hm & E); exists m; split; try assumption.
  - now apply str_eqb_eq.
  - subst. apply str_eqb_refl.
Qed.

Lemma lit_in_name_in names nm : name_in names (s2l nm) = false -> lit_in names nm = false.
Proof.
  intros H. destruct (lit_in names nm) eqn:E; [|reflexivity].
  unfold lit_in in E. apply existsb_exists in E as (m & Hm & Em). apply String.eqb_eq in Em. subst m.
  assert (name_in names (s2l nm) = true) by (apply name_in_spec; eauto). congruence.
Qed.
Lemma world_reading_name_in nm : name_in world_reading_names (s2l nm) = false -> world_reading nm = false.
Proof. apply lit_in_name_in. Qed.

(* ---------------------------------------------------------------------- *)
(* (2) one interpreter step keeps the invariant *)
Definition synth_ok (qi qn : str -> bool) : Prop :=
  (forall x, qn x = false) \/ Forall (fun nm => qi (s2l nm) = true) name_synth_names.

Section Step.
  Context {FO : FloatOps}.
  Variables qi qn : str -> bool.
  Hypothesis HR : rearm_ok qi.
  Hypothesis HS : synth_ok qi qn.
  Hypothesis HX : except_ok qi.

  Lemma push_lit_sinv s v : sinv qi qn s -> sinv qi qn (push_lit s v).
  Proof. intros I. destruct v; exact I. Qed.

  Lemma step_keeps p w s fin w' s' :
    sinv qi qn s -> step p full_registry w s = Ok (fin, w', s') -> sinv qi qn s'.
  Proof.
    intros I H. unfold step in H.
    destruct s as [sb sc se sf six si sn sbv sfv siv sin sout sg sbd scf sq ssd].
    pose proof I as I0. unfold sinv in I; st_cbn_in I; destruct I as (Ie & Ic & Ib & In).
    st_cbn_in H. destruct se as [|t r]; [inversion H; subst; exact I0|].
    inversion Ie as [|? ? Ht Hr]; subst.
    destruct t as [l|n|v|n].
    - inversion H; subst. unfold sinv; st_cbn. repeat split; try assumption.
      apply Forall_app; split; [now apply iok_list_to|assumption].
    - destruct (lookup full_registry n) as [f|] eqn:L.
      + destruct (lookup_in_named _ _ _ L) as (k & Hin & ->).
        match type of H with (let! r := ?c in _) = _ => destruct c as [[w1 s1]| |] eqn:Ef end;
          cbn [rbind fst snd] in H; try discriminate. inversion H; subst.
        assert (NX : closure_exception k = false).
        { destruct (closure_exception k) eqn:EX; [|reflexivity]. exfalso.
          unfold closure_exception, lit_in in EX. apply existsb_exists in EX as (m & Hm & Em).
          apply String.eqb_eq in Em. subst m. unfold except_ok in HX. rewrite Forall_forall in HX.
          specialize (HX _ Hm). unfold iok in Ht. cbn [occurs] in Ht. congruence. }
        pose proof (proj1 (Forall_forall _ _) full_table_keeps _ Hin NX) as K.
        refine (K qi qn HR _ p w _ _ _ _ Ef); [|unfold sinv; st_cbn; repeat split; assumption].
        cbn [fst]. intros Hsyn. destruct HS as [HS1|HS1]; [exact HS1|].
        exfalso. unfold name_synth in Hsyn. apply existsb_exists in Hsyn as (m & Hm & Em).
        apply String.eqb_eq in Em. subst m.
        rewrite Forall_forall in HS1. specialize (HS1 _ Hm). unfold iok in Ht. cbn [occurs] in Ht. congruence.
      + inversion H; subst. unfold sinv; st_cbn; repeat split; assumption.
    - inversion H; subst. apply push_lit_sinv. unfold sinv; st_cbn; repeat split; assumption.
    - st_cbn_in H. destruct sq.
      + inversion H; subst. unfold sinv; st_cbn. repeat split; try assumption. constructor; [exact Ht|assumption].
      + destruct (bind_get sbd n) as [b|] eqn:Eb; inversion H; subst; unfold sinv; st_cbn; repeat split; try assumption.
        * constructor; [eapply bok_get; eauto|assumption].
        * constructor; [exact Ht|assumption].
  Qed.

  Lemma steps_keeps p k : forall w s fin w' s',
    sinv qi qn s -> steps p full_registry k w s = Ok (fin, w', s') -> sinv qi qn s'.
  Proof.
    induction k as [|k IH]; intros w s fin w' s' I H; cbn [steps] in H.
    - inversion H; subst. exact I.
    - destruct (step p full_registry w s) as [[[f1 w1] s1]| |] eqn:Es; cbn [rbind] in H; try discriminate.
      pose proof (step_keeps _ _ _ _ _ _ I Es) as I1.
      destruct f1; [inversion H; subst; exact I1|eauto].
  Qed.

  Lemma copy_to_code_sinv s : sinv qi qn s -> sinv qi qn (copy_to_code s).
  Proof.
    intros (Ie & Ic & Ib & In). unfold copy_to_code, sinv; st_cbn. repeat split; try assumption.
    apply Forall_app; split; assumption.
  Qed.

  Lemma run_loop_keeps p clock fuel : forall c w s o w' s',
    sinv qi qn s -> run_loop p full_registry clock fuel c w s = Ok (o, w', s') -> sinv qi qn s'.
  Proof.
    induction fuel as [|f IH]; intros c w s o w' s' I H; cbn [run_loop] in H.
    - inversion H; subst. exact I.
    - destruct (_ <? c)%Z; [inversion H; subst; exact I|].
      destruct (_ <? clock c)%Z; [inversion H; subst; exact I|].
      destruct (step p full_registry w s) as [[[f1 w1] s1]| |] eqn:Es; cbn [rbind] in H; try discriminate.
      pose proof (step_keeps _ _ _ _ _ _ I Es) as I1.
      destruct f1; [inversion H; subst; exact I1|].
      destruct (_ <? _)%Z; [inversion H; subst; exact I1|eauto].
  Qed.
End Step.

(* ---------------------------------------------------------------------- *)
(* (3) two executions that agree entry by entry agree run by run *)
Section Agree.
  Context {FO : FloatOps}.
  Variable qi : str -> bool.
  Hypothesis HR : rearm_ok qi.
  Hypothesis HX : except_ok qi.
  Variables p1 p2 : profile.
  Variable W : world -> world -> Prop.

  Definition sem_agree (f : sem) : Prop :=
    forall w1 w2 s, W w1 w2 ->
      res_rel (fun a b => W (fst a) (fst b) /\ snd a = snd b) (f p1 w1 s) (f p2 w2 s).

  (* every entry whose name is not selected by qi agrees *)
  Hypothesis HA : forall nm f, In (nm, f) full_table -> qi (s2l nm) = false -> sem_agree f.

  Definition out_rel {A} (a b : A * world * state) : Prop :=
    fst (fst a) = fst (fst b) /\ W (snd (fst a)) (snd (fst b)) /\ snd a = snd b.

  Lemma step_agree w1 w2 s : W w1 w2 -> sinv qi nowhere s ->
    res_rel out_rel (step p1 full_registry w1 s) (step p2 full_registry w2 s).
  Proof.
    intros Hw (Ie & _). unfold step. destruct (st_exec s) as [|t r]; [cbn; unfold out_rel; cbn; auto|].
    inversion Ie as [|? ? Ht Hr]; subst.
    destruct t as [l|n|v|n]; try (cbn; unfold out_rel; cbn; auto; fail).
    - destruct (lookup full_registry n) as [f|] eqn:L; [|cbn; unfold out_rel; cbn; auto].
      destruct (lookup_in_named _ _ _ L) as (k & Hin & ->).
      pose proof (HA _ _ Hin Ht (w1) (w2) (set_exec s r) Hw) as A.
      destruct (f p1 w1 (set_exec s r)) as [[w1' s1']| |], (f p2 w2 (set_exec s r)) as [[w2' s2']| |];
        cbn in A |- *; try tauto.
      unfold out_rel; cbn. tauto.
    - destruct (st_quote (set_exec s r)); [cbn; unfold out_rel; cbn; auto|].
      destruct (bind_get _ n); cbn; unfold out_rel; cbn; auto.
  Qed.

  Lemma nowhere_synth_ok : synth_ok qi nowhere.
  Proof. left. reflexivity. Qed.

  Lemma steps_agree k : forall w1 w2 s, W w1 w2 -> sinv qi nowhere s ->
    res_rel out_rel (steps p1 full_registry k w1 s) (steps p2 full_registry k w2 s).
  Proof.
    induction k as [|k IH]; intros w1 w2 s Hw I; cbn [steps].
    - cbn. unfold out_rel; cbn. auto.
    - pose proof (step_agree w1 w2 s Hw I) as A.
      destruct (step p1 full_registry w1 s) as [[[f1 w1'] s1]| |] eqn:E1,
               (step p2 full_registry w2 s) as [[[f2 w2'] s2]| |] eqn:E2; cbn in A; cbn [rbind]; try (cbn; tauto).
      destruct A as (A1 & A2 & A3). cbn in A1, A2, A3. subst f2 s2.
      destruct f1; [cbn; unfold out_rel; cbn; auto|].
      apply IH; [assumption|]. eapply step_keeps; [exact HR|exact nowhere_synth_ok|exact HX|exact I|exact E1].
  Qed.

  Lemma run_loop_agree clock fuel : forall c w1 w2 s, W w1 w2 -> sinv qi nowhere s ->
    res_rel out_rel (run_loop p1 full_registry clock fuel c w1 s) (run_loop p2 full_registry clock fuel c w2 s).
  Proof.
    induction fuel as [|f IH]; intros c w1 w2 s Hw I; cbn [run_loop].
    - cbn. unfold out_rel; cbn. auto.
    - destruct (_ <? c)%Z; [cbn; unfold out_rel; cbn; auto|].
      destruct (_ <? clock c)%Z; [cbn; unfold out_rel; cbn; auto|].
      pose proof (step_agree w1 w2 s Hw I) as A.
      destruct (step p1 full_registry w1 s) as [[[f1 w1'] s1]| |] eqn:E1,
               (step p2 full_registry w2 s) as [[[f2 w2'] s2]| |] eqn:E2; cbn in A; cbn [rbind]; try (cbn; tauto).
      destruct A as (A1 & A2 & A3). cbn in A1, A2, A3. subst f2 s2.
      destruct f1; [cbn; unfold out_rel; cbn; auto|].
      destruct (_ <? _)%Z; [cbn; unfold out_rel; cbn; auto|].
      apply IH; [assumption|]. eapply step_keeps; [exact HR|exact nowhere_synth_ok|exact HX|exact I|exact E1].
  Qed.

  Lemma run_agree clock w1 w2 s : W w1 w2 -> sinv qi nowhere s ->
    res_rel out_rel (run p1 full_registry clock w1 s) (run p2 full_registry clock w2 s).
  Proof.
    intros Hw I. unfold run. apply run_loop_agree; [assumption|]. now apply copy_to_code_sinv.
  Qed.
End Agree.

(* ---------------------------------------------------------------------- *)
(* instances *)
Lemma rearm_ok_names names :
  (forall n, In n rearm_names -> name_in names (s2l n) = false) -> rearm_ok (name_in names).
Proof. intros H. unfold rearm_ok. apply Forall_forall. exact H. Qed.

Lemma rearm_ok_world : rearm_ok (name_in world_reading_names).
Proof. unfold rearm_ok, rearm_names. repeat constructor. Qed.

Lemma except_ok_world : except_ok (name_in world_reading_names).
Proof. unfold except_ok, closure_exceptions. repeat constructor. Qed.

(* whole executions are profile-independent for states that mention neither a
   profile exception nor CODE.RAND (which could build one) *)
Definition profile_names : list string := profile_exceptions ++ closure_exceptions.
Lemma except_ok_profile : except_ok (name_in profile_names).
Proof. unfold except_ok, closure_exceptions. repeat constructor. Qed.
Lemma except_ok_both : except_ok (name_in (world_reading_names ++ profile_names)).
Proof. unfold except_ok, closure_exceptions. repeat constructor. Qed.
Lemma rearm_ok_profile : rearm_ok (name_in profile_names).
Proof. unfold rearm_ok, rearm_names. repeat constructor. Qed.
Lemma rearm_ok_both : rearm_ok (name_in (world_reading_names ++ profile_names)).
Proof. unfold rearm_ok, rearm_names. repeat constructor. Qed.

Lemma name_in_app a b n : name_in (a ++ b) n = name_in a n || name_in b n.
Proof. unfold name_in. apply existsb_app. Qed.

Lemma profile_name_in nm : name_in profile_names (s2l nm) = false -> lit_in profile_exceptions nm = false.
Proof.
  intros H. apply lit_in_name_in. unfold profile_names in H. rewrite name_in_app in H.
  now apply orb_false_iff in H as [H _].
Qed.

Section Main.
  Context {FO : FloatOps}.

  Lemma mentions_sinv names s : mentions_b names s = false <-> sinv (name_in names) nowhere s.
  Proof. unfold mentions_b. apply sinv_iff. Qed.

  (* entries that ignore the world agree across worlds (same profile) *)
  Lemma world_agree p nm f : In (nm, f) full_table -> name_in world_reading_names (s2l nm) = false ->
    sem_agree p p (fun _ _ => True) f.
  Proof.
    intros Hin Hn w1 w2 s _.
    pose proof (proj1 (Forall_forall _ _) pure_sems_ignore_world _ Hin (world_reading_name_in _ Hn)) as G.
    cbn [snd] in G. destruct (G p w1 w2 s) as [G1 _]. rewrite G1.
    destruct (f p w1 s) as [[w1' s1]| |]; cbn; auto.
  Qed.

  (* entries that are blind to the profile agree across profiles (same world) *)
  Lemma profile_agree nm f : In (nm, f) full_table -> name_in profile_names (s2l nm) = false ->
    sem_agree Debug Release eq f.
  Proof.
    intros Hin Hn w1 w2 s <-.
    pose proof (proj1 (Forall_forall _ _) sems_profile_blind _ Hin (profile_name_in _ Hn)) as G.
    cbn [snd] in G. rewrite <- (G w1 s).
    destruct (f Debug w1 s) as [[w1' s1]| |]; cbn; auto.
  Qed.

  (* both at once *)
  Lemma both_agree nm f : In (nm, f) full_table ->
    name_in (world_reading_names ++ profile_names) (s2l nm) = false ->
    sem_agree Debug Release (fun _ _ => True) f.
  Proof.
    intros Hin Hn w1 w2 s _. rewrite name_in_app in Hn. apply orb_false_iff in Hn as [Hw Hp].
    pose proof (proj1 (Forall_forall _ _) sems_profile_blind _ Hin (profile_name_in _ Hp)) as G.
    pose proof (proj1 (Forall_forall _ _) pure_sems_ignore_world _ Hin (world_reading_name_in _ Hw)) as G2.
    cbn [snd] in G, G2. destruct (G2 Release w1 w2 s) as [G3 _]. rewrite G3, <- (G w1 s).
    destruct (f Debug w1 s) as [[w1' s1]| |]; cbn; auto.
  Qed.

  Theorem instr_names_closed_lemma : forall p w s fin w' s',
    no_world_reading s -> step p full_registry w s = Ok (fin, w', s') -> no_world_reading s'.
  Proof.
    intros p w s fin w' s' N H. unfold no_world_reading in *. apply mentions_sinv in N. apply mentions_sinv.
    eapply step_keeps; [exact rearm_ok_world|left; reflexivity|exact except_ok_world|exact N|exact H].
  Qed.

  (* the general form: the set of instruction names of the state gains at most the re-arm names *)
  Theorem instr_names_closed_general : forall p w s fin w' s' n,
    instr_name_in_state s (s2l "CODE.RAND") = false ->
    step p full_registry w s = Ok (fin, w', s') ->
    instr_name_in_state s' n = true ->
    instr_name_in_state s n = true \/ name_in rearm_names n = true.
  Proof.
    intros p w s fin w' s' n HCR H Hn.
    set (qi := fun m => negb (instr_name_in_state s m || name_in rearm_names m)).
    assert (HRq : rearm_ok qi).
    { unfold rearm_ok. apply Forall_forall. intros m Hm. unfold qi.
      assert (E : name_in rearm_names (s2l m) = true) by (apply name_in_spec; eauto).
      now rewrite E, orb_true_r. }
    assert (I : sinv qi nowhere s).
    { apply sinv_iff. destruct (occurs_state qi nowhere s) eqn:E; [|reflexivity].
      destruct (occurs_state_witness _ _ E) as (m & Hm & Ho). unfold qi in Hm.
      unfold instr_name_in_state in Hm. unfold is_name in Ho. rewrite Ho in Hm. discriminate. }
    assert (HXq : except_ok qi).
    { unfold except_ok, closure_exceptions. constructor; [|constructor]. unfold qi. now rewrite HCR. }
    pose proof (step_keeps qi nowhere HRq (or_introl (fun _ => eq_refl)) HXq _ _ _ _ _ _ I H) as I'.
    apply sinv_iff in I'.
    destruct (qi n) eqn:Eq.
    - exfalso. unfold instr_name_in_state in Hn.
      assert (M : occurs_state qi nowhere s' = true).
      { eapply occurs_state_mono; [|exact Hn]. intros m Em. apply str_eqb_eq in Em. now subst. }
      congruence.
    - unfold qi in Eq. apply negb_false_iff in Eq. now apply orb_true_iff in Eq.
  Qed.

  Theorem world_independent_steps : forall p w1 w2 k s, no_world_reading s ->
    drop_world (steps p full_registry k w1 s) = drop_world (steps p full_registry k w2 s).
  Proof.
    intros p w1 w2 k s N. apply mentions_sinv in N.
    apply (res_rel_drop_world (fun _ _ => True)).
    exact (steps_agree _ rearm_ok_world except_ok_world p p (fun _ _ => True) (world_agree p) k w1 w2 s I N).
  Qed.

  Theorem world_independent_run : forall p clock w1 w2 s, no_world_reading s ->
    drop_world (run p full_registry clock w1 s) = drop_world (run p full_registry clock w2 s).
  Proof.
    intros p clock w1 w2 s N. apply mentions_sinv in N.
    apply (res_rel_drop_world (fun _ _ => True)).
    exact (run_agree _ rearm_ok_world except_ok_world p p (fun _ _ => True) (world_agree p) clock w1 w2 s I N).
  Qed.

  Theorem profile_independent_steps : forall w k s, mentions_b profile_names s = false ->
    steps Debug full_registry k w s = steps Release full_registry k w s.
  Proof.
    intros w k s N. apply mentions_sinv in N.
    pose proof (steps_agree _ rearm_ok_profile except_ok_profile Debug Release eq profile_agree k w w s eq_refl N) as A.
    destruct (steps Debug full_registry k w s) as [[[f1 w1] s1]| |],
             (steps Release full_registry k w s) as [[[f2 w2] s2]| |]; cbn in A; try tauto.
    - destruct A as (A1 & A2 & A3). cbn in *. now subst.
    - destruct A as [-> ->]. reflexivity.
  Qed.

  Theorem profile_independent_run : forall clock w s, mentions_b profile_names s = false ->
    run Debug full_registry clock w s = run Release full_registry clock w s.
  Proof.
    intros clock w s N. apply mentions_sinv in N.
    pose proof (run_agree _ rearm_ok_profile except_ok_profile Debug Release eq profile_agree clock w w s eq_refl N) as A.
    destruct (run Debug full_registry clock w s) as [[[f1 w1] s1]| |],
             (run Release full_registry clock w s) as [[[f2 w2] s2]| |]; cbn in A; try tauto.
    - destruct A as (A1 & A2 & A3). cbn in *. now subst.
    - destruct A as [-> ->]. reflexivity.
  Qed.

  (* the property as worded: same program, same state, any world, any profile *)
  Theorem deterministic_run : forall p1 p2 clock w1 w2 s,
    mentions_b (world_reading_names ++ profile_names) s = false ->
    drop_world (run p1 full_registry clock w1 s) = drop_world (run p2 full_registry clock w2 s).
  Proof.
    intros p1 p2 clock w1 w2 s N. apply mentions_sinv in N.
    assert (DR : forall w1 w2, drop_world (run Debug full_registry clock w1 s) = drop_world (run Release full_registry clock w2 s)).
    { intros a b. apply (res_rel_drop_world (fun _ _ => True)).
      exact (run_agree _ rearm_ok_both except_ok_both Debug Release (fun _ _ => True) both_agree clock a b s I N). }
    destruct p1, p2; try apply DR.
    - rewrite (DR w1 w2). symmetry. apply DR.
    - symmetry. apply DR.
    - rewrite <- (DR w1 w1). apply DR.
  Qed.
End Main.

(* Lemmas behind Props/C17io.v: the INPUT / OUTPUT instructions refine the
   abstract queue machine of Spec/IoSpec.v, also when run by the interpreter. *)
From Coq Require Import String ZArith List Bool Lia ZifyBool Arith.
From PushModel Require Import Base.Sx Base.Machine Base.ListOps Base.F32 Model.Item Model.GraphT Model.State
  Model.InstrBase Model.Registry Model.Interp Model.IIo Model.RegistryListIo Model.RegistryAll
  Spec.IoSpec Proofs.ListProofs.
Import ListNotations.
Open Scope Z_scope.
Open Scope list_scope.

Definition io_instr (o : io_op) : instr :=
  match o with
  | IRead => input_read | IGet => input_get | INext => input_next | IAvail => input_available
  | IDepth => input_stack_depth | OWrite => output_write | OFlush => output_flush | ODepth => output_stack_depth
  end.

(* running instruction bodies one after the other *)
Fixpoint run_instrs (fs : list instr) (s : state) : res state :=
  match fs with
  | [] => Ok s
  | f :: r => let! s1 := f s in run_instrs r s1
  end.

(* ---------- list facts ---------- *)
Lemma tl_skipn {A} (l : list A) : forall k, tl (skipn k l) = skipn (S k) l.
Proof. induction l as [|x r IH]; intros [|k]; cbn [skipn tl]; auto. apply (IH k). Qed.

Lemma skipn_head {A} (l : list A) : forall k,
  match skipn k l with x :: _ => nth_error l k = Some x | [] => nth_error l k = None end.
Proof.
  induction l as [|x r IH]; intros [|k]; cbn [skipn nth_error]; auto. apply IH.
Qed.

Lemma zlen_skipn {A} (l : list A) k : zlen (skipn k l) = Z.of_nat (length l - k).
Proof. unfold zlen. now rewrite skipn_length. Qed.

Lemma bq_push_firstn {A} (log : list A) (m : A) :
  bq_push OUTPUT_CAP (firstn 3 log) m = firstn 3 (log ++ [m]).
Proof.
  unfold bq_push, OUTPUT_CAP.
  destruct (Z.of_nat (length (firstn 3 log)) <? 3) eqn:E.
  - rewrite firstn_length in E. assert (H : (length log < 3)%nat) by lia.
    rewrite (firstn_all2 log) by lia. rewrite firstn_all2; [reflexivity|]. rewrite app_length. cbn [length]. lia.
  - rewrite firstn_length in E. assert (H : (3 <= length log)%nat) by lia.
    rewrite firstn_app. replace (3 - length log)%nat with 0%nat by lia. cbn [firstn]. now rewrite app_nil_r.
Qed.

Ltac simp_st :=
  cbn [st_bool st_code st_exec st_float st_index st_int st_name st_bvec st_fvec st_ivec st_input st_output
       st_graph st_bind st_cfg st_quote st_send set_bool set_code set_exec set_float set_index set_int set_name
       set_bvec set_fvec set_ivec set_input set_output io_k io_log io_s push_bool push_int].

(* ---------- one instruction = one step of the abstract machine ---------- *)
Lemma io_step_refines (q0 : list msg) (a : io_st) (o : io_op) :
  zlen q0 <= INPUT_CAP ->
  io_instr o (io_concrete q0 a) = Ok (io_concrete q0 (io_spec_step q0 a o)).
Proof.
  intro Hq. destruct a as [k log s]. unfold io_concrete, io_spec_step. cbn [io_k io_log io_s].
  destruct s as [sb sc se sf six si sn sbv sfv siv sin sout sg sbd scf sq ssd].
  destruct o; cbn [io_instr].
  - (* READ *)
    unfold input_read. cbn [st_input set_input set_output].
    pose proof (skipn_head q0 k) as H. destruct (skipn k q0) as [|[h b] rest] eqn:Es; rewrite H;
      cbn [io_k io_log io_s]; rewrite ?Es; reflexivity.
  - (* GET *)
    unfold input_get. cbn [st_int set_input set_output].
    destruct si as [|idx r]; [reflexivity|]. cbn [st_input set_int set_input set_output].
    pose proof (skipn_head q0 k) as H. destruct (skipn k q0) as [|[h b] rest] eqn:Es; rewrite H;
      [cbn [io_k io_log io_s]; rewrite ?Es; reflexivity|].
    destruct (nth_error b (Z.to_nat (clamp_idx idx (len32 b)))); cbn [io_k io_log io_s]; rewrite ?Es; reflexivity.
  - (* NEXT *)
    unfold input_next. cbn [st_input set_input set_output io_k io_s io_log]. now rewrite tl_skipn.
  - (* AVAILABLE *)
    unfold input_available. cbn [st_input set_input set_output]. rewrite zlen_skipn.
    replace (0 <? Z.of_nat (length q0 - k)) with (Nat.ltb k (length q0)); [reflexivity|].
    destruct (Nat.ltb k (length q0)) eqn:E; [apply Nat.ltb_lt in E|apply Nat.ltb_ge in E]; lia.
  - (* INPUT.STACKDEPTH *)
    unfold input_stack_depth. cbn [st_input set_input set_output].
    rewrite len32_small; rewrite zlen_skipn; [reflexivity|]. unfold zlen, INPUT_CAP, max32 in *. lia.
  - (* WRITE *)
    unfold output_write. cbn [st_bvec set_input set_output].
    destruct sbv as [|body br]; [reflexivity|]. simp_st.
    destruct siv as [|header hr]; [reflexivity|]. simp_st. now rewrite bq_push_firstn.
  - (* FLUSH *)
    reflexivity.
  - (* OUTPUT.STACKDEPTH *)
    unfold output_stack_depth. cbn [st_output set_input set_output].
    rewrite len32_small; unfold zlen; rewrite firstn_length; [reflexivity|]. unfold max32. lia.
Qed.

Lemma io_run_refines (q0 : list msg) (ops : list io_op) : forall a,
  zlen q0 <= INPUT_CAP ->
  run_instrs (map io_instr ops) (io_concrete q0 a) = Ok (io_concrete q0 (io_spec q0 ops a)).
Proof.
  induction ops as [|o r IH]; intros a Hq; [reflexivity|].
  cbn [map run_instrs]. rewrite io_step_refines by exact Hq. cbn [rbind]. unfold io_spec. cbn [fold_left].
  now apply IH.
Qed.

Definition io_init (s : state) : io_st := {| io_k := 0; io_log := st_output s; io_s := s |}.

Lemma io_concrete_init (s : state) :
  zlen (st_output s) <= OUTPUT_CAP -> io_concrete (st_input s) (io_init s) = s.
Proof.
  intro H. unfold io_concrete, io_init. cbn [io_k io_log io_s skipn].
  rewrite firstn_all2 by (unfold zlen, OUTPUT_CAP in H; lia). destruct s; reflexivity.
Qed.

Lemma io_spec_k q0 ops : forall a, io_k (io_spec q0 ops a) = (io_k a + count_next ops)%nat.
Proof.
  unfold io_spec, count_next. induction ops as [|o r IH]; intro a; [cbn; lia|].
  cbn [fold_left]. rewrite IH.
  destruct a as [k log s]. destruct o; cbn [io_spec_step io_k io_log io_s filter length];
    repeat match goal with |- context [match ?x with _ => _ end] => destruct x end; cbn [io_k]; lia.
Qed.

(* the instruction-level theorem *)
Lemma io_refines_lemma (ops : list io_op) (s : state) :
  zlen (st_input s) <= INPUT_CAP -> zlen (st_output s) <= OUTPUT_CAP ->
  let a := io_spec (st_input s) ops (io_init s) in
  run_instrs (map io_instr ops) s = Ok (io_concrete (st_input s) a) /\
  io_k a = count_next ops /\
  st_input (io_concrete (st_input s) a) = skipn (count_next ops) (st_input s) /\
  st_output (io_concrete (st_input s) a) = firstn 3 (io_log a).
Proof.
  intros Hi Ho a. split; [|split; [|split]].
  - rewrite <- (io_concrete_init s Ho) at 1. now apply io_run_refines.
  - unfold a. now rewrite io_spec_k.
  - unfold a, io_concrete. cbn [st_input set_output set_input]. now rewrite io_spec_k.
  - reflexivity.
Qed.

(* ================= through the interpreter ================= *)
Section IoInterp.
  Context {FO : FloatOps}.
  Variable p : profile.

  (* an instruction that neither reads nor writes EXEC *)
  Definition exec_indep (f : instr) : Prop :=
    forall s e, f (set_exec s e) = rmap (fun s' => set_exec s' e) (f s).

  Lemma io_exec_indep o : exec_indep (io_instr o).
  Proof.
    intros s e. destruct s as [sb sc se sf six si sn sbv sfv siv sin sout sg sbd scf sq ssd].
    destruct o; cbn [io_instr];
      unfold input_read, input_get, input_next, input_available, input_stack_depth,
             output_write, output_flush, output_stack_depth; simp_st.
    - destruct sin as [|[h b] rest]; reflexivity.
    - destruct si as [|idx r]; [reflexivity|]. simp_st. destruct sin as [|[h b] rest]; [reflexivity|].
      destruct (nth_error b _); reflexivity.
    - reflexivity.
    - reflexivity.
    - reflexivity.
    - destruct sbv as [|body br]; [reflexivity|]. simp_st. destruct siv as [|header hr]; reflexivity.
    - reflexivity.
    - reflexivity.
  Qed.

  Lemma lookup_io o : lookup full_registry (s2l (io_name o)) = Some (pure (io_instr o)).
  Proof. destruct o; cbn [io_name io_instr]; lookup_full tbl_io. Qed.

  (* k registered EXEC-independent instructions on top of EXEC: k interpreter steps
     = their bodies one after the other on the state with those k items removed *)
  Lemma steps_instrs (names : list str) (fs : list instr) :
    Forall2 (fun n f => lookup full_registry n = Some (pure f) /\ exec_indep f) names fs ->
    forall w s E,
      st_exec s = map IInstr names ++ E ->
      steps p full_registry (length names) w s =
      let! s' := run_instrs fs (set_exec s E) in Ok (false, w, s').
  Proof.
    induction 1 as [|n f names fs [Hl Hx] HF IH]; intros w s E He.
    - cbn [length steps run_instrs rbind]. cbn [map app] in He. rewrite <- He. now rewrite set_exec_same.
    - cbn [map app] in He. cbn [length steps run_instrs].
      rewrite (step_instr p _ _ _ _ _ _ He Hl). rewrite Hx.
      change (set_exec s E) with (set_exec s E).
      assert (Hx2 := Hx s E). rewrite Hx2.
      destruct (f s) as [s1| |fn arg]; cbn [rmap rbind]; try reflexivity.
      rewrite IH with (E := E) by reflexivity. reflexivity.
  Qed.

  Lemma io_forall2 ops :
    Forall2 (fun n f => lookup full_registry n = Some (pure f) /\ exec_indep f)
            (map (fun o => s2l (io_name o)) ops) (map io_instr ops).
  Proof. induction ops as [|o r IH]; constructor; [split; [apply lookup_io|apply io_exec_indep]|exact IH]. Qed.

  (* C17_io_fifo *)
  Lemma io_fifo_lemma (w : world) (ops : list io_op) (s : state) (E : list item) :
    st_exec s = map (fun o => IInstr (s2l (io_name o))) ops ++ E ->
    zlen (st_input s) <= INPUT_CAP -> zlen (st_output s) <= OUTPUT_CAP ->
    let q0 := st_input s in
    let a := io_spec q0 ops (io_init (set_exec s E)) in
    steps p full_registry (length ops) w s = Ok (false, w, io_concrete q0 a) /\
    io_k a = count_next ops /\
    st_input (io_concrete q0 a) = skipn (count_next ops) q0 /\
    st_output (io_concrete q0 a) = firstn 3 (io_log a).
  Proof.
    intros He Hi Ho q0 a.
    pose proof (io_refines_lemma ops (set_exec s E) Hi Ho) as (H1 & H2 & H3 & H4).
    change (st_input (set_exec s E)) with q0 in *. fold a in H1, H2, H3, H4.
    split; [|split; [exact H2|split; [exact H3|exact H4]]].
    pose proof (steps_instrs _ _ (io_forall2 ops) w s E) as HS.
    rewrite map_map in HS. rewrite map_length in HS. rewrite (HS He), H1. reflexivity.
  Qed.
End IoInterp.

(* ================= OUTPUT: program order ================= *)
Lemma output_write_lemma (s : state) (body : list bool) (br : list (list bool)) (header : list Z) (hr : list (list Z)) :
  st_bvec s = body :: br -> st_ivec s = header :: hr ->
  output_write s =
  Ok (set_output (set_ivec (set_bvec s br) hr)
        (if zlen (st_output s) <? OUTPUT_CAP then st_output s ++ [(header, body)] else st_output s)).
Proof.
  intros Hb Hh. unfold output_write. rewrite Hb. cbn zeta. change (st_ivec (set_bvec s br)) with (st_ivec s).
  rewrite Hh. reflexivity.
Qed.

Lemma output_write_missing (s : state) :
  (st_bvec s = [] -> output_write s = Ok s) /\
  (forall body br, st_bvec s = body :: br -> st_ivec s = [] -> output_write s = Ok (set_bvec s br)).
Proof.
  split.
  - intro H. unfold output_write. now rewrite H.
  - intros body br H H2. unfold output_write. rewrite H. cbn zeta. change (st_ivec (set_bvec s br)) with (st_ivec s).
    now rewrite H2.
Qed.

Lemma firstn3_push {A} (q : list A) (m : A) (ms : list A) :
  (length q <= 3)%nat ->
  firstn 3 (bq_push OUTPUT_CAP q m ++ ms) = firstn 3 (q ++ m :: ms).
Proof.
  intro H. unfold bq_push, OUTPUT_CAP. destruct (Z.of_nat (length q) <? 3) eqn:E.
  - now rewrite <- app_assoc.
  - assert (length q = 3)%nat by lia. rewrite !firstn_app. replace (3 - length q)%nat with 0%nat by lia.
    reflexivity.
Qed.
Lemma bq_push_len {A} (q : list A) (m : A) : (length q <= 3)%nat -> (length (bq_push OUTPUT_CAP q m) <= 3)%nat.
Proof.
  intro H. unfold bq_push, OUTPUT_CAP. destruct (Z.of_nat (length q) <? 3) eqn:E; [|exact H].
  rewrite app_length. cbn [length]. lia.
Qed.

(* n OUTPUT.WRITEs whose operands lie on the two vector stacks (first message on top) *)
Lemma output_program_order_lemma (ms : list msg) : forall (s : state) (br : list (list bool)) (hr : list (list Z)),
  st_bvec s = map snd ms ++ br -> st_ivec s = map fst ms ++ hr ->
  zlen (st_output s) <= OUTPUT_CAP ->
  run_instrs (repeat output_write (length ms)) s =
  Ok (set_output (set_ivec (set_bvec s br) hr) (firstn 3 (st_output s ++ ms))).
Proof.
  induction ms as [|[h b] r IH]; intros s br hr Hb Hh Ho.
  - cbn [length repeat run_instrs map app] in *. rewrite app_nil_r.
    rewrite firstn_all2 by (unfold zlen, OUTPUT_CAP in Ho; lia). rewrite <- Hb, <- Hh. destruct s; reflexivity.
  - cbn [length repeat run_instrs map app fst snd] in *.
    rewrite (output_write_lemma s b (map snd r ++ br) h (map fst r ++ hr) Hb Hh). cbn [rbind].
    change (if zlen (st_output s) <? OUTPUT_CAP then st_output s ++ [(h, b)] else st_output s)
      with (bq_push OUTPUT_CAP (st_output s) (h, b)).
    assert (Hlen : (length (st_output s) <= 3)%nat) by (unfold zlen, OUTPUT_CAP in Ho; lia).
    rewrite (IH _ br hr); [| reflexivity | reflexivity |].
    + cbn [st_output set_output]. rewrite firstn3_push by exact Hlen. destruct s; reflexivity.
    + cbn [st_output set_output]. pose proof (bq_push_len (st_output s) (h, b) Hlen). unfold zlen, OUTPUT_CAP in *. lia.
Qed.

Lemma output_flush_lemma (s : state) : output_flush s = Ok (set_output s []).
Proof. reflexivity. Qed.

(* C17_output_program_order *)
Lemma output_program_order_full :
  (* one WRITE: appended at the newest end; ignored when OUTPUT_CAP = 3 messages are queued *)
  (forall (s : state) body br header hr,
      st_bvec s = body :: br -> st_ivec s = header :: hr ->
      output_write s =
      Ok (set_output (set_ivec (set_bvec s br) hr)
            (if zlen (st_output s) <? OUTPUT_CAP then st_output s ++ [(header, body)] else st_output s))) /\
  (* missing operands: nothing is enqueued (a body without header is lost) *)
  (forall s : state,
      (st_bvec s = [] -> output_write s = Ok s) /\
      (forall body br, st_bvec s = body :: br -> st_ivec s = [] -> output_write s = Ok (set_bvec s br))) /\
  (* FLUSH empties the queue *)
  (forall s : state, output_flush s = Ok (set_output s [])) /\
  (* n WRITEs: the queue is the first three of (old content, then the messages in program order) *)
  (forall (ms : list msg) (s : state) br hr,
      st_bvec s = map snd ms ++ br -> st_ivec s = map fst ms ++ hr ->
      zlen (st_output s) <= OUTPUT_CAP ->
      run_instrs (repeat output_write (length ms)) s =
      Ok (set_output (set_ivec (set_bvec s br) hr) (firstn 3 (st_output s ++ ms)))).
Proof.
  split; [exact output_write_lemma|]. split; [exact output_write_missing|].
  split; [exact output_flush_lemma|exact output_program_order_lemma].
Qed.

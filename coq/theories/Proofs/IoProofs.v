(* Lemmas behind Props/C17io.v: the INPUT / OUTPUT instructions refine the
   abstract queue machine of Spec/IoSpec.v, also when run by the interpreter. *)
From Coq Require Import String ZArith List Bool Lia ZifyBool Arith.
From PushModel Require Import Base.Sx Base.Machine Base.ListOps Base.F32 Model.Item Model.GraphT Model.State
  Model.InstrBase Model.Registry Model.Interp Model.IIo Model.RegistryListIo Model.RegistryAll
  Spec.IoSpec Proofs.ListProofs.
Import ListNotations.
Open Scope Z_scope.
Open Scope list_scope.

Definition io_instr (o : io_op) : instr :=
  match o with
  | IRead => input_read | IGet => input_get | INext => input_next | IAvail => input_available
  | IDepth => input_stack_depth | OWrite => output_write | OFlush => output_flush | ODepth => output_stack_depth
  end.

(* running instruction bodies one after the other *)
Fixpoint run_instrs (fs : list instr) (s : state) : res state :=
  match fs with
  | [] => Ok s
  | f :: r => let! s1 := f s in run_instrs r s1
  end.

(* ---------- list facts ---------- *)
Lemma tl_skipn {A} (l : list A) : forall k, tl (skipn k l) = skipn (S k) l.
Proof. induction l as [|x r IH]; intros [|k]; cbn [skipn tl]; auto. apply (IH k). Qed.

Lemma skipn_head {A} (l : list A) : forall k,
  match skipn k l with x :: _ => nth_error l k = Some x | [] => nth_error l k = None end.
Proof.
  induction l as [|x r IH]; intros [|k]; cbn [skipn nth_error]; auto. apply IH.
Qed.

Lemma zlen_skipn {A} (l : list A) k : zlen (skipn k l) = Z.of_nat (length l - k).
Proof. unfold zlen. now rewrite skipn_length. Qed.

Lemma bq_push_firstn {A} (log : list A) (m : A) :
  bq_push OUTPUT_CAP (firstn 3 log) m = firstn 3 (log ++ [m]).
Proof.
  unfold bq_push, OUTPUT_CAP.
  destruct (Z.of_nat (length (firstn 3 log)) <? 3) eqn:E.
  - rewrite firstn_length in E. assert (H : (length log < 3)%nat) by lia.
    rewrite (firstn_all2 log) by lia. rewrite firstn_all2; [reflexivity|]. rewrite app_length. cbn [length]. lia.
  - rewrite firstn_length in E. assert (H : (3 <= length log)%nat) by lia.
    rewrite firstn_app. replace (3 - length log)%nat with 0%nat by lia. cbn [firstn]. now rewrite app_nil_r.
Qed.

Ltac simp_st :=
  cbn [st_bool st_code st_exec st_float st_index st_int st_name st_bvec st_fvec st_ivec st_input st_output
       st_graph st_bind st_cfg st_quote st_send set_bool set_code set_exec set_float set_index set_int set_name
       set_bvec set_fvec set_ivec set_input set_output io_k io_log io_s push_bool push_int].

(* ---------- one instruction = one step of the abstract machine ---------- *)
Lemma io_step_refines (q0 : list msg) (a : io_st) (o : io_op) :
  zlen q0 <= INPUT_CAP ->
  io_instr o (io_concrete q0 a) = Ok (io_concrete q0 (io_spec_step q0 a o)).
Proof.
  intro Hq. destruct a as [k log s]. unfold io_concrete, io_spec_step. cbn [io_k io_log io_s].
  destruct s as [sb sc se sf six si sn sbv sfv siv sin sout sg sbd scf sq ssd].
  destruct o; cbn [io_instr].
  - (* READ *)
    unfold input_read. cbn [st_input set_input set_output].
    pose proof (skipn_head q0 k) as H. destruct (skipn k q0) as [|[h b] rest] eqn:Es; rewrite H;
      cbn [io_k io_log io_s]; rewrite ?Es; reflexivity.
  - (* GET *)
    unfold input_get. cbn [st_int set_input set_output].
    destruct si as [|idx r]; [reflexivity|]. cbn [st_input set_int set_input set_output].
    pose proof (skipn_head q0 k) as H. destruct (skipn k q0) as [|[h b] rest] eqn:Es; rewrite H;
      [cbn [io_k io_log io_s]; rewrite ?Es; reflexivity|].
    destruct (nth_error b (Z.to_nat (clamp_idx idx (len32 b)))); cbn [io_k io_log io_s]; rewrite ?Es; reflexivity.
  - (* NEXT *)
    unfold input_next. cbn [st_input set_input set_output io_k io_s io_log]. now rewrite tl_skipn.
  - (* AVAILABLE *)
    unfold input_available. cbn [st_input set_input set_output]. rewrite zlen_skipn.
    replace (0 <? Z.of_nat (length q0 - k)) with (Nat.ltb k (length q0)); [reflexivity|].
    destruct (Nat.ltb k (length q0)) eqn:E; [apply Nat.ltb_lt in E|apply Nat.ltb_ge in E]; lia.
  - (* INPUT.STACKDEPTH *)
    unfold input_stack_depth. cbn [st_input set_input set_output].
    rewrite len32_small; rewrite zlen_skipn; [reflexivity|]. unfold zlen, INPUT_CAP, max32 in *. lia.
  - (* WRITE *)
    unfold output_write. cbn [st_bvec set_input set_output].
    destruct sbv as [|body br]; [reflexivity|]. simp_st.
    destruct siv as [|header hr]; [reflexivity|]. simp_st. now rewrite bq_push_firstn.
  - (* FLUSH *)
    reflexivity.
  - (* OUTPUT.STACKDEPTH *)
    unfold output_stack_depth. cbn [st_output set_input set_output].
    rewrite len32_small; unfold zlen; rewrite firstn_length; [reflexivity|]. unfold max32. lia.
Qed.

Lemma io_run_refines (q0 : list msg) (ops : list io_op) : forall a,
  zlen q0 <= INPUT_CAP ->
  run_instrs (map io_instr ops) (io_concrete q0 a) = Ok (io_concrete q0 (io_spec q0 ops a)).
Proof.
  induction ops as [|o r IH]; intros a Hq; [reflexivity|].
  cbn [map run_instrs]. rewrite io_step_refines by exact Hq. cbn [rbind]. unfold io_spec. cbn [fold_left].
  now apply IH.
Qed.

Definition io_init (s : state) : io_st := {| io_k := 0; io_log := st_output s; io_s := s |}.

Lemma io_concrete_init (s : state) :
  zlen (st_output s) <= OUTPUT_CAP -> io_concrete (st_input s) (io_init s) = s.
Proof.
  intro H. unfold io_concrete, io_init. cbn [io_k io_log io_s skipn].
  rewrite firstn_all2 by (unfold zlen, OUTPUT_CAP in H; lia). destruct s; reflexivity.
Qed.

Lemma io_spec_k q0 ops : forall a, io_k (io_spec q0 ops a) = (io_k a + count_next ops)%nat.
Proof.
  unfold io_spec, count_next. induction ops as [|o r IH]; intro a; [cbn; lia|].
  cbn [fold_left]. rewrite IH.
  destruct a as [k log s]. destruct o; cbn [io_spec_step io_k io_log io_s filter length];
    repeat match goal with |- context [match ?x with _ => _ end] => destruct x end; cbn [io_k]; lia.
Qed.

(* the instruction-level theorem *)
Lemma io_refines_lemma (ops : list io_op) (s : state) :
  zlen (st_input s) <= INPUT_CAP -> zlen (st_output s) <= OUTPUT_CAP ->
  let a := io_spec (st_input s) ops (io_init s) in
  run_instrs (map io_instr ops) s = Ok (io_concrete (st_input s) a) /\
  io_k a = count_next ops /\
  st_input (io_concrete (st_input s) a) = skipn (count_next ops) (st_input s) /\
  st_output (io_concrete (st_input s) a) = firstn 3 (io_log a).
Proof.
  intros Hi Ho a. split; [|split; [|split]].
  - rewrite <- (io_concrete_init s Ho) at 1. now apply io_run_refines.
  - unfold a. now rewrite io_spec_k.
  - unfold a, io_concrete. cbn [st_input set_output set_input]. now rewrite io_spec_k.
  - reflexivity.
Qed.

(* C20: the edge computed by the (repaired) code is the integer root. *)
From Coq Require Import ZArith List Bool Lia ZifyBool.
From PushModel Require Import Base.Sx Base.Machine Base.F32 Spec.TopoSpec Model.Topology Proofs.TopoDigits.
Import ListNotations.
Open Scope Z_scope.

(* one loop test: `e.checked_pow(min(ndim,64)).map_or(false, |p| p < ntotal)` decides e^ndim < ntotal *)
Lemma edge_test ntotal d e : 1 <= e -> 1 <= d -> ntotal < two64 ->
  match checked_pow e (Z.min d 64) with Some p => p <? ntotal | None => false end
  = negb (ntotal <=? e ^ d).
Proof.
  intros He Hd Hn.
  destruct (Z.eq_dec e 1) as [->|Hne].
  { rewrite checked_pow_one, Z.pow_1_l by lia. lia. }
  rewrite checked_pow_spec by lia.
  destruct (Z_le_gt_dec d 64) as [Hle|Hgt].
  - rewrite Z.min_l by lia.
    destruct (e ^ d <? two64) eqn:E; lia.
  - rewrite Z.min_r by lia.
    pose proof (pow_ge_two64 e 64 ltac:(lia) ltac:(lia)).
    pose proof (pow_ge_two64 e d ltac:(lia) ltac:(lia)).
    (* keep e^64 opaque: lia would expand a constant power *)
    generalize dependent (e ^ 64). intros q Hq.
    destruct (q <? two64) eqn:E; lia.
Qed.

Lemma edge_go_iroot ntotal d : 1 <= d -> ntotal < two64 ->
  forall fuel e, 1 <= e -> edge_go ntotal (Z.min d 64) fuel e = iroot_go ntotal d fuel e.
Proof.
  intros Hd Hn. induction fuel as [|f IH]; intros e He; cbn [edge_go iroot_go].
  - reflexivity.
  - pose proof (edge_test ntotal d e He Hd Hn) as T.
    destruct (checked_pow e (Z.min d 64)) as [p|].
    + destruct (p <? ntotal) eqn:E; destruct (ntotal <=? e ^ d) eqn:E'; try discriminate T.
      * apply IH. lia.
      * reflexivity.
    + destruct (ntotal <=? e ^ d); [reflexivity|discriminate T].
Qed.

Lemma edge_length_is_iroot ntotal ndim :
  1 <= ntotal < two64 -> 1 <= ndim -> edge_length ntotal ndim = iroot_ceil ntotal ndim.
Proof.
  intros Hn Hd. unfold edge_length, iroot_ceil. apply edge_go_iroot; lia.
Qed.

(* the statement of C20_edge_is_smallest: the computed edge is the least one whose cube holds ntotal cells *)
Lemma edge_is_smallest_lemma ntotal ndim :
  1 <= ntotal < two64 -> 1 <= ndim ->
  let e := edge_length ntotal ndim in
  e = iroot_ceil ntotal ndim /\ 1 <= e /\ ntotal <= e ^ ndim /\ (forall e', 1 <= e' < e -> e' ^ ndim < ntotal).
Proof.
  intros Hn Hd e. subst e. rewrite edge_length_is_iroot by assumption.
  split; [reflexivity|]. apply iroot_ceil_spec; lia.
Qed.

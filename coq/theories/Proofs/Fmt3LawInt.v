(* C11 scalar law for the executable float instance, part 2: integer arithmetic.

   [nn a e] is the integer that [fl_fmt 3] prints for the magnitude a * 2^e
   (the value times 1000, rounded half to even).  The main statement,
   [fmt3_int], is the number-theoretic core of the law: if Y = my * 2^ey is at
   least as close to the sticky approximation q' * 2^(-s-1) of n / 1000 as
   V = a * 2^e is (which is what rounding to nearest gives), then Y prints as n
   again, or Y = V.  The argument: V is within 1/2 of n after scaling by 1000,
   so Y is too; a tie on both sides would make 1000 * (Y - V) = +-1, impossible
   for a dyadic Y - V. *)
From Coq Require Import ZArith List Bool Lia ZifyBool.
From PushModel Require Import Base.Sx Base.F32 Base.F32Flocq.
Open Scope Z_scope.

Definition nn (a e : Z) : Z := if 0 <=? e then a * 2 ^ e * 1000 else rhe (a * 1000) (2 ^ (- e)).

(* ---- rhe is rounding to a nearest integer, ties to even ---- *)
Lemma rhe_bound : forall num den, 0 <= num -> 0 < den ->
  0 <= rhe num den /\ - den <= 2 * num - 2 * rhe num den * den <= den.
Proof.
  intros num den Hn Hd. unfold rhe.
  pose proof (Z.div_mod num den ltac:(lia)) as E.
  pose proof (Z.mod_pos_bound num den Hd) as B.
  assert (0 <= num / den) by (apply Z.div_pos; lia).
  set (q := num / den) in *. set (r := num mod den) in *.
  destruct (2 * r <? den) eqn:C1; [nia|].
  destruct (den <? 2 * r) eqn:C2; [nia|].
  destruct (Z.even q); nia.
Qed.

Lemma rhe_spec : forall num den n, 0 < den ->
  - den < 2 * num - 2 * n * den < den -> rhe num den = n.
Proof.
  intros num den n Hd H. unfold rhe.
  pose proof (Z.div_mod num den ltac:(lia)) as E.
  pose proof (Z.mod_pos_bound num den Hd) as B.
  set (q := num / den) in *. set (r := num mod den) in *.
  assert (T : forall k, den * k <= - den \/ k = 0 \/ den <= den * k) by (intros; nia).
  destruct (2 * r <? den) eqn:C1.
  { destruct (T (q - n)) as [X|[X|X]]; lia. }
  destruct (den <? 2 * r) eqn:C2.
  { destruct (T (q + 1 - n)) as [X|[X|X]]; lia. }
  exfalso. destruct (T (q - n)) as [X|[X|X]]; lia.
Qed.

Lemma pow2_not5 : forall k, 0 <= k -> (2 ^ k) mod 5 <> 0.
Proof.
  intros k Hk. pattern k. apply natlike_ind; [|intros x Hx IH|exact Hk].
  - rewrite Z.pow_0_r. discriminate.
  - rewrite Z.pow_succ_r by exact Hx. generalize dependent (2 ^ x). intros p IH.
    rewrite Z.mul_mod by lia. pose proof (Z.mod_pos_bound p 5 ltac:(lia)) as B.
    remember (p mod 5) as r eqn:Er. clear Er.
    assert (C : r = 1 \/ r = 2 \/ r = 3 \/ r = 4) by lia.
    destruct C as [C|[C|[C|C]]]; subst r; discriminate.
Qed.

(* ---- the tie analysis ---- *)
Lemma core_tie : forall n D Yi Vi, 0 < D -> D mod 5 <> 0 ->
  Z.abs (2000 * Vi - 2 * n * D) <= D ->
  Z.abs (1000 * Yi - n * D) <= Z.abs (1000 * Vi - n * D) ->
  Z.abs (2000 * Yi - 2 * n * D) < D \/ Yi = Vi.
Proof.
  intros n D Yi Vi HD H5 HV HY.
  assert (M : forall k, D = 1000 * k -> False).
  { intros k E. apply H5. rewrite E. replace (1000 * k) with (200 * k * 5) by ring. apply Z.mod_mul. lia. }
  set (nD := n * D) in *. replace (2 * n * D) with (2 * nD) in * by (unfold nD; ring).
  assert (C : Z.abs (2000 * Yi - 2 * nD) < D \/ Yi = Vi \/ D = 1000 * (Yi - Vi) \/ D = 1000 * (Vi - Yi)) by lia.
  destruct C as [C|[C|[C|C]]]; [left; exact C|right; exact C|destruct (M _ C)|destruct (M _ C)].
Qed.

(* ---- the sticky bit does not change which of two even candidates is nearer ---- *)
Lemma sticky_transfer : forall Y4 V4 q r st,
  (st = 0 /\ r = 0) \/ (st = 1 /\ 0 < r < 1000) ->
  Z.abs (4 * Y4 - (2 * q + st)) <= Z.abs (4 * V4 - (2 * q + st)) ->
  Z.abs (1000 * (4 * Y4) - (2000 * q + 2 * r)) <= Z.abs (1000 * (4 * V4) - (2000 * q + 2 * r)).
Proof. intros. lia. Qed.

(* ---- magnitudes ---- *)
Lemma pow2_49 : 2 ^ 49 = 562949953421312. Proof. reflexivity. Qed.
Lemma pow2_40 : 2 ^ 40 = 1099511627776. Proof. reflexivity. Qed.
Lemma pow2_24 : 2 ^ 24 = 16777216. Proof. reflexivity. Qed.
Lemma pow2_35 : 2 ^ 35 = 34359738368. Proof. reflexivity. Qed.

Lemma scale_big : forall n s, 0 < n -> s = Z.max 0 (49 - Z.log2 n) -> 0 <= s /\ 2 ^ 49 <= n * 2 ^ s.
Proof.
  intros n s Hn Hs. split; [lia|].
  pose proof (Z.log2_spec n Hn) as [L1 L2]. pose proof (Z.log2_nonneg n) as L0.
  destruct (Z.le_gt_cases (Z.log2 n) 49) as [C|C].
  - replace s with (49 - Z.log2 n) by lia.
    replace (2 ^ 49) with (2 ^ Z.log2 n * 2 ^ (49 - Z.log2 n)).
    2:{ rewrite <- Z.pow_add_r by lia. f_equal. lia. }
    apply Z.mul_le_mono_nonneg_r; [|exact L1]. apply Z.pow_nonneg. lia.
  - replace s with 0 by lia. rewrite Z.pow_0_r, Z.mul_1_r.
    apply Z.le_trans with (2 ^ Z.log2 n); [|exact L1].
    apply Z.pow_le_mono_r; lia.
Qed.

Lemma qprime_big : forall n s q st, 0 < n -> s = Z.max 0 (49 - Z.log2 n) ->
  q = n * 2 ^ s / 1000 -> 0 <= st -> 2 ^ 40 <= 2 * q + st.
Proof.
  intros n s q st Hn Hs Hq Hst. destruct (scale_big n s Hn Hs) as [_ B].
  rewrite pow2_49 in B. rewrite pow2_40.
  assert (562949953421 <= q).
  { subst q. apply Z.div_le_lower_bound; lia. }
  lia.
Qed.

Lemma qprime_small : forall n s q st, 0 < n < 2 ^ 35 -> 0 <= s ->
  q = n * 2 ^ s / 1000 -> st <= 1 -> 2 * q + st < 2 ^ (s + 27).
Proof.
  intros n s q st Hn Hs Hq Hst.
  assert (0 < 2 ^ s) by (apply Z.pow_pos_nonneg; lia).
  assert (1000 * q <= n * 2 ^ s).
  { subst q. apply Z.mul_div_le. lia. }
  rewrite Z.pow_add_r by lia. change (2 ^ 27) with 134217728.
  rewrite pow2_35 in Hn.
  assert (n * 2 ^ s <= 34359738368 * 2 ^ s) by (apply Z.mul_le_mono_nonneg_r; lia).
  lia.
Qed.

(* the exponent of the printed float against the scaling of the parser *)
Lemma es_bound : forall a e n s, 0 < a < 2 ^ 24 -> e < 0 ->
  n = rhe (a * 1000) (2 ^ (- e)) -> 0 < n -> s = Z.max 0 (49 - Z.log2 n) ->
  15 <= e + s /\ n < 2 ^ 35.
Proof.
  intros a e n s Ha He Hn Hpos Hs.
  assert (HD : 0 < 2 ^ (- e)) by (apply Z.pow_pos_nonneg; lia).
  destruct (rhe_bound (a * 1000) (2 ^ (- e)) ltac:(lia) HD) as [_ B]. rewrite <- Hn in B.
  pose proof (Z.log2_spec n Hpos) as [L1 L2]. pose proof (Z.log2_nonneg n) as L0.
  rewrite pow2_24 in Ha.
  set (D := 2 ^ (- e)) in *.
  assert (B1 : n * D < 2 ^ 35) by (rewrite pow2_35; nia).
  split.
  - assert (2 ^ (Z.log2 n - e) < 2 ^ 35).
    { replace (Z.log2 n - e) with (Z.log2 n + - e) by lia. rewrite Z.pow_add_r by lia. fold D.
      apply Z.le_lt_trans with (n * D); [|exact B1]. apply Z.mul_le_mono_nonneg_r; lia. }
    apply Z.pow_lt_mono_r_iff in H; lia.
  - apply Z.le_lt_trans with (n * D); [|exact B1]. nia.
Qed.

Lemma scale_tri : forall D k, 0 < D -> D * k <= - D \/ k = 0 \/ D <= D * k.
Proof. intros. nia. Qed.
Lemma scale_lt : forall P De w, 0 < P -> Z.abs (P * w) < De * P -> - De < w < De.
Proof. intros. nia. Qed.

(* ---- the core ---- *)
Theorem fmt3_int : forall a e my ey n s q st,
  0 < a < 2 ^ 24 -> e < 0 -> n = rhe (a * 1000) (2 ^ (- e)) -> 0 < n ->
  s = Z.max 0 (49 - Z.log2 n) -> q = n * 2 ^ s / 1000 ->
  st = (if (n * 2 ^ s) mod 1000 =? 0 then 0 else 1) ->
  0 < my -> 1 <= ey + s ->
  Z.abs (my * 2 ^ (ey + s + 1) - (2 * q + st)) <= Z.abs (a * 2 ^ (e + s + 1) - (2 * q + st)) ->
  nn my ey = n \/ my * 2 ^ (ey + s + 1) = a * 2 ^ (e + s + 1).
Proof.
  intros a e my ey n s q st Ha He Hn Hpos Hs Hq Hst Hmy Hey Hnear.
  destruct (es_bound a e n s Ha He Hn Hpos Hs) as [Hes _].
  assert (Hs0 : 0 <= s) by lia.
  set (D := 2 ^ (s + 1)).
  assert (HD : 0 < D) by (apply Z.pow_pos_nonneg; lia).
  assert (HD5 : D mod 5 <> 0) by (apply pow2_not5; lia).
  set (r := (n * 2 ^ s) mod 1000) in *.
  assert (Hqr : n * 2 ^ s = 1000 * q + r) by (subst q; apply Z.div_mod; lia).
  assert (Hr : 0 <= r < 1000) by (apply Z.mod_pos_bound; lia).
  assert (HnD : n * D = 2000 * q + 2 * r).
  { unfold D. rewrite Z.pow_add_r by lia. change (2 ^ 1) with 2. lia. }
  (* V and Y as multiples of 4 * 2^(-s-1) *)
  assert (HV : a * 2 ^ (e + s + 1) = 4 * (a * 2 ^ (e + s - 1))).
  { replace (e + s + 1) with (e + s - 1 + 2) by ring. rewrite Z.pow_add_r by lia. change (2 ^ 2) with 4. ring. }
  assert (HY : my * 2 ^ (ey + s + 1) = 4 * (my * 2 ^ (ey + s - 1))).
  { replace (ey + s + 1) with (ey + s - 1 + 2) by ring. rewrite Z.pow_add_r by lia. change (2 ^ 2) with 4. ring. }
  set (Vi := a * 2 ^ (e + s + 1)) in *. set (Yi := my * 2 ^ (ey + s + 1)) in *.
  (* the printed integer is within 1/2 of 1000 * V *)
  assert (HVn : Z.abs (2000 * Vi - 2 * n * D) <= D).
  { assert (HDe : 0 < 2 ^ (- e)) by (apply Z.pow_pos_nonneg; lia).
    destruct (rhe_bound (a * 1000) (2 ^ (- e)) ltac:(lia) HDe) as [_ B]. rewrite <- Hn in B.
    assert (HP : 0 < 2 ^ (e + s + 1)) by (apply Z.pow_pos_nonneg; lia).
    assert (HDP : D = 2 ^ (- e) * 2 ^ (e + s + 1)).
    { unfold D. rewrite <- Z.pow_add_r by lia. f_equal. lia. }
    unfold Vi. set (P := 2 ^ (e + s + 1)) in *. set (De := 2 ^ (- e)) in *.
    rewrite HDP. nia. }
  (* nearest transfers from the sticky approximation to n / 1000 *)
  assert (Hnear' : Z.abs (1000 * Yi - n * D) <= Z.abs (1000 * Vi - n * D)).
  { rewrite HnD, HY, HV. apply sticky_transfer with (st := st).
    - subst st. fold r. destruct (r =? 0) eqn:C; lia.
    - rewrite <- HY, <- HV. exact Hnear. }
  destruct (core_tie n D Yi Vi HD HD5 HVn Hnear') as [Hlt|Heq]; [left|right; exact Heq].
  (* strictly inside: Y prints as n *)
  unfold nn. destruct (0 <=? ey) eqn:Cey.
  - assert (HQ : Yi = my * 2 ^ ey * D).
    { unfold Yi, D. rewrite <- Z.mul_assoc, <- Z.pow_add_r by lia. f_equal. f_equal. lia. }
    rewrite HQ in Hlt. set (K := my * 2 ^ ey) in *.
    clearbody K D. clear -Hlt HD.
    destruct (scale_tri D (K * 1000 - n) HD) as [X|[X|X]]; lia.
  - apply rhe_spec. { apply Z.pow_pos_nonneg; lia. }
    assert (HQ : D = 2 ^ (- ey) * 2 ^ (ey + s + 1)).
    { unfold D. rewrite <- Z.pow_add_r by lia. f_equal. lia. }
    assert (HP : 0 < 2 ^ (ey + s + 1)) by (apply Z.pow_pos_nonneg; lia).
    assert (HDe : 0 < 2 ^ (- ey)) by (apply Z.pow_pos_nonneg; lia).
    unfold Yi in Hlt. rewrite HQ in Hlt.
    set (P := 2 ^ (ey + s + 1)) in *. set (De := 2 ^ (- ey)) in *.
    apply (scale_lt P De _ HP).
    replace (P * (2 * (my * 1000) - 2 * n * De)) with (2000 * (my * P) - 2 * n * (De * P)) by ring.
    exact Hlt.
Qed.

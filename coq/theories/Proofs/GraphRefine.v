(* The HashMap/Vec model of Graph refines the set-based graph of
   Spec/GraphSpec.v: the same read-after-write laws hold on both sides, hence
   along every history states, weights, counts and node-set queries agree. *)
From Coq Require Import ZArith List Bool Lia Sorted Permutation ZifyBool.
From PushModel Require Import Base.Sx Base.Machine Base.ListOps Base.F32 Model.Graph Spec.GraphSpec
  Model.GraphMachine Proofs.GraphFacts.
Import ListNotations.
Open Scope Z_scope.

(* ---------------------------------------------------------------------- *)
(* generic list facts *)
Lemma nodup_map_filter {A B} (g : A -> B) (f : A -> bool) (l : list A) :
  NoDup (map g l) -> NoDup (map g (filter f l)).
Proof.
  induction l as [|x r IH]; cbn [filter map]; auto.
  intro N. inversion N; subst. destruct (f x); cbn [map]; auto.
  constructor; auto. intro H. apply H1.
  apply in_map_iff in H as [y [E Hy]]. apply filter_In in Hy as [Hy _]. rewrite <- E. now apply in_map.
Qed.

Lemma nodup_app {A} (l1 l2 : list A) :
  NoDup l1 -> NoDup l2 -> (forall x, In x l1 -> ~ In x l2) -> NoDup (l1 ++ l2).
Proof.
  induction l1 as [|x r IH]; cbn [app]; intros N1 N2 D; auto.
  inversion N1; subst. constructor.
  - rewrite in_app_iff. intros [H|H]; [auto|]. apply (D x); [now left|auto].
  - apply IH; auto. intros y Hy. apply D. now right.
Qed.

Lemma flat_map_if {A B} (p : A -> bool) (f : A -> B) (l : list A) :
  flat_map (fun x => if p x then [f x] else []) l = map f (filter p l).
Proof.
  induction l as [|x r IH]; cbn [flat_map filter map]; auto.
  destruct (p x); cbn [map app]; now rewrite IH.
Qed.

Lemma flat_map_nil {A B} (f : A -> list B) (l : list A) :
  flat_map f l = [] <-> (forall x, In x l -> f x = []).
Proof.
  induction l as [|x r IH]; cbn [flat_map In].
  - split; auto. intros _ y [].
  - split.
    + intro H. apply app_eq_nil in H as [H1 H2]. intros y [<-|Hy]; auto. now apply IH.
    + intro H. rewrite (H x (or_introl eq_refl)). cbn [app]. apply IH. auto.
Qed.

(* ---------------------------------------------------------------------- *)
(* association lists of the specification *)
Lemma assoc_get {V} k (l : list (Z * V)) : assoc k l = zm_get k l.
Proof. induction l as [|x r IH]; cbn [assoc zm_get]; auto. now rewrite IH. Qed.

Lemma get_map_set k id st (l : list (Z * Z)) :
  zm_get k (map (fun n => if fst n =? id then (id, st) else n) l) =
  if k =? id then (if zm_mem id l then Some st else None) else zm_get k l.
Proof.
  unfold zm_mem. induction l as [|[a b] r IH]; cbn [map zm_get fst snd].
  - now destruct (k =? id).
  - destruct (Z.eqb_spec a id); cbn [zm_get fst snd].
    + subst. zeq; try lia; auto.
    + rewrite IH. zeq; try lia; auto.
Qed.

Lemma map_set_keys id st (l : list (Z * Z)) :
  map fst (map (fun n => if fst n =? id then (id, st) else n) l) = map fst l.
Proof.
  rewrite map_map. apply map_ext. intros [a b]. cbn [fst].
  destruct (Z.eqb_spec a id); cbn [fst]; auto.
Qed.

Lemma assoc2_in o d w l : assoc2 o d l = Some w -> In ((o, d), w) l.
Proof.
  induction l as [|[[a b] c] r IH]; cbn [assoc2]; [discriminate|].
  unfold pair_is, se_o, se_d, se_w. cbn [fst snd].
  destruct (Z.eqb_spec a o); destruct (Z.eqb_spec b d); cbn [andb]; intro H;
    try (right; now apply IH).
  inversion H; subst. now left.
Qed.

Lemma assoc2_none o d l : assoc2 o d l = None <-> ~ In (o, d) (map fst l).
Proof.
  induction l as [|[[a b] c] r IH]; cbn [assoc2 map In]; [intuition|].
  unfold pair_is, se_o, se_d, se_w. cbn [fst snd].
  destruct (Z.eqb_spec a o); destruct (Z.eqb_spec b d); cbn [andb].
  - subst. split; [discriminate|]. intro H. exfalso. apply H. now left.
  - rewrite IH. split; [intros H [E|E]|]; [inversion E; lia|tauto|tauto].
  - rewrite IH. split; [intros H [E|E]|]; [inversion E; lia|tauto|tauto].
  - rewrite IH. split; [intros H [E|E]|]; [inversion E; lia|tauto|tauto].
Qed.

Lemma assoc2_of_in o d w l : NoDup (map fst l) -> In ((o, d), w) l -> assoc2 o d l = Some w.
Proof.
  induction l as [|[[a b] c] r IH]; cbn [assoc2 map In]; intros N H; [destruct H|].
  inversion N; subst. unfold pair_is, se_o, se_d, se_w. cbn [fst snd] in *.
  destruct H as [H|H].
  - inversion H; subst. now rewrite !Z.eqb_refl.
  - destruct (Z.eqb_spec a o); destruct (Z.eqb_spec b d); cbn [andb]; auto.
    subst. exfalso. apply H2. change (o, d) with (fst ((o, d), w)). now apply in_map.
Qed.

Lemma assoc2_filter_pair o d o' d' l :
  assoc2 o' d' (filter (fun e => negb (pair_is o d e)) l) =
  if (o' =? o) && (d' =? d) then None else assoc2 o' d' l.
Proof.
  induction l as [|[[a b] c] r IH]; cbn [filter assoc2].
  - now destruct ((o' =? o) && (d' =? d)).
  - unfold pair_is, se_o, se_d, se_w in *. cbn [fst snd] in *.
    destruct (Z.eqb_spec a o); destruct (Z.eqb_spec b d); cbn [andb negb assoc2];
      unfold pair_is, se_o, se_d, se_w; cbn [fst snd]; rewrite IH; zeq; subst; cbn [andb]; try lia; auto.
Qed.

Lemma assoc2_filter_touch id o d l :
  assoc2 o d (filter (fun e => negb ((se_o e =? id) || (se_d e =? id))) l) =
  if (o =? id) || (d =? id) then None else assoc2 o d l.
Proof.
  induction l as [|[[a b] c] r IH]; cbn [filter assoc2].
  - now destruct ((o =? id) || (d =? id)).
  - unfold pair_is, se_o, se_d, se_w in *. cbn [fst snd] in *.
    destruct (Z.eqb_spec a id); destruct (Z.eqb_spec b id); cbn [orb negb assoc2];
      unfold pair_is, se_o, se_d, se_w; cbn [fst snd]; rewrite IH; zeq; subst; cbn [andb orb]; try lia; auto.
Qed.

Lemma assoc2_map_set o d w o' d' l :
  assoc2 o' d' (map (fun e => if pair_is o d e then ((o, d), w) else e) l) =
  if (o' =? o) && (d' =? d) then (if is_some (assoc2 o d l) then Some w else None) else assoc2 o' d' l.
Proof.
  induction l as [|[[a b] c] r IH]; cbn [map assoc2].
  - now destruct ((o' =? o) && (d' =? d)).
  - unfold pair_is, se_o, se_d, se_w in *. cbn [fst snd] in *.
    destruct (Z.eqb_spec a o); destruct (Z.eqb_spec b d); cbn [andb assoc2 is_some];
      unfold pair_is, se_o, se_d, se_w; cbn [fst snd]; try rewrite IH; zeq; subst; cbn [andb is_some]; try lia; auto.
Qed.

Lemma map_set2_keys o d w (l : list sedge) :
  map fst (map (fun e => if pair_is o d e then ((o, d), w) else e) l) = map fst l.
Proof.
  rewrite map_map. apply map_ext. intros [[a b] c]. unfold pair_is, se_o, se_d. cbn [fst snd].
  destruct (Z.eqb_spec a o); destruct (Z.eqb_spec b d); cbn [andb fst]; subst; auto.
Qed.

(* ---------------------------------------------------------------------- *)
(* read-after-write laws of the specification *)
Definition sinv (s : sgraph) : Prop := NoDup (map fst (s_nodes s)) /\ NoDup (map fst (s_edges s)).

Lemma sinv_new : sinv s_new.
Proof. split; constructor. Qed.

Lemma ss_add_node s id st k :
  s_get_state (s_add_node s id st) k = if k =? id then Some st else s_get_state s k.
Proof.
  unfold s_get_state, s_add_node. cbn [s_nodes]. rewrite !assoc_get. cbn [zm_get fst snd].
  change (filter (fun n : Z * Z => negb (fst n =? id)) (s_nodes s)) with (zm_remove id (s_nodes s)).
  rewrite zm_get_remove. zeq; try lia; auto.
Qed.

Lemma ss_remove_node s id k :
  s_get_state (s_remove_node s id) k = if k =? id then None else s_get_state s k.
Proof.
  unfold s_get_state, s_remove_node. cbn [s_nodes]. rewrite !assoc_get. apply zm_get_remove.
Qed.

Lemma ss_set_state s id st k :
  s_get_state (s_set_state s id st) k =
  if k =? id then (if is_some (s_get_state s id) then Some st else None) else s_get_state s k.
Proof.
  unfold s_get_state, s_set_state. cbn [s_nodes]. rewrite !assoc_get. apply get_map_set.
Qed.

Lemma ss_add_edge s o d w k : s_get_state (s_add_edge s o d w) k = s_get_state s k.
Proof. unfold s_add_edge. now destruct (s_has_node s o && s_has_node s d && negb (s_has_edge s o d)). Qed.

Lemma sw_remove_node s id o d :
  s_get_weight (s_remove_node s id) o d = if (o =? id) || (d =? id) then None else s_get_weight s o d.
Proof. apply assoc2_filter_touch. Qed.

Lemma sw_add_edge s o d w o' d' :
  s_get_weight (s_add_edge s o d w) o' d' =
  if is_some (s_get_state s o) && is_some (s_get_state s d) && negb (is_some (s_get_weight s o d))
  then (if (o' =? o) && (d' =? d) then Some w else s_get_weight s o' d')
  else s_get_weight s o' d'.
Proof.
  unfold s_add_edge, s_has_node, s_has_edge.
  change (match s_get_state s o with Some _ => true | None => false end) with (is_some (s_get_state s o)).
  change (match s_get_state s d with Some _ => true | None => false end) with (is_some (s_get_state s d)).
  change (match s_get_weight s o d with Some _ => true | None => false end) with (is_some (s_get_weight s o d)).
  destruct (is_some (s_get_state s o) && is_some (s_get_state s d) && negb (is_some (s_get_weight s o d))); auto.
  unfold s_get_weight. cbn [s_edges assoc2]. unfold pair_is, se_o, se_d, se_w. cbn [fst snd].
  zeq; subst; cbn [andb]; try lia; auto.
Qed.

Lemma sw_remove_edge s o d o' d' :
  s_get_weight (s_remove_edge s o d) o' d' = if (o' =? o) && (d' =? d) then None else s_get_weight s o' d'.
Proof. apply assoc2_filter_pair. Qed.

Lemma sw_set_weight s o d w o' d' :
  s_get_weight (s_set_weight s o d w) o' d' =
  if (o' =? o) && (d' =? d) then (if is_some (s_get_weight s o d) then Some w else None)
  else s_get_weight s o' d'.
Proof. apply assoc2_map_set. Qed.

Lemma sinv_add_node s id st : sinv s -> sinv (s_add_node s id st).
Proof.
  intros [A B]. split; cbn [s_add_node s_nodes s_edges map fst]; auto.
  constructor; [|now apply nodup_map_filter].
  intro H. apply in_map_iff in H as [[a b] [E H]]. apply filter_In in H as [_ H]. cbn [fst] in *. lia.
Qed.

Lemma sinv_remove_node s id : sinv s -> sinv (s_remove_node s id).
Proof. intros [A B]. split; cbn [s_remove_node s_nodes s_edges]; now apply nodup_map_filter. Qed.

Lemma sinv_add_edge s o d w : sinv s -> sinv (s_add_edge s o d w).
Proof.
  intros [A B]. unfold s_add_edge.
  destruct (s_has_node s o && s_has_node s d) ; cbn [andb]; [|now split].
  unfold s_has_edge. destruct (s_get_weight s o d) eqn:E; cbn [negb]; [now split|].
  split; cbn [s_nodes s_edges map fst]; auto. constructor; auto. now apply assoc2_none.
Qed.

Lemma sinv_remove_edge s o d : sinv s -> sinv (s_remove_edge s o d).
Proof. intros [A B]. split; cbn [s_remove_edge s_nodes s_edges]; auto. now apply nodup_map_filter. Qed.

Lemma sinv_set_state s id st : sinv s -> sinv (s_set_state s id st).
Proof. intros [A B]. split; cbn [s_set_state s_nodes s_edges]; auto. now rewrite map_set_keys. Qed.

Lemma sinv_set_weight s o d w : sinv s -> sinv (s_set_weight s o d w).
Proof. intros [A B]. split; cbn [s_set_weight s_nodes s_edges]; auto. now rewrite map_set2_keys. Qed.

(* ---------------------------------------------------------------------- *)
(* the refinement relation and its preservation *)
Definition R (g : graph) (s : sgraph) : Prop :=
  inv g /\ sinv s
  /\ (forall k, g_get_state g k = s_get_state s k)
  /\ (forall o d, g_get_weight g o d = s_get_weight s o d).

Lemma R_new : R g_new s_new.
Proof. repeat split; try constructor. Qed.

Lemma R_add_node g s id st : R g s -> R (g_add_node g id st) (s_add_node s id st).
Proof.
  intros (I & SI & HS & HW). split; [now apply inv_add_node|]. split; [now apply sinv_add_node|]. split.
  - intro k. now rewrite gs_add_node, ss_add_node, HS.
  - intros o d. rewrite gw_add_node. apply HW.
Qed.

Lemma R_remove_node g s id : R g s -> R (g_remove_node g id) (s_remove_node s id).
Proof.
  intros (I & SI & HS & HW). split; [now apply inv_remove_node|]. split; [now apply sinv_remove_node|]. split.
  - intro k. now rewrite gs_remove_node, ss_remove_node, HS.
  - intros o d. now rewrite gw_remove_node, sw_remove_node, HW.
Qed.

Lemma R_add_edge g s o d w : R g s -> R (g_add_edge g o d w) (s_add_edge s o d w).
Proof.
  intros (I & SI & HS & HW). split; [now apply inv_add_edge|]. split; [now apply sinv_add_edge|]. split.
  - intro k. now rewrite gs_add_edge, ss_add_edge, HS.
  - intros o' d'. now rewrite gw_add_edge, sw_add_edge, !HS, !HW.
Qed.

Lemma R_remove_edge g s o d : R g s -> R (g_remove_edge g o d) (s_remove_edge s o d).
Proof.
  intros (I & SI & HS & HW). split; [now apply inv_remove_edge|]. split; [now apply sinv_remove_edge|]. split.
  - intro k. rewrite gs_remove_edge. apply HS.
  - intros o' d'. now rewrite gw_remove_edge, sw_remove_edge, HW.
Qed.

Lemma R_set_state g s id st : R g s -> R (g_set_state g id st) (s_set_state s id st).
Proof.
  intros (I & SI & HS & HW). split; [now apply inv_set_state|]. split; [now apply sinv_set_state|]. split.
  - intro k. now rewrite gs_set_state, ss_set_state, !HS.
  - intros o d. rewrite gw_set_state. apply HW.
Qed.

Lemma R_set_weight g s o d w : R g s -> R (g_set_weight g o d w) (s_set_weight s o d w).
Proof.
  intros (I & SI & HS & HW). split; [now apply inv_set_weight|]. split; [now apply sinv_set_weight|]. split.
  - intro k. rewrite gs_set_weight. apply HS.
  - intros o' d'. now rewrite gw_set_weight, sw_set_weight, !HW.
Qed.

(* ---------------------------------------------------------------------- *)
(* contents as lists: nodes and edges of the model are permutations of the
   specification's, hence equal counts and equal node-set queries *)
Definition g_edge_list (g : graph) : list sedge :=
  flat_map (fun kv => map (fun e => ((fst e, fst kv), snd e)) (snd kv)) (g_edges g).

Lemma edge_size_len g : g_edge_size g = Z.of_nat (length (g_edge_list g)).
Proof.
  unfold g_edge_size, g_edge_list.
  assert (forall (m : zmap (list edge)) acc,
             fold_left (fun acc kv => acc + Z.of_nat (length (snd kv))) m acc =
             acc + Z.of_nat (length (flat_map (fun kv => map (fun e : edge => ((fst e, fst kv), snd e)) (snd kv)) m))) as H.
  { induction m as [|x r IH]; intro acc; cbn [fold_left flat_map length].
    - lia.
    - rewrite IH, app_length, map_length. lia. }
  rewrite H. reflexivity.
Qed.

Lemma edge_list_in g o d w :
  inv g -> (In ((o, d), w) (g_edge_list g) <-> g_get_weight g o d = Some w).
Proof.
  intros I. rewrite get_weight_alt. unfold g_edge_list. rewrite in_flat_map. split.
  - intros [[d' es] [H1 H2]]. cbn [fst snd] in H2. apply in_map_iff in H2 as [[o' w'] [E H2]].
    cbn [fst snd] in E. inversion E; subst.
    destruct I as (_ & S & F). rewrite (zm_in_get _ _ _ (zsorted_nodup _ S) H1).
    rewrite Forall_forall in F. destruct (F _ H1) as (_ & N & _). cbn [snd] in N.
    now apply zm_in_get.
  - destruct (zm_get d (g_edges g)) as [es|] eqn:G; [|discriminate]. intro H.
    exists (d, es). split; [now apply zm_get_in|]. cbn [fst snd].
    apply in_map_iff. exists (o, w). split; auto. now apply zm_get_in.
Qed.

Lemma edge_list_nodup g : inv g -> NoDup (map fst (g_edge_list g)).
Proof.
  intros (_ & S & F). apply zsorted_nodup in S. unfold g_edge_list.
  induction (g_edges g) as [|[d es] r IH]; cbn [flat_map map]; [constructor|].
  inversion S; subst. inversion F; subst. rewrite map_app. apply nodup_app.
  - destruct H3 as (_ & N & _). cbn [fst snd] in *. rewrite map_map. cbn [fst].
    clear - N. induction es as [|x t IH]; cbn [map] in *; [constructor|].
    inversion N; subst. constructor; auto.
    intro H. apply H1. apply in_map_iff in H as [y [E H]]. inversion E as [E1]. now apply in_map.
  - apply IH; auto.
  - intros [o' d'] K1 K2. cbn [fst snd] in *.
    rewrite map_map in K1. apply in_map_iff in K1 as [e [E _]]. cbn [fst] in E. inversion E; subst.
    apply in_map_iff in K2 as [[[o2 d2] w2] [E2 K2]]. cbn [fst] in E2. inversion E2; subst.
    apply in_flat_map in K2 as [[d3 es3] [K3 K4]]. cbn [fst snd] in K4.
    apply in_map_iff in K4 as [e4 [E4 _]]. inversion E4; subst.
    apply H1. change d' with (fst (d', es3)). now apply in_map.
Qed.

Lemma R_nodes_perm g s : R g s -> Permutation (g_nodes g) (s_nodes s).
Proof.
  intros ((S & _ & _) & (N & _) & HS & _).
  apply zsorted_nodup in S. apply NoDup_Permutation.
  - now apply NoDup_map_inv in S.
  - now apply NoDup_map_inv in N.
  - intros [k st]. specialize (HS k). unfold g_get_state, s_get_state in HS. rewrite assoc_get in HS. split; intro H.
    + apply zm_get_in. rewrite <- HS. now apply zm_in_get.
    + apply zm_get_in. rewrite HS. now apply zm_in_get.
Qed.

Lemma R_edges_perm g s : R g s -> Permutation (g_edge_list g) (s_edges s).
Proof.
  intros (I & (_ & N) & _ & HW).
  apply NoDup_Permutation.
  - apply (NoDup_map_inv fst). now apply edge_list_nodup.
  - now apply NoDup_map_inv in N.
  - intros [[o d] w]. rewrite edge_list_in by auto. rewrite HW. unfold s_get_weight. split; intro H.
    + now apply assoc2_in.
    + now apply assoc2_of_in.
Qed.

Lemma R_node_count g s : R g s -> g_node_size g = s_node_count s.
Proof.
  intro H. unfold g_node_size, zm_len, s_node_count. f_equal. apply Permutation_length. now apply R_nodes_perm.
Qed.

Lemma R_edge_count g s : R g s -> g_edge_size g = s_edge_count s.
Proof.
  intro H. rewrite edge_size_len. unfold s_edge_count. f_equal. apply Permutation_length. now apply R_edges_perm.
Qed.

(* ---- state filter ---- *)
Lemma R_filter g s sts : R g s -> Permutation (g_filter_ids g sts) (s_filter_ids s sts).
Proof.
  intro H. unfold g_filter_ids, s_filter_ids.
  rewrite (Permutation_flat_map _ (R_nodes_perm _ _ H)).
  match goal with |- Permutation ?a ?b => replace a with b; [reflexivity|] end.
  apply flat_map_ext. intros [k st]. cbn [fst snd]. destruct sts as [|x r]; auto.
  generalize (x :: r). intro l. induction l as [|y t IH]; cbn [filter map flat_map]; auto.
  destruct (st =? y); cbn [map app]; now rewrite IH.
Qed.

Lemma filter_ids_in g sts k :
  In k (g_filter_ids g sts) <-> exists st, In (k, st) (g_nodes g) /\ state_sel sts st = true.
Proof.
  unfold g_filter_ids. rewrite in_flat_map. split.
  - intros [[k' st] [H1 H2]]. cbn [fst snd] in H2. exists st. destruct sts as [|x r].
    + destruct H2 as [<-|[]]. auto.
    + apply in_flat_map in H2 as [y [Hy H2]]. destruct (Z.eqb_spec st y); [|destruct H2].
      destruct H2 as [<-|[]]. split; auto. unfold state_sel. apply existsb_exists. exists y. split; auto. lia.
  - intros [st [H1 H2]]. exists (k, st). split; auto. cbn [fst snd]. destruct sts as [|x r].
    + now left.
    + unfold state_sel in H2. apply existsb_exists in H2 as [y [Hy E]]. apply in_flat_map. exists y. split; auto.
      destruct (Z.eqb_spec st y); [now left|lia].
Qed.

(* ---- predecessors / successors ---- *)
Definition g_sel (g : graph) (sts : list Z) (id : Z) : bool :=
  match g_get_state g id with Some st => state_sel sts st | None => false end.

Lemma preds_alt g d sts :
  g_preds g d sts = match zm_get d (g_edges g) with
                    | Some es => map fst (filter (fun e => g_sel g sts (fst e)) es)
                    | None => []
                    end.
Proof.
  unfold g_preds, g_incoming. destruct (zm_get d (g_edges g)) as [es|]; auto.
  rewrite <- flat_map_if. apply flat_map_ext. intro e. unfold g_sel, e_origin.
  destruct (g_get_state g (fst e)); auto.
Qed.

Lemma succs_alt g id sts :
  g_succs g id sts = map fst (filter (fun kv => zm_mem id (snd kv) && g_sel g sts (fst kv)) (g_edges g)).
Proof.
  unfold g_succs. rewrite <- flat_map_if. apply flat_map_ext. intros [d es]. cbn [fst snd].
  rewrite e_contains_mem. unfold g_sel, g_node, g_get_state.
  destruct (zm_mem id es); cbn [andb]; auto. destruct (zm_get d (g_nodes g)); auto.
Qed.

Lemma preds_in g d sts o :
  In o (g_preds g d sts) <-> (exists w, g_get_weight g o d = Some w) /\ g_sel g sts o = true.
Proof.
  rewrite preds_alt, get_weight_alt. destruct (zm_get d (g_edges g)) as [es|].
  - rewrite in_map_iff. split.
    + intros [[o' w] [E H]]. cbn [fst] in E. subst. apply filter_In in H as [H1 H2]. cbn [fst] in H2.
      split; auto. assert (zm_mem o es = true) as M.
      { apply zm_mem_in. change o with (fst (o, w)). now apply in_map. }
      unfold zm_mem in M. destruct (zm_get o es) as [w'|]; [now exists w'|discriminate].
    + intros [[w H1] H2]. exists (o, w). split; auto. apply filter_In. split; auto. now apply zm_get_in.
  - split; [intros []|]. intros [[w H] _]. discriminate.
Qed.

Lemma preds_nodup g d sts : inv g -> NoDup (g_preds g d sts).
Proof.
  intro I. rewrite preds_alt. destruct (zm_get d (g_edges g)) as [es|] eqn:G; [|constructor].
  apply nodup_map_filter. now destruct (inv_lookup _ _ _ I G) as (_ & N & _).
Qed.

Lemma succs_in g id sts d :
  inv g -> (In d (g_succs g id sts) <-> (exists w, g_get_weight g id d = Some w) /\ g_sel g sts d = true).
Proof.
  intros (_ & S & _). apply zsorted_nodup in S.
  rewrite succs_alt, get_weight_alt, in_map_iff. split.
  - intros [[d' es] [E H]]. cbn [fst] in E. subst. apply filter_In in H as [H1 H2]. cbn [fst snd] in H2.
    apply andb_prop in H2 as [H2 H3]. rewrite (zm_in_get _ _ _ S H1). split; auto.
    unfold zm_mem in H2. destruct (zm_get id es) as [w|]; [now exists w|discriminate].
  - intros [[w H1] H2]. destruct (zm_get d (g_edges g)) as [es|] eqn:G; [|discriminate].
    exists (d, es). split; auto. apply filter_In. split; [now apply zm_get_in|]. cbn [fst snd].
    unfold zm_mem. now rewrite H1, H2.
Qed.

Lemma succs_nodup g id sts : inv g -> NoDup (g_succs g id sts).
Proof.
  intros (_ & S & _). apply zsorted_nodup in S. rewrite succs_alt. now apply nodup_map_filter.
Qed.

Lemma s_preds_in s d sts o :
  In o (s_preds s d sts) <-> (exists w, s_get_weight s o d = Some w) /\ s_sel s sts o = true.
Proof.
  unfold s_preds, s_get_weight. rewrite in_map_iff. split.
  - intros [[[o' d'] w] [E H]]. unfold se_o, se_d in *. cbn [fst snd] in *. subst.
    apply filter_In in H as [H1 H2]. cbn [fst snd] in H2. apply andb_prop in H2 as [H2 H3].
    assert (d' = d) by lia. subst. split; auto.
    destruct (assoc2 o d (s_edges s)) as [w'|] eqn:A; [now exists w'|].
    apply assoc2_none in A. exfalso. apply A. change (o, d) with (fst ((o, d), w)). now apply in_map.
  - intros [[w H1] H2]. exists ((o, d), w). split; auto. apply filter_In. split; [now apply assoc2_in|].
    unfold se_o, se_d. cbn [fst snd]. rewrite H2. lia.
Qed.

Lemma s_succs_in s id sts d :
  In d (s_succs s id sts) <-> (exists w, s_get_weight s id d = Some w) /\ s_sel s sts d = true.
Proof.
  unfold s_succs, s_get_weight. rewrite in_map_iff. split.
  - intros [[[o' d'] w] [E H]]. unfold se_o, se_d in *. cbn [fst snd] in *. subst.
    apply filter_In in H as [H1 H2]. cbn [fst snd] in H2. apply andb_prop in H2 as [H2 H3].
    assert (o' = id) by lia. subst. split; auto.
    destruct (assoc2 id d (s_edges s)) as [w'|] eqn:A; [now exists w'|].
    apply assoc2_none in A. exfalso. apply A. change (id, d) with (fst ((id, d), w)). now apply in_map.
  - intros [[w H1] H2]. exists ((id, d), w). split; auto. apply filter_In. split; [now apply assoc2_in|].
    unfold se_o, se_d. cbn [fst snd]. rewrite H2. lia.
Qed.

Lemma nodup_proj_filter (l : list sedge) (p : sedge -> bool) (f : sedge -> Z) :
  NoDup (map fst l) ->
  (forall e e', p e = true -> p e' = true -> f e = f e' -> fst e = fst e') ->
  NoDup (map f (filter p l)).
Proof.
  intros N J. induction l as [|x r IH]; cbn [filter map]; [constructor|].
  cbn [map] in N. inversion N; subst. destruct (p x) eqn:P; auto.
  cbn [map]. constructor; auto. intro H. apply H1.
  apply in_map_iff in H as [y [E H]]. apply filter_In in H as [H Py].
  rewrite <- (J y x Py P E). now apply in_map.
Qed.

Lemma s_preds_nodup s d sts : sinv s -> NoDup (s_preds s d sts).
Proof.
  intros [_ N]. unfold s_preds. apply nodup_proj_filter; auto.
  intros [[a b] c] [[a' b'] c']. unfold se_o, se_d. cbn [fst snd]. intros H H' E.
  apply andb_prop in H as [H _]. apply andb_prop in H' as [H' _]. f_equal; lia.
Qed.

Lemma s_succs_nodup s id sts : sinv s -> NoDup (s_succs s id sts).
Proof.
  intros [_ N]. unfold s_succs. apply nodup_proj_filter; auto.
  intros [[a b] c] [[a' b'] c']. unfold se_o, se_d. cbn [fst snd]. intros H H' E.
  apply andb_prop in H as [H _]. apply andb_prop in H' as [H' _]. f_equal; lia.
Qed.

Lemma R_sel g s sts id : R g s -> g_sel g sts id = s_sel s sts id.
Proof. intros (_ & _ & HS & _). unfold g_sel, s_sel. now rewrite HS. Qed.

Lemma R_preds g s d sts : R g s -> Permutation (g_preds g d sts) (s_preds s d sts).
Proof.
  intros H. pose proof H as (I & SI & HS & HW). apply NoDup_Permutation.
  - now apply preds_nodup.
  - now apply s_preds_nodup.
  - intro o. rewrite preds_in, s_preds_in, HW, (R_sel _ _ _ _ H). tauto.
Qed.

Lemma R_succs g s id sts : R g s -> Permutation (g_succs g id sts) (s_succs s id sts).
Proof.
  intros H. pose proof H as (I & SI & HS & HW). apply NoDup_Permutation.
  - now apply succs_nodup.
  - now apply s_succs_nodup.
  - intro d. rewrite succs_in, s_succs_in, HW, (R_sel _ _ _ _ H) by auto. tauto.
Qed.

Lemma R_neighbours g s id sts : R g s -> Permutation (g_neighbours g id sts) (s_neighbours s id sts).
Proof.
  intro H. unfold g_neighbours, s_neighbours. apply Permutation_app; [now apply R_preds|now apply R_succs].
Qed.

(* C15: one-step growth, the BOOLEAN / INTEGER / FLOAT / NAME / CODE / EXEC / INDEX families. *)
From Coq Require Import ZArith String List Bool Lia ZifyBool.
From PushModel Require Import Base.Sx Base.Machine Base.ListOps Base.F32 Model.Item Model.GraphT Model.State
  Model.InstrBase Model.IScalar Model.ICode Model.Registry Model.Cost
  Proofs.CostBase Proofs.CostItem Proofs.CostGrowth.
Import ListNotations.
Open Scope Z_scope.

Ltac core_unfold H :=
  cbv beta iota zeta delta [
    g_dup g_pop g_swap g_rot g_flush g_depth g_yank g_shove g_yankdup g_define
    bool_bin boolean_eq boolean_and boolean_or boolean_not boolean_from_float boolean_from_integer boolean_id
    int_bin int_cmp integer_add integer_sub integer_mul integer_div integer_mod integer_lt integer_eq integer_gt
    integer_max integer_min integer_abs integer_ddup integer_from_boolean integer_from_float integer_id integer_stack_depth
    float_bin float_cmp float_add float_sub float_mul float_div float_mod float_lt float_eq float_gt float_max float_min
    float_libm float_cos float_sin float_tan float_exp float_from_boolean float_from_integer float_id
    name_cat name_equal name_quote name_send name_id
    code_eq code_append code_atom code_car code_cdr code_cons code_container code_contains code_member code_definition
    code_discrepancy code_do code_do_star loop_g code_loop exec_loop code_extract code_from code_from_bool code_from_float
    code_from_int code_from_name code_if exec_if code_insert code_length code_list code_nth code_null code_position
    code_print code_quote code_size code_subst code_id noop exec_eq exec_k exec_s exec_y exec_id exec_cmd
    index_current index_define index_destination index_increase
    lit_bool lit_int lit_float
    st_bool st_code st_exec st_float st_index st_int st_name st_bvec st_fvec st_ivec st_input st_output
    st_graph st_bind st_cfg st_quote st_send
    set_bool set_code set_exec set_float set_index set_int set_name set_bvec set_fvec set_ivec set_input
    set_output set_graph set_bind set_cfg set_quote set_send
    push_int push_bool push_float push_code push_exec push_name libm1 rbind pure purep fst snd] in H.

Ltac grow_core :=
  let p := fresh "p" in let w := fresh "w" in let s := fresh "s" in
  let w' := fresh "w'" in let s' := fresh "s'" in let H := fresh "HH" in
  intros p w s w' s' H; destruct_state s;
  unfold pure, purep, rbind in H; core_unfold H;
  split_matches H; inversion H; subst; clear H; grow_fin.

Section Core.
  Context {FO : FloatOps}.
  Lemma core_grows : table_grows tbl_core.
  Proof.
    unfold table_grows, tbl_core, tbl_boolean, tbl_integer, tbl_float, tbl_name, tbl_code, tbl_exec, tbl_index, stack_family.
    cbn [app].
    repeat (apply Forall_cons; [cbn [fst snd]; first [left; vm_compute; reflexivity | right; grow_core]|]).
    apply Forall_nil.
  Qed.
End Core.

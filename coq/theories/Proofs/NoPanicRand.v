(* C01: the nine instructions that read the random number generator, for every
   tape (= every outcome of the generator).  BOOLVECTOR.RAND needs the IEEE fact
   that the number of bits to flip does not exceed the size ([fo_nbits], the
   hypothesis [nbits_sane] of the C13 theorems): with an arbitrary FloatOps the
   loop bound `num_active_bits + 1` could overflow. *)
From Coq Require Import ZArith String List Bool Lia ZifyBool.
From PushModel Require Import Base.Sx Base.Machine Base.ListOps Base.F32 Model.Item Model.GraphT Model.State
  Model.InstrBase Model.ICode Model.Registry Model.RandomGen Model.IRand Model.RegistryRand
  Spec.RandSpec Proofs.RandCode Proofs.RandVec
  Proofs.NoPanicBase Proofs.NoPanicItem Proofs.NoPanicTac Proofs.NoPanicListIo.
Import ListNotations.
Open Scope Z_scope.

(* ---- wf of updated states, on an abstract state ---- *)
Ltac wf_abs :=
  let s := fresh "s" in let W := fresh "W" in
  intros s W; intros; destruct s; destruct W; constructor; st_cbn_all; unf_state; st_cbn; auto with wf.
Lemma wf_push_int : forall s, wf_state s -> forall z, wf_z z -> wf_state (push_int s z). Proof. wf_abs. Qed.
Lemma wf_push_bool : forall s, wf_state s -> forall b, wf_state (push_bool s b). Proof. wf_abs. Qed.
Lemma wf_push_float : forall s, wf_state s -> forall x, wf_state (push_float s x). Proof. wf_abs. Qed.
Lemma wf_push_name : forall s, wf_state s -> forall x, wf_state (push_name s x). Proof. wf_abs. Qed.
Lemma wf_push_code : forall s, wf_state s -> forall x, wf_item x -> wf_state (push_code s x). Proof. wf_abs. Qed.
Lemma wf_set_int : forall s, wf_state s -> forall v, Forall wf_z v -> wf_state (set_int s v). Proof. wf_abs. Qed.
Lemma wf_set_float : forall s, wf_state s -> forall v, wf_state (set_float s v). Proof. wf_abs. Qed.
Lemma wf_set_bvec : forall s, wf_state s -> forall v, wf_state (set_bvec s v). Proof. wf_abs. Qed.
Lemma wf_set_fvec : forall s, wf_state s -> forall v, wf_state (set_fvec s v). Proof. wf_abs. Qed.
Lemma wf_set_ivec : forall s, wf_state s -> forall v, Forall (Forall wf_z) v -> wf_state (set_ivec s v). Proof. wf_abs. Qed.

(* a generated item is wf: its integer leaves are drawn from the i32 range *)
Section Gen.
  Variable instrs : list str.
  Variable binds : list (str * item).
  Variable nnew : Z.
  Lemma leaves_wf t : forallb (leaf_ok instrs binds nnew) (leaves t) = true -> wf_item t.
  Proof.
    induction t as [l IH|n|v|n] using item_ind'; cbn [leaves forallb]; intros H; try reflexivity.
    - apply wf_item_list. induction IH as [|c r Hc _ IHr]; [constructor|].
      cbn [flat_map] in H. rewrite forallb_app in H. apply andb_true_iff in H as [H1 H2]. constructor; auto.
    - apply andb_true_iff in H as [H _]. destruct v; cbn [leaf_ok] in H; try discriminate; try reflexivity. exact H.
  Qed.
  Lemma valid_gen_wf n t : valid_gen instrs binds nnew n t = true -> wf_item t.
  Proof.
    unfold valid_gen. intros H. apply andb_true_iff in H as [_ H]. apply leaves_wf. now apply shape_leaves.
  Qed.
End Gen.

Section Rand.
  Context {FO : FloatOps}.

  (* the IEEE fact behind BOOLVECTOR.RAND's loop bound *)
  Definition fo_nbits : Prop :=
    forall size sp, in_i32 size = true -> bv_params_ok size sp = true -> nbits_sane size sp = true.

  Lemma boolean_rand_safe : sem_safe0 boolean_rand.
  Proof.
    intros p w s W. unfold boolean_rand. destruct (draw_range_ok (w_tape w) 0 2 ltac:(lia)) as (v & -> & _).
    cbn [rbind ok_ws fst snd]. intros _. now apply wf_push_bool.
  Qed.

  Lemma integer_rand_safe : sem_safe0 integer_rand.
  Proof.
    intros p w s W. destruct (int_rand_in_range p w s) as (w' & s' & -> & H). cbn [ok_ws snd]. intros _.
    destruct (wf_cfg s W) as [Hlo Hhi]. rewrite wf_z_iff in Hlo, Hhi.
    destruct (_ <? _).
    - destruct H as (z & -> & Hz). apply wf_push_int; [assumption|]. apply wf_z_iff. lia.
    - destruct H as [-> _]. assumption.
  Qed.

  Lemma float_rand_safe : sem_safe0 float_rand.
  Proof.
    intros p w s W. destruct (float_rand_in_range p w s) as (w' & s' & -> & H). cbn [ok_ws snd]. intros _.
    destruct (_ && _).
    - destruct H as (x & -> & _). now apply wf_push_float.
    - destruct H as [-> _]. assumption.
  Qed.

  Lemma st_int_cons s n ir : wf_state s -> st_int s = n :: ir -> wf_z n /\ Forall wf_z ir.
  Proof. intros W E. pose proof (wf_int s W) as H. rewrite E in H. now apply Forall_cons_iff in H. Qed.

  Lemma code_rand_safe instrs : sem_safe0 (code_rand instrs).
  Proof.
    intros p w s W. destruct (st_int s) as [|n ir] eqn:E.
    - unfold code_rand. rewrite E. cbn [ok_ws snd]. auto.
    - destruct (st_int_cons s n ir W E) as [Hn Hir].
      destruct (code_rand_bound instrs p w s n ir E) as (w' & s' & -> & H). cbn [ok_ws snd]. intros _.
      destruct H as [(_ & -> & _)|(_ & x & -> & _ & V)]; [now apply wf_set_int|].
      apply wf_push_code; [now apply wf_set_int|]. eapply valid_gen_wf; eauto.
  Qed.

  Lemma name_rand_safe : sem_safe0 name_rand.
  Proof. intros p w s W. unfold name_rand. cbn [ok_ws snd]. intros _. now apply wf_push_name. Qed.

  Lemma name_rand_bound_safe : sem_safe0 name_rand_bound.
  Proof.
    intros p w s W. unfold name_rand_bound.
    destruct (existing_ok (st_bind s) (w_tape w)) as (nm & t' & -> & _).
    cbn [rbind ok_ws fst snd]. intros _. now apply wf_push_name.
  Qed.

  Lemma int_vector_rand_safe : sem_safe0 int_vector_rand.
  Proof.
    intros p w s W. destruct (st_int s) as [|size [|hi [|lo ir]]] eqn:E;
      try (unfold int_vector_rand; rewrite E; cbn [ok_ws snd]; auto; fail).
    pose proof (wf_int s W) as Hi. rewrite E in Hi. wf_hyps.
    destruct (iv_params_ok size lo hi) eqn:P.
    - destruct (int_vector_rand_ok p w s size hi lo ir E P) as (w' & v & -> & _ & R). cbn [ok_ws snd]. intros _.
      apply wf_set_ivec; [now apply wf_set_int|]. constructor; [|apply (wf_ivec s W)].
      match goal with H1 : wf_z hi, H2 : wf_z lo |- _ => rewrite wf_z_iff in H1, H2 end.
      eapply Forall_impl; [|exact R]. cbn beta. intros z Hz. apply wf_z_iff. lia.
    - destruct (invalid_params_none p w s) as (_ & I & _). rewrite (I size hi lo ir E P). cbn [ok_ws snd]. intros _.
      now apply wf_set_int.
  Qed.

  Lemma float_vector_rand_safe : sem_safe0 float_vector_rand.
  Proof.
    intros p w s W. destruct (st_int s) as [|size ir] eqn:E;
      [unfold float_vector_rand, float_vector_rand_g; rewrite E; cbn [ok_ws snd]; auto|].
    destruct (st_int_cons s size ir W E) as [Hn Hir].
    destruct (st_float s) as [|mean [|sd fr]] eqn:F;
      try (unfold float_vector_rand, float_vector_rand_g; rewrite E; change (st_float (set_int s ir)) with (st_float s);
           rewrite F; cbn [ok_ws snd]; intros _; now apply wf_set_int).
    destruct (fv_params_ok size sd) eqn:P.
    - destruct (float_vector_rand_ok p w s size ir mean sd fr E F P) as (w' & v & -> & _). cbn [ok_ws snd]. intros _.
      apply wf_set_fvec, wf_set_float. now apply wf_set_int.
    - destruct (invalid_params_none p w s) as (_ & _ & I). rewrite (I size ir mean sd fr E F P). cbn [ok_ws snd]. intros _.
      apply wf_set_float. now apply wf_set_int.
  Qed.

  Lemma bool_vector_rand_safe : fo_nbits -> sem_safe0 bool_vector_rand.
  Proof.
    intros NB p w s W. destruct (st_int s) as [|size ir] eqn:E;
      [unfold bool_vector_rand, bool_vector_rand_g; rewrite E; cbn [ok_ws snd]; auto|].
    destruct (st_int_cons s size ir W E) as [Hn Hir].
    destruct (st_float s) as [|sp fr] eqn:F;
      [unfold bool_vector_rand, bool_vector_rand_g; rewrite E; change (st_float (set_int s ir)) with (st_float s);
       rewrite F; cbn [ok_ws snd]; intros _; now apply wf_set_int|].
    destruct (bv_params_ok size sp) eqn:P.
    - destruct (bool_vector_rand_ok p w s size ir sp fr E F P (NB size sp Hn P)) as (w' & v & -> & _). cbn [ok_ws snd].
      intros _. apply wf_set_bvec, wf_set_float. now apply wf_set_int.
    - destruct (invalid_params_none p w s) as (I & _ & _). rewrite (I size ir sp fr E F P). cbn [ok_ws snd]. intros _.
      apply wf_set_float. now apply wf_set_int.
  Qed.

  Lemma rand_safe instrs : fo_nbits -> table_safe (tbl_rand instrs).
  Proof.
    intros NB. unfold table_safe, tbl_rand.
    repeat (apply Forall_cons; [entry_open|]); try apply Forall_nil;
      auto using boolean_rand_safe, integer_rand_safe, float_rand_safe, code_rand_safe, name_rand_safe,
        name_rand_bound_safe, bool_vector_rand_safe, int_vector_rand_safe, float_vector_rand_safe.
  Qed.
End Rand.
